(* main.ml — driver of the extracted model (Model, from coq/Extract.v).
   Reads case lines on stdin, evaluates the model, prints one canonical result line per case.
   It only parses lines into the extracted datatypes and prints results; no model logic here. *)
open Model

(* ---------- numbers ---------- *)
let rec pos_of_int n =
  if n = 1 then XH else if n land 1 = 0 then XO (pos_of_int (n lsr 1)) else XI (pos_of_int (n lsr 1))
let n_of_int n = if n = 0 then N0 else if n < 0 then failwith "negative" else Npos (pos_of_int n)
let rec int_of_pos = function XH -> 1 | XO p -> 2 * int_of_pos p | XI p -> 2 * int_of_pos p + 1
let int_of_n = function N0 -> 0 | Npos p -> int_of_pos p
let rec nat_of_int n = if n = 0 then O else S (nat_of_int (n - 1))

(* arbitrary precision through hex strings *)
let rec bits_of_pos = function XH -> [1] | XO p -> 0 :: bits_of_pos p | XI p -> 1 :: bits_of_pos p
let hex_of_n n =
  match n with
  | N0 -> "0x0"
  | Npos p ->
    let bits = Array.of_list (bits_of_pos p) in
    let nb = Array.length bits in
    let nd = (nb + 3) / 4 in
    let buf = Buffer.create (nd + 2) in
    Buffer.add_string buf "0x";
    for d = nd - 1 downto 0 do
      let v = ref 0 in
      for k = 3 downto 0 do
        let i = d * 4 + k in
        v := !v * 2 + (if i < nb then bits.(i) else 0)
      done;
      Buffer.add_char buf "0123456789abcdef".[!v]
    done;
    Buffer.contents buf
let n_of_hex s =
  let s = if String.length s > 2 && s.[0] = '0' && s.[1] = 'x' then String.sub s 2 (String.length s - 2) else s in
  (* build from most significant digit *)
  let acc = ref N0 in
  let double_plus n b =
    match n, b with
    | N0, 0 -> N0
    | N0, _ -> Npos XH
    | Npos p, 0 -> Npos (XO p)
    | Npos p, _ -> Npos (XI p) in
  String.iter (fun c ->
      let v = if c >= '0' && c <= '9' then Char.code c - 48
        else if c >= 'a' && c <= 'f' then Char.code c - 87
        else if c >= 'A' && c <= 'F' then Char.code c - 55 else failwith ("hex " ^ s) in
      for k = 3 downto 0 do acc := double_plus !acc ((v lsr k) land 1) done) s;
  !acc
let num_of_string s =
  if String.length s > 1 && s.[0] = '0' && s.[1] = 'x' then n_of_hex s else n_of_int (int_of_string s)

(* ---------- bytes ---------- *)
let bytes_of_hex s =
  if s = "-" then [] else begin
    let n = String.length s / 2 in
    List.init n (fun i -> n_of_int (int_of_string ("0x" ^ String.sub s (2 * i) 2)))
  end
let hex_of_bytes bs =
  if bs = [] then "-" else
    String.concat "" (List.map (fun b -> let v = int_of_n b in if v > 255 then "??" else Printf.sprintf "%02x" v) bs)

(* ---------- s-expressions ---------- *)
type sexp = Atom of string | Lst of sexp list
let tokenize s =
  let toks = ref [] and cur = Buffer.create 16 in
  let flush () = if Buffer.length cur > 0 then (toks := Buffer.contents cur :: !toks; Buffer.clear cur) in
  String.iter (fun c ->
      match c with
      | '(' | ')' -> flush (); toks := String.make 1 c :: !toks
      | ' ' | '\t' | '\n' | '\r' -> flush ()
      | c -> Buffer.add_char cur c) s;
  flush (); List.rev !toks
let parse_sexp toks =
  let rec one = function
    | "(" :: r -> let (l, r') = many r in (Lst l, r')
    | ")" :: _ -> failwith "unexpected )"
    | a :: r -> (Atom a, r)
    | [] -> failwith "eof"
  and many = function
    | ")" :: r -> ([], r)
    | [] -> failwith "missing )"
    | ts -> let (x, r) = one ts in let (xs, r') = many r in (x :: xs, r') in
  one toks

let intty_of = function
  | Lst [Atom s; Atom a; Atom e] ->
    { isize = n_of_int (int_of_string s); ialign = n_of_int (int_of_string a); ibe = (e = "be") }
  | _ -> failwith "intty"
let rec ty_of = function
  | Atom "unit" -> TUnit
  | Atom "bool" -> TBool
  | Lst (Atom "int" :: r) -> TInt (intty_of (Lst r))
  | Lst [Atom "clike"; i; Atom n; Atom d] -> TCLike (intty_of i, num_of_string n, num_of_string d)
  | Lst [Atom "arr"; t; Atom n] -> TArr (ty_of t, num_of_string n)
  | Lst [Atom "vec"; t; i] -> TVec (ty_of t, intty_of i)
  | Lst [Atom "str"; i] -> TStr (intty_of i)
  | Lst [Atom "flex"; t; i] -> TFlex (ty_of t, intty_of i)
  | Lst (Atom "struct" :: Atom s :: fs) -> TStruct ((s = "s"), fields_of fs)
  | Lst (Atom "enum" :: Atom s :: i :: Atom d :: vs) -> TEnum ((s = "s"), intty_of i, num_of_string d, variants_of vs)
  | _ -> failwith "ty"
and fields_of = function [] -> FNil | t :: r -> FCons (ty_of t, fields_of r)
and variants_of = function
  | [] -> VNil
  | Lst fs :: r -> VCons (fields_of fs, variants_of r)
  | _ -> failwith "variants"

let rec init_of = function
  | Atom "empty" -> IEmpty
  | Atom "default" -> IDefault
  | Lst [Atom "i"; Atom n] -> IInt (num_of_string n)
  | Lst (Atom "seq" :: r) -> ISeq (List.map init_of r)
  | Lst (Atom "var" :: Atom k :: r) -> IVar (num_of_string k, List.map init_of r)
  | Lst (Atom "varr" :: r) -> IVecArr (List.map init_of r)
  | Lst (Atom "viter" :: r) -> IVecIter (List.map init_of r)
  | Lst [Atom "str"; Atom h] -> IStr (bytes_of_hex h)
  | Lst (Atom "flex" :: r) -> IFlex (List.map init_of r)
  | _ -> failwith "init"

(* ---------- printing ---------- *)
let kind_s = function
  | InsufficientSize -> "InsufficientSize" | BadAlign -> "BadAlign" | InvalidEnumTag -> "InvalidEnumTag"
  | InvalidData -> "InvalidData" | Other -> "Other"
let crash_s = function
  | PanicSplit -> "PanicSplit" | PanicUnwrap -> "PanicUnwrap" | PanicAssert -> "PanicAssert"
  | PanicArith -> "PanicArith" | PanicDivZero -> "PanicDivZero" | OobRead -> "OobRead" | OobWrite -> "OobWrite"
  | FuelOut -> "FuelOut"
let res_s f = function
  | Ok a -> "ok" ^ f a
  | Err (k, p) -> Printf.sprintf "err:%s:%d" (kind_s k) (int_of_n p)
  | Crash c -> "crash:" ^ crash_s c
let unit_s () = ""
let rec value_s = function
  | VInt n -> hex_of_n n
  | VNode (tag, vs) -> "(n" ^ string_of_int (int_of_n tag) ^ String.concat "" (List.map (fun v -> " " ^ value_s v) vs) ^ ")"
  | VCont (cap, vs) -> "(c" ^ hex_of_n cap ^ String.concat "" (List.map (fun v -> " " ^ value_s v) vs) ^ ")"
let rec content_s = function
  | VInt n -> hex_of_n n
  | VNode (tag, vs) -> "(n" ^ string_of_int (int_of_n tag) ^ String.concat "" (List.map (fun v -> " " ^ content_s v) vs) ^ ")"
  | VCont (_, vs) -> "(c" ^ String.concat "" (List.map (fun v -> " " ^ content_s v) vs) ^ ")"
let num_s n = string_of_int (int_of_n n)

(* ---------- operations ---------- *)
let types : (string, ty) Hashtbl.t = Hashtbl.create 64
let ty_get id = try Hashtbl.find types id with Not_found -> failwith ("unknown type " ^ id)

(* the observations of a mapped value (after a successful validate) *)
let map_obs t a bs =
  let v = view t bs in
  let sz = size_m t bs in
  let bl = bytes_len t (blen bs) in
  let b = Buffer.create 256 in
  Buffer.add_string b (" view=" ^ res_s (fun v -> ":" ^ value_s v) v);
  Buffer.add_string b (" caps=" ^ (match v with Ok v -> if caps_ok v then "ok" else "BAD" | _ -> "-"));
  Buffer.add_string b (" size=" ^ res_s (fun n -> ":" ^ num_s n) sz);
  Buffer.add_string b (" blen=" ^ res_s (fun n -> ":" ^ num_s n) bl);
  (* as_bytes round trip *)
  (match bl with
   | Ok n when int_of_n n <= List.length bs ->
     let ab = take n bs in
     Buffer.add_string b (" rt=" ^ res_s unit_s (validate t a ab));
     Buffer.add_string b (" rtview=" ^ (match v, view t ab with
         | Ok v1, Ok v2 -> if v1 = v2 then "same" else "diff"
         | _ -> "-"))
   | _ -> Buffer.add_string b " rt=- rtview=-");
  (* truncate to size() *)
  (match sz with
   | Ok n when int_of_n n <= List.length bs ->
     let tb = take n bs in
     Buffer.add_string b (" tv=" ^ res_s unit_s (validate t a tb));
     Buffer.add_string b (" tview=" ^ (match v, view t tb with
         | Ok v1, Ok v2 -> if strip v1 = strip v2 then "same" else "diff"
         | _ -> "-"));
     Buffer.add_string b (" tsize=" ^ res_s (fun n -> ":" ^ num_s n) (size_m t tb))
   | _ -> Buffer.add_string b " tv=- tview=- tsize=-");
  Buffer.contents b

let after_emplace t a (buf, r) =
  match r with
  | Crash c -> "crash:" ^ crash_s c
  | _ ->
    let head = res_s unit_s r in
    let val_ = validate t a (List.map (fun b -> if int_of_n b > 255 then N0 else b) buf) in
    let clean = List.map (fun b -> if int_of_n b > 255 then N0 else b) buf in
    head ^ " buf=" ^ hex_of_bytes buf ^ " val=" ^ res_s unit_s val_
    ^ (match val_ with
        | Ok () ->
          " view=" ^ res_s (fun v -> ":" ^ value_s v) (view t clean)
          ^ " size=" ^ res_s (fun n -> ":" ^ num_s n) (size_m t clean)
        | _ -> " view=- size=-")

let pv = Some (n_of_int 256)

(* ---------- histories (C11-C14) ---------- *)
let clean buf = List.map (fun b -> if int_of_n b > 255 then N0 else b) buf
let oout_s = function
  | ODone -> "done" | ORefused -> "refused" | OErr k -> "err:" ^ kind_s k | OPanic -> "panic" | OBad -> "bad"
let rec vop_of = function
  | Lst [Atom "push"; i] -> VPush (init_of i)
  | Lst [Atom "pop"] -> VPop
  | Lst (Atom "pushslice" :: r) -> VPushSlice (List.map init_of r)
  | Lst (Atom "extend" :: r) -> VExtend (List.map init_of r)
  | Lst [Atom "truncate"; Atom n] -> VTruncate (num_of_string n)
  | Lst [Atom "clear"] -> VClear
  | Lst [Atom "remove"; Atom n] -> VRemove (num_of_string n)
  | Lst [Atom "swapremove"; Atom n] -> VSwapRemove (num_of_string n)
  | Lst [Atom "resize"; Atom n; i] -> VResize (num_of_string n, init_of i)
  | Lst [Atom "set"; Atom n; i] -> VSet (num_of_string n, init_of i)
  | Lst [Atom "pushstr"; Atom h] -> SPushStr (bytes_of_hex h)
  | Lst [Atom "pushchar"; Atom c] -> SPushChar (num_of_string c)
  | _ -> failwith "vop"
let fop_of = function
  | Lst [Atom "push"; i] -> FPush (init_of i)
  | Lst [Atom "pop"] -> FPop
  | Lst [Atom "truncate"; Atom n] -> FTruncate (num_of_string n)
  | Lst [Atom "clear"] -> FClear
  | Lst [Atom "editvec"; Atom n; o] -> FEditVec (num_of_string n, vop_of o)
  | Lst [Atom "editassign"; Atom n; i] -> FEditAssign (num_of_string n, init_of i)
  | _ -> failwith "fop"
let hist_obs t a buf =
  let c = clean buf in
  let v = validate t a c in
  " val=" ^ res_s unit_s v ^ " "
  ^ (match v with
      | Ok () ->
        let vw = view t c and sz = size_m t c in
        "view=" ^ res_s (fun v -> ":" ^ value_s v) vw ^ " size=" ^ res_s (fun n -> ":" ^ num_s n) sz
        ^ " tv=" ^ (match sz with
            | Ok n when int_of_n n <= List.length c ->
              let tb = take n c in
              (match validate t a tb with
               | Ok () -> (match vw, view t tb, size_m t tb with
                   | Ok v1, Ok v2, Ok n2 -> if strip v1 = strip v2 && n2 = n then "ok" else "DIFFERENT"
                   | _ -> "DIFFERENT")
               | r -> res_s unit_s r)
            | _ -> "-")
      | _ -> "view=- size=- tv=-")
  ^ " buf=" ^ hex_of_bytes buf
let split_bar s =
  List.filter (fun x -> x <> "") (List.map String.trim (String.split_on_char '|' s))
let hist t a bs parts =
  match parts with
  | [] -> failwith "hist"
  | ini :: ops ->
    let (sx, _) = parse_sexp (tokenize ini) in
    let (buf, r) = emplace pv t (init_of sx) a bs in
    let b = Buffer.create 512 in
    Buffer.add_string b ("init=" ^ res_s unit_s r);
    (match r with
     | Ok () ->
       Buffer.add_string b (hist_obs t a buf);
       let cur = ref buf and go = ref true in
       List.iter (fun o ->
           if !go then begin
             let (sx, _) = parse_sexp (tokenize o) in
             (* the operation goes to the innermost container reached through the last fields of the value *)
             let (nb, out) = match tail_container t (clean !cur), sx with
               | Some (_, TFlex (_, _)), Lst [Atom "editflex"; Atom n; o] ->
                 nested_flex_edit_flex pv t a (num_of_string n) (fop_of o) !cur
               | Some (_, TFlex (_, _)), _ -> nested_flex_op pv t a (fop_of sx) !cur
               | Some _, _ -> nested_vec_op pv t (vop_of sx) !cur
               | None, _ -> (!cur, OBad) in
             cur := nb;
             Buffer.add_string b (" | res=" ^ oout_s out);
             Buffer.add_string b (hist_obs t a nb);
             (match validate t a (clean nb) with Ok () -> () | _ -> go := false)
           end) ops
     | _ -> ());
    Buffer.contents b

(* ---------- IO (C07-C10) ---------- *)
let iokind_of = function
  | "Interrupted" -> Interrupted | "WouldBlock" -> WouldBlock | "Other" -> IoOther | "UnexpectedEof" -> UnexpectedEof
  | "BrokenPipe" -> BrokenPipe | "TimedOut" -> TimedOut | "OutOfMemory" -> OutOfMemory | s -> failwith ("iokind " ^ s)
let iokind_s = function
  | Interrupted -> "Interrupted" | WouldBlock -> "WouldBlock" | IoOther -> "Other" | UnexpectedEof -> "UnexpectedEof"
  | BrokenPipe -> "BrokenPipe" | TimedOut -> "TimedOut" | OutOfMemory -> "OutOfMemory"
let script_toks s = if s = "-" then [] else String.split_on_char ',' s
let tl1 s = String.sub s 1 (String.length s - 1)
let rdir_of s =
  match s.[0] with
  | 'd' -> RD (n_of_int (int_of_string (tl1 s))) | 'z' -> RZ | 'e' -> RE (iokind_of (tl1 s)) | 'p' -> RP
  | _ -> failwith "rdir"
let wdir_of s =
  match s.[0] with
  | 'a' -> WA (n_of_int (int_of_string (tl1 s))) | 'z' -> WZ | 'e' -> WE (iokind_of (tl1 s)) | 'p' -> WP
  | _ -> failwith "wdir"
let fdir_of s =
  match s with
  | "fo" -> FO | "fp" -> FP | _ -> if s.[0] = 'f' && s.[1] = 'e' then FE (iokind_of (String.sub s 2 (String.length s - 2))) else failwith "fdir"
let view_s t occ = match view t (clean occ) with Ok v -> value_s v | _ -> "VIEW-FAILED"
let rout_s t = function
  | RMsg occ -> "msg:" ^ view_s t occ
  | RClosed -> "closed" | RParse (k, p) -> Printf.sprintf "parse:%s:%d" (kind_s k) (int_of_n p)
  | RRead e -> "read:" ^ iokind_s e | RPanic -> "panic" | RHang -> "hang" | RPending -> "pending"
let sout_s = function
  | SOk -> "ok" | SEmplace (k, p) -> Printf.sprintf "emplace:%s:%d" (kind_s k) (int_of_n p)
  | SIo e -> "io:" ^ iokind_s e | SPanic -> "panic" | SHang -> "hang" | SPending -> "pending"
let wev_s = function
  | EvW n -> "w" ^ num_s n | EvWZ -> "wz" | EvWE -> "we" | EvWP -> "wp" | EvFO -> "fo" | EvFP -> "fp" | EvFE -> "fe"
(* a message of a send case: an emplacer expression, optionally followed by `~ <op>`: an in-place operation
   applied through the send guard (DerefMut) after the message was constructed and before it is sent *)
let msg_of s =
  match String.index_opt s '~' with
  | None -> let (sx, _) = parse_sexp (tokenize s) in (init_of sx, None)
  | Some k ->
    let (sx, _) = parse_sexp (tokenize (String.sub s 0 k)) in
    let (ox, _) = parse_sexp (tokenize (String.sub s (k + 1) (String.length s - k - 1))) in
    (init_of sx, Some ox)
let inits_of parts = List.map msg_of parts
let vf t = fun a bs -> validate t a (clean bs)
let sf t = fun bs -> size_m t (clean bs)
let ef t = fun (i, edit) a buf ->
  let (b, r) = emplace pv t i a buf in
  match r, edit with
  | Ok (), Some ox ->
    let (nb, _) = (match tail_container t (clean b), ox with
        | Some (_, TFlex (_, _)), Lst [Atom "editflex"; Atom n; o] ->
          nested_flex_edit_flex pv t a (num_of_string n) (fop_of o) b
        | Some (_, TFlex (_, _)), _ -> nested_flex_op pv t a (fop_of ox) b
        | Some _, _ -> nested_vec_op pv t (vop_of ox) b
        | None, _ -> (b, OBad)) in
    (nb, Ok ())
  | _ -> (b, r)
let unspecified = n_of_int 256
let io_op t kind args =
  let nlen l = List.length l in
  match kind, args with
  | ("recv" | "arecv"), mml :: stream :: rscript :: nrecv :: _ ->
    let stream = bytes_of_hex stream in
    let script = List.map rdir_of (script_toks rscript) in
    let nrecv = int_of_string nrecv in
    (* `c<n>`: a receiver over IoBuffer::new(pipe, n, ALIGN); otherwise Receiver::io(pipe, max_msg_len) *)
    let capn = if mml.[0] = 'c' then n_of_int (int_of_string (tl1 mml))
      else io_capacity (min_size t) (n_of_int (int_of_string mml)) in
    let limit = nlen stream + nlen script + 2 * nrecv + 16 in
    let b = new_buffer capn N0 in
    let s = { stream = stream; rscript = script; rcalls = N0 } in
    if kind = "recv" then begin
      let (outs, s') = recv_many (vf t) (sf t) (nat_of_int nrecv) (n_of_int limit) b s in
      "r=" ^ String.concat ";" (List.map (rout_s t) outs) ^ " calls=" ^ num_s s'.rcalls
    end else begin
      let ((outs, s'), polls) =
        arecv_many (vf t) (sf t) (nat_of_int nrecv) (nat_of_int (2 * limit + 8)) (n_of_int limit) N0 false b s in
      "r=" ^ String.concat ";" (List.map (rout_s t) outs) ^ " calls=" ^ num_s s'.rcalls ^ " polls=" ^ num_s polls
    end
  | "send", mml :: wscript :: rest ->
    let inits = inits_of (split_bar (String.concat " " rest)) in
    let script = List.map wdir_of (script_toks wscript) in
    let capn = io_capacity (min_size t) (n_of_int (int_of_string mml)) in
    let limit = 64 * nlen inits + nlen script + 16 in
    let sd = { sbuf = new_buffer capn unspecified; poisoned = false } in
    let k = { sunk = []; wscript = script; fscript = []; wcalls = N0 } in
    let (outs, k') = send_many (sf t) (ef t) (n_of_int limit) inits sd k in
    "s=" ^ String.concat ";" (List.map sout_s outs) ^ " sink=" ^ hex_of_bytes k'.sunk ^ " calls=" ^ num_s k'.wcalls
  | "asend", mml :: wscript :: fscript :: rest ->
    let inits = inits_of (split_bar (String.concat " " rest)) in
    let script = List.map wdir_of (script_toks wscript) in
    let fs = List.map fdir_of (script_toks fscript) in
    let capn = io_capacity (min_size t) (n_of_int (int_of_string mml)) in
    let limit = 64 * nlen inits + nlen script + nlen fs + 16 in
    let sd = { sbuf = new_buffer capn unspecified; poisoned = false } in
    let k = { sunk = []; wscript = script; fscript = fs; wcalls = N0 } in
    let ((outs, k'), polls) = asend_many (sf t) (ef t) (nat_of_int (2 * limit + 8)) (n_of_int limit) N0 inits sd k in
    "s=" ^ String.concat ";" (List.map (fun (o, evs) -> sout_s o ^ "[" ^ String.concat "." (List.map wev_s evs) ^ "]") outs)
    ^ " sink=" ^ hex_of_bytes k'.sunk ^ " calls=" ^ num_s k'.wcalls ^ " polls=" ^ num_s polls
  | "sys", mml :: pcap :: sched :: rest ->
    let inits = inits_of (split_bar (String.concat " " rest)) in
    let capn = io_capacity (min_size t) (n_of_int (int_of_string mml)) in
    let sched = if sched = "-" then [] else
        List.init (String.length sched) (fun i -> match sched.[i] with
            | 'S' -> (true, false) | 's' -> (true, true) | 'R' -> (false, false) | 'r' -> (false, true)
            | _ -> failwith "schedule") in
    (* total bytes: sizes of the inits whose emplacement succeeds in the sender's buffer *)
    let total = List.fold_left (fun acc i ->
        let (buf, r) = ef t i N0 (List.init (int_of_n capn) (fun _ -> unspecified)) in
        match r with Ok () -> (match size_m t (clean buf) with Ok n -> acc + int_of_n n | _ -> acc) | _ -> acc) 0 inits in
    let budget = 4 * (total + nlen inits) + 64 in
    let fuel = nat_of_int (4 * (total + int_of_n capn) + 8 * nlen inits + 64) in
    let y0 = { y_send = TIdle inits; y_sd = { sbuf = new_buffer capn unspecified; poisoned = false };
               y_ring = { rbytes = []; rcap = n_of_int (int_of_string pcap); closed = false };
               y_recv = None; y_rb = new_buffer capn N0; y_rpending = false; y_delivered = []; y_polls = N0 } in
    let y1 = run_schedule (vf t) (sf t) (ef t) fuel sched y0 in
    let y2 = run_tail (vf t) (sf t) (ef t) (nat_of_int (2 * budget + 8)) fuel (n_of_int budget) y1.y_polls true y1 in
    "delivered=" ^ String.concat ";" (List.rev_map (view_s t) y2.y_delivered)
    ^ " recv_end=" ^ (match y2.y_recv with Some o -> rout_s t o | None -> "running")
    ^ " send_end=" ^ (match y2.y_send with TDone o -> sout_s o | _ -> "running")
    ^ " polls=" ^ num_s y2.y_polls
  | _ -> failwith ("io kind " ^ kind)

let handle line =
  match String.split_on_char ' ' line with
  | "T" :: id :: rest ->
    let (sx, _) = parse_sexp (tokenize (String.concat " " rest)) in
    Hashtbl.replace types id (ty_of sx); None
  | "L" :: cid :: tid :: _ ->
    let t = ty_get tid in
    Some (Printf.sprintf "%s align=%s min=%s size=%s wf=%b" cid (num_s (align t)) (num_s (min_size t))
            (if sized t then num_s (ssize t) else "-") (wf t))
  | "V" :: cid :: tid :: off :: hex :: _ ->
    let t = ty_get tid in
    Some (cid ^ " " ^ res_s unit_s (validate t (n_of_int (int_of_string off)) (bytes_of_hex hex)))
  | "M" :: cid :: tid :: off :: hex :: _ ->
    let t = ty_get tid in
    let a = n_of_int (int_of_string off) and bs = bytes_of_hex hex in
    let r = validate t a bs in
    Some (cid ^ " " ^ res_s unit_s r ^ (match r with Ok () -> map_obs t a bs | _ -> ""))
  | "E" :: cid :: tid :: off :: hex :: rest ->
    let t = ty_get tid in
    let a = n_of_int (int_of_string off) and bs = bytes_of_hex hex in
    let (sx, _) = parse_sexp (tokenize (String.concat " " rest)) in
    Some (cid ^ " " ^ after_emplace t a (emplace pv t (init_of sx) a bs))
  | "A" :: cid :: tid :: off :: hex :: rest ->
    let t = ty_get tid in
    let a = n_of_int (int_of_string off) and bs = bytes_of_hex hex in
    let (sx, _) = parse_sexp (tokenize (String.concat " " rest)) in
    Some (cid ^ " " ^ after_emplace t a (assign_in_place pv t (init_of sx) a bs))
  | "D" :: cid :: tid :: off :: hex :: _ ->
    let t = ty_get tid in
    let a = n_of_int (int_of_string off) and bs = bytes_of_hex hex in
    Some (cid ^ " " ^ after_emplace t a (default_in_place pv t a bs))
  | "H" :: cid :: tid :: off :: hex :: rest ->
    let t = ty_get tid in
    let a = n_of_int (int_of_string off) and bs = bytes_of_hex hex in
    Some (cid ^ " " ^ hist t a bs (split_bar (String.concat " " rest)))
  | "IO" :: cid :: kind :: tid :: args ->
    let t = ty_get tid in
    Some (cid ^ " " ^ io_op t kind args)
  | "P" :: cid :: pty :: op :: rest ->
    let (be, n) = match pty with
      | "le::U16" | "le::I16" -> (false, 2) | "le::U32" | "le::I32" | "le::F32" -> (false, 4)
      | "le::U64" | "le::I64" | "le::F64" -> (false, 8)
      | "be::U16" | "be::I16" -> (true, 2) | "be::U32" | "be::I32" | "be::F32" -> (true, 4)
      | "be::U64" | "be::I64" | "be::F64" -> (true, 8)
      | "Bool" -> (false, 1) | _ -> failwith "portable type" in
    (match op, rest with
     | "enc", a :: _ ->
       let v = num_of_string a in
       let v = if pty = "Bool" then (match v with N0 -> N0 | _ -> if int_of_n v land 1 = 1 then n_of_int 1 else N0) else v in
       Some (Printf.sprintf "%s bytes=%s size=%d align=1" cid (hex_of_bytes (p_enc be (n_of_int n) v)) n)
     | "dec", h :: _ ->
       let bs = bytes_of_hex h in
       if pty = "Bool" then
         (match validate TBool N0 bs with
          | Ok () ->
            (* the value is the first byte, whatever follows it in the slice *)
            let b1 = (match bs with b :: _ -> [b] | [] -> []) in
            Some (Printf.sprintf "%s bits=%s flatalign=1 flatsize=1" cid (hex_of_n (p_dec be b1)))
          | _ -> Some (cid ^ " invalid"))
       else Some (Printf.sprintf "%s bits=%s flatalign=1 flatsize=%d" cid (hex_of_n (p_dec be bs)) n)
     | "val", h :: _ -> Some (cid ^ " " ^ res_s unit_s (validate TBool N0 (bytes_of_hex h)))
     | _ -> Some (cid ^ " -"))
  | [""] | [] -> None
  | op :: _ -> failwith ("unknown op " ^ op)

let () =
  try
    while true do
      let line = input_line stdin in
      (try
         match handle line with
         | Some s -> print_endline s
         | None -> ()
       with Failure m | Invalid_argument m ->
         let cid = match String.split_on_char ' ' line with _ :: c :: _ -> c | _ -> "?" in
         print_endline (cid ^ " MODEL-ERROR " ^ m))
    done
  with End_of_file -> ()
