#!/bin/sh
# builds the extracted model + driver into runner/runner (native code)
set -e
cd "$(dirname "$0")"
cp ../coq/extract/model.ml ../coq/extract/model.mli .
ocamlfind ocamlopt -O2 -w -a -package str model.mli model.ml main.ml -o runner 2>/dev/null || \
ocamlfind ocamlopt -w -a model.mli model.ml main.ml -o runner
