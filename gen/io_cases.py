#!/usr/bin/env python3
"""io_cases.py — scripted-pipe cases for the blocking and async Sender / Receiver (C07-C10).
Protocol: notes/io-protocol.md.  Message values come from gen_init; canonical streams come from the
model's own emplacement (stage 1), so valid streams need no Python encoder."""
import random
from shapes import has_default, align, min_size, wide_len, ssize as ssize_of, INTS
from cases import gen_init, garbage, hexs, parse_kv

IOKINDS = ['Interrupted', 'WouldBlock', 'Other', 'UnexpectedEof', 'BrokenPipe', 'TimedOut']


def message_shapes(shapes):
    """the shapes used as message types: unsized ones of moderate size, a few sized ones"""
    out = []
    for sid, t in shapes:
        if wide_len(t) or min_size(t) == 0:
            continue     # zero-sized messages cannot be framed: known finding D16
        out.append((sid, t))
    return out


def padded_middle(t):
    from shapes import ssize, is_sized

    def lst(fs):
        if len(fs) < 3:
            return False
        pos = 0
        for i, f in enumerate(fs[:-1]):
            a = align(f)
            if i > 0 and pos % a != 0:
                return True
            pos = (pos + a - 1) // a * a + (ssize(f) if is_sized(f) else 0)
        return False
    if t[0] == 'struct':
        return lst(t[2])
    if t[0] == 'enum':
        return any(lst(v) for v in t[4])
    return False


def padded_tail(t):
    from shapes import is_sized
    if is_sized(t):
        return False
    if t[0] == 'struct' and t[2]:
        return align(t) > align(t[2][-1])
    if t[0] == 'enum':
        return any(v and align(t) > align(v[-1]) for v in t[4])
    return False


def unaligned_tail(t):
    """unsized struct whose last field does not start on a multiple of the struct's alignment"""
    from shapes import is_sized, ssize
    if t[0] != 'struct' or is_sized(t) or len(t[2]) < 2:
        return False
    pos = 0
    for f in t[2][:-1]:
        a = align(f)
        pos = (pos + a - 1) // a * a + ssize(f)
    a = align(t[2][-1])
    pos = (pos + a - 1) // a * a
    return pos % align(t) != 0


def has_str(t):
    """a FlatString somewhere in the message type"""
    if t[0] == 'str':
        return True
    if t[0] in ('vec', 'flex', 'arr'):
        return has_str(t[1])
    if t[0] == 'struct':
        return any(has_str(f) for f in t[2])
    if t[0] == 'enum':
        return any(has_str(f) for v in t[4] for f in v)
    return False


def has(t, pred):
    """some type inside t (t included) satisfies pred"""
    if pred(t):
        return True
    if t[0] in ('vec', 'flex', 'arr'):
        return has(t[1], pred)
    if t[0] == 'struct':
        return any(has(f, pred) for f in t[2])
    if t[0] == 'enum':
        return any(has(f, pred) for v in t[4] for f in v)
    return False


def compositions(rng, n, k):
    """k random chunk sizes >= 1 (the pipe clips them)"""
    return [rng.choice([1, 1, 2, 3, 5, 8, 13, 64]) for _ in range(k)]


def stage1(shapes, seed, tier='quick'):
    """E cases (model only): per message shape, a few message lists -> images and sizes"""
    rng = random.Random(seed * 3571 + 11)
    lines, meta = [], {}
    ms = message_shapes(shapes)
    nshapes = 22 if tier == 'quick' else 60
    # the fixed shapes come first in the corpus: prefer them, then random ones
    pick = ms[:70]
    rng.shuffle(pick)
    # message types whose field list has padding in front of a middle field (three or more fields): a minimum size
    # computed without that padding lets a truncated message through
    from shapes import is_sized
    # ... and unsized message types that end in trailing padding (the value's alignment exceeds that of its last
    # field): a chunk boundary inside that padding must not make the message look complete
    prio = [(sid, t) for sid, t in ms if padded_middle(t) and not is_sized(t)][:3] + \
           [(sid, t) for sid, t in ms if padded_middle(t) and is_sized(t) and t[0] == 'enum'][:1] + \
           [(sid, t) for sid, t in ms if padded_tail(t) and t[0] == 'enum'][:2] + \
           [(sid, t) for sid, t in ms if padded_tail(t) and t[0] == 'struct'][:2] + \
           [(sid, t) for sid, t in ms if unaligned_tail(t)][:2] + \
           [(sid, t) for sid, t in ms if has_str(t) and t[0] != 'str'][:2] + [(sid, t) for sid, t in ms if t[0] == 'str' and align(t) > 1][:1] + [(sid, t) for sid, t in ms if t[0] == 'vec' and align(t) > ssize_of(t[1]) > 0][:1]
    # ... an enum tag wider than one byte, a bare FlexVec whose offset type is more aligned than its items (the vector
    # ends in padding), a 64-bit portable length type, and a sized struct (max_msg_len below MIN_SIZE)
    prio += [(sid, t) for sid, t in ms if has(t, lambda x: x[0] == 'enum' and INTS[x[2]][0] > 1) and not is_sized(t)][:1] + \
            [(sid, t) for sid, t in ms if has(t, lambda x: x[0] in ('enum', 'clike') and INTS[x[2] if x[0] == 'enum' else x[1]][0] > 1) and is_sized(t)][:1] + \
            [(sid, t) for sid, t in ms if t[0] == 'flex' and align(t) > align(t[1])][:1] + \
            [(sid, t) for sid, t in ms if has(t, lambda x: x[0] in ('vec', 'str', 'flex') and x[-1] in ('le::U64', 'be::U64'))][:1] + \
            [(sid, t) for sid, t in ms if t[0] == 'struct' and is_sized(t) and ssize_of(t) > 4][:1]
    prio = [x for i, x in enumerate(prio) if x not in prio[:i]]
    pick = prio + [x for x in pick if x not in prio][:nshapes - len(prio)]
    for sid, t in pick:
        nlists = 2 if tier == 'quick' else 4
        for j in range(nlists):
            k = rng.choice([1, 2, 3, 4])
            inits = [gen_init(t, rng) for _ in range(k)]
            for i, ini in enumerate(inits):
                cid = '%s.io%d.m%d' % (sid, j, i)
                buf = garbage(rng, 320)
                lines.append('E %s %s 0 %s %s' % (cid, sid, hexs(buf), ini))
                meta[cid] = {'shape': sid, 'list': '%s.io%d' % (sid, j), 'idx': i, 'init': ini, 'prefill': buf}
    return lines, meta


def stage2(shapes, s1_meta, s1_model, seed, tier='quick'):
    rng = random.Random(seed * 7477 + 13)
    tmap = dict(shapes)
    # group the messages of each list
    lists = {}
    for cid, m in s1_meta.items():
        res = s1_model.get(cid)
        if res is None:
            continue
        _, head, kv, _ = parse_kv(res)
        ok = head == 'ok' and kv.get('size', '').startswith('ok:')
        size = int(kv['size'][3:]) if ok else None
        img = None
        if ok:
            pre = m['prefill']
            bufhex = kv['buf']
            img = bytes(pre[i] if bufhex[2 * i:2 * i + 2] == '??' else int(bufhex[2 * i:2 * i + 2], 16) for i in range(size))
        lists.setdefault(m['list'], []).append((m['idx'], m['init'], size, img, m['shape']))
    lines, meta = [], {}

    def add(cid, kind, sid, args, **md):
        lines.append('IO %s %s %s %s' % (cid, kind, sid, args))
        md.update(kind=kind, shape=sid)
        meta[cid] = md

    for lid, msgs in sorted(lists.items()):
        msgs.sort()
        if any(m[2] is None for m in msgs):
            continue
        sid = msgs[0][4]
        t = tmap[sid]
        inits = [m[1] for m in msgs]
        sizes = [m[2] for m in msgs]
        stream = b''.join(m[3] for m in msgs)
        maxlen = max(sizes)
        ini_s = ' | '.join(inits)
        total = len(stream)
        nrecv = len(msgs) + 2
        base = dict(inits=inits, sizes=sizes, stream=stream)
        # a max_msg_len below MIN_SIZE is raised to MIN_SIZE by the constructors: sized message types work with any
        from shapes import is_sized
        small = [0, 1, maxlen // 3] if is_sized(t) else []
        for mml in sorted(set([maxlen, maxlen + 3, 2 * maxlen] + small)):
            # ---- C07: fault-free chunkings
            scripts = ['-', ','.join(['a1'] * total) or '-']
            for _ in range(2 if tier == 'quick' else 6):
                scripts.append(','.join('a%d' % c for c in compositions(rng, total, rng.randint(1, total + 2))) or '-')
            for j, sc in enumerate(scripts):
                add('%s.S%d_%d' % (lid, mml, j), 'send', sid, '%d %s | %s' % (mml, sc, ini_s), mml=mml, faults=False, **base)
            # ---- messages edited through the send guard (DerefMut) between construction and send(): what goes out is
            #      the message as it stands when send() is called (its size() then, not the size at construction)
            if mml == maxlen + 3:
                import hist_cases
                ct = t if t[0] in ('vec', 'str', 'flex') else (hist_cases.nested_plan(t) or [None])[0]
                if ct is not None:
                    for j in range(2 if tier == 'quick' else 5):
                        eds = []
                        for ini in inits:
                            if ct[0] == 'vec':
                                op = hist_cases.gen_vec_ops(ct, rng, 1, rng.choice([1, 3, 8]), rng.choice([0, 2]))[0]
                            elif ct[0] == 'str':
                                op = hist_cases.gen_str_ops(rng, 1)[0]
                            else:
                                op = hist_cases.gen_flex_ops(ct, rng, 1)[0]
                            eds.append('%s ~ %s' % (ini, op) if rng.random() < 0.8 else ini)
                        sc = ','.join('a%d' % c for c in compositions(rng, total, rng.randint(1, total + 2))) or '-'
                        add('%s.SE%d_%d' % (lid, mml, j), 'send', sid, '%d %s | %s' % (mml, sc, ' | '.join(eds)), mml=mml, faults=False,
                            edited=True, **base)
                        ws = []
                        for c in compositions(rng, total, rng.randint(1, total + 2)):
                            while rng.random() < 0.3:
                                ws.append('p')
                            ws.append('a%d' % c)
                        add('%s.ASE%d_%d' % (lid, mml, j), 'asend', sid, '%d %s %s | %s' % (mml, ','.join(ws) or '-', 'fp,fo', ' | '.join(eds)),
                            mml=mml, faults=False, edited=True, **base)
            rscripts = ['-', ','.join(['d1'] * total) or '-']
            for _ in range(2 if tier == 'quick' else 6):
                rscripts.append(','.join('d%d' % c for c in compositions(rng, total, rng.randint(1, total + 2))) or '-')
            for j, sc in enumerate(rscripts):
                add('%s.R%d_%d' % (lid, mml, j), 'recv', sid, '%d %s %s %d' % (mml, hexs(stream), sc, nrecv), mml=mml,
                    faults=False, **base)
            # ---- a receiver over a buffer of any capacity that holds the largest message (IoBuffer::new(pipe, c, ALIGN)):
            #      below 2 * maxlen the occupied part can overlap its destination when it is moved to the front
            if mml == maxlen and len(msgs) > 1:
                caps = sorted(set([maxlen, maxlen + 1, maxlen + maxlen // 2, 2 * maxlen - 1, maxlen + min(sizes)]))
                for j, c in enumerate(caps if tier != 'quick' else rng.sample(caps, min(3, len(caps)))):
                    sc = ','.join('d%d' % x for x in compositions(rng, total, rng.randint(1, total + 2))) or '-'
                    add('%s.RC%d_%d' % (lid, c, j), 'recv', sid, 'c%d %s %s %d' % (c, hexs(stream), rng.choice([sc, '-', sc]), nrecv),
                        mml=mml, cap=c, faults=False, **base)
                    rs = []
                    for x in compositions(rng, total, rng.randint(1, total + 2)):
                        while rng.random() < 0.3:
                            rs.append('p')
                        rs.append('d%d' % x)
                    add('%s.ARC%d_%d' % (lid, c, j), 'arecv', sid, 'c%d %s %s %d' % (c, hexs(stream), ','.join(rs) or '-', nrecv),
                        mml=mml, cap=c, faults=False, **base)
            # ---- C08: the same with Pending sprinkled in, and the composed system
            for j in range(2 if tier == 'quick' else 5):
                ws = []
                for c in compositions(rng, total, rng.randint(1, total + 2)):
                    while rng.random() < 0.35:
                        ws.append('p')
                    ws.append('a%d' % c)
                fs = [rng.choice(['fp', 'fo', 'fp']) for _ in range(rng.randint(0, 2 * len(msgs)))]
                add('%s.AS%d_%d' % (lid, mml, j), 'asend', sid, '%d %s %s | %s' % (mml, ','.join(ws) or '-', ','.join(fs) or '-', ini_s),
                    mml=mml, faults=False, **base)
                rs = []
                for c in compositions(rng, total, rng.randint(1, total + 2)):
                    while rng.random() < 0.35:
                        rs.append('p')
                    rs.append('d%d' % c)
                add('%s.AR%d_%d' % (lid, mml, j), 'arecv', sid, '%d %s %s %d' % (mml, hexs(stream), ','.join(rs) or '-', nrecv),
                    mml=mml, faults=False, **base)
            for j in range(3 if tier == 'quick' else 10):
                pcap = rng.choice([1, 2, 3, 5, 8, 17, 100])
                sch = ''.join(rng.choice('SRsrSR') for _ in range(rng.randint(0, 3 * total // max(pcap, 1) + 6)))
                add('%s.Y%d_%d' % (lid, mml, j), 'sys', sid, '%d %d %s | %s' % (mml, pcap, sch or '-', ini_s), mml=mml, pcap=pcap,
                    faults=False, **base)
        mml = maxlen
        # ---- C09: faults at every call index of the all-ones / default chunking
        ncalls = min(total, 10 if tier == 'quick' else 40)
        for idx in range(ncalls + 1):
            for f in (['z', 'e' + rng.choice(IOKINDS)] if tier == 'quick' else ['z'] + ['e' + k for k in IOKINDS[:3]]):
                chunk = rng.choice([1, 2, 3, 64])
                sc = ['a%d' % chunk] * idx + [f]
                add('%s.SF%d_%s' % (lid, idx, f), 'send', sid, '%d %s | %s' % (mml, ','.join(sc), ini_s), mml=mml, faults=True,
                    **base)
                sc = ['d%d' % chunk] * idx + [f] + (['d%d' % chunk] * 3 if rng.random() < 0.5 else [])
                add('%s.RF%d_%s' % (lid, idx, f), 'recv', sid, '%d %s %s %d' % (mml, hexs(stream), ','.join(sc), nrecv + 2),
                    mml=mml, faults=True, **base)
        for j in range(2 if tier == 'quick' else 8):
            ws = [rng.choice(['a1', 'a2', 'a5', 'p', 'z', 'e' + rng.choice(IOKINDS), 'a64', 'a3']) for _ in range(rng.randint(1, 12))]
            fs = [rng.choice(['fo', 'fp', 'fe' + rng.choice(IOKINDS)]) for _ in range(rng.randint(0, 4))]
            add('%s.ASF%d' % (lid, j), 'asend', sid, '%d %s %s | %s' % (mml, ','.join(ws), ','.join(fs) or '-', ini_s), mml=mml,
                faults=True, **base)
            rs = [rng.choice(['d1', 'd2', 'd5', 'p', 'z', 'e' + rng.choice(IOKINDS), 'd64', 'd3']) for _ in range(rng.randint(1, 12))]
            add('%s.ARF%d' % (lid, j), 'arecv', sid, '%d %s %s %d' % (mml, hexs(stream), ','.join(rs), nrecv + 3), mml=mml,
                faults=True, **base)
        # ---- C10: arbitrary bytes
        variants = []
        for _ in range(4 if tier == 'quick' else 16):
            variants.append(('random', garbage(rng, rng.choice([0, 1, 3, maxlen, 2 * maxlen + 5, 4 * maxlen]))))
        for cut in sorted(set([0, 1, max(total - 1, 0), total // 2, sizes[0], max(sizes[0] - 1, 0)])):
            variants.append(('truncated', stream[:cut]))
        for _ in range(8 if tier == 'quick' else 40):
            if total:
                mut = bytearray(stream)
                p = rng.randrange(total) if rng.random() < 0.5 else rng.randrange(min(total, 12))
                mut[p] = rng.choice([0, 1, 2, 0x7f, 0x80, 0xff, (mut[p] + 1) & 255, (mut[p] + 4) & 255])
                variants.append(('mutated', bytes(mut) + (garbage(rng, 5) if rng.random() < 0.3 else b'')))
        if has_str(t) and total:
            # a complete message whose string length is cut by 1..3: the text then ends inside a multi-byte
            # character when it ended in one (a content error, not a request for more input)
            for p in range(min(sizes[0], 24)):
                for d in (1, 2, 3):
                    if stream[p] >= d:
                        mut = bytearray(stream)
                        mut[p] -= d
                        variants.append(('lencut', bytes(mut)))
        variants.append(('oversize', bytes([0xff] * (2 * maxlen + 9))))
        variants.append(('zeros', bytes(4 * maxlen + 3)))
        for j, (vk, data) in enumerate(variants):
            sc = rng.choice(['-', ','.join(['d1'] * min(len(data), 40)) or '-',
                             ','.join('d%d' % c for c in compositions(rng, len(data), rng.randint(1, 10)))])
            kind = 'recv' if j % 3 else 'arecv'
            if kind == 'arecv' and sc != '-':
                sc = ','.join(x if rng.random() < 0.7 else 'p,' + x for x in sc.split(','))
            add('%s.G%d' % (lid, j), kind, sid, '%d %s %s %d' % (rng.choice([maxlen, maxlen + 3]), hexs(data), sc, len(msgs) + 4),
                mml=mml, garbage=vk, faults=False, data=data, **base)
    return lines, meta
