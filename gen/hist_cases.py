#!/usr/bin/env python3
"""hist_cases.py — operation histories for FlatVec / FlatString / FlexVec (C11-C14, C05).
One case = initial emplacement + a sequence of in-place operations; both sides print the observable
state after every step.  The generator tracks an abstract state (a Python list with a capacity
estimate) so that it can aim at the empty / full / one-short states and at failing preconditions."""
import random
from shapes import INTS, align, ssize, min_size, is_sized, has_default
from cases import gen_init, garbage, hexs, UTF8_SAMPLES


def vec_geom(t, n):
    """(data offset, element size, capacity) of a FlatVec / FlatString mapped from n bytes"""
    if t[0] == 'vec':
        l = INTS[t[2]]
        d = max(l[0], align(t[1]))
        s = ssize(t[1])
        a = align(t)
        slots = 0 if s == 0 or n < d else ((n - d) // a * a) // s
    else:
        l = INTS[t[1]]
        d = l[0]
        s = 1
        a = l[1]
        slots = 0 if n < d else (n - d) // a * a
    return d, s, min(slots, 256 ** l[0] - 1)


def gen_vec_ops(t, rng, n_ops, cap, length):
    ops = []
    et = t[1]

    def item():
        return gen_init(et, rng, 1, allow_default=False)
    for _ in range(n_ops):
        free = cap - length
        r = rng.random()
        if r < 0.22:
            ops.append('(push %s)' % item())
            if free > 0:
                length += 1
        elif r < 0.32:
            ops.append('(pop)')
            length = max(0, length - 1)
        elif r < 0.47:
            k = rng.choice([0, 1, 2, free, free + 1, max(free - 1, 0), 3])
            k = min(k, 12)
            ops.append('(pushslice%s)' % ''.join(' ' + item() for _ in range(k)))
            if k <= free:
                length += k
        elif r < 0.55:
            k = rng.choice([0, 1, free, free + 2, 2])
            k = min(k, 12)
            ops.append('(extend%s)' % ''.join(' ' + item() for _ in range(k)))
            length += min(k, free)
        elif r < 0.63:
            k = rng.choice([0, length, max(length - 1, 0), length + 1, length // 2])
            ops.append('(truncate %d)' % k)
            length = min(length, k)
        elif r < 0.67:
            ops.append('(clear)')
            length = 0
        elif r < 0.75:
            i = rng.choice([0, max(length - 1, 0), length // 2, length]) if rng.random() < 0.9 else length + 1
            ops.append('(remove %d)' % i)
            if i < length:
                length -= 1
        elif r < 0.83:
            i = rng.choice([0, max(length - 1, 0), length // 2, length])
            ops.append('(swapremove %d)' % i)
            if i < length:
                length -= 1
        elif r < 0.91:
            k = rng.choice([0, length, length + 1, cap, max(cap - 1, 0), length // 2, cap + 1 if rng.random() < 0.3 else cap])
            k = min(k, length + 12)
            ops.append('(resize %d %s)' % (k, item()))
            if k <= cap:
                length = k
        else:
            i = rng.choice([0, max(length - 1, 0), length // 2, length])
            ops.append('(set %d %s)' % (i, item()))
    return ops


def gen_str_ops(rng, n_ops):
    ops = []
    for _ in range(n_ops):
        r = rng.random()
        if r < 0.45:
            ops.append('(pushstr %s)' % hexs(rng.choice(UTF8_SAMPLES)))
        elif r < 0.85:
            ops.append('(pushchar %#x)' % rng.choice([0x41, 0x7f, 0x80, 0xe9, 0x7ff, 0x800, 0x65e5, 0xffff, 0x10000, 0x1f600, 0x10ffff]))
        else:
            ops.append('(clear)')
    return ops


def gen_flex_ops(t, rng, n_ops):
    et = t[1]
    ops = []
    length = 0
    for _ in range(n_ops):
        r = rng.random()
        if r < 0.40:
            # FlexVec::push_default (the harness routes `(push default)` through it where the item type has FlatDefault)
            if has_default(et) and rng.random() < 0.2:
                ops.append('(push default)')
            else:
                ops.append('(push %s)' % gen_init(et, rng, 1))
            length += 1     # optimistic
        elif r < 0.52:
            ops.append('(pop)')
            length = max(0, length - 1)
        elif r < 0.64:
            k = rng.choice([0, length, max(length - 1, 0), length + 1, length + 3, 1])
            ops.append('(truncate %d)' % k)
            length = min(length, k)
        elif r < 0.68:
            ops.append('(clear)')
            length = 0
        elif r < 0.90 and et[0] == 'flex':
            # an item that is itself a FlexVec grows and shrinks in place (its extent changes under the outer vector)
            i = rng.randrange(max(length, 1))
            inner = rng.choice(['(push %s)' % gen_init(et[1], rng, 1), '(push %s)' % gen_init(et[1], rng, 1), '(pop)',
                                '(pop)', '(truncate %d)' % rng.choice([0, 1, 2]), '(clear)'])
            ops.append('(editflex %d %s)' % (i, inner))
        elif r < 0.86 and et[0] in ('vec', 'str'):
            i = rng.randrange(max(length, 1))
            inner = gen_vec_ops(et, rng, 1, 3, 1)[0] if et[0] == 'vec' else gen_str_ops(rng, 1)[0]
            ops.append('(editvec %d %s)' % (i, inner))
        else:
            i = rng.randrange(max(length, 1)) if rng.random() < 0.95 else length + 1
            ops.append('(editassign %d %s)' % (i, gen_init(et, rng, 1)))
    return ops


def nested_plan(t, rng=None):
    """for a struct / enum whose last fields lead to a container: (container type, make_init) where
    make_init(tail_init) is an emplacer expression of t with that tail; None otherwise"""
    rng = rng or random.Random(0)
    k = t[0]
    if k in ('vec', 'str', 'flex'):
        return t, (lambda s: s)
    if k == 'struct' and not t[1] and t[2]:
        sub = nested_plan(t[2][-1], rng)
        if sub is None:
            return None
        heads = [gen_init(f, rng, 2, allow_default=False) for f in t[2][:-1]]
        return sub[0], (lambda s, heads=heads, sub=sub: '(seq%s %s)' % (''.join(' ' + h for h in heads), sub[1](s)))
    if k == 'enum' and not t[1]:
        for v, fs in enumerate(t[4]):
            if not fs:
                continue
            sub = nested_plan(fs[-1], rng)
            if sub is None:
                continue
            heads = [gen_init(f, rng, 2, allow_default=False) for f in fs[:-1]]
            return sub[0], (lambda s, v=v, heads=heads, sub=sub: '(var %d%s %s)' % (v, ''.join(' ' + h for h in heads), sub[1](s)))
    return None


def generate(shapes, seed, tier='quick'):
    rng = random.Random(seed * 613 + 5)
    lines, meta = [], {}
    per = 4 if tier == 'quick' else 16
    from shapes import wide_len
    # ---- containers nested as the unsized tail of a struct / enum variant, mutated through the mapped value
    for sid, t in shapes:
        if t[0] not in ('struct', 'enum') or wide_len(t):
            continue
        plan = nested_plan(t, rng)
        if plan is None:
            continue
        ct, mk = plan
        a = align(t)
        ms = min_size(t)
        for j in range(4 if tier == 'quick' else 8):
            cid = '%s.HN%d' % (sid, j)
            # the tightest buffers first: a tail capacity that is a few slots too large shows there
            n = [ms, ms + a, ms + 2 * a + 1][j] if j < 3 else rng.choice([ms + 3 * a + 1, ms + 17, ms + 40])
            if ct[0] == 'vec':
                ops = gen_vec_ops(ct, rng, rng.randint(3, 14), rng.choice([1, 3, 8]), 0)
            elif ct[0] == 'str':
                ops = gen_str_ops(rng, rng.randint(3, 10))
            else:
                ops = gen_flex_ops(ct, rng, rng.randint(3, 12))
            ini = mk('empty')
            lines.append('H %s %s 0 %s | %s | %s' % (cid, sid, hexs(garbage(rng, n)), ini, ' | '.join(ops)))
            meta[cid] = {'op': 'H', 'shape': sid, 'off': 0, 'len': n, 'init': ini, 'ops': ops}
    for sid, t in shapes:
        if t[0] not in ('vec', 'str', 'flex'):
            continue
        if wide_len(t):
            continue
        a = align(t)
        ms = min_size(t)
        for j in range(per):
            cid = '%s.H%d' % (sid, j)
            if t[0] in ('vec', 'str'):
                d, s, _ = vec_geom(t, ms)
                n = rng.choice([ms, ms + max(s, 1), ms + 3 * max(s, 1) + 1, ms + 7 * max(s, 1), ms + 11 * max(s, 1) + a - 1])
                if INTS[t[2] if t[0] == 'vec' else t[1]][0] == 1 and s <= 2 and rng.random() < 0.25:
                    n = ms + 300 * max(s, 1)      # capacity above the length type's maximum
                _, _, cap = vec_geom(t, n)
                k0 = rng.choice([0, 0, min(cap, 1), min(cap, 2), min(cap, 8)])
                if t[0] == 'vec':
                    ini = '(viter%s)' % ''.join(' ' + gen_init(t[1], rng, 1, allow_default=False) for _ in range(k0)) if k0 else 'empty'
                    # more slots than the length type can count: flat_vec! of L::MAX + 1 items must be refused
                    if n == ms + 300 * max(s, 1) and t[1][0] in ('int', 'bool') and s in (1, 2) and rng.random() < 0.5:
                        ini = '(varr%s)' % ''.join(' ' + gen_init(t[1], rng, 1, allow_default=False) for _ in range(256))
                    ops = gen_vec_ops(t, rng, rng.randint(3, 22), cap, k0)
                else:
                    ini = 'empty' if k0 == 0 else '(str %s)' % hexs(b'ab'[:min(k0, 2)])
                    ops = gen_str_ops(rng, rng.randint(3, 16))
            else:
                n = rng.choice([ms, ms + a, 4 * ms + 8 * a, 8 * ms + 16 * a + 3, 96])
                ini = rng.choice(['empty', 'empty', gen_init(t, rng, 1)])
                ops = gen_flex_ops(t, rng, rng.randint(3, 18))
            off = 0
            lines.append('H %s %s %d %s | %s | %s' % (cid, sid, off, hexs(garbage(rng, n)), ini, ' | '.join(ops)))
            meta[cid] = {'op': 'H', 'shape': sid, 'off': off, 'len': n, 'init': ini, 'ops': ops}
        # ---- an item shrinks in place and leaves slack in front of the next slot (the next item stays where it is)
        if t[0] == 'flex' and t[1][0] in ('vec', 'str'):
            et = t[1]
            def big():
                if et[0] == 'vec':
                    return '(viter%s)' % ''.join(' ' + gen_init(et[1], rng, 1, allow_default=False) for _ in range(rng.choice([2, 3, 5])))
                return '(str %s)' % hexs(b'abcdef'[:rng.choice([2, 3, 6])])
            shrink = (lambda: rng.choice(['(pop)', '(truncate 1)', '(clear)', '(truncate 0)'])) if et[0] == 'vec' else (lambda: '(clear)')
            for j in range(2 if tier == 'quick' else 6):
                ini = '(flex %s %s %s)' % (big(), big(), gen_init(et, rng, 1))
                ops = ['(editvec 0 %s)' % shrink(), '(editvec 1 %s)' % shrink(), '(push %s)' % gen_init(et, rng, 1),
                       '(editassign 0 %s)' % gen_init(et, rng, 1), '(editvec 1 %s)' % shrink()]
                rng.shuffle(ops)
                cid = '%s.HS%d' % (sid, j)
                n = 8 * ms + 16 * a + 64
                lines.append('H %s %s 0 %s | %s | %s' % (cid, sid, hexs(garbage(rng, n)), ini, ' | '.join(ops)))
                meta[cid] = {'op': 'H', 'shape': sid, 'off': 0, 'len': n, 'init': ini, 'ops': ops}
        # ---- an item that is a FlexVec shrinks in place (pop / truncate leave a zero terminator behind its items),
        #      then the outer vector grows: the new outer slot goes behind the item's terminator
        if t[0] == 'flex' and t[1][0] == 'flex':
            it = t[1][1]
            x = lambda: gen_init(it, rng, 1)
            for j, (ini, ops) in enumerate([
                    ('empty', ['(push empty)', '(editflex 0 (push %s))' % x(), '(editflex 0 (push %s))' % x(), '(editflex 0 (pop))',
                               '(push empty)', '(editflex 1 (push %s))' % x(), '(pop)', '(editflex 0 (push %s))' % x()]),
                    ('empty', ['(push empty)', '(editflex 0 (push %s))' % x(), '(editflex 0 (push %s))' % x(),
                               '(editflex 0 (push %s))' % x(), '(editflex 0 (truncate 2))', '(push (flex %s))' % x(),
                               '(editflex 0 (truncate 1))', '(editflex 1 (pop))', '(push empty)', '(truncate 1)', '(push empty)']),
                    ('(flex (flex %s %s))' % (x(), x()), ['(editflex 0 (pop))', '(push (flex %s))' % x(), '(editflex 0 (clear))',
                                                            '(editflex 1 (push %s))' % x(), '(editflex 2 (pop))'])]):
                for n in (ms + 6 * a, 64, 8 * ms + 16 * a + 3):
                    cid = '%s.HF%d_%d' % (sid, j, n)
                    lines.append('H %s %s 0 %s | %s | %s' % (cid, sid, hexs(garbage(rng, n)), ini, ' | '.join(ops)))
                    meta[cid] = {'op': 'H', 'shape': sid, 'off': 0, 'len': n, 'init': ini, 'ops': ops}
        # ---- the offset of a sealed item must stay below L::MAX: items whose span is just below / at / above it
        # (one-byte offset types: 255; two-byte ones, native and portable: 65535 — the latter only with string items,
        # whose emplacer expression stays compact)
        lsize = INTS[t[2]][0] if t[0] == 'flex' else 0
        if t[0] == 'flex' and t[1][0] in ('vec', 'str') and (
                (lsize == 1 and align(t) == 1) or (lsize == 2 and t[1][0] == 'str' and INTS[t[1][1]][0] >= 2)):
            et = t[1]
            es = ssize(et[1]) if et[0] == 'vec' else 1
            ed = min_size(et)
            os_ = min_size(t)
            lmax = 256 ** lsize - 1
            if es in (1, 2):
                for j, span in enumerate([lmax - 2, lmax - 1, lmax, lmax + 1]):
                    if span % align(t) != 0:
                        continue
                    k = (span - os_ - ed) // es
                    if k < 0 or INTS[et[2] if et[0] == 'vec' else et[1]][0] == 1 and k > 255:
                        continue
                    if et[0] == 'vec':
                        big = '(viter%s)' % ''.join(' ' + gen_init(et[1], rng, 1, allow_default=False) for _ in range(k))
                    else:
                        big = '(str %s)' % hexs(bytes([0x61 + (x % 26) for x in range(k)]))
                    small = gen_init(et, rng, 1)
                    for variant, (ini, ops) in enumerate([('empty', ['(push %s)' % big, '(push %s)' % small, '(pop)', '(push %s)' % small]),
                                                           ('(flex %s %s)' % (big, small), ['(pop)', '(push %s)' % small]),
                                                           ('(flex %s)' % small, ['(push %s)' % big, '(push %s)' % small, '(truncate 1)'])]):
                        cid = '%s.HB%d_%d' % (sid, j, variant)
                        n = 2 * span + 40 if lsize == 1 else span + 400
                        lines.append('H %s %s 0 %s | %s | %s' % (cid, sid, hexs(garbage(rng, n)), ini, ' | '.join(ops)))
                        meta[cid] = {'op': 'H', 'shape': sid, 'off': 0, 'len': n, 'init': ini, 'ops': ops}
    return lines, meta
