#!/usr/bin/env python3
"""shapes.py — generator of type shapes (programs): for every descriptor of the universe of
coq/Model/Ty.v it prints (a) the Rust item(s) with `#[flat]` and the probe impls, (b) the same
descriptor as an s-expression for the model runner.

Descriptors are hashable tuples:
  ('unit',) ('bool',) ('int', rust_name) ('clike', tag_name, n, dflt) ('arr', t, n)
  ('vec', t, len_name) ('str', len_name) ('flex', t, len_name)
  ('struct', sized, (t, ...), style)            style: 'n' named, 't' tuple
  ('enum', sized, tag_name, dflt, ((t, ...), ...), style)
"""
import random

# rust name -> (size, align, order)
INTS = {
    'u8': (1, 1, 'le'), 'u16': (2, 2, 'le'), 'u32': (4, 4, 'le'), 'u64': (8, 8, 'le'), 'u128': (16, 16, 'le'),
    'i8': (1, 1, 'le'), 'i16': (2, 2, 'le'), 'i32': (4, 4, 'le'), 'i64': (8, 8, 'le'), 'i128': (16, 16, 'le'),
    'usize': (8, 8, 'le'), 'isize': (8, 8, 'le'), 'f32': (4, 4, 'le'), 'f64': (8, 8, 'le'),
    'le::U16': (2, 1, 'le'), 'le::U32': (4, 1, 'le'), 'le::U64': (8, 1, 'le'),
    'le::I16': (2, 1, 'le'), 'le::I32': (4, 1, 'le'), 'le::I64': (8, 1, 'le'),
    'be::U16': (2, 1, 'be'), 'be::U32': (4, 1, 'be'), 'be::U64': (8, 1, 'be'),
    'be::I16': (2, 1, 'be'), 'be::I32': (4, 1, 'be'), 'be::I64': (8, 1, 'be'),
    'le::F32': (4, 1, 'le'), 'le::F64': (8, 1, 'le'), 'be::F32': (4, 1, 'be'), 'be::F64': (8, 1, 'be'),
}
LEN_TYPES = ['u8', 'u16', 'u32', 'u64', 'usize', 'le::U16', 'le::U32', 'le::U64', 'be::U16', 'be::U32', 'be::U64']
TAG_TYPES = ['u8', 'u16', 'u32', 'u64']
PORTABLE_INTS = [k for k, v in INTS.items() if v[1] == 1]


def intty_sexp(name):
    s, a, e = INTS[name]
    return '(%d %d %s)' % (s, a, e)


def is_sized(t):
    k = t[0]
    if k in ('unit', 'bool', 'int', 'clike', 'arr'):
        return True
    if k in ('vec', 'str', 'flex'):
        return False
    return t[1]


def wide_len(t):
    """does the type use a length / offset type wider than usize (known finding D15)?"""
    k = t[0]
    if k in ('vec', 'flex'):
        return INTS[t[2]][0] > 8 or wide_len(t[1])
    if k == 'str':
        return INTS[t[1]][0] > 8
    if k == 'arr':
        return wide_len(t[1])
    if k == 'struct':
        return any(wide_len(f) for f in t[2])
    if k == 'enum':
        return any(wide_len(f) for v in t[4] for f in v)
    return False


def has_default(t):
    k = t[0]
    if k in ('unit', 'bool', 'int', 'clike', 'vec', 'str', 'flex'):
        return True
    if k == 'arr':
        return t[2] <= 32 and has_default(t[1])
    if k == 'struct':
        # `default = true` on an unsized tuple struct does not compile (Self::DefaultEmplacer(..) is
        # not a constructor): the macro does not accept it
        if not t[1] and t[3].startswith('t'):
            return False
        return all(has_default(f) for f in t[2])
    if k == 'enum':
        return len(t[4][t[3]]) == 0
    raise ValueError(t)


def is_portable(t):
    k = t[0]
    if k in ('unit', 'bool'):
        return True
    if k == 'int':
        return INTS[t[1]][1] == 1
    if k == 'clike':
        return False
    if k == 'arr':
        return is_portable(t[1])
    if k == 'vec' or k == 'flex':
        return is_portable(t[1]) and INTS[t[2]][1] == 1
    if k == 'str':
        return INTS[t[1]][1] == 1
    if k == 'struct':
        return all(is_portable(f) for f in t[2])
    if k == 'enum':
        return INTS[t[2]][1] == 1 and all(is_portable(f) for v in t[4] for f in v)
    raise ValueError(t)


def sexp(t):
    k = t[0]
    if k == 'unit':
        return 'unit'
    if k == 'bool':
        return 'bool'
    if k == 'int':
        return '(int %s)' % intty_sexp(t[1])[1:-1]
    if k == 'clike':
        return '(clike %s %d %d)' % (intty_sexp(t[1]), t[2], t[3])
    if k == 'arr':
        return '(arr %s %d)' % (sexp(t[1]), t[2])
    if k == 'vec':
        return '(vec %s %s)' % (sexp(t[1]), intty_sexp(t[2]))
    if k == 'str':
        return '(str %s)' % intty_sexp(t[1])
    if k == 'flex':
        return '(flex %s %s)' % (sexp(t[1]), intty_sexp(t[2]))
    if k == 'struct':
        return '(struct %s%s)' % ('s' if t[1] else 'u', ''.join(' ' + sexp(f) for f in t[2]))
    if k == 'enum':
        return '(enum %s %s %d%s)' % ('s' if t[1] else 'u', intty_sexp(t[2]), t[3],
                                      ''.join(' (' + ' '.join(sexp(f) for f in v) + ')' for v in t[4]))
    raise ValueError(t)


# ---------------------------------------------------------------- layout in python (for generators only)
# mirrors coq/Model/Layout.v; used to size buffers when generating cases, never as an oracle

def ceil_mul(x, m):
    return (x + m - 1) // m * m


def align(t):
    k = t[0]
    if k in ('unit', 'bool'):
        return 1
    if k == 'int':
        return INTS[t[1]][1]
    if k == 'clike':
        return INTS[t[1]][1]
    if k == 'arr':
        return align(t[1])
    if k in ('vec', 'flex'):
        return max(INTS[t[2]][1], align(t[1]))
    if k == 'str':
        return INTS[t[1]][1]
    if k == 'struct':
        return max([1] + [align(f) for f in t[2]])
    if k == 'enum':
        return max([INTS[t[2]][1]] + [align(f) for v in t[4] for f in v])


def fold_size(fs):
    acc = 0
    for f in fs:
        acc = ceil_mul(acc, align(f)) + ssize(f)
    return acc


def ssize(t):
    k = t[0]
    if k == 'unit':
        return 0
    if k == 'bool':
        return 1
    if k == 'int' or k == 'clike':
        return INTS[t[1]][0]
    if k == 'arr':
        return t[2] * ssize(t[1])
    if k == 'struct':
        return ceil_mul(fold_size(t[2]), align(t))
    if k == 'enum':
        a = align(t)
        return ceil_mul(ceil_mul(INTS[t[2]][0], a) + max([0] + [fold_size(v) for v in t[4]]), a)
    return 0


def min_size(t):
    k = t[0]
    if k in ('vec', 'flex'):
        return max(INTS[t[2]][0], align(t[1]))
    if k == 'str':
        return INTS[t[1]][0]
    if k == 'struct' and not t[1]:
        return ceil_mul(fold_min_size(t[2]), align(t))
    if k == 'enum' and not t[1]:
        a = align(t)
        return ceil_mul(ceil_mul(INTS[t[2]][0], a) + min(fold_min_size(v) for v in t[4]), a)
    return ssize(t)


def fold_min_size(fs):
    acc = 0
    for i, f in enumerate(fs):
        acc = ceil_mul(acc, align(f)) + (min_size(f) if i + 1 == len(fs) else ssize(f))
    return acc


# ---------------------------------------------------------------- Rust emission

# FlexVec::push_default is only available for item types with FlatDefault: generated types that have one
# override the harness hook (harness/src/probe.rs DeepRead::push_default_to)
PUSH_DEFAULT = '''    fn push_default_to<L: Flat + Length>(v: &mut FlexVec<Self, L>) -> Option<Result<(), Error>> {
        Some(v.push_default().map(|_| ()))
    }
'''


class Emitter:
    def __init__(self):
        self.names = {}       # descriptor -> rust type name
        self.items = []       # rust source chunks
        self.counter = 0

    def rust_ty(self, t):
        k = t[0]
        if k == 'unit':
            return '()'
        if k == 'bool':
            return 'Bool'
        if k == 'int':
            return t[1]
        if k == 'arr':
            return '[%s; %d]' % (self.rust_ty(t[1]), t[2])
        if k == 'vec':
            return 'FlatVec<%s, %s>' % (self.rust_ty(t[1]), t[2])
        if k == 'str':
            return 'FlatString<%s>' % t[1]
        if k == 'flex':
            return 'FlexVec<%s, %s>' % (self.rust_ty(t[1]), t[2])
        if t in self.names:
            return self.names[t]
        # make sure nested definitions come first
        if k == 'struct':
            for f in t[2]:
                self.rust_ty(f)
        if k == 'enum':
            for v in t[4]:
                for f in v:
                    self.rust_ty(f)
        self.counter += 1
        name = 'G%d' % self.counter
        self.names[t] = name
        if k == 'clike':
            self.emit_clike(name, t)
        elif k == 'struct':
            self.emit_struct(name, t)
        elif k == 'enum':
            self.emit_enum(name, t)
        else:
            raise ValueError(t)
        return name

    def attrs(self, t, extra=''):
        parts = []
        if t[0] in ('struct', 'enum') and not t[1]:
            parts.append('sized = false')
        if t[0] == 'clike':
            parts.append('tag_type = "%s"' % t[1])
        if t[0] == 'enum':
            parts.append('tag_type = "%s"' % t[2])
        if has_default(t):
            parts.append('default = true')
        if t[0] in ('struct', 'enum') and t[-1].endswith('p'):
            parts.append('portable = true')
        return '#[flat(%s)]' % ', '.join(parts) if parts else '#[flat]'

    def emit_clike(self, name, t):
        _, tag, n, dflt = t
        vs = ''.join('    %sV%d,\n' % ('#[default] ' if i == dflt else '', i) for i in range(n))
        arms = ''.join('            %d => %s::V%d,\n' % (i, name, i) for i in range(n))
        self.items.append(f'''
#[derive(Clone, Copy, PartialEq)]
{self.attrs(t)}
pub enum {name} {{
{vs}}}
impl DeepRead for {name} {{
    fn deep(&self, o: &mut String) {{ write!(o, "{{:#x}}", *self as {tag} as u128).unwrap(); }}
}}
impl FromSpec for {name} {{
    fn from_spec(s: &Spec) -> Self {{
        match s {{
            Spec::Int(v) => match *v {{
{arms}                _ => panic!("bad variant"),
            }},
            Spec::Default => <{name} as Default>::default(),
            _ => panic!("bad spec"),
        }}
    }}
}}
impl_dyn_sized!({name});
''')

    def emit_struct(self, name, t):
        _, sized, fs, style = t
        named = style.startswith('n')
        tys = [self.rust_ty(f) for f in fs]
        acc = (lambda i: 'f%d' % i) if named else (lambda i: '%d' % i)
        if len(fs) == 0:
            body = ';'
        elif named:
            body = ' {\n' + ''.join('    pub f%d: %s,\n' % (i, ty) for i, ty in enumerate(tys)) + '}'
        else:
            body = '(' + ', '.join('pub ' + ty for ty in tys) + ');'
        deep = ''.join('        o.push(\' \'); self.%s.deep(o);\n' % acc(i) for i in range(len(fs)))
        addrs = ''.join('        self.%s.addrs(base, o);\n' % acc(i) for i in range(len(fs)))
        # in-place operations on a container nested as the unsized tail go through the field reference
        hop = ('    fn hop(&mut self, op: &HOp) -> String {\n        self.%s.hop(op)\n    }\n' % acc(len(fs) - 1)
               if (not sized and len(fs) > 0) else '')
        dflt = has_default(t)
        pdef = PUSH_DEFAULT if dflt else ''
        src = f'''
{'#[derive(Clone, PartialEq)]' if sized else ''}
{self.attrs(t)}
pub struct {name}{body}
impl DeepRead for {name} {{
    fn deep(&self, o: &mut String) {{
        o.push_str("(n0");
{deep}        o.push(')');
    }}
    fn addrs(&self, base: usize, o: &mut Vec<(usize, usize)>) {{
        note(self, base, o);
{addrs}    }}
{hop}{pdef}}}
'''
        if sized:
            if len(fs) == 0:
                lit = name
            elif named:
                lit = name + ' { ' + ', '.join('f%d: FromSpec::from_spec(&v[%d])' % (i, i) for i in range(len(fs))) + ' }'
            else:
                lit = name + '(' + ', '.join('FromSpec::from_spec(&v[%d])' % i for i in range(len(fs))) + ')'
            darm = f'            Spec::Default => <{name} as Default>::default(),\n' if dflt else ''
            src += f'''impl FromSpec for {name} {{
    fn from_spec(s: &Spec) -> Self {{
        match s {{
            Spec::Seq(v) => {{ assert_eq!(v.len(), {len(fs)}); {lit} }}
{darm}            _ => panic!("bad spec"),
        }}
    }}
}}
impl_dyn_sized!({name});
'''
        else:
            if named:
                lit = name + 'Init { ' + ', '.join('f%d: Dyn(&v[%d])' % (i, i) for i in range(len(fs))) + ' }'
            else:
                lit = name + 'Init(' + ', '.join('Dyn(&v[%d])' % i for i in range(len(fs))) + ')'
            darm = f'            Spec::Default => <{name} as FlatDefault>::default_emplacer().emplace_unchecked(b),\n' if dflt else ''
            body = f'''        match self.0 {{
            Spec::Seq(v) => {{ assert_eq!(v.len(), {len(fs)}); {lit}.emplace_unchecked(b) }}
{darm}            _ => panic!("bad spec"),
        }}
'''
            src += dyn_impl(name, body)
        self.items.append(src)

    def emit_enum(self, name, t):
        _, sized, tag, dflt, vs, style = t
        named = style.startswith('n')
        variants = ''
        deep_arms = ''
        addr_arms = ''
        spec_arms = ''
        hop_arms = ''
        refname = name if sized else name + 'Ref'
        for k, fs in enumerate(vs):
            tys = [self.rust_ty(f) for f in fs]
            d = '#[default] ' if (k == dflt and has_default(t)) else ''
            vnamed = named and (k % 2 == 0)
            binds = ['b%d' % i for i in range(len(fs))]
            if len(fs) == 0:
                variants += '    %sV%d,\n' % (d, k)
                pat = ''
                lit_s = '%s::V%d' % (name, k)
                lit_u = '%sInitV%d' % (name, k)
            elif vnamed:
                variants += '    %sV%d { %s },\n' % (d, k, ', '.join('f%d: %s' % (i, ty) for i, ty in enumerate(tys)))
                pat = ' { ' + ', '.join('f%d: b%d' % (i, i) for i in range(len(fs))) + ' }'
                lit_s = '%s::V%d { %s }' % (name, k, ', '.join('f%d: FromSpec::from_spec(&v[%d])' % (i, i) for i in range(len(fs))))
                lit_u = '%sInitV%d { %s }' % (name, k, ', '.join('f%d: Dyn(&v[%d])' % (i, i) for i in range(len(fs))))
            else:
                variants += '    %sV%d(%s),\n' % (d, k, ', '.join(tys))
                pat = '(' + ', '.join(binds) + ')'
                lit_s = '%s::V%d(%s)' % (name, k, ', '.join('FromSpec::from_spec(&v[%d])' % i for i in range(len(fs))))
                lit_u = '%sInitV%d(%s)' % (name, k, ', '.join('Dyn(&v[%d])' % i for i in range(len(fs))))
            if not sized:
                if len(fs) == 0:
                    hop_arms += '            %sMut::V%d => "bad".into(),\n' % (name, k)
                else:
                    hop_arms += '            %sMut::V%d%s => %s.hop(op),\n' % (name, k, pat, binds[-1])
            deep_arms += '            %s::V%d%s => { o.push_str("(n%d");%s o.push(\')\'); }\n' % (
                refname, k, pat, k, ''.join(" o.push(' '); %s.deep(o);" % b for b in binds))
            addr_arms += '            %s::V%d%s => {%s }\n' % (
                refname, k, pat, ''.join(' %s.addrs(base, o);' % b for b in binds))
            if sized:
                spec_arms += '            Spec::Var(%d, v) => { assert_eq!(v.len(), %d); %s }\n' % (k, len(fs), lit_s)
            else:
                spec_arms += '            Spec::Var(%d, v) => { assert_eq!(v.len(), %d); %s.emplace_unchecked(b) }\n' % (k, len(fs), lit_u)
        scrut = 'self' if sized else 'self.as_ref()'
        enum_hop = '' if sized else (
            '    #[allow(unused_variables)]\n    fn hop(&mut self, op: &HOp) -> String {\n        match self.as_mut() {\n'
            + hop_arms + '        }\n    }\n')
        src = f'''
{'#[derive(Clone, PartialEq)]' if sized else ''}
{self.attrs(t)}
pub enum {name} {{
{variants}}}
impl DeepRead for {name} {{
    fn deep(&self, o: &mut String) {{
        match {scrut} {{
{deep_arms}        }}
    }}
    fn addrs(&self, base: usize, o: &mut Vec<(usize, usize)>) {{
        note(self, base, o);
        match {scrut} {{
{addr_arms}        }}
    }}
{enum_hop}{PUSH_DEFAULT if has_default(t) else ''}}}
'''
        if sized:
            darm = f'            Spec::Default => <{name} as Default>::default(),\n' if has_default(t) else ''
            src += f'''impl FromSpec for {name} {{
    fn from_spec(s: &Spec) -> Self {{
        match s {{
{spec_arms}{darm}            _ => panic!("bad spec"),
        }}
    }}
}}
impl_dyn_sized!({name});
'''
        else:
            darm = f'            Spec::Default => <{name} as FlatDefault>::default_emplacer().emplace_unchecked(b),\n' if has_default(t) else ''
            body = f'''        match self.0 {{
{spec_arms}{darm}            _ => panic!("bad spec"),
        }}
'''
            src += dyn_impl(name, body)
        self.items.append(src)


def dyn_impl(name, body):
    """`Dyn` as an emplacer of an unsized generated type: both entry points go to the same entry point of
    the library's own emplacer (the checked one is not the trait's default: an emplacer may override it)"""
    return f'''unsafe impl<'a> Emplacer<{name}> for Dyn<'a> {{
    unsafe fn emplace_unchecked(self, b: &mut [u8]) -> Result<&mut {name}, Error> {{
{body}    }}
    fn emplace(self, b: &mut [u8]) -> Result<&mut {name}, Error> {{
{body.replace('.emplace_unchecked(b)', '.emplace(b)')}    }}
}}
'''


def emit_rust(shapes):
    """shapes: list of (id, descriptor). Returns the text of shapes_gen.rs."""
    em = Emitter()
    tops = []
    for sid, t in shapes:
        tops.append((sid, t, em.rust_ty(t)))
    out = ['// @generated by gen/shapes.py — do not edit\n',
           'use crate::probe::*;\nuse crate::impl_dyn_sized;\nuse core::marker::PhantomData;\nuse std::fmt::Write as _;\n',
           'use flatty::{flat, prelude::*, Emplacer, Error, FlatVec, FlatString, FlexVec, portable::{le, be, Bool}, vec::Length};\n']
    out.extend(em.items)
    seen = set()
    for sid, t, rt in tops:
        if rt in seen:
            continue
        seen.add(rt)
        ss = 'Some(<%s as FlatSized>::SIZE)' % rt if is_sized(t) else 'None'
        d = 'Some(<%s>::default_in_place(b).map(|_| ()))' % rt if has_default(t) else 'None'
        wd = 'Some(::flatty::FlatWrap::<%s, &mut [u8]>::default_in_place(b).map(|_| ()))' % rt if has_default(t) else 'None'
        sd = 'Ok(g.default_in_place())' if has_default(t) else 'Err(g)'
        out.append(f'''
impl Probe for {rt} {{
    const STATIC_SIZE: Option<usize> = {ss};
    fn dflt(b: &mut [u8]) -> Option<Result<(), Error>> {{ let _ = &b; {d} }}
    fn wrap_dflt(b: &mut [u8]) -> Option<Result<(), Error>> {{ let _ = &b; {wd} }}
    fn send_dflt_b<'a, B: flatty_io::blocking::WriteBuffer + 'a>(
        g: flatty_io::blocking::UninitSendGuard<'a, Self, B>,
    ) -> Result<Result<flatty_io::blocking::SendGuard<'a, Self, B>, Error>, flatty_io::blocking::UninitSendGuard<'a, Self, B>> {{
        {sd}
    }}
    fn send_dflt_a<'a, B: flatty_io::async_::AsyncWriteBuffer + 'a>(
        g: flatty_io::async_::UninitSendGuard<'a, Self, B>,
    ) -> Result<Result<flatty_io::async_::SendGuard<'a, Self, B>, Error>, flatty_io::async_::UninitSendGuard<'a, Self, B>> {{
        {sd}
    }}
}}
''')
    out.append('pub const SHAPES: &[&str] = &[\n' + ''.join('    "%s %s",\n' % (sid, sexp(t)) for sid, t, _ in tops) + '];\n')
    out.append('pub fn ops(id: &str) -> Option<Box<dyn Ops>> {\n    match id {\n'
               + ''.join('        "%s" => Some(Box::new(TypeOps::<%s>(PhantomData))),\n' % (sid, rt) for sid, _, rt in tops)
               + '        _ => None,\n    }\n}\n')
    return ''.join(out)


# ---------------------------------------------------------------- corpus of shapes

def I(n):
    return ('int', n)


U8, U16, U32, U64, U128 = I('u8'), I('u16'), I('u32'), I('u64'), I('u128')
BOOL = ('bool',)
UNIT = ('unit',)


def S(*fs, style='n'):
    return ('struct', True, tuple(fs), style)


def US(*fs, style='n'):
    return ('struct', False, tuple(fs), style)


def E(tag, dflt, *vs, style='n'):
    return ('enum', True, tag, dflt, tuple(tuple(v) for v in vs), style)


def UE(tag, dflt, *vs, style='n'):
    return ('enum', False, tag, dflt, tuple(tuple(v) for v in vs), style)


def V(t, l):
    return ('vec', t, l)


def FS(l):
    return ('str', l)


def FX(t, l):
    return ('flex', t, l)


def A(t, n):
    return ('arr', t, n)


def CL(tag, n, d=0):
    return ('clike', tag, n, d)


def fixed_shapes():
    """hand-picked: every shape named in the properties / DESIGN §1.1, the shapes of the test suite,
    one shape per branch of wf"""
    sb = S(U32, BOOL)                      # struct {u32, Bool}
    inner = UE('u8', 0, [], [V(U8, 'u8')])
    return [
        # leaves
        U8, U32, I('i64'), I('f32'), U128, I('le::U16'), I('be::U32'), I('be::F64'), BOOL, UNIT,
        CL('u8', 3), CL('u16', 5, 2), CL('u32', 2, 1),
        A(U16, 3), A(BOOL, 4), A(A(U8, 2), 3), A(U32, 0),
        # arrays whose element size differs from its alignment, with constrained bytes in later elements
        A(A(BOOL, 2), 3), A(sb, 2), S(U8, A(S(U16, BOOL), 3)), A(S(BOOL, BOOL, BOOL), 2), A(E('u8', 0, [], [U32]), 2),
        # sized structs / enums (tests/src/sized_struct, sized_enum)
        S(U8, U16, U32, A(U64, 4)), S(U8, U64, U8), S(), S(U8, style='t'), S(BOOL, U16, BOOL, style='t'),
        E('u8', 0, [], [I('i32')], [U8, U16], [U32]),
        E('u16', 1, [U8], [], [U64, U8]),
        E('u8', 0, [], [U128]),
        E('u32', 0, [], [U8, U8, U8]),
        S(U8, E('u8', 0, [], [U32]), U8),
        sb,
        # containers
        V(U8, 'u8'), V(U8, 'u16'), V(U8, 'u32'), V(U8, 'u64'), V(I('i32'), 'u16'), V(I('i16'), 'u32'), V(U64, 'u8'),
        V(A(U8, 3), 'u16'), V(sb, 'u32'), V(BOOL, 'u8'), V(U16, 'le::U16'), V(U32, 'be::U32'), V(I('le::U32'), 'le::U16'),
        V(UNIT, 'u8'), V(A(U8, 3), 'u8'), V(S(U8, U16), 'u8'),
        FS('u8'), FS('u16'), FS('u32'), FS('u64'), FS('le::U16'), FS('be::U32'),
        FX(U8, 'u8'), FX(U32, 'u8'), FX(V(I('i32'), 'u16'), 'u16'), FX(V(U8, 'u8'), 'u8'), FX(FS('u16'), 'u16'),
        FX(FS('le::U16'), 'be::U16'), FX(U8, 'u16'), FX(V(U8, 'u8'), 'le::U16'), FX(FX(U8, 'u8'), 'u8'), FX(sb, 'u8'), FX(U64, 'u32'),
        # unsized structs (tests/src/unsized_struct; D3, D18)
        US(U8, U16, V(U64, 'u32')),
        US(U32, V(U8, 'u16')), US(U32, V(U8, 'u8')), US(U8, V(U8, 'u8')), US(V(U8, 'u8')),
        US(U8, FS('u16')), US(U64, FX(V(U8, 'u8'), 'u8')), US(U16, V(U32, 'u8'), style='t'),
        US(BOOL, A(BOOL, 2), V(sb, 'u32')),
        US(U8, US(U16, V(U8, 'u16'))),
        # sized fields that need padding in front of them, then a less aligned unsized tail
        US(U8, U32, FS('u8')), US(U8, U64, V(U8, 'u8')), US(U16, U8, U32, V(U16, 'u8')), US(U8, U16, U8, U64, FS('u16')),
        # a sized prefix that does not end on the struct's alignment, then a tail less aligned than the struct
        US(U32, U8, V(U8, 'u8')), US(U64, U16, FS('u8')), US(U32, U16, U8, FX(U8, 'u8')), US(U64, U8, V(U16, 'u8')),
        UE('u8', 0, [], [U32, U8, V(U8, 'u8')], [U64, U16, FS('u8')]),
        # three or more fields with a padded middle field and a low-aligned last field
        E('u8', 0, [], [U8, U32, U16]), UE('u8', 0, [], [U8, U32, U16]), US(U8, U16, V(U32, 'u32')),
        UE('u8', 0, [], [U8, U16, V(U32, 'u32')]), US(U8, U16, U32, FS('u8')),
        FX(V(U16, 'u16'), 'le::U32'), FX(V(U8, 'le::U16'), 'le::U16'), V(U8, 'le::U32'), V(I('le::U32'), 'be::U16'),
        UE('u8', 0, [], [U8, U32, V(U8, 'u8')]), UE('u8', 0, [], [U8, U64, FS('u8')], [U16, U8, U32, FX(U8, 'u8')]),
        # unsized enums (tests/src/unsized_enum; D2, D13, D8)
        UE('u8', 0, [], [U8, U16], [U32, V(U8, 'u16')]),
        UE('u8', 0, [], [I('i32')], [V(U8, 'u16')]),
        UE('u16', 0, [], [U8], [U64, V(U32, 'u8')]),
        UE('u8', 0, [U8, U8, U8], [U8, inner]),
        UE('u32', 1, [V(U8, 'u8')], [], [FS('u8')]),
        UE('u8', 0, [], [FX(V(U8, 'u8'), 'u8')]),
        UE('u8', 0, [], [U32]),
        inner,
        # enums WITHOUT a unit variant whose smallest variant is not a multiple of the alignment (MIN_SIZE rounding)
        UE('u8', 0, [U8], [U32, U8]), UE('u8', 0, [U8, U8, U8], [U32]), UE('u16', 0, [U8, V(U8, 'u8')], [U32, U16]),
        US(U16, UE('u8', 0, [U8], [U32, U8])), FX(UE('u8', 0, [U8], [U32, U8]), 'u16'),
        # a zero-sized field in the middle, followed by a more aligned field (the position walk over a field of size 0)
        S(U8, UNIT, U32), S(U8, A(U16, 0), U32), S(U8, A(U64, 0), U8), E('u8', 0, [], [U8, UNIT, U32], [U16, A(U32, 0), U8]),
        US(U8, UNIT, V(U32, 'u8')), US(U8, A(U32, 0), FS('u8')), UE('u8', 0, [], [U8, UNIT, U32, V(U8, 'u8')], [U8, S(), U64]),
        # FlexVecs of zero-sized items (an item needs an offset slot and nothing else) and of items of MIN_SIZE 0
        FX(UNIT, 'u8'), FX(UNIT, 'u16'), FX(S(), 'u8'), FX(A(U32, 0), 'u8'), US(U8, FX(UNIT, 'u8')),
        # a zero-sized but aligned field in front of the unsized tail of an enum variant; arrays of enums / Bools as
        # FlexVec items (an array validated from a slice longer than itself); alignment that comes from a length type
        # only; unsized tuple-style portable structs; 64-bit portable length types
        UE('u8', 0, [], [U8, A(U64, 0), V(U8, 'u8')]), UE('u8', 0, [], [U8, A(U32, 0), U8, FS('u8')]),
        FX(A(E('u8', 0, [], [U8]), 2), 'u8'), FX(A(BOOL, 3), 'u8'), FX(A(CL('u8', 3), 2), 'u16'),
        UE('u8', 0, [], [V(U8, 'u32')]), FX(US(U8, V(U8, 'u32')), 'u8'), US(U8, FS('u32')),
        ('struct', False, (I('le::U16'), I('le::U32'), V(U8, 'le::U16')), 'tp'),
        ('struct', False, (I('be::U16'), BOOL, FS('le::U16')), 'tp'),
        V(U8, 'le::U64'), FS('be::U64'), FX(V(U8, 'u8'), 'le::U64'), V(I('le::U16'), 'be::U64'),
        # portable enums with a FlexVec variant whose offset type is larger than its alignment (OFFSET_SIZE > ALIGN) next
        # to smaller variants: an assignment that is one byte short must be refused before the tag is written
        ('enum', False, 'u8', 0, ((), (FX(V(U8, 'u8'), 'le::U16'),), (I('le::U32'), FX(V(U8, 'u8'), 'le::U16'))), 'np'),
        ('enum', False, 'u8', 1, ((FX(U8, 'be::U32'),), (), (BOOL, FX(FS('u8'), 'le::U16'))), 'tp'),
        # FlexVecs of FlexVecs (an item that grows and shrinks in place), also as the tail of a struct
        FX(FX(U32, 'u32'), 'u32'), FX(FX(U8, 'u8'), 'u16'), FX(FX(V(U8, 'u8'), 'u8'), 'u8'), US(U16, FX(FX(U8, 'u8'), 'u8')),
        # the #[default] unit variant declared last and the only smallest one; wide tags
        UE('u8', 2, [U32, V(U8, 'u16')], [U32], []), US(U8, UE('u8', 1, [U16, V(U16, 'u16')], [])),
        UE('u16', 2, [U32, V(U8, 'u16')], [U32], []), UE('u32', 1, [U8, FS('u8')], []), UE('u16', 0, [], [U8, V(U8, 'u8')]),
        # a FlexVec of unsized enums whose variant has two padded sized fields and a low-aligned tail
        FX(UE('u8', 0, [], [U8, U32, U8, U32, V(U8, 'u8')]), 'u16'),
        # portable composites
        ('enum', False, 'u8', 1, ((I('le::U32'),), (), (BOOL, V(U8, 'le::U16'))), 'np'),
        ('enum', True, 'u8', 2, ((I('be::U16'),), (BOOL, BOOL), ()), 'np'),
        ('struct', True, (I('le::U32'), BOOL, I('be::I16')), 'np'),
        ('struct', False, (I('le::U16'), V(I('be::U32'), 'le::U16')), 'np'),
        ('enum', False, 'u8', 0, ((), (I('le::U32'),), (BOOL, V(U8, 'le::U16'))), 'np'),
        ('struct', False, (U8, FX(FS('le::U16'), 'le::U16')), 'np'),
        ('enum', True, 'u8', 0, ((), (I('be::U32'),), (BOOL, I('le::U16'))), 'np'),
        FX(('struct', False, (I('be::U16'), V(I('le::U32'), 'u8')), 'np'), 'be::U16'),
        ('struct', True, (U8, ('struct', True, (I('le::U64'), BOOL), 'tp'), A(I('be::I16'), 2)), 'np'),
        # nesting
        US(U8, UE('u8', 0, [], [U16, V(U16, 'u16')])),
        FX(US(U16, V(U8, 'u8')), 'u16'),
        FX(UE('u8', 0, [], [U32], [V(U8, 'u8')]), 'u16'),
        FX(UE('u8', 0, [], [U32], [V(U8, 'u8')]), 'u8'),
    ]


LEAF_CLASSES = [U8, U16, U32, U64, U128, A(U8, 3), A(U16, 3), I('le::U16'), I('be::U32'), BOOL]


def random_sized(rng, depth):
    r = rng.random()
    if depth <= 0 or r < 0.45:
        return rng.choice(LEAF_CLASSES + [I('i16'), I('f64'), I('le::I64'), I('be::F32'), UNIT])
    if r < 0.55:
        return CL(rng.choice(TAG_TYPES), rng.randint(1, 5), 0)
    if r < 0.65:
        return A(random_sized(rng, depth - 1), rng.randint(0, 3))
    if r < 0.85:
        n = rng.randint(0, 4)
        return ('struct', True, tuple(random_sized(rng, depth - 1) for _ in range(n)), rng.choice('nt'))
    nv = rng.randint(1, 4)
    vs = [tuple(random_sized(rng, depth - 1) for _ in range(rng.randint(0, 3))) for _ in range(nv)]
    # the #[default] unit variant sits at a random position (first, middle or last)
    k = rng.randrange(nv)
    vs[k] = ()
    return ('enum', True, rng.choice(TAG_TYPES), k, tuple(vs), rng.choice('nt'))


def random_unsized(rng, depth):
    r = rng.random()
    l = rng.choice(LEN_TYPES)
    if depth <= 0 or r < 0.3:
        k = rng.random()
        if k < 0.5:
            return V(random_sized(rng, 1), l)
        if k < 0.75:
            return FS(l)
        return FX(random_any(rng, 0), l)
    if r < 0.45:
        return FX(random_any(rng, depth - 1), l)
    if r < 0.75:
        n = rng.randint(0, 3)
        fs = [random_sized(rng, depth - 1) for _ in range(n)] + [random_unsized(rng, depth - 1)]
        return ('struct', False, tuple(fs), rng.choice('nt'))
    nv = rng.randint(1, 4)
    vs = []
    for _ in range(nv):
        n = rng.randint(0, 3)
        if n == 0:
            vs.append(())
        else:
            vs.append(tuple([random_sized(rng, depth - 1) for _ in range(n - 1)] + [random_any(rng, depth - 1)]))
    k = rng.randrange(nv)
    if rng.random() < 0.7 or len(vs[k]) == 0:
        vs[k] = ()        # (otherwise: no unit variant, hence no #[default]: has_default is False for such an enum)
    if all(len(v) == 0 for v in vs):
        vs.append((random_any(rng, depth - 1),))
    return ('enum', False, rng.choice(TAG_TYPES), k, tuple(vs), rng.choice('nt'))


def random_any(rng, depth):
    return random_unsized(rng, depth) if rng.random() < 0.6 else random_sized(rng, depth)


PORTABLE_LENS = ['u8', 'le::U16', 'le::U32', 'be::U16', 'be::U32', 'le::U64']


def random_portable(rng, depth, sized=None):
    """a type every scalar, length type and tag of which has alignment 1, declared portable = true"""
    if sized is None:
        sized = rng.random() < 0.4
    leaf = lambda: rng.choice([U8, I('i8'), BOOL, I('le::U16'), I('be::U32'), I('le::I64'), I('be::F32'), I('le::F64'),
                               I('be::I16')])
    if sized:
        r = rng.random()
        if depth <= 0 or r < 0.4:
            return leaf()
        if r < 0.5:
            return A(random_portable(rng, depth - 1, True), rng.randint(0, 3))
        if r < 0.78:
            n = rng.randint(1, 4)
            return ('struct', True, tuple(random_portable(rng, depth - 1, True) for _ in range(n)), rng.choice(['np', 'tp']))
        nv = rng.randint(2, 4)
        vs = [tuple(random_portable(rng, depth - 1, True) for _ in range(rng.randint(0, 3))) for _ in range(nv)]
        k = rng.randrange(nv)
        vs[k] = ()
        return ('enum', True, 'u8', k, tuple(vs), rng.choice(['np', 'tp']))
    r = rng.random()
    l = rng.choice(PORTABLE_LENS)
    if depth <= 0 or r < 0.3:
        k = rng.random()
        if k < 0.5:
            return V(random_portable(rng, 1, True), l)
        if k < 0.75:
            return FS(l)
        return FX(random_portable(rng, 0), l)
    if r < 0.45:
        return FX(random_portable(rng, depth - 1), l)
    if r < 0.75:
        n = rng.randint(0, 3)
        fs = [random_portable(rng, depth - 1, True) for _ in range(n)] + [random_portable(rng, depth - 1, False)]
        return ('struct', False, tuple(fs), rng.choice(['np', 'tp']))
    nv = rng.randint(2, 4)
    vs = []
    for _ in range(nv):
        n = rng.randint(0, 3)
        if n == 0:
            vs.append(())
        else:
            vs.append(tuple([random_portable(rng, depth - 1, True) for _ in range(n - 1)] + [random_portable(rng, depth - 1)]))
    k = rng.randrange(nv)
    vs[k] = ()
    if all(len(v) == 0 for v in vs):
        vs.append((random_portable(rng, depth - 1),))
    return ('enum', False, 'u8', k, tuple(vs), rng.choice(['np', 'tp']))


def declared_portable(t):
    """the C17 population: #[flat(portable = true)] items, and containers of portable items with portable lengths"""
    if not is_portable(t):
        return False
    if t[0] in ('struct', 'enum'):
        return t[-1].endswith('p')
    if t[0] in ('vec', 'flex', 'arr'):
        return declared_portable(t[1]) or t[1][0] in ('int', 'bool', 'unit')
    return t[0] in ('str', 'int', 'bool')


def small_layer():
    """systematic small layer: field selections of length <= 2 over the (size, align) classes,
    as sized struct, sized enum variant, and prefix of an unsized struct / enum variant"""
    out = []
    cls = [U8, U16, U32, U64, U128, A(U8, 3), I('le::U16')]
    tails = [V(U8, 'u8'), V(U32, 'u16'), FS('u32'), FX(V(U16, 'u8'), 'u8')]
    for a in cls:
        for b in cls:
            out.append(S(a, b))
            out.append(E('u8', 0, [], [a, b]))
    for a in cls:
        for tl in tails:
            out.append(US(a, tl))
            out.append(UE('u8', 0, [], [a, tl]))
    for a in cls:
        for b in cls:
            for tl in tails[:2]:
                out.append(US(a, b, tl))
                out.append(UE('u16', 0, [], [a, b, tl]))
    return out


def known_shapes():
    """shapes that exhibit a listed known finding (known_findings.txt)"""
    return [V(U8, 'u128'), FS('u128'), FX(U8, 'u128')]


def build(seed, n_random, with_small=False):
    rng = random.Random(seed)
    ts = list(fixed_shapes()) + known_shapes()
    if with_small:
        ts += small_layer()
    for _ in range(n_random):
        ts.append(random_any(rng, 3))
    rngp = random.Random(seed * 613 + 5)
    for _ in range(max(6, n_random // 4)):
        ts.append(random_portable(rngp, 3))
    seen = set()
    shapes = []
    for t in ts:
        if t in seen:
            continue
        seen.add(t)
        shapes.append(('s%04d' % len(shapes), t))
    return shapes


if __name__ == '__main__':
    import sys
    seed = int(sys.argv[1]) if len(sys.argv) > 1 else 1
    n = int(sys.argv[2]) if len(sys.argv) > 2 else 40
    shapes = build(seed, n)
    sys.stdout.write(emit_rust(shapes))
