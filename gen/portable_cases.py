#!/usr/bin/env python3
"""portable_cases.py — C16: every portable scalar type; exhaustive for 16-bit types and Bool,
boundary x boundary plus seeded values for wider ones."""
import random

INTS = {'le::U16': (2, False), 'le::U32': (4, False), 'le::U64': (8, False), 'le::I16': (2, True), 'le::I32': (4, True),
        'le::I64': (8, True), 'be::U16': (2, False), 'be::U32': (4, False), 'be::U64': (8, False), 'be::I16': (2, True),
        'be::I32': (4, True), 'be::I64': (8, True)}
FLOATS = {'le::F32': 4, 'le::F64': 8, 'be::F32': 4, 'be::F64': 8}
BIN = ['add', 'sub', 'mul', 'div', 'rem', 'addassign', 'subassign', 'mulassign', 'divassign', 'remassign', 'pcmp', 'eq',
       'cmp', 'min', 'max']
UN = ['roundtrip', 'iszero', 'tou64', 'toi64', 'tousize', 'fromu64', 'fromi64', 'fromusize', 'numcast', 'display', 'radix']
CONST = ['zero', 'one', 'minv', 'maxv', 'default']
SIGNED = ['neg', 'abs', 'signum', 'ispos', 'isneg']
FBIN = ['add', 'sub', 'mul', 'div', 'rem', 'addassign', 'subassign', 'mulassign', 'divassign', 'remassign', 'pcmp', 'eq']
FUN = ['roundtrip', 'neg', 'iszero', 'tou64', 'toi64', 'fromu64', 'fromi64', 'numcast', 'numcasti', 'radix', 'display']


def boundary(n):
    m = 256 ** n
    return sorted(set([0, 1, 2, m - 1, m - 2, m // 2, m // 2 - 1, m // 2 + 1, 0x7f, 0x80, 0xff, 0x100 % m, 255 * (m // 256),
                       0x0102030405060708 % m, m // 3]))


def fboundary(n):
    if n == 4:
        return [0, 0x80000000, 0x3f800000, 0xbf800000, 0x7f800000, 0xff800000, 0x7fc00000, 0x7fc00001, 0xffc12345, 0x7f800001,
                0x00000001, 0x007fffff, 0x00800000, 0x7f7fffff, 0x4b000000, 0x5f000000, 0xdf000001, 0x40490fdb]
    return [0, 1 << 63, 0x3ff0000000000000, 0xbff0000000000000, 0x7ff0000000000000, 0xfff0000000000000, 0x7ff8000000000000,
            0x7ff8000000000001, 0xfff8123456789abc, 0x7ff0000000000001, 1, 0x000fffffffffffff, 0x0010000000000000,
            0x7fefffffffffffff, 0x4330000000000000, 0x43e0000000000000, 0xc3e0000000000001, 0x400921fb54442d18]


def generate(seed, tier='quick'):
    rng = random.Random(seed * 911 + 17)
    lines = []

    def add(ty, op, *args):
        lines.append('P p%d %s %s %s' % (len(lines), ty, op, ' '.join(args)))
    for ty, (n, signed) in INTS.items():
        m = 256 ** n
        if n == 2:
            vals = range(m)                       # exhaustive
        else:
            vals = boundary(n) + [rng.randrange(m) for _ in range(400 if tier == 'quick' else 4000)]
        for v in vals:
            add(ty, 'enc', hex(v))
            add(ty, 'dec', v.to_bytes(n, 'big').hex())
        pts = boundary(n) + [rng.randrange(m) for _ in range(6 if tier == 'quick' else 40)]
        for a in pts:
            for op in UN + (SIGNED if signed else []):
                add(ty, op, hex(a))
            for b in pts:
                for op in BIN + (['abssub'] if signed else []):
                    add(ty, op, hex(a), hex(b))
        if n == 2 and tier == 'thorough':
            for a in range(0, m, 251):
                for b in range(0, m, 509):
                    for op in ('add', 'mul', 'div', 'cmp'):
                        add(ty, op, hex(a), hex(b))
        for op in CONST:
            add(ty, op, '0')
    for ty, n in FLOATS.items():
        m = 256 ** n
        vals = fboundary(n) + [rng.randrange(m) for _ in range(400 if tier == 'quick' else 4000)]
        for v in vals:
            add(ty, 'enc', hex(v))
            add(ty, 'dec', v.to_bytes(n, 'big').hex())
        pts = fboundary(n) + [rng.randrange(m) for _ in range(4)]
        for a in pts:
            for op in FUN:
                add(ty, op, hex(a))
            for b in pts:
                for op in FBIN:
                    add(ty, op, hex(a), hex(b))
        # integer operands of the conversions from integers: 64-bit values that are not bit patterns of the type,
        # around the points where rounding to the mantissa is decided (exact midpoints, one above, one below; a
        # conversion through a wider float rounds those twice)
        M = 64
        ints = [0, 1, 2 ** 24, 2 ** 24 + 1, 2 ** 24 + 3, 2 ** 53, 2 ** 53 + 1, 2 ** 53 + 3, 2 ** 63, 2 ** 63 - 1, 2 ** 63 + 1,
                2 ** 64 - 1, 2 ** 64 - 2 ** 10, 2 ** 64 - 2 ** 39, 2 ** 64 - 2 ** 39 - 1]
        for mant in (24, 53):
            for _ in range(6 if tier == 'quick' else 60):
                top = rng.randrange(mant + 2, M + 1)                  # bit length of the integer
                hi = (1 << (mant - 1)) | rng.randrange(1 << (mant - 1))  # the mantissa kept
                half = 1 << (top - mant - 1)
                base = hi << (top - mant)
                for d in (0, 1, -1, rng.randrange(half) if half > 1 else 0):
                    ints.append((base + half + d) % 2 ** 64)
                    ints.append((2 ** 64 - (base + half + d)) % 2 ** 64)
        for a in ints:
            for op in ('fromu64', 'fromi64', 'numcast', 'numcasti'):
                add(ty, op, hex(a))
        for op in CONST:
            add(ty, op, '0')
    for b in range(256):
        add('Bool', 'val', '%02x' % b)
        add('Bool', 'dec', '%02x' % b)
        # a Bool at the front of a longer slice (a field followed by other fields): only its own byte counts
        for tail in ('00', '01', '02', 'ff02', '0100', '%02x' % (b ^ 1)):
            add('Bool', 'val', '%02x%s' % (b, tail))
            add('Bool', 'dec', '%02x%s' % (b, tail))
    add('Bool', 'val', '-')
    for a in (0, 1):
        add('Bool', 'enc', str(a))
        for op in ('not', 'roundtrip', 'default'):
            add('Bool', op, str(a))
        for b in (0, 1):
            for op in ('and', 'or', 'xor', 'andassign', 'orassign', 'xorassign', 'eq', 'cmp'):
                add('Bool', op, str(a), str(b))
    return lines
