#!/usr/bin/env python3
"""cases.py — seeded, model-directed case generation for the type-level suites.

stage 1: for every shape, value specs (emplacer expressions) emplaced by the *model* into a large
         garbage buffer -> canonical image, extent.
stage 2: derived cases: emplacement into every buffer length / address offset (E), valid images with
         all prefixes / extensions / byte mutations (M, V), assignments (A), defaults (D).
All random choices come from one random.Random(seed)."""
import random
from shapes import INTS, is_sized, has_default, align, min_size, ssize

UTF8_SAMPLES = [b'', b'a', 'héllo'.encode(), '日本'.encode(), '\U0001F600x'.encode(), b'abcdefgh', 'ab€'.encode(), 'é'.encode()]


def hexs(b):
    return bytes(b).hex() if len(b) else '-'


def gen_int(rng, size):
    m = 256 ** size - 1
    return rng.choice([0, 1, m, m - 1, m // 2, m // 2 + 1, rng.randint(0, m), rng.randint(0, 255)])


def gen_init(t, rng, depth=0, allow_default=True, big=False):
    """returns the s-expression of an emplacer for type t"""
    k = t[0]
    if allow_default and has_default(t) and rng.random() < 0.08:
        return 'default'
    if k == 'unit':
        return '(seq)'
    if k == 'bool':
        return '(i %d)' % rng.randint(0, 1)
    if k == 'int':
        return '(i %#x)' % gen_int(rng, INTS[t[1]][0])
    if k == 'clike':
        return '(i %d)' % rng.randrange(t[2])
    if k == 'arr':
        return '(seq%s)' % ''.join(' ' + gen_init(t[1], rng, depth + 1, allow_default) for _ in range(t[2]))
    if k == 'struct':
        return '(seq%s)' % ''.join(' ' + gen_init(f, rng, depth + 1, allow_default) for f in t[2])
    if k == 'enum':
        v = rng.randrange(len(t[4]))
        return '(var %d%s)' % (v, ''.join(' ' + gen_init(f, rng, depth + 1, allow_default) for f in t[4][v]))
    if k == 'vec':
        r = rng.random()
        if r < 0.1:
            return 'empty'
        n = rng.choice([0, 1, 1, 2, 3, 4, 5, 8] if not big else [5, 8, 8])
        if ssize(t[1]) == 0:
            n = 0
        items = ''.join(' ' + gen_init(t[1], rng, depth + 1, allow_default) for _ in range(n))
        return ('(varr%s)' if rng.random() < 0.5 else '(viter%s)') % items
    if k == 'str':
        if rng.random() < 0.1:
            return 'empty'
        return '(str %s)' % hexs(rng.choice(UTF8_SAMPLES))
    if k == 'flex':
        if rng.random() < 0.12:
            return 'empty'
        n = rng.choice([0, 1, 1, 2, 2, 3]) if depth < 2 else rng.choice([0, 1])
        return '(flex%s)' % ''.join(' ' + gen_init(t[1], rng, depth + 1, allow_default) for _ in range(n))
    raise ValueError(t)


def variant_inits(t, rng):
    """one init per variant for top-level enums, plus container fill levels, so that coverage of the
    value space does not depend on luck"""
    out = []
    if t[0] == 'enum':
        for v in range(len(t[4])):
            out.append('(var %d%s)' % (v, ''.join(' ' + gen_init(f, rng, 1) for f in t[4][v])))
    if has_default(t):
        out.append('default')
    return out


def flex_boundary_inits(t, rng):
    """FlexVec whose offset type is one byte wide: value specs with an item whose step (slot + rounded payload) is
    exactly L::MAX - 1, L::MAX and L::MAX + 1 — the reserved "last item" marker must not be produced as a distance"""
    from shapes import ceil_mul
    out = []
    if t[0] != 'flex' or INTS[t[2]][0] != 1:
        return out
    it = t[1]
    if it[0] == 'vec' and ssize(it[1]) > 0 and it[1][0] in ('int', 'bool'):
        s, d = ssize(it[1]), max(INTS[it[2]][0], align(it[1]))
        cap_n = 256 ** INTS[it[2]][0] - 1
    elif it[0] == 'str':
        s, d = 1, INTS[it[1]][0]
        cap_n = 256 ** INTS[it[1]][0] - 1
    else:
        return out
    al = align(t)
    os_ = max(INTS[t[2]][0], align(it))

    def item(n):
        if it[0] == 'str':
            return '(str %s)' % hexs(bytes([0x61 + (j % 26) for j in range(n)]))
        # the harness instantiates FromArray for N <= 8 only: long items go through vec::FromIterator
        return ('(varr%s)' if n <= 8 else '(viter%s)') % ''.join(' ' + gen_init(it[1], rng, 3, False) for _ in range(n))
    for n in range(0, min(cap_n, 300) + 1):
        step = os_ + ceil_mul(d + s * n, al)
        if step in (254, 255, 256):
            small = item(1 if cap_n >= 1 else 0)
            out.append('(flex %s %s)' % (item(n), small))
            out.append('(flex %s %s %s)' % (small, item(n), small))
    return out[:6]


def flex_prefix_inits(t, rng):
    """FlexVec: a list and the same list with one more item (emplaced over each other's image, a buffer that is
    reused keeps the longer chain's offsets behind the shorter one)"""
    if t[0] != 'flex':
        return []
    x, y, z = (gen_init(t[1], rng, 1) for _ in range(3))
    return ['(flex %s)' % x, '(flex %s %s)' % (x, y), '(flex %s %s %s)' % (x, y, z)]


def vec_len_boundary_inits(t, rng):
    """FlatVec / FlatString whose length type is one byte wide: contents of L::MAX, L::MAX + 1 and 300 items (the
    capacity is clamped to L::MAX whatever the room; flat_vec![..] must check against the clamped value)"""
    out = []
    if t[0] == 'vec' and INTS[t[2]][0] == 1 and t[1][0] in ('int', 'bool') and ssize(t[1]) in (1, 2):
        for n in (255, 256, 300):
            items = ''.join(' ' + gen_init(t[1], rng, 3, False) for _ in range(n))
            out.append('(varr%s)' % items)
        out.append('(viter%s)' % ''.join(' ' + gen_init(t[1], rng, 3, False) for _ in range(256)))
    if t[0] == 'str' and INTS[t[1]][0] == 1:
        for n in (255, 256):
            out.append('(str %s)' % hexs(bytes([0x61 + (j % 26) for j in range(n)])))
    return out


def garbage(rng, n):
    return bytes(rng.randrange(256) for _ in range(n))


def stage1(shapes, seed, per_shape=3):
    """returns (lines, meta): E cases into a 320-byte garbage buffer"""
    rng = random.Random(seed * 7919 + 1)
    lines, meta = [], {}
    for sid, t in shapes:
        inits = variant_inits(t, rng) + flex_boundary_inits(t, rng) + vec_len_boundary_inits(t, rng) + flex_prefix_inits(t, rng)
        while len(inits) < per_shape + (1 if has_default(t) else 0):
            inits.append(gen_init(t, rng))
        seen = set()
        for j, ini in enumerate(inits):
            if ini in seen:
                continue
            seen.add(ini)
            cid = '%s.v%d' % (sid, j)
            buf = garbage(rng, 640)
            lines.append('E %s %s 0 %s %s' % (cid, sid, hexs(buf), ini))
            meta[cid] = {'shape': sid, 'init': ini, 'prefill': buf}
    return lines, meta


def parse_kv(line):
    """'cid head k=v k=v FLAG' -> (cid, head, {k: v}, [flags])"""
    import re
    parts = line.rstrip('\n').split(' ', 2)
    cid = parts[0]
    head = parts[1] if len(parts) > 1 else ''
    rest = parts[2] if len(parts) > 2 else ''
    flags = []
    toks = rest.split(' ')
    while toks and toks[-1] and toks[-1].isupper() and '=' not in toks[-1]:
        flags.append(toks.pop())
    rest = ' '.join(toks)
    kv = {}
    if rest:
        for m in re.finditer(r'(?:^| )([a-z]+)=(.*?)(?= [a-z]+=|$)', rest):
            kv[m.group(1)] = m.group(2)
    return cid, head, kv, flags


MUT_VALUES = [0x00, 0x01, 0x02, 0x7f, 0x80, 0xc0, 0xfe, 0xff]


def stage2(shapes, s1_meta, s1_model, seed, tier='quick'):
    """s1_model: cid -> model result line of stage 1.  Returns (lines, meta)."""
    rng = random.Random(seed * 104729 + 2)
    tmap = dict(shapes)
    lines, meta = [], {}
    images = {}   # cid -> (sid, image bytes, size)
    for cid, m in s1_meta.items():
        res = s1_model.get(cid)
        if res is None:
            continue
        _, head, kv, _ = parse_kv(res)
        if head != 'ok' or not kv.get('size', '').startswith('ok:'):
            continue
        size = int(kv['size'][3:])
        bufhex = kv['buf']
        pre = m['prefill']
        img = bytearray()
        for i in range(size):
            h = bufhex[2 * i:2 * i + 2]
            img.append(pre[i] if h == '??' else int(h, 16))
        images[cid] = (m['shape'], bytes(img), size, m['init'])

    def add(op, cid, sid, off, data, extra='', **md):
        lines.append('%s %s %s %d %s%s' % (op, cid, sid, off, hexs(data), (' ' + extra) if extra else ''))
        md['op'] = op
        md['shape'] = sid
        md['off'] = off
        md['len'] = len(data)
        meta[cid] = md

    by_shape = {}
    for cid, (sid, img, size, ini) in images.items():
        by_shape.setdefault(sid, []).append(cid)

    for cid, (sid, img, size, ini) in images.items():
        t = tmap[sid]
        a = align(t)
        # ---- emplacement: every buffer length 0 .. size + 2a + 1, offset 0; all offsets at a few lengths
        maxlen = size + 2 * a + 1
        lens = range(0, maxlen + 1)
        if size > 96:   # long images: both ends and a seeded sample of the middle
            lens = sorted(set(list(range(0, 12)) + list(range(size - 2 * a - 2, maxlen + 1)) +
                              [rng.randrange(12, size) for _ in range(12)]))
        for n in lens:
            add('E', '%s.E%d' % (cid, n), sid, 0, garbage(rng, n), ini, kind='emplace', base=cid, extent=size)
        for n in sorted(set([max(size - 1, 0), size, size + a])):
            for off in range(1, 2 * a if a > 1 else 2):
                add('E', '%s.E%do%d' % (cid, n, off), sid, off, garbage(rng, n), ini, kind='emplace', base=cid,
                    extent=size)
        # ---- a reused buffer: the same emplacement over the image of every other value of the shape (what an earlier
        #      message left behind: lengths, offsets and terminators that are valid but stale)
        for j, other in enumerate(by_shape[sid]):
            if other == cid or j >= 8:
                continue
            oimg = images[other][1]
            pre = (oimg + garbage(rng, max(0, size - len(oimg)) + a))
            add('E', '%s.U%d' % (cid, j), sid, 0, pre, ini, kind='emplace', base=cid, extent=size)
        # ---- the canonical image: mapping, all prefixes, extensions
        add('M', '%s.M' % cid, sid, 0, img, kind='image', base=cid, size=size)
        cuts = range(0, size)
        if size > 96:
            cuts = sorted(set(list(range(0, 12)) + list(range(size - 2 * a - 2, size)) +
                              [rng.randrange(12, size) for _ in range(12)]))
        for k in cuts:
            add('M', '%s.P%d' % (cid, k), sid, 0, img[:k], kind='prefix', base=cid, cut=k, size=size)
        for j, ext in enumerate([garbage(rng, 1), garbage(rng, a), garbage(rng, a + 1), bytes(2 * a + 3),
                                 bytes([0xff] * (a + 2)), img[:min(size, 2 * a + 1)], garbage(rng, 3 * a + 5)]):
            add('M', '%s.X%d' % (cid, j), sid, 0, img + ext, kind='extension', base=cid, size=size, ext=len(ext))
        # ---- misaligned placements
        from shapes import is_portable
        noff = 8 if (a == 1 and is_portable(t)) else min(2 * a, 17)
        for off in range(1, noff):
            add('V', '%s.O%d' % (cid, off), sid, off, img, kind='offset', base=cid)
        if a == 1 and is_portable(t):
            for off in (2, 3, 5, 7):
                add('E', '%s.E%do%d' % (cid, size, off), sid, off, garbage(rng, size), ini, kind='emplace', base=cid,
                    extent=size)
        # ---- single byte mutations (with slack behind, so that a grown length field can be honoured or refused)
        slack = garbage(rng, rng.choice([0, a, 2 * a + 1]))
        positions = list(range(size))
        if tier == 'quick' and len(positions) > 24:
            positions = positions[:12] + rng.sample(positions[12:], 12)
        for p in positions:
            vals = set(MUT_VALUES) | {(img[p] + 1) & 255, (img[p] - 1) & 255}
            # steps of an alignment unit: an offset / length that stays aligned for a narrower type
            steps = {(img[p] + d) & 255 for d in (2, 4, 8, -2, -4, -8)}
            vals.discard(img[p])
            steps.discard(img[p])
            if tier == 'quick':
                vals = set(rng.sample(sorted(vals), min(4, len(vals)))) | set(rng.sample(sorted(steps), min(3, len(steps))))
            else:
                vals |= steps
            for v in sorted(vals):
                mut = bytearray(img)
                mut[p] = v
                add('M', '%s.B%d_%02x' % (cid, p, v), sid, 0, bytes(mut) + slack, kind='mutation', base=cid, pos=p,
                    val=v)
        # ---- two-site mutations: one header byte changed AND everything behind it zeroed, so that whatever the
        #      changed length / offset / tag now points at reads as "empty" or "terminator" (e.g. a FlexVec offset
        #      that is no longer a multiple of the alignment but lands on a zero slot)
        for p in positions:
            zvals = {(img[p] + 1) & 255, (img[p] + 2) & 255, (img[p] - 1) & 255, (img[p] + a + 1) & 255}
            zvals.discard(img[p])
            if tier == 'quick':
                zvals = set(rng.sample(sorted(zvals), min(2, len(zvals))))
            for v in sorted(zvals):
                mut = bytearray(img[:p + 1]) + bytes(size - p - 1 + 2 * a + 1)
                mut[p] = v
                add('M', '%s.Z%d_%02x' % (cid, p, v), sid, 0, bytes(mut), kind='mutation', base=cid, pos=p, val=v)
        # ---- assignment: current value = this image in a buffer with some slack, replacement = every
        #      init of the same shape (fits / does not fit)
        for j, other in enumerate(by_shape[sid]):
            oini = images[other][3]
            osize = images[other][2]
            for sl in sorted(set([0, a, max(0, osize - size), max(0, osize - size - a), osize])):
                cur = img + garbage(rng, sl)
                add('A', '%s.A%d_%d' % (cid, j, sl), sid, 0, cur, oini, kind='assign', base=cid, repl=other,
                    cur_size=size, repl_size=osize)
        # ---- a length type that cannot count the bytes available: FlatString<u8> / FlatVec<_, u8> over more than
        #      255 slots, replacement longer than 255 (the capacity is clamped to L::MAX, the raw room is not)
        if t[0] == 'str' and INTS[t[1]][0] == 1:
            for n in (255, 256, 290):
                cur = img + garbage(rng, 320)
                add('A', '%s.AL%d' % (cid, n), sid, 0, cur, '(str %s)' % hexs(bytes(0x61 + (j % 26) for j in range(n))),
                    kind='assign', base=cid, repl=cid, cur_size=size, repl_size=1 + n)
        if t[0] == 'vec' and INTS[t[2]][0] == 1 and t[1][0] in ('int', 'bool') and ssize(t[1]) in (1, 2):
            for n in (255, 256, 300):      # (the harness instantiates FromArray<_, N> for these N)
                cur = img + garbage(rng, 320 * ssize(t[1]))
                items = ''.join(' ' + gen_init(t[1], rng, 3, False) for _ in range(n))
                for form in ('varr', 'viter'):
                    add('A', '%s.AL%s%d' % (cid, form[1], n), sid, 0, cur, '(%s%s)' % (form, items),
                        kind='assign', base=cid, repl=cid, cur_size=size, repl_size=min_size(t) + n * ssize(t[1]))
        # ---- a FlexVec whose two-byte offset type cannot count the span of an item: assignment of (BIG, small, MID)
        #      from an iterator — the offset that would seal BIG is not representable, the assignment must fail and
        #      leave a valid value (string items only: their emplacer expression stays compact)
        if t[0] == 'flex' and INTS[t[2]][0] == 2 and t[1][0] == 'str' and INTS[t[1][1]][0] >= 2 and by_shape[sid][0] == cid:
            os_, ed = min_size(t), min_size(t[1])
            for k, n in enumerate([65536 - os_ - ed, 65536 - os_ - ed + 2 * a, 65534 - os_ - ed]):
                big = '(str %s)' % hexs(bytes(0x61 + (x % 26) for x in range(n)))
                mid = '(str %s)' % hexs(bytes(0x41 + (x % 26) for x in range(1000)))
                cur = img + garbage(rng, 65536 + 700)
                add('A', '%s.AB%d' % (cid, k), sid, 0, cur, '(flex %s (str 6869) %s)' % (big, mid), kind='assign', base=cid,
                    repl=cid, cur_size=size, repl_size=70000)
        # ---- default_in_place
    for sid, t in shapes:
        if not has_default(t):
            continue
        a = align(t)
        ms = min_size(t)
        for n in sorted(set([0, max(ms - 1, 0), ms, ms + 1, ms + a, ms + 2 * a + 3, ms + 64])):
            for rep in range(2):
                add('D', '%s.D%d_%d' % (sid, n, rep), sid, 0, garbage(rng, n), kind='default', pair='%s.D%d' % (sid, n))
        for off in range(1, min(2 * a, 5)):
            add('D', '%s.D%do%d' % (sid, ms + a, off), sid, off, garbage(rng, ms + a), kind='default')
    # ---- malformed stream: short strings over a small alphabet
    alpha = [0, 1, 2, 3, 4, 8, 0x7f, 0x80, 0xff]
    for sid, t in shapes:
        a = align(t)
        ms = min_size(t)
        nrand = 12 if tier == 'quick' else 60
        for j in range(nrand):
            n = rng.choice([0, 1, 2, 3, ms, ms + 1, ms + a, ms + rng.randint(0, 3 * a + 8)])
            data = bytes(rng.choice(alpha) if rng.random() < 0.8 else rng.randrange(256) for _ in range(n))
            add('M', '%s.R%d' % (sid, j), sid, rng.choice([0, 0, 0, 1, a]), data, kind='malformed')
    return lines, meta


def type_lines(shapes):
    from shapes import sexp
    return ['T %s %s' % (sid, sexp(t)) for sid, t in shapes]
