#!/usr/bin/env python3
"""manifest.py — writes MANIFEST.json from the registry (run after adding a property)."""
import json, os, sys, glob
sys.path.insert(0, os.path.dirname(os.path.abspath(__file__)))
sys.path.insert(0, os.path.join(os.path.dirname(os.path.abspath(__file__)), '..', 'gen'))
import registry

VERIF = os.path.dirname(os.path.dirname(os.path.abspath(__file__)))
LEVEL = json.load(open(os.path.join(VERIF, 'tools', 'levels.json')))
props = [json.loads(l) for l in open(os.path.join(VERIF, 'properties.jsonl'))]
checks = []
na = []
for p in props:
    pid = p['id']
    if pid in registry.PROPS and (os.path.exists(os.path.join(VERIF, 'coq', 'Props', pid + '.v')) or glob.glob(os.path.join(VERIF, 'coq', 'Props', pid + '_*.v'))) and pid in LEVEL:
        lv = LEVEL[pid]
        checks.append({
            'property_id': pid,
            'quick_cmd': './check %s --tier quick' % pid,
            'thorough_cmd': './check %s --tier thorough' % pid,
            'evidence_file': 'evidence/%s.json' % pid,
            'replay_cmd_template': './check %s --replay {path}' % pid,
            'engine': 'coq-model+correspondence',
            'level_claimed': {'category': 'proof', 'text': lv['text'], 'design_ref': lv.get('design_ref', 'DESIGN.md §5')},
            'level_note': lv['note'],
            'technique': lv.get('technique', 'machine-checked proof in Coq 8.16 about a hand-written Gallina model + '
                                             'differential correspondence check of the model against the code'),
        })
    else:
        na.append({'property_id': pid, 'reason': LEVEL.get(pid, {}).get('na', 'check under construction in this round: '
                   'model and theorem not yet committed; no claim is made')})
man = {
    'version': 1,
    'setup_cmd': './setup.sh',
    'hooks': {'guard': 'flatty_verif', 'enable': 'none needed: the harness uses only the public API of flatty and '
              'flatty-io (no hook commits)', 'baseline_off_cmd': 'cd /repo && cargo test --workspace --no-fail-fast --offline',
              'source_commits': [], 'add_only': True},
    'engines': [{'name': 'coq-model+correspondence', 'path': 'check',
                 'serves_properties': [c['property_id'] for c in checks],
                 'kind_free_text': 'Coq 8.16 theorems (coq/Props) about a Gallina model (coq/Model) tied to /repo on every '
                                   'run by a differential check: generated Rust programs (harness/, gen/) vs the extracted '
                                   'OCaml model (runner/)'}],
    'checks': checks,
    'not_applicable': na,
    'notes': 'See DESIGN.md. fix: commits in /repo repair genuine defects found by these checks; known_findings.txt lists '
             'fixed and open findings.',
}
json.dump(man, open(os.path.join(VERIF, 'MANIFEST.json'), 'w'), indent=1)
print('MANIFEST: %d checks, %d not claimed' % (len(checks), len(na)))
