#!/usr/bin/env python3
"""explore.py — run the type-level suites on both sides and summarise disagreements (development aid)."""
import sys, os, time, collections
sys.path.insert(0, os.path.dirname(os.path.abspath(__file__)))
import vlib
import shapes as shp, cases

seed = int(sys.argv[1]) if len(sys.argv) > 1 else 1
nrand = int(sys.argv[2]) if len(sys.argv) > 2 else 30
t0 = time.time()
shapes = shp.build(seed, nrand)
runner = vlib.build_runner()
harness = vlib.build_harness(shapes)
print('built in %.1fs; %d shapes' % (time.time() - t0, len(shapes)))
tl = cases.type_lines(shapes)
l1, m1 = cases.stage1(shapes, seed)
r1 = vlib.run_model(runner, tl + l1)
l2, m2 = cases.stage2(shapes, m1, r1, seed)
layout = ['L %s.L %s' % (sid, sid) for sid, _ in shapes]
allc = layout + l1 + l2
print('%d cases' % len(allc))
t1 = time.time()
mres = vlib.run_model(runner, tl + allc)
print('model %.1fs' % (time.time() - t1)); t1 = time.time()
rres = vlib.run_rust(harness, allc)
print('rust %.1fs' % (time.time() - t1))
tmap = dict(shapes)
byshape = collections.defaultdict(list)
nd = 0
for l in allc:
    cid = l.split(' ')[1]
    d = vlib.compare_lines(mres.get(cid), rres.get(cid))
    _, _, _, fl = vlib.parse_kv(rres.get(cid, 'x x'))
    if fl: d.append('flags: %s' % fl)
    if d:
        nd += 1
        byshape[l.split(' ')[2]].append((l, d))
print('%d disagreeing cases over %d shapes' % (nd, len(byshape)))
for sid, lst in sorted(byshape.items()):
    print('==', sid, shp.sexp(tmap[sid]), len(lst))
    for l, d in lst[:int(os.environ.get('NSHOW', '2'))]:
        print('   ', l[:200])
        for x in d[:4]:
            print('       ', x[:300])
if os.environ.get('SAMPLES'):
    import random
    rng = random.Random(5)
    for l in rng.sample(allc, int(os.environ['SAMPLES'])):
        cid = l.split(' ')[1]
        print('CASE ', l[:160]); print('  M: ', mres.get(cid)[:300]); print('  R: ', rres.get(cid)[:400])
heads = collections.Counter()
for l in allc:
    cid = l.split(' ')[1]
    heads[(l[0], vlib.norm_res(vlib.parse_kv(rres[cid])[1], 'r').split(':')[0:2].__str__())] += 1
print(sorted(heads.items()))
