#!/usr/bin/env python3
"""mutate.py — systematic mutation run (development aid; complements the hand-made seeded changes).

Generates single-site mutants of the library sources (relational / arithmetic / boolean operator
swaps, ceil_mul <-> floor_mul, max <-> min, `+ 1` / `- 1` dropped, a statement or an early return
removed), and for each one, in a scratch copy of /repo (never /repo itself):

  1. `cargo test --workspace --offline` — a mutant that fails to compile or fails an existing test is
     discarded ("killed by the suite": not interesting here);
  2. the analysis of every property (tools/runall.py, what ./check runs after the Coq step) against
     the mutated copy — which properties report a violation outside the known-finding classes.

A surviving mutant that no property reports is either equivalent / irrelevant to the 20 properties or
a gap in the generators: the list is written to <out>/undetected.txt for manual triage.

    python3 tools/mutate.py gen <out>                 # enumerate mutants -> <out>/mutants.jsonl
    python3 tools/mutate.py run <out> <worker> <nworkers>   # run the worker's share
    python3 tools/mutate.py report <out>
"""
import json
import os
import random
import re
import shutil
import subprocess
import sys

VERIF = os.path.dirname(os.path.dirname(os.path.abspath(__file__)))
REPO = '/repo'
FILES = ['base/src/utils/mod.rs', 'base/src/utils/iter.rs', 'base/src/utils/mem.rs', 'base/src/traits.rs',
         'base/src/emplacer.rs', 'base/src/primitive.rs', 'base/src/error.rs',
         'containers/src/vec.rs', 'containers/src/string.rs', 'containers/src/flex.rs', 'containers/src/wrap.rs',
         'containers/src/bytes.rs',
         'portable/src/int.rs', 'portable/src/float.rs', 'portable/src/bool_.rs', 'portable/src/impl_.rs',
         'io/src/common/io.rs', 'io/src/blocking/io.rs', 'io/src/blocking/recv.rs', 'io/src/blocking/send.rs',
         'io/src/async_/io.rs', 'io/src/async_/recv.rs', 'io/src/async_/send.rs',
         'macros/src/items/base.rs', 'macros/src/items/cast.rs', 'macros/src/items/init.rs',
         'macros/src/items/tag.rs', 'macros/src/items/unsized_.rs', 'macros/src/items/unsized_enum.rs',
         'macros/src/items/align_as.rs', 'macros/src/items/portable.rs']

SWAPS = [
    (r'(?<![<>=!\-+*/&|])<=(?!=)', ['<']), (r'(?<![<>=!\-+*/&|])>=(?!=)', ['>']),
    (r'(?<![<>=!\-&|])<(?![<=])', ['<=']), (r'(?<![<>=!\-&|])>(?![>=])', ['>=']),
    (r'==', ['!=']), (r'!=', ['==']),
    (r'&&', ['||']), (r'\|\|', ['&&']),
    (r'\bceil_mul\(', ['floor_mul(']), (r'\bfloor_mul\(', ['ceil_mul(']),
    (r'\bmax\(', ['min(']), (r'\bmin\(', ['max(']),
    (r' \+ 1\b', ['']), (r' - 1\b', ['']),
    (r' \+ (?=[A-Za-z_(<])', [' - ']), (r' - (?=[A-Za-z_(<])', [' + ']),
    (r' \* (?=[A-Za-z_(<])', [' + ']),
    (r'\bALIGN\b', ['SIZE']), (r'\bSIZE\b', ['ALIGN']),
    (r'\bMIN_SIZE\b', ['ALIGN']),
    (r'\+= ', ['-= ']), (r'-= ', ['+= ']),
    (r'\.start\b', ['.end']), (r'\.end\b', ['.start']),
    (r'\bpos\b', ['0']),
]


def code_lines(path):
    """(line number, text) of lines that are code: outside tests, comments, attributes, generics-only lines"""
    src = open(path).read().splitlines()
    out = []
    in_test = False
    depth_at_test = None
    for n, line in enumerate(src, 1):
        s = line.strip()
        if re.match(r'#\[cfg\(.*\btest\b', s):
            in_test = True
        if in_test:
            continue
        if not s or s.startswith('//') or s.startswith('#[') or s.startswith('use ') or s.startswith('pub use '):
            continue
        out.append((n, line))
    return out


def gen(out):
    os.makedirs(out, exist_ok=True)
    muts = []
    for rel in FILES:
        path = os.path.join(REPO, rel)
        if not os.path.exists(path):
            continue
        for n, line in code_lines(path):
            code = line.split('//')[0]
            # operator / name swaps
            for pat, reps in SWAPS:
                for m in re.finditer(pat, code):
                    # skip generics / type positions for < and >
                    if pat.startswith(r'(?<![<>=!\-&|])<') or pat.startswith(r'(?<![<>=!\-&|])>'):
                        ctx = code[max(0, m.start() - 1):m.end() + 1]
                        if not re.search(r' [<>] ', ctx):
                            continue
                    if pat in (r'\bALIGN\b', r'\bSIZE\b', r'\bMIN_SIZE\b') and re.search(r'\bconst\b', code):
                        continue
                    # trait bounds (`T: Flat + Sized`) and field initialisers (`pos: ..`) are not expressions
                    if pat.startswith((r' \+ (?=', r' - (?=', r' \* (?=')) and (
                            re.search(r'\bimpl\b|\bwhere\b|\bdyn\b|\bfn\b.*<|^\s*\w+: [A-Z?]|^\s*type\b', code)):
                        continue
                    if pat == r'\bpos\b' and (re.match(r'\s*(:|=[^=]|\+=|-=)', code[m.end():]) or
                                               re.search(r'(\.|let |mut |\bfn\b.*)$', code[:m.start()])):
                        continue
                    if re.search(r'\bfn\b', code[:m.start()]):
                        continue
                    for r in reps:
                        new = code[:m.start()] + r + code[m.end():]
                        muts.append({'file': rel, 'line': n, 'kind': 'swap', 'old': line, 'new': new + line[len(code):]})
            s = code.strip()
            # statement deletion: simple statements (assignments, calls) ending in ';'
            if s.endswith(';') and not s.startswith(('let ', 'return', 'pub ', 'type ', 'const ', 'fn ', 'impl', 'use ',
                                                     'break', 'continue', '}', 'unsafe fn', 'static ')) \
                    and s.count('(') == s.count(')') and s.count('{') == s.count('}'):
                muts.append({'file': rel, 'line': n, 'kind': 'delete', 'old': line, 'new': ''})
            # early-return / error removal: `return Err(..);` -> nothing is not type-safe in general; try
            # `if cond {` -> `if false {` instead
            m = re.match(r'^(\s*)(\}? ?(?:else )?if )(?!let\b)(.*)\{\s*$', code)
            if m:
                muts.append({'file': rel, 'line': n, 'kind': 'cond-false', 'old': line,
                             'new': '%s%sfalse && (%s) {' % (m.group(1), m.group(2), m.group(3).strip())})
                muts.append({'file': rel, 'line': n, 'kind': 'cond-true', 'old': line,
                             'new': '%s%strue || (%s) {' % (m.group(1), m.group(2), m.group(3).strip())})
    # de-duplicate, stable order, then shuffle deterministically so that a partial run is a fair sample
    seen = set()
    uniq = []
    for m in muts:
        k = (m['file'], m['line'], m['new'])
        if k in seen or m['new'] == m['old']:
            continue
        seen.add(k)
        uniq.append(m)
    random.Random(7).shuffle(uniq)
    for i, m in enumerate(uniq):
        m['id'] = 'm%04d' % i
    with open(os.path.join(out, 'mutants.jsonl'), 'w') as f:
        for m in uniq:
            f.write(json.dumps(m) + '\n')
    print('%d mutants' % len(uniq))


def sh(cmd, cwd=None, timeout=3600, env=None):
    try:
        p = subprocess.run(cmd, cwd=cwd, shell=True, stdout=subprocess.PIPE, stderr=subprocess.STDOUT, timeout=timeout,
                           env=env)
        return p.returncode, p.stdout.decode('utf-8', 'replace')
    except subprocess.TimeoutExpired as e:
        return 124, (e.stdout or b'').decode('utf-8', 'replace') + '\nTIMEOUT'


def run(out, worker, nworkers, limit=None):
    muts = [json.loads(l) for l in open(os.path.join(out, 'mutants.jsonl'))]
    if limit:
        muts = muts[:limit]
    mine = muts[worker::nworkers]
    sb = '/root/scratch/mut-w%d' % worker
    snap = os.environ.get('SNAP', '/root/scratch/vsnap')
    if not os.path.exists(sb):
        os.makedirs(sb)
        sh('git -C /repo worktree add -q --detach %s/repo HEAD' % sb)
        sh('rsync -a --exclude .git --exclude replays --exclude seeded %s/ %s/verif/' % (snap, sb))
        sh("sed -i 's#\"/repo#\"%s/repo#g' %s/verif/harness/Cargo.toml" % (sb, sb))
    resf = os.path.join(out, 'results-w%d.jsonl' % worker)
    done = set()
    if os.path.exists(resf):
        done = {json.loads(l)['id'] for l in open(resf)}
    env = dict(os.environ, CARGO_NET_OFFLINE='true', VERIF_REPO=sb + '/repo', NSHOW='1')
    for m in mine:
        if m['id'] in done:
            continue
        sh('git checkout -q -- .', cwd=sb + '/repo')
        path = os.path.join(sb, 'repo', m['file'])
        src = open(path).read().split('\n')
        assert src[m['line'] - 1] == m['old'], (m, src[m['line'] - 1])
        src[m['line'] - 1] = m['new']
        open(path, 'w').write('\n'.join(src))
        rec = {'id': m['id'], 'file': m['file'], 'line': m['line'], 'kind': m['kind'], 'old': m['old'].strip(),
               'new': m['new'].strip()}
        rc, o = sh('timeout 900 cargo test --workspace --no-fail-fast --offline 2>&1', cwd=sb + '/repo', timeout=1000, env=env)
        if 'could not compile' in o or 'error[' in o or 'error:' in o and 'test result' not in o:
            rec['status'] = 'no-compile'
        elif rc != 0 or re.search(r'test result: FAILED', o) or rc == 124:
            rec['status'] = 'killed-by-suite'
        else:
            rc, o = sh('timeout 2400 python3 tools/runall.py quick 1 2>&1', cwd=sb + '/verif', timeout=2500, env=env)
            det = {}
            for line in o.splitlines():
                mm = re.match(r'^(C\d\d) cases (\S+) violations (\d+) (\{.*\})', line)
                if mm:
                    kc = eval(mm.group(4), {'__builtins__': {}}, {})
                    if kc.get(None, 0) > 0:
                        det[mm.group(1)] = kc[None]
            if 'Traceback' in o and not det:
                rec['status'] = 'analysis-error'
                rec['log'] = o[-1500:]
            else:
                rec['status'] = 'detected' if det else 'undetected'
                rec['by'] = det
        with open(resf, 'a') as f:
            f.write(json.dumps(rec) + '\n')
        print(rec['id'], rec['status'], rec.get('by', ''), flush=True)
    sh('git checkout -q -- .', cwd=sb + '/repo')


def report(out):
    recs = []
    for f in sorted(os.listdir(out)):
        if f.startswith('results-w'):
            recs += [json.loads(l) for l in open(os.path.join(out, f))]
    import collections
    c = collections.Counter(r['status'] for r in recs)
    print(dict(c))
    surv = [r for r in recs if r['status'] in ('detected', 'undetected')]
    print('survive the existing suite: %d; reported by a check: %d; not reported: %d' % (
        len(surv), c['detected'], c['undetected']))
    with open(os.path.join(out, 'undetected.txt'), 'w') as f:
        for r in sorted(recs, key=lambda r: (r['file'], r['line'])):
            if r['status'] == 'undetected':
                f.write('%s %s:%d [%s]\n    - %s\n    + %s\n' % (r['id'], r['file'], r['line'], r['kind'], r['old'], r['new']))
    bycheck = collections.Counter()
    for r in recs:
        for k in r.get('by', {}):
            bycheck[k] += 1
    print('mutants reported, per property:', dict(sorted(bycheck.items())))


if __name__ == '__main__':
    cmd = sys.argv[1]
    if cmd == 'gen':
        gen(sys.argv[2])
    elif cmd == 'run':
        run(sys.argv[2], int(sys.argv[3]), int(sys.argv[4]), int(sys.argv[5]) if len(sys.argv) > 5 else None)
    elif cmd == 'report':
        report(sys.argv[2])
