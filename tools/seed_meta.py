#!/usr/bin/env python3
"""seed_meta.py <id> <property> <needs_to_manifest> <detected_by; ...> — writes seeded/<id>/meta.json"""
import json, sys, os
sid, prop, needs, det = sys.argv[1:5]
d = os.path.join(os.path.dirname(os.path.dirname(os.path.abspath(__file__))), 'seeded', sid)
json.dump({
    'property': prop, 'breaks': prop, 'needs_to_manifest': needs,
    'confirmed_by': 'tools/confirm_seed.sh in a scratch worktree: demo.diff alone -> whole suite passes; with patch.diff -> '
                    'the pinned baseline tests still pass and the demo fails',
    'checked_with': 'git -C /repo apply patch.diff; tools/runall.py quick 1 <property> (the analysis ./check runs); '
                    'git -C /repo checkout -- .',
    'detected_by': [x.strip() for x in det.split(';') if x.strip()],
    'origin': 'written by a fresh sub-agent that saw only the property text and its own worktree',
}, open(os.path.join(d, 'meta.json'), 'w'), indent=1)
print('meta written for', sid)
