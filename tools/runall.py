#!/usr/bin/env python3
"""runall.py — development aid: analysis of every type-suite property without the Coq step."""
import sys, os
sys.path.insert(0, os.path.dirname(os.path.abspath(__file__)))
sys.path.insert(0, os.path.join(os.path.dirname(os.path.abspath(__file__)), '..', 'gen'))
import suites, registry, collections
tier = sys.argv[1] if len(sys.argv) > 1 else 'quick'
seed = int(sys.argv[2]) if len(sys.argv) > 2 else 1
pids = sys.argv[3:] or [p for p in registry.PROPS]
for pid in pids:
    r = registry.PROPS[pid]['run'](pid, tier, seed)
    v = r['violations']
    kc = collections.Counter(x.get('known_class') for x in v)
    print(pid, 'cases', r['coverage'].get('evaluations'), 'violations', len(v), dict(kc))
    for x in v[:int(os.environ.get('NSHOW', '3'))]:
        print('   ', x['what'][:300]); print('      ', str(x.get('case'))[:200]); print('       impl:', str(x.get('impl'))[:300])
