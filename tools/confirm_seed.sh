#!/bin/sh
# confirm_seed.sh <worktree> <variant-dir> <dest-id>
# Confirms a seeded change in its scratch worktree: (1) demo alone passes with the whole suite,
# (2) with the library change the existing suite still passes and only the demo fails.
# On success copies patch.diff, demo.diff, README.md and writes meta.json under /verif/seeded/<dest-id>/.
WT=$1; VAR=$2; ID=$3; mkdir -p /root/scratch/seedlogs
cd "$WT" || exit 2
git checkout -q -- . && git clean -fdq -e SEEDED -e target
git apply "$VAR/demo.diff" || { echo "demo does not apply"; exit 2; }
cargo test --workspace --no-fail-fast --offline > /root/scratch/seedlogs/$ID.clean.log 2>&1
CLEAN_FAIL=$(grep -c "^test [A-Za-z_:0-9]* \.\.\. FAILED" /root/scratch/seedlogs/$ID.clean.log)
CLEAN_PASS=$(grep -c "^test .* ok$" /root/scratch/seedlogs/$ID.clean.log)
git apply "$VAR/patch.diff" || { echo "patch does not apply"; exit 2; }
cargo test --workspace --no-fail-fast --offline > /root/scratch/seedlogs/$ID.mut.log 2>&1
MUT_FAIL=$(grep "^test [A-Za-z_:0-9]* \.\.\. FAILED" /root/scratch/seedlogs/$ID.mut.log | sort -u)
MUT_FAILN=$(echo "$MUT_FAIL" | grep -c FAILED)
COMPILE_ERR=$(grep -c "could not compile" /root/scratch/seedlogs/$ID.mut.log)
echo "clean: pass=$CLEAN_PASS fail=$CLEAN_FAIL ; mutated: failing=$MUT_FAILN compile_errors=$COMPILE_ERR"
echo "$MUT_FAIL"
# a failing test counts against the seed when it belongs to the pinned baseline suite
python3 - <<'PY' > /root/scratch/seedlogs/$ID.names.txt
import json
for n in json.load(open('/root/.vp/BASELINE.json'))['stable_pass']:
    print(n.split('::', 1)[1])
PY
NON_DEMO=0
for t in $(echo "$MUT_FAIL" | grep FAILED | sed 's/^test \([^ ]*\) .*/\1/'); do
  if grep -qx "$t" /root/scratch/seedlogs/$ID.names.txt; then NON_DEMO=$((NON_DEMO+1)); echo "baseline test fails: $t"; fi
done
git checkout -q -- . && git clean -fdq -e SEEDED -e target
if [ "$CLEAN_FAIL" = "0" ] && [ "$MUT_FAILN" -gt 0 ] && [ "$NON_DEMO" = "0" ] && [ "$COMPILE_ERR" = "0" ]; then
  mkdir -p /verif/seeded/$ID
  cp "$VAR/patch.diff" "$VAR/demo.diff" /verif/seeded/$ID/
  [ -f "$VAR/README.md" ] && cp "$VAR/README.md" /verif/seeded/$ID/
  echo "CONFIRMED $ID"
  exit 0
fi
echo "NOT CONFIRMED"; exit 1
