#!/bin/sh
# wave.sh <worktree-root> <v1> <v2> — development aid: confirms every <root>/Cxx/SEEDED/<v> (serially per worktree,
# worktrees in parallel), then screens every confirmed change in scratch copies (tools/screen.sh) against all properties.
# Output: /root/scratch/wave/<id>.confirm, /root/scratch/wave/<id>.screen
ROOT=$1; shift
mkdir -p /root/scratch/wave
ls $ROOT | grep '^C[0-9][0-9]$' | xargs -P 8 -I{} sh -c 'for v in '"$*"'; do [ -f '$ROOT'/{}/SEEDED/$v/patch.diff ] && /verif/tools/confirm_seed.sh '$ROOT'/{} '$ROOT'/{}/SEEDED/$v {}-$v > /root/scratch/wave/{}-$v.confirm 2>&1; done'
rm -rf /root/scratch/vsnap; rsync -a --exclude .git --exclude replays --exclude seeded /verif/ /root/scratch/vsnap/
for v in "$@"; do ls /verif/seeded | grep -- "-$v\$"; done | SNAP=/root/scratch/vsnap xargs -P 6 -I{} sh -c 'SNAP=/root/scratch/vsnap /verif/tools/screen.sh /verif/seeded/{}/patch.diff {} > /root/scratch/wave/{}.screen 2>&1'
echo wave-done
