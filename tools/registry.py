#!/usr/bin/env python3
"""registry.py — which suites and which analysis decide which property."""
import suites

TRUSTED_BASE = [
    'Coq 8.16.1 kernel (coqc; thorough tier: coqchk); vm_compute only for closed witnesses and non-vacuity '
    'examples; no native_compute',
    'axioms: none declared; Print Assumptions of every property theorem must be "Closed under the global context"',
    'hand-written Gallina model coq/Model/*.v of base, containers, macros (expansion), portable, io of /repo and of '
    'stavec 0.4.2 as reached through Deref (modelled, not verified)',
    'extraction: ExtrOcamlBasic only (Extract Inductive bool, option, unit, list, prod, sumbool); no Extract '
    'Constant; OCaml 4.13.1 driver runner/main.ml; on every run a seeded sample of the cases of each suite is '
    'also evaluated inside Coq (vm_compute in coqc, terms printed by an independent parser, tools/coqcross.py) and '
    'must give exactly what the extracted runner printed',
    'translator tools/translate.py (C04, C05, C07, C15): reads the arithmetic formulas of base/src/utils, containers/src/{vec,string,flex}.rs, '
    'base/src/utils/iter.rs, macros/src/items/base.rs and the buffer window arithmetic of io/src/common/io.rs from the current source into coq/Generated/Kernel.v; trusted to parse '
    'the usize-expression subset faithfully (usize = N, truncated subtraction)',
    'correspondence check: harness/ (Rust, public API of flatty only), gen/*.py generators, tools/*.py comparison',
    'host: x86-64 Linux, 64-bit usize, little endian, repr(C) as implemented by rustc',
]

PROPS = {}


def types_prop(pid, **kw):
    d = {'run': suites.run_property_types}
    d.update(kw)
    PROPS[pid] = d


def merge(*runs):
    """a property decided by several suites: violations are concatenated, counts added"""
    def run(pid, tier, seed):
        viol, cov = [], {}
        for r in runs:
            res = r(pid, tier, seed)
            viol.extend(res['violations'])
            for k, v in res['coverage'].items():
                if k in cov and isinstance(v, int) and isinstance(cov[k], int):
                    cov[k] += v
                elif k in cov and isinstance(v, list):
                    cov[k] = cov[k] + v
                elif k in cov and isinstance(v, str) and v not in cov[k]:
                    cov[k] = cov[k] + ' || ' + v
                elif k in cov and isinstance(v, dict):
                    cov[k] = dict(cov[k], **v)
                else:
                    cov.setdefault(k, v)
        return {'violations': viol, 'coverage': cov}
    return run


for _p in ('C01', 'C02', 'C03', 'C04', 'C06', 'C15', 'C17', 'C18', 'C19', 'C20'):
    types_prop(_p)
PROPS['C17'] = {'run': merge(suites.run_property_types, suites.run_negative_c17, suites.run_property_hist)}
PROPS['C05'] = {'run': merge(suites.run_property_types, suites.run_property_hist)}
for _p in ('C11', 'C12', 'C13'):
    PROPS[_p] = {'run': suites.run_property_hist}
PROPS['C14'] = {'run': merge(suites.run_property_hist, suites.run_property_types, suites.run_miri)}
PROPS['C01'] = {'run': merge(suites.run_property_types, suites.run_miri)}
for _p in ('C07', 'C08', 'C09', 'C10'):
    PROPS[_p] = {'run': suites.run_property_io}

PROPS['C16'] = {'run': suites.run_property_portable}
