#!/usr/bin/env python3
"""wave_summary.py <variant letters> — one line per screened seed: own check reported / missed, every reporting property"""
import glob, os, re, sys
for v in sys.argv[1:]:
    for f in sorted(glob.glob('/root/scratch/wave/C??-%s.screen' % v)):
        sid = os.path.basename(f)[:-7]
        own = sid.split('-')[0]
        det = {}
        err = False
        for line in open(f):
            m = re.match(r'^(C\d\d) cases (\S+) violations (\d+) (\{.*\})', line)
            if m:
                kc = eval(m.group(4), {'__builtins__': {}}, {})
                if kc.get(None, 0) > 0:
                    det[m.group(1)] = kc[None]
            if 'Traceback' in line:
                err = True
        conf = open('/root/scratch/wave/%s.confirm' % sid).read().strip().splitlines()[-1] if os.path.exists('/root/scratch/wave/%s.confirm' % sid) else '?'
        print(sid, 'OWN' if own in det else 'own-MISSED', 'BUILD-ERR' if err else '', conf.split()[0], ' '.join('%s(%d)' % kv for kv in sorted(det.items())))
