#!/usr/bin/env python3
"""hist_oracles.py — oracles over the history suite: a plain Python list run alongside."""
import re
from oracles import expected_content, parse_sexp, strip_caps, num
from hist_cases import vec_geom
from shapes import INTS, align, ssize, min_size


def nested(t):
    """a struct / enum whose last fields lead to a container (mutated in place through the mapped value)"""
    import hist_cases
    return t[0] in ('struct', 'enum') and hist_cases.nested_plan(t) is not None


def applies(pid, t):
    if pid in ('C14', 'C05', 'C13') and nested(t):
        return True
    if pid == 'C17':
        import shapes
        return t[0] in ('vec', 'str', 'flex') and shapes.declared_portable(t)
    if pid == 'C11':
        return t[0] in ('vec', 'str')
    if pid == 'C12':
        return t[0] == 'flex'
    return t[0] in ('vec', 'str', 'flex')


def items_of(view):
    """top-level children of a printed node '(c0x8 a b (n0 ..))' -> (cap or None, [child strings])"""
    assert view.startswith('ok:('), view
    s = view[3:]
    toks = re.findall(r'\(|\)|[^\s()]+', s)
    head = toks[1]
    depth = 0
    items, cur = [], []
    for t in toks[2:-1]:
        if t == '(':
            depth += 1
            cur.append(t)
        elif t == ')':
            depth -= 1
            cur.append(t)
            if depth == 0:
                items.append(render(cur))
                cur = []
        else:
            cur.append(t)
            if depth == 0:
                items.append(render(cur))
                cur = []
    cap = int(head[1:], 16) if head.startswith('c0x') else None
    return cap, items


def render(toks):
    out = ''
    for t in toks:
        if t == ')':
            out += ')'
        elif out.endswith('(') or out == '':
            out += t
        else:
            out += ' ' + t
    return out


def utf8(cp):
    return list(chr(cp).encode('utf-8'))


def c11(t, md, steps, flags):
    """FlatVec / FlatString = an ordinary Vec / String whose growth is refused beyond a fixed capacity"""
    out = []
    if 'EQ-MISMATCH' in flags:
        out.append('equality (==) disagrees with equality of contents: a fresh container with the same contents in a '
                   'different buffer compares unequal, or one with different contents compares equal')
    if steps[0].get('init') != 'ok' or not steps[0].get('view', '').startswith('ok:'):
        return out
    cap0, cur = items_of(steps[0]['view'])
    cur = [strip_caps(x) for x in cur]
    et = t[1] if t[0] == 'vec' else None
    _, _, cap_expected = vec_geom(t, md['len'])
    if steps[0].get('ab', 'ok') != 'ok':
        out.append("initial state: the value's own bytes (as_bytes) do not re-map to the same state: %s" % steps[0].get('ab'))
    if cap0 != cap_expected:
        out.append('capacity %s, expected %d for a %d byte buffer' % (cap0, cap_expected, md['len']))
    d, s, _ = vec_geom(t, md['len'])
    a = align(t)
    for i, (op_s, st) in enumerate(zip(md['ops'], steps[1:]), 1):
        op = parse_sexp(op_s)
        res = st.get('res')
        exp = list(cur)
        want = 'done'
        k = op[0]
        if k == 'push':
            if len(cur) < cap0:
                exp.append(expected_content(et, op[1]))
            else:
                want = 'refused'
        elif k == 'pop':
            if cur:
                exp.pop()
            else:
                want = 'refused'
        elif k == 'pushslice':
            if len(op) - 1 <= cap0 - len(cur):
                exp += [expected_content(et, x) for x in op[1:]]
            else:
                want = 'refused'
        elif k == 'extend':
            exp += [expected_content(et, x) for x in op[1:]][:cap0 - len(cur)]
        elif k == 'truncate':
            exp = exp[:num(op[1])]
        elif k == 'clear':
            exp = []
        elif k == 'remove':
            if num(op[1]) < len(cur):
                del exp[num(op[1])]
            else:
                want = 'panic'
        elif k == 'swapremove':
            j = num(op[1])
            if j < len(cur):
                exp[j] = exp[-1]
                exp.pop()
            else:
                want = 'panic'
        elif k == 'resize':
            n = num(op[1])
            if n <= len(cur):
                exp = exp[:n]
            elif n <= cap0:
                exp += [expected_content(et, op[2])] * (n - len(cur))
            else:
                want = 'panic'
        elif k == 'set':
            j = num(op[1])
            if j < len(cur):
                exp[j] = expected_content(et, op[2])
            else:
                want = 'panic'
        elif k == 'pushstr':
            h = op[1]
            bs = [] if h == '-' else [int(h[2 * x:2 * x + 2], 16) for x in range(len(h) // 2)]
            if len(bs) <= cap0 - len(cur):
                exp += [hex(b) for b in bs]
            else:
                want = 'refused'
        elif k == 'pushchar':
            bs = utf8(num(op[1]))
            if len(bs) <= cap0 - len(cur):
                exp += [hex(b) for b in bs]
            else:
                want = 'refused'
        if res != want:
            out.append('step %d %s: reported %s, an ordinary Vec/String bounded by capacity %d reports %s'
                       % (i, op_s[:60], res, cap0, want))
            break
        if st.get('val') != 'ok':
            out.append('step %d %s: the bytes no longer validate: %s' % (i, op_s[:60], st.get('val')))
            break
        if st.get('ab', 'ok') != 'ok':
            out.append("step %d %s: the value's own bytes (as_bytes) do not re-map to the same state: %s"
                       % (i, op_s[:60], st.get('ab')))
            break
        cap1, got = items_of(st['view'])
        got = [strip_caps(x) for x in got]
        if cap1 != cap0:
            out.append('step %d: capacity changed from %d to %s' % (i, cap0, cap1))
        if got != exp:
            out.append('step %d %s: contents %s, expected %s' % (i, op_s[:60], got[:12], exp[:12]))
            break
        size_want = 'ok:%d' % ((d + s * len(exp) + a - 1) // a * a)
        if st.get('size') != size_want:
            out.append('step %d: size() %s, expected %s for %d elements' % (i, st.get('size'), size_want, len(exp)))
        cur = exp
    return out


def c12(t, md, steps, flags):
    """FlexVec = a sequence of independently sized items"""
    out = []
    if steps[0].get('init') != 'ok' or not steps[0].get('view', '').startswith('ok:'):
        return out
    _, cur = items_of(steps[0]['view'])
    cur = [strip_caps(x) for x in cur]
    et = t[1]
    for i, (op_s, st) in enumerate(zip(md['ops'], steps[1:]), 1):
        op = parse_sexp(op_s)
        res = st.get('res')
        k = op[0]
        if st.get('val') != 'ok':
            if k == 'editassign' and str(res).startswith('err:'):
                # a failed in-place assignment of an item is C18's business (known finding late_field_refusal)
                break
            out.append('step %d %s: the bytes no longer validate: %s' % (i, op_s[:60], st.get('val')))
            break
        _, got = items_of(st['view'])
        got = [strip_caps(x) for x in got]
        exp = None
        if k == 'push':
            if res == 'done':
                exp = cur + [expected_content(et, op[1])]
            elif res.startswith('err:'):
                exp = cur
            else:
                out.append('step %d push: unexpected result %s' % (i, res))
        elif k == 'pop':
            if cur:
                exp = cur[:-1]
                if res != 'done':
                    out.append('step %d pop on %d items reported %s' % (i, len(cur), res))
            else:
                exp = cur
                if res != 'refused':
                    out.append('step %d pop on an empty vector reported %s' % (i, res))
        elif k == 'truncate':
            exp = cur[:num(op[1])]
        elif k == 'clear':
            exp = []
        elif k in ('editvec', 'editassign', 'editflex'):
            j = num(op[1])
            if j >= len(cur):
                exp = cur
                if res != 'panic':
                    out.append('step %d edit of a missing item reported %s' % (i, res))
            else:
                # the edited item may change; no other item may
                if len(got) != len(cur) or any(g != c for x, (g, c) in enumerate(zip(got, cur)) if x != j):
                    out.append('step %d %s: an item other than %d changed: %s -> %s' % (i, op_s[:60], j, cur[:8], got[:8]))
                    break
                if k == 'editassign' and res == 'done' and got[j] != expected_content(et, op[2]):
                    out.append('step %d: assigned item reads %s, expected %s' % (i, got[j], expected_content(et, op[2])))
                    break
                cur = got
                continue
        if exp is not None and got != exp:
            out.append('step %d %s: items %s, expected %s' % (i, op_s[:60], got[:8], exp[:8]))
            break
        cur = got
    return out


def c13(t, md, steps, flags):
    """a refused operation leaves the observable state as it was"""
    out = []
    for i in range(1, len(steps)):
        res = steps[i].get('res', '')
        op = md['ops'][i - 1] if i - 1 < len(md['ops']) else '?'
        refused = res == 'refused' or res.startswith('err:')
        if not refused or op.startswith('(edit'):
            continue
        prev, st = steps[i - 1], steps[i]
        for k in ('val', 'view', 'size'):
            if prev.get(k) != st.get(k):
                out.append('step %d %s was refused (%s) but %s changed: %s -> %s'
                           % (i, op[:60], res, k, prev.get(k), st.get(k)))
        if t[0] in ('vec', 'str') and prev.get('buf') != st.get('buf'):
            out.append('step %d %s was refused but the bytes changed' % (i, op[:60]))
    return out


def siblings(view):
    """the printed fields of a struct / enum value except the last one"""
    try:
        _, items = items_of(view)
    except AssertionError:
        return None
    return [strip_caps(x) for x in items[:-1]]


def c14(t, md, steps, flags):
    out = []
    if 'OOB-WRITE' in flags:
        out.append('an operation wrote outside the slice handed to the library')
    if nested(t):
        # mutating the nested container must not change a sibling field, and the value must stay valid
        for i in range(1, len(steps)):
            prev, st = steps[i - 1], steps[i]
            op = md['ops'][i - 1] if i - 1 < len(md['ops']) else '?'
            if st.get('val') != 'ok':
                if not (op.startswith('(editassign') and str(st.get('res', '')).startswith('err:')):
                    out.append('step %d %s on the nested container: the value no longer validates: %s'
                               % (i, op[:60], st.get('val')))
                break
            a, b = siblings(prev.get('view', '')), siblings(st.get('view', ''))
            if a is not None and b is not None and a != b:
                out.append('step %d %s on the nested container changed a sibling field: %s -> %s' % (i, op[:60], a, b))
                break
    for i, st in enumerate(steps):
        if st.get('buf') and len(st['buf']) != len(steps[0].get('buf', st['buf'])):
            out.append('step %d: the buffer length changed' % i)
    return out


def c05(t, md, steps, flags):
    out = []
    a = align(t)
    for i, st in enumerate(steps):
        if st.get('val') != 'ok':
            continue
        sz = st.get('size', '')
        if not sz.startswith('ok:'):
            out.append('step %d: size() failed: %s' % (i, sz))
            continue
        n = int(sz[3:])
        if n > md['len']:
            out.append('step %d: size() = %d exceeds the %d byte buffer' % (i, n, md['len']))
        elif n % a != 0:
            out.append('step %d: size() = %d is not a multiple of the alignment %d' % (i, n, a))
        elif st.get('tv') != 'ok':
            out.append('step %d: the first size() = %d bytes do not map to the same value: %s' % (i, n, st.get('tv')))
    return out


PROJECTION = {
    'C11': ['init', 'res', 'val', 'view', 'size', 'buf'],
    'C12': ['init', 'res', 'val', 'view', 'size'],
    'C13': ['res', 'val', 'view', 'size', 'buf'],
    'C14': ['buf'],
    'C05': ['size', 'tv'],
    'C17': ['res', 'buf', 'size', 'view'],
}
ORACLES = {'C11': c11, 'C12': c12, 'C13': c13, 'C14': c14, 'C05': c05, 'C17': lambda t, md, steps, flags: []}
