#!/usr/bin/env python3
"""coverage.py [tier] [seed] — how much of the library the correspondence suites execute.

Builds the harness with `-C instrument-coverage` (nightly toolchain, offline) in a scratch directory,
runs the four correspondence suites (types, hist, io, portable) exactly as ./check runs them, merges the
profiles with llvm-profdata and reports, per source file of /repo, the lines with executable code that
no case reached.  The result is a measurement of the generators' reach (DESIGN §10.6); it is written to
coverage/summary.json and coverage/uncovered.txt.  The proc-macro crate runs at compile time and is not
measured here (its output, the generated impls of the harness programs, is exercised through them).

    VERIF_COV=/root/scratch/cov python3 tools/coverage.py quick 1
"""
import json
import os
import re
import subprocess
import sys

if not os.environ.get('VERIF_COV'):
    os.environ['VERIF_COV'] = '/root/scratch/cov'
    os.execv(sys.executable, [sys.executable] + sys.argv)

VERIF = os.path.dirname(os.path.dirname(os.path.abspath(__file__)))
sys.path.insert(0, os.path.join(VERIF, 'tools'))
sys.path.insert(0, os.path.join(VERIF, 'gen'))
import vlib  # noqa: E402
import suites  # noqa: E402

tier = sys.argv[1] if len(sys.argv) > 1 else 'quick'
seed = int(sys.argv[2]) if len(sys.argv) > 2 else 1
cov = vlib.COV
os.makedirs(os.path.join(cov, 'prof'), exist_ok=True)
for f in os.listdir(os.path.join(cov, 'prof')):
    os.remove(os.path.join(cov, 'prof', f))

ncases = {}
r = suites.run_types(tier, seed)
ncases['types'] = len(r['cases'])
r = suites.run_hist(tier, seed)
ncases['hist'] = len(r.get('cases', r.get('lines', [])))
r = suites.run_io(tier, seed)
ncases['io'] = len(r.get('cases', r.get('lines', [])))
r = suites.run_portable(tier, seed)
ncases['portable'] = len(r.get('cases', r.get('lines', [])))

tool_dir = None
for d, _, files in os.walk(os.path.expanduser('~/.rustup/toolchains')):
    if 'llvm-cov' in files and '/nightly-x86_64' in d:
        tool_dir = d
binary = os.path.join(cov, 'target', 'debug', 'flatty-verif-harness')
prof = os.path.join(cov, 'merged.profdata')
subprocess.check_call('%s/llvm-profdata merge -sparse %s/prof/*.profraw -o %s' % (tool_dir, cov, prof), shell=True)
out = subprocess.check_output([os.path.join(tool_dir, 'llvm-cov'), 'export', '-format=lcov', '-instr-profile', prof,
                               binary]).decode()
files = {}
cur = None
for line in out.splitlines():
    if line.startswith('SF:'):
        cur = line[3:]
        files.setdefault(cur, {})
    elif line.startswith('DA:') and cur:
        ln, cnt = line[3:].split(',')[:2]
        files[cur][int(ln)] = max(files[cur].get(int(ln), 0), int(cnt))
summary = {}
unc = []
repo = os.path.realpath(vlib.REPO)
for f in sorted(files):
    if not os.path.realpath(f).startswith(repo + os.sep) or '/tests/' in f or '/target/' in f:
        continue
    rel = os.path.relpath(os.path.realpath(f), repo)
    if rel.startswith('tests/') or '/tests/' in rel or rel.endswith('tests.rs'):
        continue
    lines = files[f]
    hit = sum(1 for c in lines.values() if c > 0)
    summary[rel] = {'lines': len(lines), 'hit': hit}
    src = open(f).read().splitlines()
    in_test = False
    for ln in sorted(lines):
        if lines[ln] == 0:
            text = src[ln - 1].strip() if ln <= len(src) else ''
            unc.append('%s:%d: %s' % (rel, ln, text))
tot = sum(v['lines'] for v in summary.values())
hit = sum(v['hit'] for v in summary.values())
os.makedirs(os.path.join(VERIF, 'coverage'), exist_ok=True)
with open(os.path.join(VERIF, 'coverage', 'summary.json'), 'w') as fh:
    json.dump({'tier': tier, 'seed': seed, 'cases': ncases, 'repo_hash': vlib.repo_hash(),
               'total_lines': tot, 'hit_lines': hit, 'files': summary}, fh, indent=1)
with open(os.path.join(VERIF, 'coverage', 'uncovered.txt'), 'w') as fh:
    fh.write('\n'.join(unc) + '\n')
print('library lines with code: %d, reached by the suites: %d (%.1f%%)' % (tot, hit, 100.0 * hit / max(tot, 1)))
for rel, v in summary.items():
    print('  %-40s %4d / %4d' % (rel, v['hit'], v['lines']))
print('%d uncovered lines listed in coverage/uncovered.txt' % len(unc))
