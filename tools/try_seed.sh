#!/bin/sh
# try_seed.sh <worktree> <variant> <dest-id> <property...> : confirm, then run the analysis of the given properties with the patch applied to /repo
WT=$1; V=$2; ID=$3; shift 3
/verif/tools/confirm_seed.sh $WT $WT/SEEDED/$V $ID 2>&1 | tail -1
git -C /repo apply $WT/SEEDED/$V/patch.diff || exit 1
NSHOW=1 python3 /verif/tools/runall.py quick 1 "$@" 2>&1 | grep -v "^       \|^      " | cut -c1-260
git -C /repo checkout -- .
git -C /repo status --short | head -3
