#!/usr/bin/env python3
"""index.py — prints the table of DESIGN.md §10.5 (property -> pinned theorem files -> theorems) from coq/Props."""
import glob, os, re, json
V = os.path.dirname(os.path.dirname(os.path.abspath(__file__)))
import sys
sys.path.insert(0, os.path.join(V, 'tools')); sys.path.insert(0, os.path.join(V, 'gen'))
import registry
print('| property | Props files | theorems | main statements | correspondence suites |')
print('|---|---|---|---|---|')
tot = 0
for pid in sorted(registry.PROPS):
    fs = sorted(glob.glob(os.path.join(V, 'coq', 'Props', pid + '.v')) + glob.glob(os.path.join(V, 'coq', 'Props', pid + '_*.v')))
    names = []
    for f in fs:
        names += re.findall(r'^Theorem\s+(\w+)', open(f).read(), re.M)
    tot += len(names)
    ref = [n for n in names if 'refuted' in n or 'needs' in n]
    main = [n for n in names if n not in ref]
    suites = registry.PROPS[pid].get('suites', '')
    print('| %s | %s | %d | %s%s | %s |' % (pid, ', '.join(os.path.basename(f)[:-2] for f in fs), len(names),
          ', '.join('`%s`' % n for n in main[:8]) + (' …' if len(main) > 8 else ''),
          (' — counterexample witnesses: ' + ', '.join('`%s`' % n for n in ref)) if ref else '', suites))
print('\ntotal pinned theorems: %d' % tot)
