#!/usr/bin/env python3
"""translate.py — the arithmetic kernel of the library, translated from /repo's source into Gallina on every run.

Most defects of this library (and most seeded changes) are one wrong rounding, a `max` for a `min`, an ALIGN for a
SIZE, a `+ 1`.  Those formulas are few and are plain `usize` arithmetic, so for them the tie between model and code
need not be a test: this translator reads them from the current source, writes `coq/Generated/Kernel.v`, and the
hand-written, stable `coq/Proofs/KernelFacts.v` proves that every formula the model uses IS the translated source
formula (pinned in `Props/C04_kernel.v`, `Props/C05_kernel.v`).  A change of one of these formulas in /repo changes
the generated definition and the corresponding lemma no longer checks.

Translated items (each located by a pattern anchored on the item's own text, not on line numbers):
  base/src/utils/mod.rs     max, min, ceil_mul, floor_mul                           (const fn bodies)
  containers/src/vec.rs     DATA_OFFSET, ALIGN, MIN_SIZE, size(), ptr_from_bytes metadata, ptr_to_bytes length
  containers/src/string.rs  DATA_OFFSET, ALIGN, MIN_SIZE, size(), ptr_from_bytes metadata, ptr_to_bytes length
  containers/src/flex.rs    OFFSET_SIZE, ALIGN, MIN_SIZE, ptr_from_bytes length
  base/src/utils/iter.rs    SingleType::min_size, TwoOrMoreTypes::min_size (its argument), PosIter::next position,
                            fold_size (BytesIter), fold_size! / fold_min_size! steps

The subset of Rust understood: integer literals, identifiers, paths (`T::ALIGN`, `Self::X`, `I::Item::ALIGN`,
`<$t as ..::FlatBase>::ALIGN`), `+ - * /`, parentheses, calls of max / min / ceil_mul / floor_mul, `self.len()`,
`self.pos`, `slice_ptr_len(..)`, `.checked_div(x).unwrap_or(0)`, `if a OP b { e } else { e }`.  `usize` is N;
`-` is truncated subtraction (the model carries the explicit PanicArith outcome where the code can underflow).
Anything else is a TranslateError: the obligation is then reported as no longer checked.
"""
import os
import re
import sys

VERIF = os.path.dirname(os.path.dirname(os.path.abspath(__file__)))
REPO = os.environ.get('VERIF_REPO', '/repo')


class TranslateError(Exception):
    pass


# ---------------------------------------------------------------- lexer / parser of the expression subset

TOK = re.compile(r'\s*(<[^<>]*\bas\b[^<>]*>(?:::\w+)+|(?:::)?[$#]?\w+(?:::\w+)*|\d+|>=|<=|==|!=|[-+*/()<>{},.])')


def lex(s):
    out, i = [], 0
    s = s.strip()
    while i < len(s):
        m = TOK.match(s, i)
        if not m:
            raise TranslateError('cannot tokenize %r at %r' % (s, s[i:i + 20]))
        out.append(m.group(1))
        i = m.end()
    return out


class P:
    def __init__(self, toks):
        self.t, self.i = toks, 0

    def peek(self):
        return self.t[self.i] if self.i < len(self.t) else None

    def take(self, x=None):
        v = self.peek()
        if v is None or (x is not None and v != x):
            raise TranslateError('expected %r, found %r in %r' % (x, v, ' '.join(self.t)))
        self.i += 1
        return v

    def expr(self):
        if self.peek() == 'if':
            self.take('if')
            a = self.sum()
            op = self.take()
            if op not in ('>=', '<=', '<', '>', '=='):
                raise TranslateError('comparison expected, found %r' % op)
            b = self.sum()
            self.take('{')
            x = self.expr()
            self.take('}')
            self.take('else')
            self.take('{')
            y = self.expr()
            self.take('}')
            return ('if', op, a, b, x, y)
        return self.sum()

    def sum(self):
        e = self.prod()
        while self.peek() in ('+', '-'):
            op = self.take()
            e = (op, e, self.prod())
        return e

    def prod(self):
        e = self.post()
        while self.peek() in ('*', '/'):
            op = self.take()
            e = (op, e, self.post())
        return e

    def post(self):
        e = self.atom()
        while self.peek() == '.':
            self.take('.')
            name = self.take()
            self.take('(')
            args = []
            while self.peek() != ')':
                args.append(self.expr())
                if self.peek() == ',':
                    self.take(',')
            self.take(')')
            e = ('method', name, e, args)
        return e

    def atom(self):
        t = self.take()
        if t == '(':
            e = self.expr()
            self.take(')')
            return e
        if t.isdigit():
            return ('num', int(t))
        if re.match(r'^(<|\$|#|:|\w)', t):
            if self.peek() == '(':
                self.take('(')
                args = []
                while self.peek() != ')':
                    args.append(self.expr())
                    if self.peek() == ',':
                        self.take(',')
                self.take(')')
                return ('call', t, args)
            return ('name', t)
        raise TranslateError('unexpected token %r' % t)


def parse_expr(s):
    p = P(lex(s))
    e = p.expr()
    if p.peek() is not None:
        raise TranslateError('trailing tokens %r in %r' % (p.t[p.i:], s))
    return e


FUNS = {'max': 'g_max', 'min': 'g_min', 'ceil_mul': 'g_ceil_mul', 'floor_mul': 'g_floor_mul'}


def base_name(path):
    return path.split('::')[-1]


def to_coq(e, names):
    """names: dict source name -> Gallina term"""
    k = e[0]
    if k == 'num':
        return str(e[1])
    if k == 'name':
        n = e[1]
        if n in names:
            return names[n]
        m = re.match(r'^<\s*([$#]?\w+)\s+as\s+[^>]*>::(\w+)$', n)
        if m and (m.group(1) + '::' + m.group(2)) in names:
            return names[m.group(1) + '::' + m.group(2)]
        raise TranslateError('unknown name %r' % n)
    if k in ('+', '-', '*', '/'):
        return '(%s %s %s)' % (to_coq(e[1], names), k, to_coq(e[2], names))
    if k == 'call':
        f = base_name(e[1])
        if f not in FUNS:
            raise TranslateError('unknown function %r' % e[1])
        return '(%s %s)' % (FUNS[f], ' '.join(to_coq(a, names) for a in e[2]))
    if k == 'method':
        if e[1] in ('max', 'min') and len(e[3]) == 1:          # usize::max / usize::min
            return '(N.%s %s %s)' % (e[1], to_coq(e[2], names), to_coq(e[3][0], names))
        # otherwise only  <e>.checked_div(<d>).unwrap_or(0)
        if e[1] == 'unwrap_or' and e[2][0] == 'method' and e[2][1] == 'checked_div' and e[3] == [('num', 0)]:
            num, den = to_coq(e[2][2], names), to_coq(e[2][3][0], names)
            return '(if %s =? 0 then 0 else %s / %s)' % (den, num, den)
        raise TranslateError('unknown method %r' % e[1])
    if k == 'if':
        op, a, b = e[1], to_coq(e[2], names), to_coq(e[3], names)
        c = {'>=': '%s <=? %s' % (b, a), '<=': '%s <=? %s' % (a, b), '<': '%s <? %s' % (a, b), '>': '%s <? %s' % (b, a),
             '==': '%s =? %s' % (a, b)}[op]
        return '(if %s then %s else %s)' % (c, to_coq(e[4], names), to_coq(e[5], names))
    raise TranslateError('bad node %r' % (e,))


def to_py(e, env):
    k = e[0]
    if k == 'num':
        return e[1]
    if k == 'name':
        return env[e[1]]
    if k == '+':
        return to_py(e[1], env) + to_py(e[2], env)
    if k == '-':
        return max(to_py(e[1], env) - to_py(e[2], env), 0)
    if k == '*':
        return to_py(e[1], env) * to_py(e[2], env)
    if k == '/':
        d = to_py(e[2], env)
        return to_py(e[1], env) // d if d else 0
    if k == 'call':
        a = [to_py(x, env) for x in e[2]]
        return env['__fun__'][base_name(e[1])](*a)
    if k == 'method':
        if e[1] in ('max', 'min') and len(e[3]) == 1:
            a, b = to_py(e[2], env), to_py(e[3][0], env)
            return max(a, b) if e[1] == 'max' else min(a, b)
        if e[1] == 'unwrap_or' and e[2][0] == 'method' and e[2][1] == 'checked_div':
            d = to_py(e[2][3][0], env)
            return to_py(e[2][2], env) // d if d else 0
        raise TranslateError('unknown method')
    if k == 'if':
        a, b = to_py(e[2], env), to_py(e[3], env)
        c = {'>=': a >= b, '<=': a <= b, '<': a < b, '>': a > b, '==': a == b}[e[1]]
        return to_py(e[4] if c else e[5], env)
    raise TranslateError('bad node')


# ---------------------------------------------------------------- locating the items

def read(rel):
    return open(os.path.join(REPO, rel)).read()


def find(rel, pattern, what):
    src = read(rel)
    ms = list(re.finditer(pattern, src, re.S))
    if len(ms) != 1:
        raise TranslateError('%s: %s found %d times (expected once)' % (rel, what, len(ms)))
    return re.sub(r'\s+', ' ', ms[0].group(1)).strip()


def const_fn(rel, name):
    return find(rel, r'pub const fn %s\(\w+: usize, \w+: usize\) -> usize \{(.*?)\n\}' % name, 'const fn ' + name)


def const_fn_params(rel, name):
    src = read(rel)
    m = re.search(r'pub const fn %s\((\w+): usize, (\w+): usize\)' % name, src)
    return m.group(1), m.group(2)


def impl_block(rel, header_re, what):
    """text of the impl block whose header matches (brace matched)"""
    src = read(rel)
    ms = list(re.finditer(header_re, src))
    if len(ms) != 1:
        raise TranslateError('%s: %s found %d times' % (rel, what, len(ms)))
    i = src.index('{', ms[0].end() - 1)
    depth, j = 0, i
    while True:
        if src[j] == '{':
            depth += 1
        elif src[j] == '}':
            depth -= 1
            if depth == 0:
                break
        j += 1
    return src[i:j + 1]


def in_block(block, pattern, what):
    ms = list(re.finditer(pattern, block, re.S))
    if len(ms) != 1:
        raise TranslateError('%s found %d times in its impl block' % (what, len(ms)))
    return re.sub(r'\s+', ' ', ms[0].group(1)).strip()


def presub(s):
    s = re.sub(r'slice_ptr_len\(\s*(\w+)[^()]*\)', r'\1_len', s)
    s = s.replace('self.len()', 'self_len').replace('self.pos', 'self_pos')
    return s


def generate():
    """returns (coq source, python-evaluable items)"""
    out = ['(* Kernel.v — GENERATED by tools/translate.py from the current source of /repo on every run of ./check.',
           '   Do not edit: the arithmetic formulas of the library as Gallina over N.  What they are proved equal to:',
           '   Proofs/KernelFacts.v. *)', 'From Coq Require Import NArith.', 'Open Scope N_scope.', '']
    items = []   # (name, params, ast, names) for the python side

    def emit(name, params, expr_src, names, comment):
        ast = parse_expr(presub(expr_src))
        out.append('(* %s *)' % comment)
        out.append('Definition %s %s: N := %s.' % (name, ''.join('(%s : N) ' % p for p in params), to_coq(ast, names)))
        items.append((name, params, ast, dict(names)))

    U = 'base/src/utils/mod.rs'
    for fn in ('max', 'min', 'ceil_mul', 'floor_mul'):
        a, b = const_fn_params(U, fn)
        emit('g_' + fn, [a, b], const_fn(U, fn), {a: a, b: b}, '%s: pub const fn %s' % (U, fn))
    out.append('')

    # ---- FlatVec
    R = 'containers/src/vec.rs'
    P4 = ['L_SIZE', 'L_ALIGN', 'T_SIZE', 'T_ALIGN']
    base = {'L::SIZE': 'L_SIZE', 'L::ALIGN': 'L_ALIGN', 'T::SIZE': 'T_SIZE', 'T::ALIGN': 'T_ALIGN'}
    b_do = impl_block(R, r'trait DataOffset<T, L>[^{]*\{', 'trait DataOffset of FlatVec')
    emit('g_vec_DATA_OFFSET', P4, in_block(b_do, r'const DATA_OFFSET: usize = (.*?);', 'FlatVec DATA_OFFSET'), base,
         R + ': DataOffset::DATA_OFFSET')
    vn = dict(base, **{'Self::DATA_OFFSET': '(g_vec_DATA_OFFSET L_SIZE L_ALIGN T_SIZE T_ALIGN)'})
    b_fb = impl_block(R, r'unsafe impl<T, L> FlatBase for FlatVec<T, L>[^{]*\{', 'FlatBase for FlatVec')
    emit('g_vec_ALIGN', P4, in_block(b_fb, r'const ALIGN: usize = (.*?);', 'FlatVec ALIGN'), vn, R + ': FlatBase::ALIGN')
    vn['Self::ALIGN'] = '(g_vec_ALIGN L_SIZE L_ALIGN T_SIZE T_ALIGN)'
    emit('g_vec_MIN_SIZE', P4, in_block(b_fb, r'const MIN_SIZE: usize = (.*?);', 'FlatVec MIN_SIZE'), vn, R + ': FlatBase::MIN_SIZE')
    emit('g_vec_size', P4 + ['self_len'], in_block(b_fb, r'fn size\(&self\) -> usize \{(.*?)\}', 'FlatVec::size'),
         dict(vn, self_len='self_len'), R + ': FlatBase::size')
    b_fu = impl_block(R, r'unsafe impl<T, L> FlatUnsized for FlatVec<T, L>[^{]*\{', 'FlatUnsized for FlatVec')
    emit('g_vec_meta', P4 + ['bytes_len'], in_block(b_fu, r'let meta = (.*?);', 'FlatVec ptr_from_bytes metadata'),
         dict(vn, bytes_len='bytes_len'), R + ': ptr_from_bytes (number of element slots)')
    emit('g_vec_bytes_len', P4 + ['this_len'], in_block(b_fu, r'let len = (.*?);', 'FlatVec ptr_to_bytes length'),
         dict(vn, this_len='this_len'), R + ': ptr_to_bytes (length of as_bytes)')
    out.append('')

    # ---- FlatString
    R = 'containers/src/string.rs'
    P2 = ['L_SIZE', 'L_ALIGN']
    sbase = {'L::SIZE': 'L_SIZE', 'L::ALIGN': 'L_ALIGN'}
    b_do = impl_block(R, r'trait DataOffset<L: Flat \+ Length> \{', 'trait DataOffset of FlatString')
    emit('g_str_DATA_OFFSET', P2, in_block(b_do, r'const DATA_OFFSET: usize = (.*?);', 'FlatString DATA_OFFSET'), sbase,
         R + ': DataOffset::DATA_OFFSET')
    sn = dict(sbase, **{'Self::DATA_OFFSET': '(g_str_DATA_OFFSET L_SIZE L_ALIGN)'})
    b_fb = impl_block(R, r'unsafe impl<L: Flat \+ Length> FlatBase for FlatString<L>[^{]*\{', 'FlatBase for FlatString')
    emit('g_str_ALIGN', P2, in_block(b_fb, r'const ALIGN: usize = (.*?);', 'FlatString ALIGN'), sn, R + ': FlatBase::ALIGN')
    sn['Self::ALIGN'] = '(g_str_ALIGN L_SIZE L_ALIGN)'
    emit('g_str_MIN_SIZE', P2, in_block(b_fb, r'const MIN_SIZE: usize = (.*?);', 'FlatString MIN_SIZE'), sn, R + ': FlatBase::MIN_SIZE')
    emit('g_str_size', P2 + ['self_len'], in_block(b_fb, r'fn size\(&self\) -> usize \{(.*?)\}', 'FlatString::size'),
         dict(sn, self_len='self_len'), R + ': FlatBase::size')
    b_fu = impl_block(R, r'unsafe impl<L: Flat \+ Length> FlatUnsized for FlatString<L>[^{]*\{', 'FlatUnsized for FlatString')
    emit('g_str_meta', P2 + ['bytes_len'], in_block(b_fu, r'let meta = (.*?);', 'FlatString ptr_from_bytes metadata'),
         dict(sn, bytes_len='bytes_len'), R + ': ptr_from_bytes (bytes of string data)')
    emit('g_str_bytes_len', P2 + ['this_len'], in_block(b_fu, r'let len = (.*?);', 'FlatString ptr_to_bytes length'),
         dict(sn, this_len='this_len'), R + ': ptr_to_bytes (length of as_bytes)')
    out.append('')

    # ---- FlexVec
    R = 'containers/src/flex.rs'
    emit('g_flex_OFFSET_SIZE', P4, find(R, r'\n    const OFFSET_SIZE: usize = (.*?);', 'FlexVec OFFSET_SIZE'), base,
         R + ': OFFSET_SIZE')
    fn_ = dict(base, **{'Self::OFFSET_SIZE': '(g_flex_OFFSET_SIZE L_SIZE L_ALIGN T_SIZE T_ALIGN)'})
    b_fb = impl_block(R, r'unsafe impl<T, L> FlatBase for FlexVec<T, L>[^{]*\{', 'FlatBase for FlexVec')
    emit('g_flex_ALIGN', P4, in_block(b_fb, r'const ALIGN: usize = (.*?);', 'FlexVec ALIGN'), fn_, R + ': FlatBase::ALIGN')
    fn_['Self::ALIGN'] = '(g_flex_ALIGN L_SIZE L_ALIGN T_SIZE T_ALIGN)'
    emit('g_flex_MIN_SIZE', P4, in_block(b_fb, r'const MIN_SIZE: usize = (.*?);', 'FlexVec MIN_SIZE'), fn_, R + ': FlatBase::MIN_SIZE')
    b_fu = impl_block(R, r'unsafe impl<T, L> FlatUnsized for FlexVec<T, L>[^{]*\{', 'FlatUnsized for FlexVec')
    emit('g_flex_meta', P4 + ['bytes_len'],
         in_block(b_fu, r'unsafe fn ptr_from_bytes\(bytes: \*mut \[u8\]\) -> \*mut Self \{\s*ptr::slice_from_raw_parts_mut\(bytes as \*mut u8, (.*?)\) as \*mut Self',
                  'FlexVec ptr_from_bytes length'),
         dict(fn_, bytes_len='bytes_len'), R + ': ptr_from_bytes (bytes the reference covers)')
    out.append('')

    # ---- base/src/utils/iter.rs: the position / minimum-size walks over a field list
    R = 'base/src/utils/iter.rs'
    b = impl_block(R, r'impl<T: Flat \+ \?Sized> TypeIter for SingleType<T> \{', 'TypeIter for SingleType')
    emit('g_single_min_size', ['T_ALIGN', 'T_MIN_SIZE', 'pos'], in_block(b, r'fn min_size\(&self, pos: usize\) -> usize \{(.*?)\}', 'SingleType::min_size'),
         {'T::ALIGN': 'T_ALIGN', 'T::MIN_SIZE': 'T_MIN_SIZE', 'pos': 'pos'}, R + ': SingleType::min_size (last field contributes MIN_SIZE)')
    b = impl_block(R, r'impl<T: Flat \+ Sized, I: TypeIter> TypeIter for TwoOrMoreTypes<T, I> \{', 'TypeIter for TwoOrMoreTypes')
    emit('g_two_min_size_arg', ['T_ALIGN', 'T_SIZE', 'pos'],
         in_block(b, r'fn min_size\(&self, pos: usize\) -> usize \{\s*self\.next\.min_size\((.*?)\)\s*\}', 'TwoOrMoreTypes::min_size'),
         {'T::ALIGN': 'T_ALIGN', 'T::SIZE': 'T_SIZE', 'pos': 'pos'}, R + ': TwoOrMoreTypes::min_size: the position handed to the rest of the list')
    b = impl_block(R, r'impl<T: Flat \+ Sized, I: TypeIter> PosIter<TwoOrMoreTypes<T, I>> \{', 'PosIter<TwoOrMoreTypes>')
    emit('g_pos_next', ['T_SIZE', 'Next_ALIGN', 'self_pos'], in_block(b, r'pos: (ceil_mul.*?),\n', 'PosIter::next position'),
         {'T::SIZE': 'T_SIZE', 'I::Item::ALIGN': 'Next_ALIGN', 'self_pos': 'self_pos'}, R + ': PosIter::next: position of the next field')
    src = read(R)
    m = re.findall(r'self\.next\(\)\.0\.fold_size\((.*?)\)\n', src)
    if len(m) != 1:
        raise TranslateError('%s: FoldSizeIter step found %d times' % (R, len(m)))
    emit('g_fold_size_step', ['T_ALIGN', 'T_SIZE', 'size'], m[0], {'T::ALIGN': 'T_ALIGN', 'T::SIZE': 'T_SIZE', 'size': 'size'},
         R + ': FoldSizeIter::fold_size, a sized field')
    m = re.findall(r'\n\s*(ceil_mul\(size, T::ALIGN\)) \+ \(\*T::ptr_from_bytes', src)
    if len(m) != 1:
        raise TranslateError('%s: FoldSizeIter last step found %d times' % (R, len(m)))
    emit('g_fold_size_last', ['T_ALIGN', 'size'], m[0], {'T::ALIGN': 'T_ALIGN', 'size': 'size'},
         R + ': FoldSizeIter::fold_size, the last field (its own size() is added)')
    # fold_size! / fold_min_size!: terminal arms
    mm = re.search(r'macro_rules! fold_size \{(.*?)\n\}', src, re.S)
    mn = re.search(r'macro_rules! fold_min_size \{(.*?)\n\}', src, re.S)
    if not mm or not mn:
        raise TranslateError('%s: fold_size! / fold_min_size! not found' % R)
    names = {'$accum': 'accum', '$type::ALIGN': 'T_ALIGN', '$type::SIZE': 'T_SIZE', '$type::MIN_SIZE': 'T_MIN_SIZE',
             '$first_type::ALIGN': 'T_ALIGN', '$first_type::SIZE': 'T_SIZE'}

    def arm(body, pat, what):
        ms = re.findall(pat, body, re.S)
        if len(ms) != 1:
            raise TranslateError('%s: %s found %d times' % (R, what, len(ms)))
        return re.sub(r'\s+', ' ', ms[0]).strip()
    emit('g_fold_size_macro_step', ['T_ALIGN', 'T_SIZE', 'accum'],
         arm(mm.group(1), r'\(\$accum:expr; \$first_type:ty, \$\(\$types:ty\),\+ \$\(,\)\?\) => \{\s*\$crate::utils::iter::fold_size!\(\s*(.*?);\s*\$\( \$types \)', 'fold_size! recursive arm'),
         names, R + ': fold_size!, a field followed by others')
    emit('g_fold_size_macro_last', ['T_ALIGN', 'T_SIZE', 'accum'],
         arm(mm.group(1), r'\(\$accum:expr; \$type:ty \$\(,\)\?\) => \{\s*(.*?)\s*\};', 'fold_size! terminal arm'),
         names, R + ': fold_size!, the last field of the list')
    emit('g_fold_min_size_macro_step', ['T_ALIGN', 'T_SIZE', 'accum'],
         arm(mn.group(1), r'\(\$accum:expr; \$first_type:ty, \$\(\$types:ty\),\+ \$\(,\)\?\) => \{\s*\$crate::utils::iter::fold_min_size!\(\s*(.*?);\s*\$\( \$types \)', 'fold_min_size! recursive arm'),
         names, R + ': fold_min_size!, a field followed by others')
    emit('g_fold_min_size_macro_last', ['T_ALIGN', 'T_MIN_SIZE', 'accum'],
         arm(mn.group(1), r'\(\$accum:expr; \$type:ty \$\(,\)\?\) => \{\s*(.*?)\s*\};', 'fold_min_size! terminal arm'),
         names, R + ': fold_min_size!, the last field contributes MIN_SIZE')
    out.append('')

    # ---- macros/src/items/base.rs: the constants and size() the #[flat] macro emits (quote! bodies)
    R = 'macros/src/items/base.rs'
    src = read(R)

    def quoted(pattern, what):
        ms = re.findall(pattern, src, re.S)
        if len(ms) != 1:
            raise TranslateError('%s: %s found %d times' % (R, what, len(ms)))
        return re.sub(r'\s+', ' ', ms[0]).strip()
    emit('g_struct_MIN_SIZE', ['contents', 'Self_ALIGN'],
         quoted(r'Data::Struct\(struct_data\) => \{\s*let contents = min_size_collect_fields\(&struct_data\.fields\);\s*quote! \{\s*(.*?)\s*\}\s*\}', 'MIN_SIZE of a struct'),
         {'#contents': 'contents', 'Self::ALIGN': 'Self_ALIGN'}, R + ': MIN_SIZE of a struct (contents = fold_min_size!(0; fields))')
    emit('g_enum_min_fold', ['accum', 'var_min_size'], quoted(r'quote! \{ (::flatty::utils::min\(#accum, #var_min_size\)) \}', 'MIN_SIZE fold of an enum'),
         {'#accum': 'accum', '#var_min_size': 'var_min_size'}, R + ': MIN_SIZE of an enum: fold over DATA_MIN_SIZES')
    emit('g_enum_MIN_SIZE', ['DATA_OFFSET', 'contents', 'Self_ALIGN'],
         quoted(r'quote! \{\s*(::flatty::utils::ceil_mul\(Self::DATA_OFFSET \+ #contents, [^}]*?)\s*\}', 'MIN_SIZE of an enum'),
         {'Self::DATA_OFFSET': 'DATA_OFFSET', '#contents': 'contents', 'Self::ALIGN': 'Self_ALIGN'}, R + ': MIN_SIZE of an enum')
    emit('g_macro_size', ['value', 'Self_ALIGN'], quoted(r'use ::flatty::\{traits::\*, utils::ceil_mul\};\s*(ceil_mul\(#value, Self::ALIGN\))', 'generated size()'),
         {'#value': 'value', 'Self::ALIGN': 'Self_ALIGN'}, R + ': generated size(): rounding of the value')
    v = quoted(r'quote! \{ (Self::LAST_FIELD_OFFSET \+ self\.#last\.size\(\)) \}', 'size() value of a struct')
    emit('g_struct_size_value', ['LAST_FIELD_OFFSET', 'last_size'], v.replace('self.#last.size()', 'last_size'),
         {'Self::LAST_FIELD_OFFSET': 'LAST_FIELD_OFFSET', 'last_size': 'last_size'}, R + ': size() of a struct before rounding')
    emit('g_enum_DATA_OFFSET', ['tag_SIZE', 'Self_ALIGN'], quoted(r'const DATA_OFFSET: usize = (::flatty::utils::ceil_mul\(.*?\));', 'DATA_OFFSET of an enum'),
         {'#tag_type::SIZE': 'tag_SIZE', 'Self::ALIGN': 'Self_ALIGN'}, R + ': DATA_OFFSET of an enum')
    v = quoted(r'let last_ty = [^;]*;\s*quote! \{\s*(::flatty::utils::ceil_mul\(.*?\))\s*\}\s*\} else', 'LAST_FIELD_OFFSET of a struct')
    if '::flatty::utils::iter::fold_size!(0; #type_list)' not in v:
        raise TranslateError('%s: LAST_FIELD_OFFSET no longer starts from fold_size!(0; all but the last field)' % R)
    emit('g_struct_LAST_FIELD_OFFSET', ['fold_size_prefix', 'last_ALIGN'], v.replace('::flatty::utils::iter::fold_size!(0; #type_list)', 'fold_size_prefix'),
         {'fold_size_prefix': 'fold_size_prefix', '#last_ty::ALIGN': 'last_ALIGN'}, R + ': LAST_FIELD_OFFSET (fold_size_prefix = fold_size!(0; all but the last field))')
    out.append('')

    # ---- io: capacity of the buffers, and the window arithmetic of common/io.rs Buffer
    for rel, nm in (('io/src/blocking/recv.rs', 'g_io_capacity_recv'), ('io/src/blocking/send.rs', 'g_io_capacity_send'),
                    ('io/src/async_/recv.rs', 'g_io_capacity_arecv'), ('io/src/async_/send.rs', 'g_io_capacity_asend')):
        emit(nm, ['MIN_SIZE', 'max_msg_len'], find(rel, r'Self::new\(IoBuffer::new\(pipe, (.*?), M::ALIGN\)\)', 'capacity of the IoBuffer'),
             {'max_msg_len': 'max_msg_len', 'M::MIN_SIZE': 'MIN_SIZE'}, rel + ': io(pipe, max_msg_len): capacity of the buffer')
    R = 'io/src/common/io.rs'
    blk = impl_block(R, r'impl Buffer \{', 'impl Buffer')
    wn = {'self.window.start': 'w_start', 'self.window.end': 'w_end', 'self.capacity()': 'cap', 'count': 'count'}

    def wexpr(src_):
        for k_, v_ in (('self.window.start', 'w_start'), ('self.window.end', 'w_end'), ('self.capacity()', 'cap'),
                       ('self.preceding_len()', '(g_buf_preceding_len cap w_start w_end)'), ('self.vacant_len()', '(g_buf_vacant_len cap w_start w_end)')):
            src_ = src_.replace(k_, {'self.window.start': 'w_start', 'self.window.end': 'w_end', 'self.capacity()': 'cap'}.get(k_, k_))
        return src_
    W3 = ['cap', 'w_start', 'w_end']
    wnames = {'w_start': 'w_start', 'w_end': 'w_end', 'cap': 'cap', 'count': 'count'}
    for meth in ('preceding_len', 'occupied_len', 'vacant_len'):
        body = in_block(blk, r'fn %s\(&self\) -> usize \{(.*?)\}' % meth, 'Buffer::' + meth)
        emit('g_buf_' + meth, W3, wexpr(body), wnames, R + ': Buffer::' + meth)

    def stmts(meth, params):
        """the body of a window-updating method as a function (start, end) -> option (start, end); None = assert! failed"""
        body = in_block(blk, r'fn %s\(&mut self%s\) \{(.*?)\n    \}' % (meth, ''.join(', %s: usize' % p_ for p_ in params)), 'Buffer::' + meth)
        lines = []
        rest = body.strip()
        copy = False
        # statements are split at ';' and at the braces of the one `if` form understood
        toks = [x.strip() for x in re.split(r';', rest) if x.strip()]
        code = 'Some (w_start, w_end)'
        # build from the last statement backwards
        def compile_(ts):
            if not ts:
                return 'Some (w_start, w_end)'
            t = ts[0]
            m = re.match(r'^self\.window\.(start|end) \+= (.*)$', t)
            if m:
                v = 'w_' + m.group(1)
                return '(let %s := %s + %s in %s)' % (v, v, to_coq(parse_expr(wexpr(m.group(2))), wnames), compile_(ts[1:]))
            m = re.match(r'^self\.window = (.*?)\.\.(.*)$', t)
            if m:
                a = to_coq(parse_expr(wexpr(m.group(1).strip(' ()'))), wnames)
                b = to_coq(parse_expr(wexpr(m.group(2).strip())), wnames) if not m.group(2).strip().startswith('(') else \
                    to_coq(parse_expr(wexpr(m.group(2).strip())), wnames)
                return '(let w_new := (%s, %s) in let w_start := fst w_new in let w_end := snd w_new in %s)' % (a, b, compile_(ts[1:]))
            m = re.match(r'^assert!\((.*?) <= (.*?)\)$', t)
            if m:
                return '(if %s <=? %s then %s else None)' % (to_coq(parse_expr(wexpr(m.group(1))), wnames),
                                                             to_coq(parse_expr(wexpr(m.group(2))), wnames), compile_(ts[1:]))
            m = re.match(r'^if self\.window\.is_empty\(\) \{ (self\.window = .*)$', t)
            if m:
                # `if self.window.is_empty() { self.window = A..B; }` — Range::is_empty is !(start < end)
                inner = compile_([m.group(1)] + [x for x in ts[1:]])
                after = [x for x in ts[1:]]
                if after and after[0].startswith('}'):
                    after = [after[0][1:].strip()] + after[1:] if after[0][1:].strip() else after[1:]
                setw = compile_([m.group(1)] + after)
                return '(if w_start <? w_end then %s else %s)' % (compile_(after), setw)
            if t == 'self.data.copy_within(self.window.clone(), 0)':
                return compile_(ts[1:])      # the copy itself: see g_buf_make_contiguous_copies_window_to
            if t == '}':
                return compile_(ts[1:])
            raise TranslateError('%s: statement not understood in Buffer::%s: %r' % (R, meth, t))
        return compile_(toks)
    for meth, params in (('clear', []), ('skip', ['count']), ('advance', ['count']), ('make_contiguous', [])):
        term = stmts(meth, params)
        out.append('(* %s: Buffer::%s — the window after the call; None: an assert! fails *)' % (R, meth))
        out.append('Definition g_buf_%s %s: option (N * N) := %s.' % (meth, ''.join('(%s : N) ' % p_ for p_ in W3 + params), term))
    mc = in_block(blk, r'fn make_contiguous\(&mut self\) \{(.*?)\n    \}', 'Buffer::make_contiguous')
    if 'self.data.copy_within(self.window.clone(), 0);' not in mc:
        raise TranslateError('%s: Buffer::make_contiguous no longer copies the window to the start of the buffer' % R)
    out.append('(* %s: Buffer::make_contiguous copies exactly the window, to this position *)' % R)
    out.append('Definition g_buf_make_contiguous_copies_window_to : N := 0.')
    return '\n'.join(out) + '\n', items


def generate_gate():
    """the entry gates: base/src/utils/mem.rs check_align_and_min_size, TypeIter::check_align_and_min_size of
    base/src/utils/iter.rs (the run-time check of the generated Init), and the order check-then-unchecked of
    FlatValidate::validate and Emplacer::emplace.  Written to coq/Generated/KernelGate.v (needs Model.Base for res)."""
    out = ['(* KernelGate.v — GENERATED by tools/translate.py from the current source of /repo on every run of ./check.',
           '   Do not edit: the alignment / minimum-size gates of the library and the order in which validate and emplace',
           '   apply them.  What they are proved equal to: Proofs/KernelGateFacts.v. *)',
           'From Coq Require Import NArith Bool.', 'From Flatty.Model Require Import Base.', 'Open Scope N_scope.', '']

    def gate(rel, fn_re, what, name, align_name, min_name):
        body = find(rel, fn_re, what)
        m = re.match(r'^if (\w+)\.as_ptr\(\)\.align_offset\((.*?)\) != 0 \{ Err\(Error \{ kind: ErrorKind::(\w+), pos: (\d+), \}\) \} '
                     r'else if (\w+)\.len\(\) < (.*?) \{ Err\(Error \{ kind: ErrorKind::(\w+), pos: (\d+), \}\) \} else \{ Ok\(\(\)\) \}$', body)
        if not m or m.group(1) != m.group(5):
            raise TranslateError('%s: %s is no longer "misaligned -> Err, else too short -> Err, else Ok"' % (rel, what))
        if m.group(2).strip() != align_name or m.group(6).strip() != min_name:
            raise TranslateError('%s: %s tests %r / %r, expected %r / %r' % (rel, what, m.group(2), m.group(6), align_name, min_name))
        out.append('(* %s: %s *)' % (rel, what))
        out.append('Definition %s (ALIGN MIN_SIZE addr len : N) : res unit :=' % name)
        out.append('  if negb (addr mod ALIGN =? 0) then Err %s %s else if len <? MIN_SIZE then Err %s %s else Ok tt.' % (
            m.group(3), m.group(4), m.group(7), m.group(8)))
    gate('base/src/utils/mem.rs', r'pub fn check_align_and_min_size<T: FlatBase \+ \?Sized>\(bytes: &\[u8\]\) -> Result<\(\), Error> \{(.*?)\n\}',
         'check_align_and_min_size', 'g_check_align_and_min_size', 'T::ALIGN', 'T::MIN_SIZE')
    gate('base/src/utils/iter.rs', r'fn check_align_and_min_size\(&self, data: &\[u8\]\) -> Result<\(\), Error> \{(.*?)\n    \}',
         'TypeIter::check_align_and_min_size', 'g_type_iter_check', 'self.align()', 'self.min_size(0)')
    # order: the gate first, then the unchecked part
    v = find('base/src/traits.rs', r'fn validate\(bytes: &\[u8\]\) -> Result<\(\), Error> \{(.*?)\n    \}', 'FlatValidate::validate')
    if v != 'check_align_and_min_size::<Self>(bytes)?; unsafe { Self::validate_unchecked(bytes) }':
        raise TranslateError('base/src/traits.rs: FlatValidate::validate is no longer "gate?; validate_unchecked": %r' % v)
    e = find('base/src/emplacer.rs', r'fn emplace\(self, bytes: &mut \[u8\]\) -> Result<&mut T, Error> \{(.*?)\n    \}', 'Emplacer::emplace')
    if e != 'check_align_and_min_size::<T>(bytes)?; unsafe { self.emplace_unchecked(bytes) }':
        raise TranslateError('base/src/emplacer.rs: Emplacer::emplace is no longer "gate?; emplace_unchecked": %r' % e)
    out.append('(* base/src/traits.rs FlatValidate::validate, base/src/emplacer.rs Emplacer::emplace: `gate?; unchecked` *)')
    out.append('Definition g_gate_then {A : Type} (gate : res unit) (unchecked : res A) : res A :=')
    out.append('  match gate with Ok _ => unchecked | Err k p => Err k p | Crash c => Crash c end.')
    return '\n'.join(out) + '\n'


def write():
    """regenerates coq/Generated/Kernel.v when its content changes; returns (changed, error or None)"""
    gpath = os.path.join(VERIF, 'coq', 'Generated', 'KernelGate.v')
    gerr = None
    try:
        gsrc = generate_gate()
        if not os.path.exists(gpath) or open(gpath).read() != gsrc:
            os.makedirs(os.path.dirname(gpath), exist_ok=True)
            with open(gpath, 'w') as f:
                f.write(gsrc)
    except (TranslateError, OSError) as ex:
        gerr = 'the translator cannot read the entry gates of /repo: %s' % ex
    path = os.path.join(VERIF, 'coq', 'Generated', 'Kernel.v')
    try:
        src, _ = generate()
    except (TranslateError, OSError) as e:
        return False, 'the translator cannot read the arithmetic kernel of /repo: %s' % e + ('; ' + gerr if gerr else '')
    old = open(path).read() if os.path.exists(path) else None
    if old != src:
        os.makedirs(os.path.dirname(path), exist_ok=True)
        with open(path, 'w') as f:
            f.write(src)
        return True, gerr
    return False, gerr


PY_FUNS = {'max': lambda a, b: a if a >= b else b, 'min': lambda a, b: a if a <= b else b}


def py_eval(items, name, args):
    """evaluates a translated item on concrete numbers (usize as unbounded naturals, truncated subtraction)"""
    byname = {it[0]: it for it in items}
    funs = dict(PY_FUNS)
    for f in ('max', 'min', 'ceil_mul', 'floor_mul'):
        it = byname.get('g_' + f)
        if it:
            funs[f] = (lambda it: lambda a, b: to_py(it[2], {it[1][0]: a, it[1][1]: b, '__fun__': funs}))(it)
    _, params, ast, names = byname[name]
    env = {'__fun__': funs}
    inv = {}
    for src_name, term in names.items():
        inv[src_name] = term
    vals = dict(zip(params, args))

    def val_of(term):
        # a Gallina term of the names table: a parameter, or an earlier item applied to parameters
        term = term.strip('()')
        head = term.split(' ')[0]
        if head in vals:
            return vals[head]
        sub = byname[head]
        return py_eval(items, head, [vals[p] for p in term.split(' ')[1:]])
    for src_name, term in names.items():
        env[src_name] = val_of(term)
        m = re.match(r'^([$#]?\w+)::(\w+)$', src_name)
    # names written as <X as Trait>::Y resolve through the X::Y key (see to_coq)
    class Env(dict):
        def __missing__(self, k):
            m = re.match(r'^<\s*([$#]?\w+)\s+as\s+[^>]*>::(\w+)$', k)
            if m:
                return self[m.group(1) + '::' + m.group(2)]
            raise KeyError(k)
    return to_py(ast, Env(env))


def ref_path():
    return os.path.join(VERIF, 'coq', 'Generated', 'kernel_ref.json')


def write_ref():
    import json
    _, items = generate()
    json.dump([[n, p, a, nm] for n, p, a, nm in items], open(ref_path(), 'w'))


def compare_with_ref(limit=6):
    """formulas of the current source that differ from the verified ones (coq/Generated/kernel_ref.json, written on the
    pinned tree), each with the first point of a small grid on which the two give different numbers"""
    import itertools
    import json

    def tup(x):
        return tuple(tup(y) for y in x) if isinstance(x, (list, tuple)) else x
    try:
        ref = [(n, p, tup(a), nm) for n, p, a, nm in json.load(open(ref_path()))]
        _, cur = generate()
    except (OSError, ValueError, TranslateError) as e:
        return ['(no comparison with the verified formulas: %s)' % e]
    refd = {r[0]: r for r in ref}
    out = []

    def grid(param):
        if param.endswith('ALIGN') or param == 'm':
            return [1, 2, 4, 8, 16]
        if param.endswith('SIZE'):
            return [0, 1, 2, 3, 4, 8, 12]
        return [0, 1, 2, 3, 4, 5, 7, 8, 9, 11, 16, 17]
    for it in cur:
        r = refd.get(it[0])
        if r is None or (r[2] == tup(it[2]) and list(r[1]) == list(it[1])):
            continue
        found = None
        if list(r[1]) == list(it[1]):
            for args in itertools.product(*[grid(p) for p in it[1]]):
                try:
                    a, b = py_eval(cur, it[0], list(args)), py_eval(ref, it[0], list(args))
                except (KeyError, ZeroDivisionError, TranslateError):
                    continue
                if a != b:
                    found = (args, a, b)
                    break
        if found:
            out.append('%s(%s): the source now gives %d, the verified formula %d' % (
                it[0], ', '.join('%s=%d' % kv for kv in zip(it[1], found[0])), found[1], found[2]))
        else:
            out.append('%s is written differently from the verified formula (no differing point on the grid)' % it[0])
        if len(out) >= limit:
            break
    return out


if __name__ == '__main__':
    if len(sys.argv) > 1 and sys.argv[1] == '--ref':
        write_ref()
        sys.exit(0)
    s, items = generate()
    sys.stdout.write(s)
