#!/bin/sh
# official_seed_run.sh <id>... — the prescribed confirmation of a recorded seeded change: apply it to /repo,
# run the property's own quick check, undo straight afterwards.  Prints one line per seed.
for id in "$@"; do
  p=${id%-*}
  git -C /repo status --short | grep -q . && { echo "/repo not clean"; exit 2; }
  git -C /repo apply /verif/seeded/$id/patch.diff || { echo "$id: patch does not apply"; continue; }
  out=$(cd /verif && ./check $p --tier quick 2>&1); rc=$?
  git -C /repo checkout -- .
  v=$(echo "$out" | grep -c "^VIOLATION property=$p")
  nf=$(echo "$out" | grep "^VIOLATION" | grep -c "no-failing-input-found")
  echo "$id: exit=$rc violation_lines=$v no_failing_input=$nf :: $(echo "$out" | grep "^  - " | head -1 | cut -c1-200)"
done
