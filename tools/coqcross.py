#!/usr/bin/env python3
"""coqcross.py — the model evaluated INSIDE Coq against the extracted model (DESIGN §6).

The correspondence check runs the model through extraction (ExtrOcamlBasic) and a hand-written OCaml
driver (runner/main.ml: parsing of case lines into model terms, printing).  Neither is verified.  This
module closes that gap by testing: for a seeded sample of the cases of a suite it writes a Coq file in
which the type descriptor, the bytes and the emplacer expression of every sampled case are Coq literals
(printed by an independent re-implementation, in Python, of the driver's parsers), the model functions
are applied with `vm_compute` by `coqc`, and the result is compared *inside Coq* (decidable equality
written out in the generated file) with the result the extracted runner printed for the same case.
`coqc` prints the list of case numbers whose results differ; it must be empty.

Covered observations: validate (V), view / size_m / bytes_len of mapped values (M), ALIGN / MIN_SIZE /
SIZE (L), emplace / assign_in_place / default_in_place with the resulting buffer (E, A, D)."""
import os
import random
import re
import subprocess

VERIF = os.path.dirname(os.path.dirname(os.path.abspath(__file__)))

PRELUDE = r'''
From Coq Require Import List NArith Bool.
From Flatty.Model Require Import Base Ty Layout Validate View Emplace.
Import ListNotations.
Open Scope N_scope.
Definition kind_eqb (a b : kind) : bool :=
  match a, b with
  | InsufficientSize, InsufficientSize | BadAlign, BadAlign | InvalidEnumTag, InvalidEnumTag
  | InvalidData, InvalidData | Other, Other => true
  | _, _ => false
  end.
Definition crash_eqb (a b : crash) : bool :=
  match a, b with
  | PanicSplit, PanicSplit | PanicUnwrap, PanicUnwrap | PanicAssert, PanicAssert | PanicArith, PanicArith
  | PanicDivZero, PanicDivZero | OobRead, OobRead | OobWrite, OobWrite | FuelOut, FuelOut => true
  | _, _ => false
  end.
Definition res_eqb {A} (e : A -> A -> bool) (r1 r2 : res A) : bool :=
  match r1, r2 with
  | Ok a, Ok b => e a b
  | Err k p, Err k' p' => kind_eqb k k' && (p =? p')
  | Crash c, Crash c' => crash_eqb c c'
  | _, _ => false
  end.
Fixpoint list_eqb {A} (e : A -> A -> bool) (l1 l2 : list A) : bool :=
  match l1, l2 with
  | [], [] => true
  | x :: r, y :: s => e x y && list_eqb e r s
  | _, _ => false
  end.
Fixpoint value_eqb (a b : value) {struct a} : bool :=
  match a, b with
  | VInt n, VInt m => n =? m
  | VNode t vs, VNode t' ws =>
      (t =? t') && (fix go (l1 : list value) (l2 : list value) : bool :=
                      match l1, l2 with
                      | [], [] => true
                      | x :: r, y :: s => value_eqb x y && go r s
                      | _, _ => false
                      end) vs ws
  | VCont c vs, VCont c' ws =>
      (c =? c') && (fix go (l1 : list value) (l2 : list value) : bool :=
                      match l1, l2 with
                      | [], [] => true
                      | x :: r, y :: s => value_eqb x y && go r s
                      | _, _ => false
                      end) vs ws
  | _, _ => false
  end.
Definition unit_eqb (_ _ : unit) : bool := true.
Definition eres_eqb (r1 r2 : bytes * res unit) : bool :=
  match snd r1, snd r2 with
  | Crash c, Crash c' => crash_eqb c c'
  | _, _ => list_eqb N.eqb (fst r1) (fst r2) && res_eqb unit_eqb (snd r1) (snd r2)
  end.
Definition it (s a : N) (be : bool) : intty := {| isize := s; ialign := a; ibe := be |}.
'''


# ---------------------------------------------------------------- s-expressions (independent of runner/main.ml)

def tokenize(s):
    return re.findall(r'\(|\)|[^\s()]+', s)


def parse(toks, i=0):
    if toks[i] == '(':
        out = []
        i += 1
        while toks[i] != ')':
            x, i = parse(toks, i)
            out.append(x)
        return out, i + 1
    return toks[i], i + 1


def num(s):
    return int(s, 16) if s.startswith('0x') else int(s)


def coq_intty(x):
    return '(it %d %d %s)' % (int(x[0]), int(x[1]), 'true' if x[2] == 'be' else 'false')


def coq_ty(x):
    if x == 'unit':
        return 'TUnit'
    if x == 'bool':
        return 'TBool'
    h = x[0]
    if h == 'int':
        return '(TInt %s)' % coq_intty(x[1:])
    if h == 'clike':
        return '(TCLike %s %d %d)' % (coq_intty(x[1]), num(x[2]), num(x[3]))
    if h == 'arr':
        return '(TArr %s %d)' % (coq_ty(x[1]), num(x[2]))
    if h == 'vec':
        return '(TVec %s %s)' % (coq_ty(x[1]), coq_intty(x[2]))
    if h == 'str':
        return '(TStr %s)' % coq_intty(x[1])
    if h == 'flex':
        return '(TFlex %s %s)' % (coq_ty(x[1]), coq_intty(x[2]))
    if h == 'struct':
        return '(TStruct %s %s)' % ('true' if x[1] == 's' else 'false', coq_fields(x[2:]))
    if h == 'enum':
        vs = 'VNil'
        for v in reversed(x[4:]):
            vs = '(VCons %s %s)' % (coq_fields(v), vs)
        return '(TEnum %s %s %d %s)' % ('true' if x[1] == 's' else 'false', coq_intty(x[2]), num(x[3]), vs)
    raise ValueError(x)


def coq_fields(fs):
    out = 'FNil'
    for f in reversed(fs):
        out = '(FCons %s %s)' % (coq_ty(f), out)
    return out


def coq_bytes(h):
    if h == '-' or h == '':
        return '[]'
    return '[' + ';'.join(str(256 if h[i:i + 2] == '??' else int(h[i:i + 2], 16)) for i in range(0, len(h), 2)) + ']'


def coq_init(x):
    if x == 'empty':
        return 'IEmpty'
    if x == 'default':
        return 'IDefault'
    h = x[0]
    lst = lambda r: '[' + ';'.join(coq_init(y) for y in r) + ']'
    if h == 'i':
        return '(IInt %d)' % num(x[1])
    if h == 'seq':
        return '(ISeq %s)' % lst(x[1:])
    if h == 'var':
        return '(IVar %d %s)' % (num(x[1]), lst(x[2:]))
    if h == 'varr':
        return '(IVecArr %s)' % lst(x[1:])
    if h == 'viter':
        return '(IVecIter %s)' % lst(x[1:])
    if h == 'str':
        return '(IStr %s)' % coq_bytes(x[1])
    if h == 'flex':
        return '(IFlex %s)' % lst(x[1:])
    raise ValueError(x)


def coq_value(x):
    """the runner's value syntax: 0x.. | (nK v..) | (cCAP v..)"""
    if isinstance(x, str):
        return '(VInt %d)' % num(x)
    h = x[0]
    vs = '[' + ';'.join(coq_value(y) for y in x[1:]) + ']'
    if h.startswith('n'):
        return '(VNode %d %s)' % (int(h[1:]), vs)
    if h.startswith('c'):
        return '(VCont %d %s)' % (num(h[1:]), vs)
    raise ValueError(x)


def coq_res(s, payload=None):
    """'ok' / 'ok:..' / 'err:Kind:pos' / 'crash:Kind' -> Coq term; payload: function mapping the text after 'ok:' to a term"""
    if s.startswith('ok'):
        return '(Ok %s)' % (payload(s[3:]) if payload else 'tt')
    if s.startswith('err:'):
        _, k, p = s.split(':')
        return '(Err %s %s)' % (k, p)
    if s.startswith('crash:'):
        return '(Crash %s)' % s.split(':')[1]
    raise ValueError(s)


def kv_of(line):
    parts = line.split(' ')
    head = parts[1] if len(parts) > 1 else ''
    kv = {}
    for m in re.finditer(r'(?:^| )([a-z]+)=(.*?)(?= [a-z]+=|$)', ' '.join(parts[2:])):
        kv[m.group(1)] = m.group(2)
    return head, kv


def build(shapes_sexp, cases, mres, n_sample, seed):
    """returns (coq source, list of sampled case ids in check order)"""
    rng = random.Random(seed * 131 + 9)
    byop = {}
    for l in cases:
        if len(l) < 1500:
            byop.setdefault(l[0], []).append(l)
    quota = {'V': 0.2, 'M': 0.3, 'L': 0.1, 'E': 0.2, 'A': 0.1, 'D': 0.1}
    sample = []
    for op, q in quota.items():
        ls = byop.get(op, [])
        rng.shuffle(ls)
        sample += ls[:max(1, int(n_sample * q))]
    used = sorted(set(l.split(' ')[2] for l in sample))
    src = [PRELUDE]
    for sid in used:
        t, _ = parse(tokenize(shapes_sexp[sid]))
        src.append('Definition ty_%s : ty := %s.' % (sid, coq_ty(t)))
    checks, ids = [], []
    val = lambda s: coq_value(parse(tokenize(s))[0])
    for l in sample:
        f = l.split(' ')
        op, cid, sid = f[0], f[1], f[2]
        m = mres.get(cid)
        if m is None:
            continue
        head, kv = kv_of(m)
        ty = 'ty_' + sid
        try:
            if op == 'L':
                # 'align=4 min=4 size=4|- wf=true': the head token is align=..
                mm = re.search(r'align=(\d+) min=(\d+) size=(\S+)', m)
                c = '(align %s =? %s) && (min_size %s =? %s)' % (ty, mm.group(1), ty, mm.group(2))
                if mm.group(3) != '-':
                    c += ' && (ssize %s =? %s) && sized %s' % (ty, mm.group(3), ty)
                else:
                    c += ' && negb (sized %s)' % ty
            elif op == 'V':
                c = 'res_eqb unit_eqb (validate %s %s %s) %s' % (ty, f[3], coq_bytes(f[4]), coq_res(head))
            elif op == 'M':
                bs = coq_bytes(f[4])
                c = 'res_eqb unit_eqb (validate %s %s %s) %s' % (ty, f[3], bs, coq_res(head))
                if head == 'ok':
                    c += ' && res_eqb value_eqb (view %s %s) %s' % (ty, bs, coq_res(kv['view'], val))
                    c += ' && res_eqb N.eqb (size_m %s %s) %s' % (ty, bs, coq_res(kv['size'], str))
                    c += ' && res_eqb N.eqb (bytes_len %s (blen %s)) %s' % (ty, bs, coq_res(kv['blen'], str))
            elif op in ('E', 'A', 'D'):
                buf = coq_bytes(f[4])
                if op == 'D':
                    call = 'default_in_place (Some 256) %s %s %s' % (ty, f[3], buf)
                else:
                    ini = coq_init(parse(tokenize(' '.join(f[5:])))[0])
                    fn = 'emplace' if op == 'E' else 'assign_in_place'
                    call = '%s (Some 256) %s %s %s %s' % (fn, ty, ini, f[3], buf)
                if head.startswith('crash:'):
                    c = 'eres_eqb (%s) ([], %s)' % (call, coq_res(head))
                else:
                    c = 'eres_eqb (%s) (%s, %s)' % (call, coq_bytes(kv['buf']), coq_res(head))
            else:
                continue
        except (KeyError, ValueError, IndexError, AttributeError):
            continue
        ids.append(cid)
        checks.append('(%d, %s)' % (len(ids), c))
    src.append('Definition checks : list (N * bool) := [\n  %s\n].' % ';\n  '.join(checks))
    src.append('Eval vm_compute in (N.of_nat (length checks), map fst (filter (fun p => negb (snd p)) checks)).')
    return '\n'.join(src) + '\n', ids


HIST_PRELUDE = r"""
From Flatty.Model Require Import Ops.
Definition clean (buf : bytes) : bytes := map (fun b => if 255 <? b then 0 else b) buf.
Definition oout_eqb (a b : oout) : bool :=
  match a, b with
  | ODone, ODone | ORefused, ORefused | OPanic, OPanic | OBad, OBad => true
  | OErr k, OErr k' => kind_eqb k k'
  | _, _ => false
  end.
Inductive hop := HV (o : vop) | HF (o : fop) | HE (i : N) (o : fop).
(* runner/main.ml hist: the operation goes to the innermost container reached through the last fields *)
Definition hstep (t : ty) (a : N) (o : hop) (cur : bytes) : bytes * oout :=
  match tail_container t (clean cur), o with
  | Some (_, TFlex _ _), HF fo => nested_flex_op (Some 256) t a fo cur
  | Some (_, TFlex _ _), HE i fo => nested_flex_edit_flex (Some 256) t a i fo cur
  | Some (_, TFlex _ _), HV _ => (cur, OBad)
  | Some _, HV vo => nested_vec_op (Some 256) t vo cur
  | Some _, HF _ | Some _, HE _ _ => (cur, OBad)
  | None, _ => (cur, OBad)
  end.
(* expected: per step (buffer, outcome); true when every listed step agrees *)
Fixpoint hrun (t : ty) (a : N) (cur : bytes) (steps : list (hop * (bytes * oout))) : bool :=
  match steps with
  | [] => true
  | (o, (eb, eo)) :: r =>
      let x := hstep t a o cur in
      list_eqb N.eqb (fst x) eb && oout_eqb (snd x) eo && hrun t a (fst x) r
  end.
"""


def coq_vop(x):
    h = x[0]
    lst = lambda r: '[' + ';'.join(coq_init(y) for y in r) + ']'
    if h == 'push':
        return '(VPush %s)' % coq_init(x[1])
    if h == 'pop':
        return 'VPop'
    if h == 'pushslice':
        return '(VPushSlice %s)' % lst(x[1:])
    if h == 'extend':
        return '(VExtend %s)' % lst(x[1:])
    if h == 'truncate':
        return '(VTruncate %d)' % num(x[1])
    if h == 'clear':
        return 'VClear'
    if h == 'remove':
        return '(VRemove %d)' % num(x[1])
    if h == 'swapremove':
        return '(VSwapRemove %d)' % num(x[1])
    if h == 'resize':
        return '(VResize %d %s)' % (num(x[1]), coq_init(x[2]))
    if h == 'set':
        return '(VSet %d %s)' % (num(x[1]), coq_init(x[2]))
    if h == 'pushstr':
        return '(SPushStr %s)' % coq_bytes(x[1])
    if h == 'pushchar':
        return '(SPushChar %d)' % num(x[1])
    raise ValueError(x)


def coq_fop(x):
    h = x[0]
    if h == 'push':
        return '(FPush %s)' % coq_init(x[1])
    if h == 'pop':
        return 'FPop'
    if h == 'truncate':
        return '(FTruncate %d)' % num(x[1])
    if h == 'clear':
        return 'FClear'
    if h == 'editvec':
        return '(FEditVec %d %s)' % (num(x[1]), coq_vop(x[2]))
    if h == 'editassign':
        return '(FEditAssign %d %s)' % (num(x[1]), coq_init(x[2]))
    raise ValueError(x)


def coq_oout(s):
    if s.startswith('err:'):
        return '(OErr %s)' % s[4:]
    return {'done': 'ODone', 'refused': 'ORefused', 'panic': 'OPanic', 'bad': 'OBad'}[s]


def is_flex_history(ops):
    return any(o[0] in ('editvec', 'editassign', 'editflex') for o in ops)


def build_hist(shapes_sexp, tail_is_flex, cases, mres, n_sample, seed):
    rng = random.Random(seed * 137 + 3)
    ls = [l for l in cases if len(l) < 1200]
    rng.shuffle(ls)
    sample = ls[:n_sample]
    used = sorted(set(l.split(' ')[2] for l in sample))
    src = [PRELUDE, HIST_PRELUDE]
    for sid in used:
        t, _ = parse(tokenize(shapes_sexp[sid]))
        src.append('Definition ty_%s : ty := %s.' % (sid, coq_ty(t)))
    checks, ids = [], []
    for l in sample:
        f = l.split(' ')
        cid, sid, off = f[1], f[2], f[3]
        m = mres.get(cid)
        if m is None:
            continue
        parts = [x.strip() for x in ' '.join(f[5:]).split('|') if x.strip()]
        mparts = [x.strip() for x in m.split(' ', 1)[1].split(' | ')]
        try:
            ini = coq_init(parse(tokenize(parts[0]))[0])
            h0 = dict(re.findall(r'(?:^| )([a-z]+)=(\S+)', mparts[0]))
            if h0.get('init') != 'ok':
                c = 'res_eqb unit_eqb (snd (emplace (Some 256) ty_%s %s %s %s)) %s' % (sid, ini, off, coq_bytes(f[4]), coq_res(h0['init']))
            else:
                steps = []
                for o, mp in zip(parts[1:], mparts[1:]):
                    kv = dict(re.findall(r'(?:^| )([a-z]+)=(\S+)', mp))
                    ox = parse(tokenize(o))[0]
                    if ox[0] == 'editflex':
                        op = 'HE %d %s' % (num(ox[1]), coq_fop(ox[2]))
                    else:
                        op = ('HF %s' % coq_fop(ox)) if tail_is_flex[sid] else ('HV %s' % coq_vop(ox))
                    steps.append('(%s, (%s, %s))' % (op, coq_bytes(kv['buf']), coq_oout(kv['res'])))
                c = ('let r := emplace (Some 256) ty_%s %s %s %s in list_eqb N.eqb (fst r) %s && hrun ty_%s %s (fst r) [%s]'
                     % (sid, ini, off, coq_bytes(f[4]), coq_bytes(h0['buf']), sid, off, ';'.join(steps)))
        except (KeyError, ValueError, IndexError):
            continue
        ids.append(cid)
        checks.append('(%d, %s)' % (len(ids), c))
    src.append('Definition checks : list (N * bool) := [\n  %s\n].' % ';\n  '.join(checks))
    src.append('Eval vm_compute in (N.of_nat (length checks), map fst (filter (fun p => negb (snd p)) checks)).')
    return '\n'.join(src) + '\n', ids


def run_src(src, ids):
    d = os.path.join(VERIF, '.cache', 'coqcross')
    os.makedirs(d, exist_ok=True)
    path = os.path.join(d, 'cross_%d.v' % os.getpid())
    with open(path, 'w') as f:
        f.write(src)
    try:
        p = subprocess.run('timeout 900 coqc -noglob -Q %s Flatty %s' % (os.path.join(VERIF, 'coq'), path), shell=True,
                           stdout=subprocess.PIPE, stderr=subprocess.STDOUT, timeout=1000)
        out = p.stdout.decode('utf-8', 'replace')
    finally:
        for ext in ('.v', '.vo', '.vok', '.vos', '.glob'):
            try:
                os.remove(path[:-2] + ext)
            except OSError:
                pass
    m = re.search(r'=\s*\((\d+)%?N?,\s*\[(.*?)\]\)', out.replace('\n', ' '), re.S)
    if p.returncode != 0 or not m:
        return {'n': 0, 'differing': [], 'error': out[-600:]}
    n = int(m.group(1))
    bad = [int(x.strip().rstrip('%N')) for x in m.group(2).split(';') if x.strip()]
    return {'n': n, 'differing': [ids[k - 1] for k in bad], 'error': None if n == len(ids) else 'count mismatch'}


def run_hist(shapes_sexp, tail_is_flex, cases, mres, n_sample=40, seed=1):
    src, ids = build_hist(shapes_sexp, tail_is_flex, cases, mres, n_sample, seed)
    return run_src(src, ids)


IO_PRELUDE = r"""
From Flatty.Model Require Import Io.
Definition clean (buf : bytes) : bytes := map (fun b => if 255 <? b then 0 else b) buf.
Definition iokind_eqb (a b : iokind) : bool :=
  match a, b with
  | Interrupted, Interrupted | WouldBlock, WouldBlock | IoOther, IoOther | UnexpectedEof, UnexpectedEof
  | BrokenPipe, BrokenPipe | TimedOut, TimedOut | OutOfMemory, OutOfMemory => true
  | _, _ => false
  end.
(* what the driver prints for a receive outcome: a message is printed as its deep read *)
Inductive xrout := XMsg (v : value) | XViewFailed | XClosed | XParse (k : kind) (p : N) | XRead (e : iokind) | XPanic | XHang | XPending.
Definition rout_match (t : ty) (o : rout) (x : xrout) : bool :=
  match o, x with
  | RMsg occ, XMsg v => res_eqb value_eqb (view t (clean occ)) (Ok v)
  | RMsg occ, XViewFailed => negb (is_ok (view t (clean occ)))
  | RClosed, XClosed | RPanic, XPanic | RHang, XHang | RPending, XPending => true
  | RParse k p, XParse k' p' => kind_eqb k k' && (p =? p')
  | RRead e, XRead e' => iokind_eqb e e'
  | _, _ => false
  end.
Fixpoint routs_match (t : ty) (os : list rout) (xs : list xrout) : bool :=
  match os, xs with
  | [], [] => true
  | o :: r, x :: s => rout_match t o x && routs_match t r s
  | _, _ => false
  end.
Definition sout_eqb (a b : sout) : bool :=
  match a, b with
  | SOk, SOk | SPanic, SPanic | SHang, SHang | SPending, SPending => true
  | SEmplace k p, SEmplace k' p' => kind_eqb k k' && (p =? p')
  | SIo e, SIo e' => iokind_eqb e e'
  | _, _ => false
  end.
Definition wev_eqb (a b : wev) : bool :=
  match a, b with
  | EvW n, EvW m => n =? m
  | EvWZ, EvWZ | EvWE, EvWE | EvWP, EvWP | EvFO, EvFO | EvFP, EvFP | EvFE, EvFE => true
  | _, _ => false
  end.
Definition vf (t : ty) := fun a bs => validate t a (clean bs).
Definition sf (t : ty) := fun bs => size_m t (clean bs).
Definition ef (t : ty) := fun i a buf => emplace (Some 256) t i a buf.
Definition recv_check (t : ty) (cap : N) (st : bytes) (sc : list rdir) (nrecv : nat) (limit : N) (xs : list xrout) (calls : N) : bool :=
  let r := recv_many (vf t) (sf t) nrecv limit (new_buffer cap 0)
             {| stream := st; rscript := sc; rcalls := 0 |} in
  routs_match t (fst r) xs && (rcalls (snd r) =? calls).
Definition arecv_check (t : ty) (cap : N) (st : bytes) (sc : list rdir) (nrecv fuel : nat) (limit : N) (xs : list xrout)
                       (calls polls : N) : bool :=
  let r := arecv_many (vf t) (sf t) nrecv fuel limit 0 false (new_buffer cap 0)
             {| stream := st; rscript := sc; rcalls := 0 |} in
  routs_match t (fst (fst r)) xs && (rcalls (snd (fst r)) =? calls) && (snd r =? polls).
Definition send_check (t : ty) (mml : N) (ws : list wdir) (is : list init) (limit : N) (xs : list sout) (snk : bytes) (calls : N) : bool :=
  let r := send_many (sf t) init (ef t) limit is {| sbuf := new_buffer (io_capacity (min_size t) mml) 256; poisoned := false |}
             {| sunk := []; wscript := ws; fscript := []; wcalls := 0 |} in
  list_eqb sout_eqb (fst r) xs && list_eqb N.eqb (sunk (snd r)) snk && (wcalls (snd r) =? calls).
Definition asend_check (t : ty) (mml : N) (ws : list wdir) (fs : list fdir) (is : list init) (fuel : nat) (limit : N)
                       (xs : list (sout * list wev)) (snk : bytes) (calls polls : N) : bool :=
  let r := asend_many (sf t) init (ef t) fuel limit 0 is {| sbuf := new_buffer (io_capacity (min_size t) mml) 256; poisoned := false |}
             {| sunk := []; wscript := ws; fscript := fs; wcalls := 0 |} in
  list_eqb (fun a b => sout_eqb (fst a) (fst b) && list_eqb wev_eqb (snd a) (snd b)) (fst (fst r)) xs
  && list_eqb N.eqb (sunk (snd (fst r))) snk && (wcalls (snd (fst r)) =? calls) && (snd r =? polls).
"""

IOK = {'Other': 'IoOther'}


def coq_iokind(s):
    return IOK.get(s, s)


def script_toks(s):
    return [] if s == '-' else s.split(',')


def coq_rdir(s):
    return {'d': lambda: '(RD %d)' % int(s[1:]), 'z': lambda: 'RZ', 'e': lambda: '(RE %s)' % coq_iokind(s[1:]), 'p': lambda: 'RP'}[s[0]]()


def coq_wdir(s):
    return {'a': lambda: '(WA %d)' % int(s[1:]), 'z': lambda: 'WZ', 'e': lambda: '(WE %s)' % coq_iokind(s[1:]), 'p': lambda: 'WP'}[s[0]]()


def coq_fdir(s):
    return 'FO' if s == 'fo' else 'FP' if s == 'fp' else '(FE %s)' % coq_iokind(s[2:])


def coq_xrout(s):
    if s.startswith('msg:'):
        if s == 'msg:VIEW-FAILED':
            return 'XViewFailed'
        return '(XMsg %s)' % coq_value(parse(tokenize(s[4:]))[0])
    if s.startswith('parse:'):
        _, k, p = s.split(':')
        return '(XParse %s %s)' % (k, p)
    if s.startswith('read:'):
        return '(XRead %s)' % coq_iokind(s[5:])
    return {'closed': 'XClosed', 'panic': 'XPanic', 'hang': 'XHang', 'pending': 'XPending'}[s]


def coq_sout(s):
    if s.startswith('emplace:'):
        _, k, p = s.split(':')
        return '(SEmplace %s %s)' % (k, p)
    if s.startswith('io:'):
        return '(SIo %s)' % coq_iokind(s[3:])
    return {'ok': 'SOk', 'panic': 'SPanic', 'hang': 'SHang', 'pending': 'SPending'}[s]


def coq_wev(s):
    if s.startswith('w') and s[1:].isdigit():
        return '(EvW %s)' % s[1:]
    return {'wz': 'EvWZ', 'we': 'EvWE', 'wp': 'EvWP', 'fo': 'EvFO', 'fp': 'EvFP', 'fe': 'EvFE'}[s]


def split_outs(s):
    """'a;b;c' where a message's deep read never contains ';'"""
    return [] if s == '' else s.split(';')


def build_io(shapes_sexp, cases, mres, n_sample, seed):
    rng = random.Random(seed * 139 + 5)
    ls = [l for l in cases if len(l) < 1500 and l.split(' ')[2] in ('recv', 'arecv', 'send', 'asend') and ' ~ ' not in l]
    rng.shuffle(ls)
    sample = ls[:n_sample]
    used = sorted(set(l.split(' ')[3] for l in sample))
    src = [PRELUDE, IO_PRELUDE]
    for sid in used:
        t, _ = parse(tokenize(shapes_sexp[sid]))
        src.append('Definition ty_%s : ty := %s.' % (sid, coq_ty(t)))
    checks, ids = [], []
    lst = lambda xs: '[' + ';'.join(xs) + ']'
    for l in sample:
        f = l.split(' ')
        cid, kind, sid, args = f[1], f[2], f[3], f[4:]
        m = mres.get(cid)
        if m is None or 'MODEL-ERROR' in m:
            continue
        kv = dict(re.findall(r'(?:^| )([a-z_]+)=(.*?)(?= [a-z_]+=|$)', m.split(' ', 1)[1]))
        ty = 'ty_' + sid
        try:
            if kind in ('recv', 'arecv'):
                mml, stream, rscript, nrecv = args[0], args[1], args[2], int(args[3])
                # `c<n>`: a receiver over IoBuffer::new(pipe, n, ALIGN); otherwise Receiver::io(pipe, max_msg_len)
                mml = mml[1:] if mml.startswith('c') else '(io_capacity (min_size %s) %s)' % (ty, mml)
                sc = [coq_rdir(x) for x in script_toks(rscript)]
                nstream = 0 if stream == '-' else len(stream) // 2
                limit = nstream + len(sc) + 2 * nrecv + 16
                xs = lst(coq_xrout(x) for x in split_outs(kv.get('r', '')))
                if kind == 'recv':
                    c = 'recv_check %s %s %s %s %d %d %s %s' % (ty, mml, coq_bytes(stream), lst(sc), nrecv, limit, xs, kv['calls'])
                else:
                    c = 'arecv_check %s %s %s %s %d %d %d %s %s %s' % (ty, mml, coq_bytes(stream), lst(sc), nrecv, 2 * limit + 8,
                                                                      limit, xs, kv['calls'], kv['polls'])
            else:
                mml, wscript = args[0], args[1]
                rest = args[2:] if kind == 'send' else args[3:]
                inits = [x.strip() for x in ' '.join(rest).split('|') if x.strip()]
                ws = [coq_wdir(x) for x in script_toks(wscript)]
                is_ = lst(coq_init(parse(tokenize(x))[0]) for x in inits)
                if kind == 'send':
                    limit = 64 * len(inits) + len(ws) + 16
                    xs = lst(coq_sout(x) for x in split_outs(kv.get('s', '')))
                    c = 'send_check %s %s %s %s %d %s %s %s' % (ty, mml, lst(ws), is_, limit, xs, coq_bytes(kv['sink']), kv['calls'])
                else:
                    fs = [coq_fdir(x) for x in script_toks(args[2])]
                    limit = 64 * len(inits) + len(ws) + len(fs) + 16
                    outs = []
                    for x in split_outs(kv.get('s', '')):
                        mm = re.match(r'^(.*?)\[(.*)\]$', x)
                        evs = [coq_wev(e) for e in mm.group(2).split('.') if e]
                        outs.append('(%s, %s)' % (coq_sout(mm.group(1)), lst(evs)))
                    c = 'asend_check %s %s %s %s %s %d %d %s %s %s %s' % (ty, mml, lst(ws), lst(fs), is_, 2 * limit + 8, limit,
                                                                         lst(outs), coq_bytes(kv['sink']), kv['calls'], kv['polls'])
        except (KeyError, ValueError, IndexError, AttributeError):
            continue
        ids.append(cid)
        checks.append('(%d, %s)' % (len(ids), c))
    src.append('Definition checks : list (N * bool) := [\n  %s\n].' % ';\n  '.join(checks))
    src.append('Eval vm_compute in (N.of_nat (length checks), map fst (filter (fun p => negb (snd p)) checks)).')
    return '\n'.join(src) + '\n', ids


def run_io(shapes_sexp, cases, mres, n_sample=60, seed=1):
    src, ids = build_io(shapes_sexp, cases, mres, n_sample, seed)
    return run_src(src, ids)


def run(shapes_sexp, cases, mres, n_sample=150, seed=1):
    """returns dict(n=<cases evaluated inside Coq>, differing=[case ids], error=<text or None>)"""
    src, ids = build(shapes_sexp, cases, mres, n_sample, seed)
    d = os.path.join(VERIF, '.cache', 'coqcross')
    os.makedirs(d, exist_ok=True)
    path = os.path.join(d, 'cross_%d.v' % os.getpid())
    with open(path, 'w') as f:
        f.write(src)
    try:
        p = subprocess.run('timeout 900 coqc -noglob -Q %s Flatty %s' % (os.path.join(VERIF, 'coq'), path), shell=True,
                           stdout=subprocess.PIPE, stderr=subprocess.STDOUT, timeout=1000)
        out = p.stdout.decode('utf-8', 'replace')
    finally:
        for ext in ('.v', '.vo', '.vok', '.vos', '.glob'):
            try:
                os.remove(path[:-2] + ext)
            except OSError:
                pass
    m = re.search(r'=\s*\((\d+)%?N?,\s*\[(.*?)\]\)', out.replace('\n', ' '), re.S)
    if p.returncode != 0 or not m:
        return {'n': 0, 'differing': [], 'error': out[-600:]}
    n = int(m.group(1))
    bad = [int(x.strip().rstrip('%N')) for x in m.group(2).split(';') if x.strip()]
    return {'n': n, 'differing': [ids[k - 1] for k in bad], 'error': None if n == len(ids) else 'count mismatch'}
