#!/bin/sh
# screen.sh <patch.diff> <tag> <property...> — development aid: runs the analysis of the given properties
# (tools/runall.py, i.e. what ./check runs after the Coq step) against a scratch copy of /repo with the
# patch applied and a scratch copy of /verif whose harness points at that copy, so that several candidate
# changes can be screened in parallel without touching /repo.  The recorded confirmation of a seeded change
# is still done the prescribed way (git -C /repo apply; ./check; git -C /repo checkout -- .).
PATCH=$1; TAG=$2; shift 2
SB=/root/scratch/vs-$TAG
rm -rf $SB; mkdir -p $SB
git -C /repo worktree add -q --detach $SB/repo HEAD || exit 2
( cd $SB/repo && git apply "$PATCH" ) || { echo "patch does not apply"; git -C /repo worktree remove --force $SB/repo; rm -rf $SB; exit 2; }
rsync -a --exclude .git --exclude replays --exclude seeded ${SNAP:-/verif}/ $SB/verif/
sed -i "s#\"/repo#\"$SB/repo#g" $SB/verif/harness/Cargo.toml
( cd $SB/verif && VERIF_REPO=$SB/repo NSHOW=${NSHOW:-1} timeout 3000 python3 tools/runall.py quick ${SEED:-1} "$@" 2>&1 | grep -v "^WARNING" | cut -c1-300 )
git -C /repo worktree remove --force $SB/repo
rm -rf $SB
