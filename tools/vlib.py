#!/usr/bin/env python3
"""vlib.py — shared machinery of ./check: building (Coq, runner, harness), running suites on both
sides, canonical comparison."""
import hashlib
import json
import os
import re
import subprocess
import sys
import time

VERIF = os.path.dirname(os.path.dirname(os.path.abspath(__file__)))
REPO = os.environ.get('VERIF_REPO', '/repo')
CACHE = os.path.join(VERIF, '.cache')
COV = os.environ.get('VERIF_COV')   # directory for an instrumented harness build and its profiles (tools/coverage.py)
sys.path.insert(0, os.path.join(VERIF, 'gen'))

ENV = dict(os.environ, CARGO_NET_OFFLINE='true')


def sh(cmd, cwd=None, timeout=3600, env=None, stdin=None):
    p = subprocess.run(cmd, cwd=cwd, shell=isinstance(cmd, str), stdout=subprocess.PIPE, stderr=subprocess.STDOUT,
                       timeout=timeout, env=env or ENV, input=stdin)
    return p.returncode, p.stdout.decode('utf-8', 'replace')


# ---------------------------------------------------------------- hashing / caching

def tree_hash(root, exclude=('target', '.git')):
    h = hashlib.sha256()
    for d, dirs, files in os.walk(root):
        dirs[:] = sorted(x for x in dirs if x not in exclude)
        for f in sorted(files):
            p = os.path.join(d, f)
            try:
                with open(p, 'rb') as fh:
                    data = fh.read()
            except OSError:
                continue
            h.update(os.path.relpath(p, root).encode())
            h.update(b'\0')
            h.update(hashlib.sha256(data).digest())
    return h.hexdigest()[:20]


_repo_hash = None


def repo_hash():
    global _repo_hash
    if _repo_hash is None:
        _repo_hash = tree_hash(REPO)
    return _repo_hash


def files_hash(paths):
    h = hashlib.sha256()
    for p in sorted(paths):
        if os.path.isdir(p):
            h.update(tree_hash(p, exclude=('target', '.git', '__pycache__')).encode())
        elif os.path.exists(p):
            with open(p, 'rb') as fh:
                h.update(hashlib.sha256(fh.read()).digest())
    return h.hexdigest()[:20]


def verif_hash():
    """everything in /verif that influences a suite result"""
    return files_hash([os.path.join(VERIF, x) for x in ('gen', 'tools', 'harness/src/probe.rs', 'harness/src/main.rs',
                                                        'harness/src/vecops.rs', 'harness/src/flexops.rs',
                                                        'harness/src/io_suite.rs', 'harness/src/portable_suite.rs',
                                                        'harness/Cargo.toml', 'runner/main.ml', 'coq/Model',
                                                        'coq/Extract.v')])


# ---------------------------------------------------------------- builds

class BuildError(Exception):
    def __init__(self, what, log):
        super().__init__(what)
        self.what = what
        self.log = log


def build_coq(target=None):
    """full .vo build through coq_makefile; returns the make log"""
    coq = os.path.join(VERIF, 'coq')
    if not os.path.exists(os.path.join(coq, 'Makefile')) or \
            os.path.getmtime(os.path.join(coq, 'Makefile')) < os.path.getmtime(os.path.join(coq, '_CoqProject')):
        rc, out = sh('coq_makefile -f _CoqProject -o Makefile', cwd=coq)
        if rc != 0:
            raise BuildError('coq_makefile', out)
    rc, out = sh('timeout 3000 make -j16 %s' % (target or ''), cwd=coq, timeout=3100)
    if rc != 0:
        raise BuildError('coq make', out)
    return out


def build_runner():
    coq = os.path.join(VERIF, 'coq')
    ex = os.path.join(coq, 'extract')
    os.makedirs(ex, exist_ok=True)
    src_hash = files_hash([os.path.join(coq, 'Model'), os.path.join(coq, 'Extract.v'),
                           os.path.join(VERIF, 'runner', 'main.ml')])
    stamp = os.path.join(CACHE, 'runner.stamp')
    runner = os.path.join(VERIF, 'runner', 'runner')
    if os.path.exists(runner) and os.path.exists(stamp) and open(stamp).read() == src_hash:
        return runner
    proj = open(os.path.join(coq, '_CoqProject')).read().split()
    build_coq(' '.join(f[:-2] + '.vo' for f in proj if f.startswith('Model/') and f.endswith('.v')))
    rc, out = sh('timeout 600 coqc -Q .. Flatty ../Extract.v', cwd=ex)
    if rc != 0:
        raise BuildError('extraction', out)
    rc, out = sh('./build.sh', cwd=os.path.join(VERIF, 'runner'))
    if rc != 0:
        raise BuildError('runner build', out)
    os.makedirs(CACHE, exist_ok=True)
    with open(stamp, 'w') as f:
        f.write(src_hash)
    return runner


def build_harness(shapes, profile='debug'):
    """writes shapes_gen.rs for the given shapes and builds the harness against /repo"""
    import shapes as shp
    hdir = os.path.join(VERIF, 'harness')
    src = shp.emit_rust(shapes)
    p = os.path.join(hdir, 'src', 'shapes_gen.rs')
    if not os.path.exists(p) or open(p).read() != src:
        with open(p, 'w') as f:
            f.write(src)
    lock = os.path.join(hdir, 'Cargo.lock')
    if not os.path.exists(lock):
        import shutil
        shutil.copy(os.path.join(REPO, 'Cargo.lock'), lock)
    flags = '--release' if profile == 'release' else ''
    binary = os.path.join(CACHE, 'target', profile, 'flatty-verif-harness')
    env = None
    if COV:
        # coverage mode (tools/coverage.py): instrumented build in its own target directory
        flags += ' --target-dir %s' % os.path.join(COV, 'target')
        binary = os.path.join(COV, 'target', profile, 'flatty-verif-harness')
        env = dict(ENV, RUSTFLAGS='-C instrument-coverage', RUSTUP_TOOLCHAIN='nightly',
                   # the instrumented proc-macro crate writes a profile when rustc runs it: keep it out of /repo
                   LLVM_PROFILE_FILE=os.path.join(COV, 'prof-build', '%p-%m.profraw'))
    want = ['%s %s' % (sid, shp.sexp(t)) for sid, t in shapes]
    for attempt in range(2):
        rc, out = sh('cargo build --offline %s' % flags, cwd=hdir, timeout=1800, env=env)
        if rc != 0:
            raise BuildError('harness build', out)
        # the binary must be the one built from these shapes (another process may have rebuilt it meanwhile)
        rc2, got = sh([binary, '--shapes'], timeout=60)
        if rc2 == 0 and got.split('\n')[:len(want)] == want:
            return binary
        os.utime(p, None)
    raise BuildError('harness build', 'the harness binary does not correspond to the generated shapes')


# ---------------------------------------------------------------- running

def run_model(runner, lines, shards=8):
    """lines: list of case lines (T lines first are replicated to every shard)"""
    tl = [l for l in lines if l.startswith('T ')]
    cl = [l for l in lines if not l.startswith('T ')]
    if not cl:
        return {}
    n = max(1, min(shards, len(cl) // 200 + 1))
    procs = []
    for i in range(n):
        part = cl[i::n]
        data = ('\n'.join(tl + part) + '\n').encode()
        p = subprocess.Popen([runner], stdin=subprocess.PIPE, stdout=subprocess.PIPE, stderr=subprocess.PIPE)
        procs.append((p, data))
    # feed and collect concurrently
    import threading
    outs = [None] * n

    def work(i):
        p, data = procs[i]
        o, e = p.communicate(data)
        outs[i] = (p.returncode, o.decode(), e.decode())
    ths = [threading.Thread(target=work, args=(i,)) for i in range(n)]
    for t in ths:
        t.start()
    for t in ths:
        t.join()
    res = {}
    for rc, o, e in outs:
        if rc != 0:
            raise BuildError('model runner failed', e[-2000:])
        for l in o.splitlines():
            cid = l.split(' ', 1)[0]
            res[cid] = l
    return res


def run_rust(harness, lines, shards=8, timeout=600, hangs_left=None):
    cl = [l for l in lines if not l.startswith('T ')]
    if not cl:
        return {}
    n = max(1, min(shards, len(cl) // 200 + 1))
    import threading
    outs = [None] * n
    if hangs_left is None:
        hangs_left = [6]        # per call: a change that makes every case hang is reported after a few of them

    def work(i):
        part = cl[i::n]
        data = ('\n'.join(part) + '\n').encode()
        pending = None
        try:
            penv = dict(os.environ, LLVM_PROFILE_FILE=os.path.join(COV, 'prof', '%p-%m.profraw')) if COV else None
            p = subprocess.run([harness], input=data, stdout=subprocess.PIPE, stderr=subprocess.PIPE, timeout=timeout,
                               env=penv)
            outs[i] = (p.returncode, p.stdout.decode('utf-8', 'replace'), part)
        except subprocess.TimeoutExpired as ex:
            outs[i] = ('timeout', (ex.stdout or b'').decode('utf-8', 'replace'), part)
    ths = [threading.Thread(target=work, args=(i,)) for i in range(n)]
    for t in ths:
        t.start()
    for t in ths:
        t.join()
    res = {}
    for rc, o, part in outs:
        started = None
        for l in o.splitlines():
            if l.startswith('#start '):
                started = l[7:]
                continue
            cid = l.split(' ', 1)[0]
            res[cid] = l
            if cid == started:
                started = None
        if rc != 0:
            # the process died or hung in the case that was started last
            if started is not None:
                res[started] = '%s %s' % (started, 'hang' if rc in ('timeout', 124) else 'abort:%s' % rc)
                if rc in ('timeout', 124):
                    hangs_left[0] -= 1
            # the cases after it were not run: re-run them in a fresh process
            ids = [l.split(' ')[1] for l in part]
            if started in ids:
                rest = part[ids.index(started) + 1:]
                if rest and hangs_left[0] > 0:
                    res.update(run_rust(harness, rest, shards=1, timeout=timeout, hangs_left=hangs_left))
                elif rest:
                    for l in rest:
                        c = l.split(' ')[1]
                        res[c] = '%s not-run:too-many-hangs' % c
    return res


# ---------------------------------------------------------------- comparison

def parse_kv(line):
    parts = line.rstrip('\n').split(' ', 2)
    cid = parts[0]
    head = parts[1] if len(parts) > 1 else ''
    rest = parts[2] if len(parts) > 2 else ''
    flags = []
    toks = rest.split(' ')
    while toks and toks[-1] and re.fullmatch(r'[A-Z][A-Z-]+', toks[-1]):
        flags.append(toks.pop())
    rest = ' '.join(toks)
    kv = {}
    if rest:
        for m in re.finditer(r'(?:^| )([a-z]+)=(.*?)(?= [a-z]+=|$)', rest):
            kv[m.group(1)] = m.group(2)
    if re.fullmatch(r'[A-Z][A-Z-]+', head or ''):
        flags.append(head)
    return cid, head, kv, flags


CONTENT_KINDS = ('InvalidData', 'InvalidEnumTag')
ASSIGN_CASE = re.compile(r'\.A\d+_\d+')


def norm_res(v, side):
    """canonical outcome class of 'ok[:x]' / 'err:Kind:pos' / 'crash:Kind' / 'panic'"""
    if v.startswith('ok'):
        return v
    if v.startswith('err:'):
        parts = v.split(':')
        if len(parts) < 3:
            return v
        _, kind, pos = parts[:3]
        return 'err:%s:%s' % (kind, pos if kind in CONTENT_KINDS else '*')
    if v.startswith('crash:Panic') or v == 'panic':
        return 'panic'
    return v


def buf_match(mbuf, rbuf):
    if mbuf == rbuf:
        return True
    if len(mbuf) != len(rbuf):
        return False
    for i in range(0, len(mbuf), 2):
        if mbuf[i:i + 2] != '??' and mbuf[i:i + 2] != rbuf[i:i + 2]:
            return False
    return True


def compare_lines(mline, rline, keys=None, head=True):
    """returns list of human readable differences between a model line and an implementation line.
    keys: the projection (None = every key the model prints)."""
    diffs = []
    if mline is None or rline is None:
        return ['missing result: model=%r impl=%r' % (mline, rline)]
    _, mh, mkv, _ = parse_kv(mline)
    _, rh, rkv, rflags = parse_kv(rline)
    if head and norm_res(mh, 'm') != norm_res(rh, 'r'):
        diffs.append('outcome: model=%s impl=%s' % (mh, rh))
    op_failed_emplace = not mh.startswith('ok') and 'val' in mkv
    for k, mv in mkv.items():
        if keys is not None and k not in keys:
            continue
        if op_failed_emplace and k in ('buf', 'val', 'view', 'size') and not ASSIGN_CASE.search(mline.split(' ')[0]):
            # what a failed new_in_place leaves in the buffer is not specified by any property
            continue
        rv = rkv.get(k)
        if rv is None:
            if k in ('caps', 'wf'):
                continue
            diffs.append('%s: model=%s impl=<absent>' % (k, mv))
            continue
        if k == 'buf':
            if not buf_match(mv, rv):
                diffs.append('buf: model=%s impl=%s' % (mv, rv))
        elif norm_res(mv, 'm') != norm_res(rv, 'r'):
            diffs.append('%s: model=%s impl=%s' % (k, mv, rv))
    return diffs
