#!/usr/bin/env python3
"""oracles.py — per property: the projection of the model/implementation comparison and the
direct, executable statement of the property over the implementation's own outputs.

An oracle returns a list of (case_id, message).  Oracles are testing aids (they turn a broken
correspondence into a concrete failing input and give a second line of defence); the theorems
carry the "for every input" part."""
import re
from vlib import parse_kv, norm_res
from shapes import INTS, align as py_align, is_sized


# ---------------------------------------------------------------- expected content of a spec

def parse_sexp(s):
    toks = re.findall(r'\(|\)|[^\s()]+', s)
    pos = 0

    def one():
        nonlocal pos
        t = toks[pos]
        pos += 1
        if t == '(':
            out = []
            while toks[pos] != ')':
                out.append(one())
            pos += 1
            return out
        return t
    return one()


def num(s):
    return int(s, 16) if s.startswith('0x') else int(s)


def expected_content(t, ini):
    """printed content (capacities stripped) a value of type t emplaced from ini must read back as"""
    k = t[0]
    dflt = (ini == 'default')
    if k == 'unit':
        return '(n0)'
    if k == 'bool':
        return hex(0 if dflt else num(ini[1]))
    if k == 'int':
        return hex(0 if dflt else num(ini[1]) & (256 ** INTS[t[1]][0] - 1))
    if k == 'clike':
        return hex(t[3] if dflt else num(ini[1]))
    if k == 'arr':
        items = ['default'] * t[2] if dflt else ini[1:]
        return '(n0%s)' % ''.join(' ' + expected_content(t[1], i) for i in items)
    if k == 'struct':
        items = ['default'] * len(t[2]) if dflt else ini[1:]
        return '(n0%s)' % ''.join(' ' + expected_content(f, i) for f, i in zip(t[2], items))
    if k == 'enum':
        if dflt:
            return '(n%d)' % t[3]
        v = num(ini[1])
        return '(n%d%s)' % (v, ''.join(' ' + expected_content(f, i) for f, i in zip(t[4][v], ini[2:])))
    if k == 'vec':
        if dflt or ini == 'empty':
            return '(c)'
        return '(c%s)' % ''.join(' ' + expected_content(t[1], i) for i in ini[1:])
    if k == 'str':
        if dflt or ini == 'empty':
            return '(c)'
        h = ini[1]
        bs = [] if h == '-' else [int(h[2 * i:2 * i + 2], 16) for i in range(len(h) // 2)]
        return '(c%s)' % ''.join(' ' + hex(b) for b in bs)
    if k == 'flex':
        if dflt or ini == 'empty':
            return '(n0)'
        return '(n0%s)' % ''.join(' ' + expected_content(t[1], i) for i in ini[1:])
    raise ValueError(t)


def strip_caps(s):
    return re.sub(r'\(c0x[0-9a-f]+', '(c', s)


def caps_violations(view):
    """every '(c<cap> item*)' must have #items <= cap"""
    toks = re.findall(r'\(|\)|[^\s()]+', view)
    bad = []
    stack = []
    for t in toks:
        if t == '(':
            stack.append(None)
        elif t == ')':
            top = stack.pop()
            if top is not None and top[0] is not None and top[1] > top[0]:
                bad.append(top)
            if stack and stack[-1] is not None:
                stack[-1][1] += 1
        else:
            if stack and stack[-1] is None:
                # head token of a node
                if t.startswith('c0x'):
                    stack[-1] = [int(t[1:], 16), 0]
                else:
                    stack[-1] = [None, 0]
            elif stack and stack[-1] is not None:
                stack[-1][1] += 1
    return bad


# ---------------------------------------------------------------- per property

class Ctx:
    """what an oracle sees: the case lines, both result maps, the generator's meta data"""

    def __init__(self, shapes, cases, mres, rres, meta):
        self.shapes = dict(shapes)
        self.cases = cases          # list of case lines
        self.mres = mres
        self.rres = rres
        self.meta = meta
        self.line = {l.split(' ')[1]: l for l in cases}

    def ops(self, *ops, wide=False):
        """cases of the given kinds; shapes with a length type wider than usize (known finding D15, recorded
        under C01 / C15) are left to those two properties"""
        for l in self.cases:
            if l.split(' ', 1)[0] in ops:
                if not wide and l.split(' ', 1)[0] != 'L' and not self.narrow(l.split(' ')[2]):
                    continue
                yield l.split(' ')[1], l

    def narrow(self, sid):
        import shapes
        return not shapes.wide_len(self.shapes[sid])


def bad_outcome(head):
    return head in ('panic', 'hang') or head.startswith('abort') or head.startswith('HARNESS-ERROR')


def c01(ctx):
    out = []
    n = 0
    for cid, l in ctx.ops('V', 'M', wide=True):
        r = ctx.rres.get(cid)
        if r is None:
            out.append((cid, 'no result'))
            continue
        n += 1
        _, head, kv, flags = parse_kv(r)
        if not (head == 'ok' or head.startswith('err:')):
            out.append((cid, 'validate did not return Ok/Err: %s' % head))
        if 'OUTSIDE-READ' in flags:
            out.append((cid, 'result depends on memory outside the slice'))
        if 'OOB-WRITE' in flags:
            out.append((cid, 'memory outside the slice (or the slice itself) was written'))
        if 'from_bytes-disagrees-with-validate' in r:
            out.append((cid, 'from_bytes disagrees with validate'))
        # a reference handed out by from_bytes that covers more bytes than the slice it was given (size_of_val of the
        # mapped value) is memory outside the slice: creating it is already undefined behaviour
        if head == 'ok' and kv.get('sov', '').isdigit() and cid in ctx.meta and 'len' in ctx.meta[cid] \
                and int(kv['sov']) > ctx.meta[cid]['len']:
            out.append((cid, 'from_bytes returned a reference covering %s bytes of a %d byte slice' % (kv['sov'], ctx.meta[cid]['len'])))
    return out, n


def c02(ctx):
    out = []
    n = 0
    for cid, l in ctx.ops('M'):
        r = ctx.rres.get(cid)
        if r is None:
            continue
        _, head, kv, flags = parse_kv(r)
        if head != 'ok':
            continue
        n += 1
        view = kv.get('view', '')
        if not view.startswith('ok:'):
            out.append((cid, 'accessors failed on an accepted slice: view=%s' % view))
            continue
        if '!notutf8' in view:
            # the harness asks core::str::from_utf8 about the text of every reachable FlatString (probe.rs, deep)
            out.append((cid, 'from_bytes accepted a FlatString whose stored text is not well-formed UTF-8 '
                             '(as_str() hands out an invalid &str; Props/C02_utf8: c02_utf8_accept_iff): %s' % view))
            continue
        if caps_violations(view[3:]):
            out.append((cid, 'a container reports len > capacity: %s' % view))
        if kv.get('rt') != 'ok':
            out.append((cid, "the value's own bytes do not validate again: rt=%s" % kv.get('rt')))
        elif kv.get('rtview') != 'same':
            out.append((cid, "the value's own bytes map to different content"))
        if not kv.get('inside', '').startswith('ok'):
            out.append((cid, 'a reachable reference lies outside the slice or is misaligned: %s' % kv.get('inside')))
        # the bytes the value reports as its own (the first size() of them) validate again and hold the same content
        tv = kv.get('tv')
        if tv is not None:
            if tv == '-':
                out.append((cid, 'the value reports more bytes (size=%s) than the slice it was mapped from' % kv.get('size')))
            elif tv != 'ok':
                out.append((cid, "the value's own bytes (the first size()=%s) do not validate again: %s" % (kv.get('size'), tv)))
            elif kv.get('tview') != 'same':
                out.append((cid, "the value's own bytes (the first size()) map to different content"))
    # the other entry points (FlatWrap::from_wrapped_bytes, from_mut_bytes) must agree with from_bytes on every slice
    for cid, l in ctx.ops('M'):
        r = ctx.rres.get(cid)
        if r is None:
            continue
        kv = parse_kv(r)[2]
        if kv.get('wrap', 'same').startswith('DIFF'):
            out.append((cid, 'FlatWrap::from_wrapped_bytes / from_mut_bytes disagree with from_bytes: %s '
                             '(same verdict : same content : same verdict of from_mut_bytes)' % kv['wrap']))
    return out, n


def c03(ctx):
    out = []
    n = 0
    for cid, l in ctx.ops('E'):
        r = ctx.rres.get(cid)
        if r is None:
            continue
        _, head, kv, flags = parse_kv(r)
        if head != 'ok':
            continue
        n += 1
        toks = l.split(' ', 5)
        t = ctx.shapes[toks[2]]
        ini = parse_sexp(toks[5])
        if kv.get('val') != 'ok':
            out.append((cid, 'emplaced bytes do not validate: %s' % kv.get('val')))
            continue
        want = 'ok:' + expected_content(t, ini)
        got = strip_caps(kv.get('view', ''))
        if got != want:
            out.append((cid, 'reads back %s, specified %s' % (got, want)))
    return out, n


def c04(ctx):
    out = []
    n = 0
    for cid, l in ctx.ops('M'):
        r = ctx.rres.get(cid)
        if r is None:
            continue
        _, head, kv, flags = parse_kv(r)
        if head != 'ok':
            continue
        n += 1
        ln = ctx.meta[cid]['len']
        t = ctx.shapes[l.split(' ')[2]]
        sov = int(kv.get('sov', '-1'))
        if sov > ln:
            out.append((cid, 'size_of_val %d exceeds the %d bytes the value was mapped from' % (sov, ln)))
        if kv.get('blen') != 'ok:%d' % sov:
            out.append((cid, 'as_bytes().len() %s differs from size_of_val %d' % (kv.get('blen'), sov)))
        lr = ctx.rres.get(l.split(' ')[2] + '.L')
        if lr is not None:
            al = parse_kv(lr)[1]
            # the first token of an L line is 'align=..'
            m = re.match(r'align=(\d+)', al)
            if m and kv.get('aov') != m.group(1):
                out.append((cid, 'align_of_val %s differs from ALIGN %s' % (kv.get('aov'), m.group(1))))
        if not kv.get('inside', '').startswith('ok'):
            out.append((cid, 'field address outside the slice: %s' % kv.get('inside')))
    for cid, l in ctx.ops('L'):
        n += 1
        r = ctx.rres.get(cid)
        m = re.search(r'abytes=(\S+)', r or '')
        if m and m.group(1) != 'ok':
            out.append((cid, 'AlignedBytes does not give the requested length / alignment / contents: %s' % m.group(1)))
    return out, n


def c05(ctx):
    out = []
    n = 0
    for cid, l in ctx.ops('M'):
        r = ctx.rres.get(cid)
        if r is None:
            continue
        _, head, kv, flags = parse_kv(r)
        if head != 'ok':
            continue
        n += 1
        ln = ctx.meta[cid]['len']
        t = ctx.shapes[l.split(' ')[2]]
        sz = kv.get('size', '')
        if not sz.startswith('ok:'):
            out.append((cid, 'size() failed: %s' % sz))
            continue
        s = int(sz[3:])
        if s > ln:
            out.append((cid, 'size() = %d exceeds the %d bytes the value was mapped from' % (s, ln)))
            continue
        if s % py_align(t) != 0:
            out.append((cid, 'size() = %d is not a multiple of the alignment' % s))
        if kv.get('tv') != 'ok':
            out.append((cid, 'the first size() = %d bytes do not map again: %s' % (s, kv.get('tv'))))
        elif kv.get('tview') != 'same':
            out.append((cid, 'the first size() bytes map to different content'))
        elif kv.get('tsize') != sz:
            out.append((cid, 'size() of the truncated value is %s, not %s' % (kv.get('tsize'), sz)))
    return out, n


def c06(ctx):
    out = []
    n = 0
    for cid, l in ctx.ops('M'):
        md = ctx.meta[cid]
        if md.get('kind') not in ('prefix', 'extension'):
            continue
        r = ctx.rres.get(cid)
        b = ctx.rres.get(md['base'] + '.M')
        if r is None or b is None:
            continue
        _, bh, bkv, _ = parse_kv(b)
        if bh != 'ok':
            continue   # the base image is not valid on the implementation: C03's business
        n += 1
        _, head, kv, _ = parse_kv(r)
        bcontent = strip_caps(bkv.get('view', ''))
        if md['kind'] == 'prefix':
            if head.startswith('err:InsufficientSize'):
                continue
            if head == 'ok':
                if strip_caps(kv.get('view', '')) != bcontent:
                    out.append((cid, 'a proper prefix validates as a different message'))
                continue
            out.append((cid, 'a proper prefix of a valid message is reported as %s' % head))
        else:
            if head != 'ok':
                out.append((cid, 'a valid message followed by further bytes is rejected: %s' % head))
            elif strip_caps(kv.get('view', '')) != bcontent:
                out.append((cid, 'trailing bytes change the content'))
            elif kv.get('size') != bkv.get('size'):
                out.append((cid, 'trailing bytes change size(): %s vs %s' % (kv.get('size'), bkv.get('size'))))
    return out, n


def c14(ctx):
    """constructing / assigning in place never touches memory outside the slice (guard bytes)"""
    out = []
    n = 0
    for cid, l in ctx.ops('E', 'A', 'D'):
        r = ctx.rres.get(cid)
        if r is None:
            continue
        n += 1
        _, head, kv, flags = parse_kv(r)
        if 'OOB-WRITE' in flags:
            out.append((cid, 'memory outside the slice handed to the library was written'))
        if kv.get('buf') is not None and kv['buf'] != '-' and len(kv['buf']) != 2 * ctx.meta[cid]['len']:
            out.append((cid, 'the buffer length changed'))
    return out, n


def c15(ctx):
    out = []
    n = 0
    for cid, l in ctx.ops('E', 'D', wide=True):
        r = ctx.rres.get(cid)
        if r is None:
            continue
        n += 1
        _, head, kv, flags = parse_kv(r)
        md = ctx.meta[cid]
        t = ctx.shapes[md['shape']]
        if not (head == 'ok' or head.startswith('err:')):
            out.append((cid, 'emplacement did not return Ok/Err: %s' % head))
            continue
        if 'OOB-WRITE' in flags:
            out.append((cid, 'emplacement wrote outside the buffer'))
        if kv.get('wrap', 'same').startswith('DIFF'):
            out.append((cid, 'FlatWrap::new_in_place behaves differently from new_in_place: %s' % kv['wrap']))
        if md['off'] % py_align(t) != 0:
            if not head.startswith('err:BadAlign'):
                out.append((cid, 'misaligned buffer not refused with BadAlign: %s' % head))
        elif 'extent' in md:
            if md['len'] >= md['extent'] and head != 'ok':
                out.append((cid, 'aligned buffer of %d bytes refused though the content needs %d: %s'
                            % (md['len'], md['extent'], head)))
            if md['len'] < md['extent'] and not head.startswith('err:InsufficientSize'):
                out.append((cid, 'buffer of %d bytes, content needs %d: expected InsufficientSize, got %s'
                            % (md['len'], md['extent'], head)))
    return out, n


def c18(ctx):
    out = []
    n = 0
    for cid, l in ctx.ops('A'):
        r = ctx.rres.get(cid)
        if r is None:
            continue
        _, head, kv, flags = parse_kv(r)
        if head == 'ok':
            continue
        n += 1
        if not head.startswith('err:'):
            out.append((cid, 'assign_in_place did not return Ok/Err: %s' % head))
            continue
        if kv.get('val') != 'ok':
            out.append((cid, 'after a failed assignment the target does not validate: %s' % kv.get('val')))
            continue
        if not kv.get('view', '').startswith('ok:') or not kv.get('size', '').startswith('ok:'):
            out.append((cid, 'after a failed assignment the target cannot be inspected: view=%s size=%s'
                        % (kv.get('view'), kv.get('size'))))
            continue
        if head.startswith('err:InsufficientSize') and kv.get('buf') != l.split(' ')[4]:
            out.append((cid, 'the replacement does not fit, but the target was changed'))
    return out, n


def c19(ctx):
    out = []
    n = 0
    for cid, l in ctx.ops('V', 'M'):
        r = ctx.rres.get(cid)
        if r is None:
            continue
        _, head, kv, flags = parse_kv(r)
        if not (head.startswith('err:InvalidData') or head.startswith('err:InvalidEnumTag')):
            continue
        n += 1
        pos = int(head.split(':')[2])
        toks = l.split(' ')
        data = bytes.fromhex(toks[4]) if toks[4] != '-' else b''
        if pos >= len(data):
            out.append((cid, 'error position %d is outside the %d byte slice' % (pos, len(data))))
            continue
        if head.startswith('err:InvalidData') and data[pos] <= 1:
            out.append((cid, 'InvalidData reported at %d where the byte is %d (neither a bad Bool nor the '
                             'start of an ill-formed UTF-8 sequence)' % (pos, data[pos])))
        if head.startswith('err:InvalidEnumTag') and not any(data[pos:pos + 8]):
            out.append((cid, 'InvalidEnumTag reported at %d where the tag bytes are zero' % pos))
        # the other entry points of the same validation (FlatWrap::from_wrapped_bytes, from_mut_bytes) report the
        # same kind at the same byte (the harness compares the whole error: kind and position)
        w = kv.get('wrap', 'same')
        if w.startswith('DIFF'):
            fl = w.split(':')
            if len(fl) >= 4 and (fl[1] == 'false' or fl[3] == 'false'):
                out.append((cid, 'from_bytes reports %s, but FlatWrap::from_wrapped_bytes / from_mut_bytes report a different '
                                 'error for the same slice (%s: same error : same content : same error of from_mut_bytes)'
                                 % (head, w)))
    return out, n


def c20(ctx):
    out = []
    n = 0
    pairs = {}
    for cid, l in ctx.ops('D'):
        r = ctx.rres.get(cid)
        if r is None:
            continue
        _, head, kv, flags = parse_kv(r)
        if kv.get('wrap', 'same').startswith('DIFF'):
            out.append((cid, 'FlatWrap::default_in_place behaves differently from default_in_place: %s' % kv['wrap']))
        if head != 'ok':
            continue
        n += 1
        md = ctx.meta[cid]
        t = ctx.shapes[md['shape']]
        if kv.get('val') != 'ok':
            out.append((cid, 'default state does not validate: %s' % kv.get('val')))
            continue
        want = 'ok:' + expected_content(t, 'default')
        if strip_caps(kv.get('view', '')) != want:
            out.append((cid, 'default state reads %s, expected %s' % (strip_caps(kv.get('view', '')), want)))
        if 'pair' in md:
            key = md['pair']
            obs = (strip_caps(kv.get('view', '')), kv.get('size'))
            if key in pairs and pairs[key][1] != obs:
                out.append((cid, 'default state depends on the previous buffer contents (see %s)' % pairs[key][0]))
            pairs[key] = (cid, obs)
    return out, n


# ---------------------------------------------------------------- C17: reference serialiser (no rounding anywhere)

def ser_int(name, v):
    size, _, order = INTS[name]
    bs = list((v & (256 ** size - 1)).to_bytes(size, 'little'))
    return bs[::-1] if order == 'be' else bs


def ser_size(t):
    """size of a sized portable type: plain sums, enums = tag + largest variant"""
    k = t[0]
    if k == 'unit':
        return 0
    if k == 'bool':
        return 1
    if k == 'int':
        return INTS[t[1]][0]
    if k == 'arr':
        return t[2] * ser_size(t[1])
    if k == 'struct':
        return sum(ser_size(f) for f in t[2])
    if k == 'enum':
        return INTS[t[2]][0] + max([sum(ser_size(f) for f in v) for v in t[4]] + [0])
    raise ValueError(t)


def ser(t, ini):
    """documented portable encoding of the content `ini` of type t: tag, fields, length, elements, offset slots and
    items concatenated in declaration order and fixed byte order.  None = a byte no content determines (the bytes of
    a sized enum after a shorter variant's fields)."""
    k = t[0]
    dflt = (ini == 'default')
    if k == 'unit':
        return []
    if k == 'bool':
        return [0 if dflt else num(ini[1])]
    if k == 'int':
        return ser_int(t[1], 0 if dflt else num(ini[1]))
    if k == 'arr':
        items = ['default'] * t[2] if dflt else ini[1:]
        return [b for i in items for b in ser(t[1], i)]
    if k == 'struct':
        items = ['default'] * len(t[2]) if dflt else ini[1:]
        return [b for f, i in zip(t[2], items) for b in ser(f, i)]
    if k == 'enum':
        v = t[3] if dflt else num(ini[1])
        items = [] if dflt else ini[2:]
        body = ser_int(t[2], v) + [b for f, i in zip(t[4][v], items) for b in ser(f, i)]
        if t[1]:
            body = body + [None] * (ser_size(t) - len(body))
        return body
    if k == 'vec':
        items = [] if (dflt or ini == 'empty') else ini[1:]
        return ser_int(t[2], len(items)) + [b for i in items for b in ser(t[1], i)]
    if k == 'str':
        h = '-' if (dflt or ini == 'empty') else ini[1]
        bs = [] if h == '-' else [int(h[2 * i:2 * i + 2], 16) for i in range(len(h) // 2)]
        return ser_int(t[1], len(bs)) + bs
    if k == 'flex':
        items = [] if (dflt or ini == 'empty') else ini[1:]
        if not items:
            return ser_int(t[2], 0)
        out = []
        lsz = INTS[t[2]][0]
        for j, i in enumerate(items):
            body = ser(t[1], i)
            last = (j == len(items) - 1)
            out += ser_int(t[2], 256 ** lsz - 1 if last else lsz + len(body)) + body
        return out
    raise ValueError(t)


def c17(ctx):
    """portable definitions: ALIGN == 1; every valid image validates at every address offset; the emplaced image is
    the reference serialisation of the content"""
    import shapes
    out = []
    n = 0
    for cid, l in ctx.ops('L'):
        sid = l.split(' ')[2]
        if not shapes.declared_portable(ctx.shapes[sid]):
            continue
        n += 1
        r = ctx.rres.get(cid) or ''
        m = re.search(r'align=(\d+)', r)
        if not m or m.group(1) != '1':
            out.append((cid, 'a portable type has ALIGN %s' % (m.group(1) if m else r[:60])))
    for cid, l in ctx.ops('V', 'M'):
        md = ctx.meta[cid]
        if md.get('kind') != 'offset' or not shapes.declared_portable(ctx.shapes[md['shape']]):
            continue
        b = ctx.rres.get(md['base'] + '.M')
        r = ctx.rres.get(cid)
        if b is None or r is None:
            continue
        n += 1
        bh, rh = parse_kv(b)[1], parse_kv(r)[1]
        if bh == 'ok' and rh != 'ok':
            out.append((cid, 'a valid portable image is refused at address offset %d: %s' % (md['off'], rh)))
    # the bytes a mapped portable value reports as its own (as_bytes) contain its whole extent (size())
    for cid, l in ctx.ops('M'):
        md = ctx.meta[cid]
        if not shapes.declared_portable(ctx.shapes[md['shape']]):
            continue
        r = ctx.rres.get(cid)
        if r is None:
            continue
        _, head, kv, flags = parse_kv(r)
        if head != 'ok':
            continue
        n += 1
        bl, sz = kv.get('blen', ''), kv.get('size', '')
        if bl.startswith('ok:') and sz.startswith('ok:') and int(bl[3:]) < int(sz[3:]):
            out.append((cid, 'as_bytes() has %s bytes but size() is %s: the bytes of the value do not contain its '
                             'serialisation' % (bl[3:], sz[3:])))
        if kv.get('rt') not in (None, 'ok'):
            out.append((cid, "the value's own bytes (as_bytes) do not validate again: rt=%s" % kv.get('rt')))
    images, slack_reported = {}, set()
    for cid, l in ctx.ops('E'):
        md = ctx.meta[cid]
        t = ctx.shapes[md['shape']]
        if not shapes.declared_portable(t):
            continue
        r = ctx.rres.get(cid)
        if r is None:
            continue
        _, head, kv, flags = parse_kv(r)
        if md['off'] != 0 and head.startswith('err:BadAlign'):
            out.append((cid, 'a portable type refuses address offset %d with BadAlign' % md['off']))
        if head != 'ok':
            continue
        n += 1
        toks = l.split(' ', 5)
        want = ser(t, parse_sexp(toks[5]))
        buf = kv.get('buf', '')
        got = [int(buf[2 * i:2 * i + 2], 16) for i in range(len(buf) // 2)] if buf != '-' else []
        if kv.get('size') != 'ok:%d' % len(want):
            out.append((cid, 'size() is %s, the reference serialisation has %d bytes' % (kv.get('size'), len(want))))
            continue
        bad = [i for i, w in enumerate(want) if w is not None and (i >= len(got) or got[i] != w)]
        if bad:
            out.append((cid, 'byte %d of the image is %s, the reference serialisation has %#04x'
                        % (bad[0], ('%#04x' % got[bad[0]]) if bad[0] < len(got) else 'missing', want[bad[0]])))
            continue
        # is the image a function of the content?  same (shape, content) emplaced over different garbage
        key = (md['shape'], toks[5])
        img = got[:len(want)]
        if key in images and images[key][1] != img and key not in slack_reported:
            k = [i for i in range(len(want)) if images[key][1][i] != img[i]][0]
            slack_reported.add(key)
            out.append((cid, 'enum-slack: the image of the same content differs at byte %d depending on the previous '
                             'buffer contents (compare %s): bytes of a sized enum behind a shorter variant' %
                        (k, images[key][0])))
        images.setdefault(key, (cid, img))
    return out, n


def classify(pid, t, v):
    """known-finding class of an oracle violation (matched by shape and failure mode, not by property alone)"""
    import shapes
    impl = v.get('impl') or ''
    if t is not None and shapes.wide_len(t) and pid in ('C01', 'C15') and ' panic' in (' ' + impl):
        return 'wide_len'
    if pid == 'C17' and str(v.get('what', '')).startswith('enum-slack:'):
        return 'enum_slack'
    if pid == 'C18' and t is not None:
        case = v.get('case') or ''
        ini = case.split(' ', 5)[5] if len(case.split(' ', 5)) > 5 else ''
        # the model encodes the emplacer protocol of the code; a listed class only applies where the model
        # predicts the same outcome (otherwise the implementation has left the model: a plain violation)
        from vlib import parse_kv, buf_match
        mk = parse_kv(v.get('model') or 'x x')[2]
        rk = parse_kv(impl or 'x x')[2]
        if mk.get('val') != rk.get('val') or not buf_match(mk.get('buf', ''), rk.get('buf', '')):
            return None
        if has_init_type(t) and ('(seq' in ini or '(var' in ini):
            return 'late_field_refusal'
        if '(viter' in ini or '(flex' in ini:
            return 'iter_emplacer'
    return None


def has_init_type(t):
    """does the type involve a generated <T>Init (unsized struct / enum)?"""
    k = t[0]
    if k in ('struct', 'enum') and not t[1]:
        return True
    if k == 'flex':
        return has_init_type(t[1])
    return False


# projection: op -> keys compared between model and implementation (None = all keys the model prints)
PROJECTION = {
    'C01': {'V': [], 'M': []},
    'C02': {'V': [], 'M': ['view', 'rt', 'rtview']},
    'C03': {'E': ['buf', 'val', 'view', 'size']},
    'C04': {'L': None, 'M': ['blen']},
    'C05': {'M': ['size', 'tv', 'tview', 'tsize']},
    'C06': {'M': ['view', 'size']},
    'C14': {'E': ['buf'], 'A': ['buf'], 'D': ['buf']},
    'C15': {'E': [], 'D': []},
    'C17': {'L': None, 'V': [], 'E': ['buf', 'val', 'view', 'size'], 'M': ['blen', 'rt', 'rtview', 'size']},
    'C18': {'A': ['buf', 'val', 'view', 'size']},
    'C19': {'V': [], 'M': []},
    'C20': {'D': ['buf', 'val', 'view', 'size']},
}

ORACLES = {'C17': c17, 'C01': c01, 'C02': c02, 'C03': c03, 'C04': c04, 'C05': c05, 'C06': c06, 'C14': c14, 'C15': c15, 'C18': c18,
           'C19': c19, 'C20': c20}


def shape_filter(pid):
    """restriction of a property's population of programs"""
    import shapes
    if pid == 'C17':
        return shapes.declared_portable
    return None


def head_class(pid, head):
    """how much of the outcome the property's projection compares"""
    n = norm_res(head, 'x')
    if pid == 'C01':
        return 'returns' if (n.startswith('ok') or n.startswith('err')) else n
    if pid in ('C15',):
        if n.startswith('err'):
            return ':'.join(n.split(':')[:2])
        return n
    if pid in ('C06', 'C05', 'C04'):
        if n.startswith('err'):
            k = n.split(':')[1]
            return 'err:InsufficientSize' if k == 'InsufficientSize' else 'err:other'
        return n
    if pid == 'C19':
        if n.startswith('err'):
            k = n.split(':')[1]
            return n if k in ('InvalidData', 'InvalidEnumTag') else 'err:other'
        return n
    return n
