#!/usr/bin/env python3
"""suites.py — the correspondence suites: generation, execution on both sides (cached per
repository state), comparison under a property's projection, oracle evaluation."""
import collections
import json
import os
import pickle
import time

import vlib
import oracles
import shapes as shp
import cases as cs


def cache_path(name, tier, seed):
    d = os.path.join(vlib.CACHE, 'suites')
    os.makedirs(d, exist_ok=True)
    return os.path.join(d, '%s-%s-%s-%s-%d.pkl' % (vlib.repo_hash(), vlib.verif_hash(), name, tier, seed))


def cached(name, tier, seed, fn):
    p = cache_path(name, tier, seed)
    if os.path.exists(p):
        with open(p, 'rb') as f:
            return pickle.load(f)
    r = fn()
    with open(p, 'wb') as f:
        pickle.dump(r, f)
    # keep the cache small: drop results of other repository states
    d = os.path.dirname(p)
    keep = '%s-%s-' % (vlib.repo_hash(), vlib.verif_hash())
    for f in os.listdir(d):
        if not f.startswith(keep):
            try:
                os.remove(os.path.join(d, f))
            except OSError:
                pass
    return r


# ---------------------------------------------------------------- the type-level suite

def type_shapes(tier, seed):
    if tier == 'thorough':
        return shp.build(seed, 150, with_small=True)
    return shp.build(seed, 30)


def run_types(tier, seed, shapes=None, per_shape=3):
    """layout, emplace, map/validate (images, prefixes, extensions, mutations, malformed), assign,
    default — on both sides"""
    t0 = time.time()
    shapes = shapes or type_shapes(tier, seed)
    runner = vlib.build_runner()
    harness = vlib.build_harness(shapes)
    tl = cs.type_lines(shapes)
    l1, m1 = cs.stage1(shapes, seed, per_shape=per_shape if tier == 'quick' else 5)
    r1 = vlib.run_model(runner, tl + l1)
    l2, m2 = cs.stage2(shapes, m1, r1, seed, tier)
    # ---- stage 3: images that only a history reaches (an item shrunk in place leaves slack in front of the next slot,
    #      pop / truncate leave a zero terminator behind the items): the states of the model along the histories of
    #      gen/hist_cases.py, mapped as they are and with single bytes replaced
    l3, m3 = history_images(shapes, runner, tl, seed, tier)
    l2 = l2 + l3
    m2.update(m3)
    layout = ['L %s.L %s' % (sid, sid) for sid, _ in shapes]
    meta = {}
    for sid, _ in shapes:
        meta[sid + '.L'] = {'op': 'L', 'shape': sid, 'off': 0, 'len': 0}
    for cid, m in m1.items():
        meta[cid] = {'op': 'E', 'shape': m['shape'], 'off': 0, 'len': 640, 'kind': 'stage1'}
    meta.update(m2)
    allc = layout + l1 + l2
    mres = vlib.run_model(runner, tl + allc, shards=16)
    rres = vlib.run_rust(harness, allc, shards=16)
    # extents for the stage-1 cases (the model's size of the emplaced value)
    for cid in m1:
        _, head, kv, _ = vlib.parse_kv(mres.get(cid, 'x x'))
        if head == 'ok' and kv.get('size', '').startswith('ok:'):
            meta[cid]['extent'] = int(kv['size'][3:])
    # the extracted model against the model evaluated inside Coq on a sample of these cases (tools/coqcross.py)
    import coqcross
    cross = coqcross.run({sid: shp.sexp(t) for sid, t in shapes}, allc, mres, 150 if tier == 'quick' else 600, seed)
    return {'shapes': shapes, 'cases': allc, 'mres': mres, 'rres': rres, 'meta': meta, 'cross': cross,
            'wall': time.time() - t0}


def history_images(shapes, runner, tl, seed, tier):
    import hist_cases
    import random
    rng = random.Random(seed * 50021 + 9)
    hl, hm = hist_cases.generate(shapes, seed + 1000003, tier)
    hl = [l for l in hl if len(l) < 4000]
    hres = vlib.run_model(runner, tl + hl, shards=16)
    lines, meta = [], {}
    per_hist = 1 if tier == 'quick' else 2
    # bounded volume: the histories that edit an item in place first, then a seeded sample of the others
    ed = [l for l in hl if '(edit' in l]
    rest = [l for l in hl if '(edit' not in l]
    rng.shuffle(ed)
    rng.shuffle(rest)
    budget = 30000 if tier == 'quick' else 120000
    for l in ed + rest:
        if len(lines) > budget:
            break
        f = l.split(' ')
        cid, sid, off = f[1], f[2], int(f[3])
        m = hres.get(cid)
        if m is None or off != 0:
            continue
        steps, _ = split_steps(m)
        # (bytes the model leaves unspecified — padding — are given a value)
        good = [st['buf'].replace('??', '5a') for st in steps[1:] if st.get('val') == 'ok' and st.get('buf')
                and len(st['buf']) <= 400]
        if not good:
            continue
        picks = [good[-1]] + rng.sample(good[:-1], min(per_hist - 1, len(good) - 1))
        # histories that edit an item in place: every state behind the first edit, every position
        edited = '(edit' in l
        if edited:
            first = min(i for i, o in enumerate(hm[cid]['ops']) if o.startswith('(edit'))
            later = [st['buf'].replace('??', '5a') for st in steps[first + 1:] if st.get('val') == 'ok' and st.get('buf')
                     and len(st['buf']) <= 400]
            picks = list(dict.fromkeys(picks + later[:3 if tier == 'quick' else 4]))
        for k, bh in enumerate(picks):
            img = bytes.fromhex(bh)
            base = '%s.I%d' % (cid, k)
            lines.append('M %s %s 0 %s' % (base, sid, cs.hexs(img)))
            meta[base] = {'op': 'M', 'shape': sid, 'off': 0, 'len': len(img), 'kind': 'histimage'}
            pos = list(range(len(img)))
            npos = (24 if edited else 10) if tier == 'quick' else (32 if edited else 16)
            if len(pos) > npos:
                pos = pos[:npos // 2] + rng.sample(pos[npos // 2:], npos // 2) if edited else rng.sample(pos, npos)
            for p in sorted(pos):
                vals = set(cs.MUT_VALUES) | {(img[p] + 1) & 255, (img[p] - 1) & 255}
                vals.discard(img[p])
                for v in rng.sample(sorted(vals), 2 if tier == 'quick' else 3):
                    mut = bytearray(img)
                    mut[p] = v
                    c2 = '%s.B%d_%02x' % (base, p, v)
                    lines.append('M %s %s 0 %s' % (c2, sid, cs.hexs(bytes(mut))))
                    meta[c2] = {'op': 'M', 'shape': sid, 'off': 0, 'len': len(img), 'kind': 'histmutation', 'base': base,
                                'pos': p, 'val': v}
    return lines, meta


def types_suite(tier, seed):
    return cached('types', tier, seed, lambda: run_types(tier, seed))


def analyse_types(pid, suite, search=True):
    """comparison under the projection of pid + oracle.  Returns (violations, coverage)."""
    proj = oracles.PROJECTION[pid]
    ctx = oracles.Ctx(suite['shapes'], suite['cases'], suite['mres'], suite['rres'], suite['meta'])
    viol = []
    disagree = []
    n_cmp = 0
    distinct = set()
    hist = collections.Counter()
    samples = []
    sfilter = oracles.shape_filter(pid)
    tmap0 = dict(suite['shapes'])
    for l in suite['cases']:
        op = l.split(' ', 1)[0]
        if op not in proj:
            continue
        if sfilter is not None and not sfilter(tmap0[l.split(' ')[2]]):
            continue
        # definitions with a length type wider than usize (known finding wide_len, recorded under C01 / C15, outside
        # every theorem's narrow_ty hypothesis) are left to those two properties, as in the oracles (Ctx.ops)
        if op != 'L' and pid not in ('C01', 'C15') and shp.wide_len(tmap0[l.split(' ')[2]]):
            continue
        cid = l.split(' ')[1]
        m, r = suite['mres'].get(cid), suite['rres'].get(cid)
        n_cmp += 1
        if m is None or r is None:
            disagree.append((cid, l, ['missing result model=%r impl=%r' % (m, r)]))
            continue
        _, mh, _, _ = vlib.parse_kv(m)
        _, rh, _, _ = vlib.parse_kv(r)
        d = []
        if op != 'L' and oracles.head_class(pid, mh) != oracles.head_class(pid, rh):
            d.append('outcome: model=%s impl=%s' % (mh, rh))
        keys = proj[op]
        if keys is None or keys:
            d.extend(vlib.compare_lines(m, r, keys=keys, head=False))
        if op == 'L':
            # the first token of an L line is itself a key=value (align=..)
            if m.split(' ')[1] != r.split(' ')[1]:
                d.append('align: model=%s impl=%s' % (m.split(' ')[1], r.split(' ')[1]))
        if d:
            disagree.append((cid, l, d))
        hc = oracles.head_class(pid, rh)
        hist[(op, hc.split(':')[0] + (':' + hc.split(':')[1] if ':' in hc and not hc.startswith('ok') else ''))] += 1
        # distinct & non-trivial: the implementation got past the first gate (alignment / minimum size)
        nontrivial = not (rh.startswith('err:BadAlign') or (rh.startswith('err:InsufficientSize') and rh.endswith(':0')))
        if nontrivial:
            distinct.add(r.split(' ', 1)[1] + '|' + l.split(' ', 2)[2])
        if len(samples) < 4 and nontrivial and (len(samples) == 0 or n_cmp % 997 == 0):
            samples.append({'case': l[:300], 'model': m[:300], 'impl': r[:300]})
    ov, n_oracle = oracles.ORACLES[pid](ctx)
    tmap = dict(suite['shapes'])
    known_reproduced = set()
    for cid, msg in ov:
        v = {'what': msg, 'case': ctx.line.get(cid, cid), 'impl': suite['rres'].get(cid),
             'model': suite['mres'].get(cid), 'concrete': True, 'source': 'oracle'}
        kc = oracles.classify(pid, tmap.get(suite['meta'].get(cid, {}).get('shape')), v)
        if kc:
            v['known_class'] = kc
        viol.append(v)
    oracle_ids = set(cid for cid, _ in ov)
    for cid, l, d in disagree:
        if cid in oracle_ids:
            continue
        v = {'what': 'model and implementation differ (correspondence suite "types", projection of %s): %s'
                     % (pid, '; '.join(d)[:600]),
             'case': l, 'impl': suite['rres'].get(cid), 'model': suite['mres'].get(cid),
             'concrete': False, 'source': 'correspondence'}
        # a wide-length definition on which both sides panic, only at different moments (the model computes the
        # capacity before the first push, the code at the first push): the listed finding wide_len
        if pid in ('C01', 'C15') and shp.wide_len(tmap0[l.split(' ')[2]]) and 'crash:Panic' in (suite['mres'].get(cid) or '') \
                and 'panic' in (suite['rres'].get(cid) or ''):
            v['known_class'] = 'wide_len'
        viol.append(v)
    cross = suite.get('cross') or {}
    if cross.get('error') or cross.get('differing'):
        viol.append({'what': 'the extracted model (runner/) and the model evaluated inside Coq by vm_compute differ on %s: the '
                             'extraction or the OCaml driver misrepresents the model (tools/coqcross.py)'
                             % (cross.get('differing') or cross.get('error')),
                     'case': ctx.line.get((cross.get('differing') or [None])[0]), 'concrete': False, 'source': 'coqcross'})
    coverage = {
        'evaluations': n_cmp,
        'model_cross_checked_inside_coq': '%d sampled cases: extracted runner = vm_compute in coqc' % cross.get('n', 0),
        'distinct_nontrivial': len(distinct),
        'rule': 'seeded model-directed generation (gen/cases.py): per shape, value specs emplaced by the model give '
                'canonical images; derived cases are emplacement into every buffer length and address offset, all '
                'prefixes, extensions, single-byte mutations, malformed strings, assignments and defaults. A case is '
                'non-trivial when the implementation passed the alignment / minimum-size gate; distinct = distinct '
                '(input, implementation observation) pairs among those.',
        'samples': samples or [{'case': suite['cases'][0]}],
        'programs': len([1 for sid, t in suite['shapes'] if sfilter is None or sfilter(t)]),
        'disagreements_checked': len(disagree),
        'oracle_evaluations': n_oracle,
        'outcome_histogram': {'%s %s' % k: v for k, v in sorted(hist.items())},
        'suite_wall_s': round(suite.get('wall', 0), 1),
    }
    return viol, coverage


def run_property_types(pid, tier, seed):
    suite = types_suite(tier, seed)
    viol, cov = analyse_types(pid, suite)
    # a broken correspondence without a concrete witness: search the neighbourhood for a failing input
    hanging = any(str(v.get('impl') or '').endswith(' hang') or 'not-run:too-many-hangs' in str(v.get('impl') or '') for v in viol)
    if hanging:
        # the implementation does not return on some case: running more cases against it would only wait for the
        # watchdog again and again; the hanging case is the replay
        cov['neighbourhood_search'] = 'skipped: the implementation hangs on the reported case'
    if viol and not hanging and not any(v.get('concrete') for v in viol):
        bad_shapes = []
        for v in viol:
            if v.get('case'):
                sid = v['case'].split(' ')[2]
                if sid not in bad_shapes:
                    bad_shapes.append(sid)
        tmap = dict(suite['shapes'])
        sub = [(sid, tmap[sid]) for sid in bad_shapes[:12] if sid in tmap]
        for s2 in range(3):
            if not sub:
                break
            try:
                extra = run_types('thorough', seed * 31 + s2 + 7, shapes=sub)
            except vlib.BuildError:
                break
            ev, _ = analyse_types(pid, extra, search=False)
            conc = [v for v in ev if v.get('concrete')]
            if conc:
                viol = conc[:5] + viol
                break
        cov['neighbourhood_search'] = 'run' if sub else 'not applicable'
    return {'violations': viol, 'coverage': cov}


# ---------------------------------------------------------------- Miri (thorough tier of C01 / C14)

def run_miri(pid, tier, seed):
    """a sample of the type-level and history cases executed by the real library under Miri (nightly, offline):
    undefined behaviour of the library — a read or write outside the slice it was given, a misaligned or dangling
    reference, an invalid value — stops the interpreter.  Testing, not proof: it ties the model's explicit
    OobRead / OobWrite outcomes to what the Rust actually touches.  Quick tier: not run."""
    if tier != 'thorough' or os.environ.get('VERIF_NO_MIRI'):
        return {'violations': [], 'coverage': {'miri': 'not run in the quick tier'}}
    import random
    import subprocess
    rng = random.Random(seed * 97 + 3)
    ts = types_suite('quick', seed)
    hs = hist_suite('quick', seed)
    want = {'C01': (['V', 'M'], 260, 0), 'C14': (['E', 'A', 'D'], 160, 60)}[pid]
    tc = [c for c in ts['cases'] if c[0] in want[0] and len(c) < 600]
    hc = [c for c in hs['cases'] if len(c) < 900]
    rng.shuffle(tc)
    rng.shuffle(hc)
    cases = tc[:want[1]] + hc[:want[2]]
    vlib.build_harness(ts['shapes'])          # shapes_gen.rs of the quick tier (histories use the same shapes)
    hdir = os.path.join(vlib.VERIF, 'harness')
    env = dict(vlib.ENV, MIRIFLAGS='-Zmiri-disable-isolation -Zmiri-ignore-leaks', VERIF_NO_RAW='1', VERIF_CASE_TIMEOUT='0', RUSTUP_TOOLCHAIN='nightly')
    viol = []
    done = 0
    t0 = time.time()
    rest = cases
    while rest and len(viol) < 3:
        p = subprocess.run('cargo miri run --offline --target-dir %s' % os.path.join(vlib.CACHE, 'miri-target'), cwd=hdir,
                           shell=True, input=('\n'.join(rest) + '\n').encode(), stdout=subprocess.PIPE,
                           stderr=subprocess.PIPE, env=env, timeout=3000)
        out = p.stdout.decode('utf-8', 'replace').splitlines()
        err = p.stderr.decode('utf-8', 'replace')
        started = [l[7:] for l in out if l.startswith('#start ')]
        finished = set(l.split(' ', 1)[0] for l in out if not l.startswith('#'))
        done += len(finished)
        if p.returncode == 0:
            break
        bad = [c for c in started if c not in finished]
        ub = 'Undefined Behavior' in err
        if not bad:
            viol.append({'what': 'the Miri run could not be carried out: %s' % err.strip().splitlines()[-3:], 'case': None,
                         'concrete': False, 'source': 'miri'})
            break
        cid = bad[-1]
        line = [c for c in rest if c.split(' ')[1] == cid][0]
        m = [l for l in err.splitlines() if 'Undefined Behavior' in l or l.lstrip().startswith('--> ')]
        if ub:
            viol.append({'what': 'Miri: undefined behaviour inside the library while running this case: %s' % ' '.join(m[:3])[:600],
                         'case': line, 'impl': 'UB', 'concrete': True, 'source': 'miri'})
        else:
            viol.append({'what': 'Miri: the interpreter stopped in this case: %s' % err.strip().splitlines()[-2:], 'case': line,
                         'concrete': False, 'source': 'miri'})
        rest = rest[[c.split(' ')[1] for c in rest].index(cid) + 1:]
    return {'violations': viol,
            'coverage': {'miri': '%d cases executed under Miri in %.0f s (types %s, histories %d)' % (
                done, time.time() - t0, '/'.join(want[0]), want[2])}}


NEGATIVE_C17 = [
    ('c17_wide_tag', 'a type declared portable = true with tag_type = "u16"'),
    ('c17_native_tail', 'an unsized struct declared portable = true whose last field is FlatVec<u32, u32>'),
    ('c17_native_variant', 'an unsized enum declared portable = true with a FlatVec<u16, u16> variant field'),
]


def run_negative_c17(pid, tier, seed):
    """negative programs: definitions that are not portable must be refused when declared portable = true; if one is
    accepted the program is run and must still report ALIGN == 1"""
    import re
    hdir = os.path.join(vlib.VERIF, 'harness')
    vlib.build_harness(type_shapes(tier, seed))
    viol, cov = [], []
    for name, what in NEGATIVE_C17:
        rc, out = vlib.sh('cargo build --offline --example %s' % name, cwd=hdir, timeout=900)
        src = open(os.path.join(hdir, 'examples', name + '.rs')).read()
        if rc == 0:
            rc2, out2 = vlib.sh(os.path.join(vlib.CACHE, 'target', 'debug', 'examples', name), timeout=60)
            m = re.search(r'align=(\d+)', out2)
            if not m or m.group(1) != '1':
                viol.append({'what': '%s is accepted, implements Portable and reports %s' % (what, out2.strip()[:80]),
                             'case': 'program harness/examples/%s.rs' % name, 'program': src, 'impl': out2.strip(),
                             'concrete': True, 'source': 'negative program'})
            outcome = 'accepted: ' + out2.strip()[:60]
        elif ('portable' in out and 'panicked' in out) or 'Portable` is not satisfied' in out or 'E0277' in out:
            outcome = 'refused at compile time'
        else:
            raise vlib.BuildError('negative program %s (unexpected compiler error)' % name, out)
        cov.append({'program': 'harness/examples/%s.rs' % name, 'outcome': outcome})
    return {'violations': viol, 'coverage': {'negative_programs': cov}}


def replay(pid, path):
    """re-executes the recorded case on both sides"""
    rec = json.load(open(path))
    first = rec.get('first', {})
    case = first.get('case')
    print('replay of %s: %s' % (pid, first.get('what')))
    if first.get('program'):
        print('negative program (must not be accepted by the compiler):')
        print(first['program'])
        res = run_negative_c17(pid, rec.get('tier', 'quick'), rec.get('seed', 1))
        print('now:', json.dumps(res['coverage'], indent=1))
        return 0
    ops = ('L', 'V', 'M', 'E', 'A', 'D', 'H', 'IO', 'P')
    if not case or not isinstance(case, str) or case.split(' ')[0] not in ops:
        print('recorded detail:', json.dumps(first, indent=1)[:3000])
        return 0
    if case.split(' ')[0] == 'P':
        runner = vlib.build_runner()
        harness = vlib.build_harness(type_shapes('quick', rec.get('seed', 1)))
        cid = case.split(' ')[1]
        print('case :', case)
        print('model:', vlib.run_model(runner, [case]).get(cid))
        print('impl :', vlib.run_rust(harness, [case]).get(cid))
        return 0
    sid = case.split(' ')[3] if case.split(' ')[0] == 'IO' else case.split(' ')[2]
    for tier in ('quick', 'thorough'):
        shapes = type_shapes(tier, rec.get('seed', 1))
        if sid in dict(shapes):
            break
    runner = vlib.build_runner()
    harness = vlib.build_harness(shapes)
    tl = cs.type_lines(shapes)
    m = vlib.run_model(runner, tl + [case])
    r = vlib.run_rust(harness, [case])
    cid = case.split(' ')[1]
    print('case :', case)
    print('model:', m.get(cid))
    print('impl :', r.get(cid))
    return 0


# ---------------------------------------------------------------- history suite (C11-C14, C05)

def run_hist(tier, seed):
    import hist_cases
    t0 = time.time()
    shapes = type_shapes(tier, seed)
    runner = vlib.build_runner()
    harness = vlib.build_harness(shapes)
    tl = cs.type_lines(shapes)
    lines, meta = hist_cases.generate(shapes, seed, tier)
    mres = vlib.run_model(runner, tl + lines, shards=16)
    rres = vlib.run_rust(harness, lines, shards=16)
    # the extracted model and the driver's composition of the steps against the same evaluated inside Coq
    import coqcross

    def tflex(t):
        if t[0] in ('vec', 'str'):
            return False
        if t[0] == 'flex':
            return True
        pl = hist_cases.nested_plan(t)
        return pl is not None and pl[0][0] == 'flex'
    cross = coqcross.run_hist({sid: shp.sexp(t) for sid, t in shapes}, {sid: tflex(t) for sid, t in shapes}, lines, mres,
                              40 if tier == 'quick' else 200, seed)
    return {'shapes': shapes, 'cases': lines, 'mres': mres, 'rres': rres, 'meta': meta, 'cross': cross,
            'wall': time.time() - t0}


def hist_suite(tier, seed):
    return cached('hist', tier, seed, lambda: run_hist(tier, seed))


def split_steps(line):
    """'cid init=.. | res=.. ...' -> list of kv dicts (one per step) + flags"""
    body = line.split(' ', 1)[1] if ' ' in line else ''
    steps = []
    flags = []
    for part in body.split(' | '):
        _, _, kv, fl = vlib.parse_kv('c h ' + part)
        steps.append(kv)
        flags.extend(fl)
    return steps, flags


def analyse_hist(pid, suite):
    import hist_oracles
    keys = hist_oracles.PROJECTION[pid]
    viol, disagree = [], []
    n_steps = 0
    distinct = set()
    hist = collections.Counter()
    samples = []
    tmap = dict(suite['shapes'])
    for l in suite['cases']:
        cid = l.split(' ')[1]
        sid = l.split(' ')[2]
        if not hist_oracles.applies(pid, tmap[sid]):
            continue
        m, r = suite['mres'].get(cid), suite['rres'].get(cid)
        if m is None or r is None:
            disagree.append((cid, l, ['missing result model=%r impl=%r' % (m, r)]))
            continue
        ms, _ = split_steps(m)
        rs, rflags = split_steps(r)
        d = []
        if len(ms) != len(rs):
            d.append('number of executed steps: model=%d impl=%d' % (len(ms), len(rs)))
        for i, (a, b) in enumerate(zip(ms, rs)):
            n_steps += 1
            for k in keys:
                if k not in a and k not in b:
                    continue
                av, bv = a.get(k, '<absent>'), b.get(k, '<absent>')
                if k == 'buf':
                    if not vlib.buf_match(av, bv):
                        d.append('step %d buf: model=%s impl=%s' % (i, av, bv))
                elif vlib.norm_res(av, 'm') != vlib.norm_res(bv, 'r'):
                    d.append('step %d %s: model=%s impl=%s' % (i, k, av, bv))
            hist[b.get('res', b.get('init', '?')).split(':')[0]] += 1
            distinct.add((sid, b.get('res'), b.get('view'), b.get('buf')))
        if d:
            disagree.append((cid, l, d[:6]))
        if len(samples) < 3 and len(rs) > 3 and cid.endswith('0'):
            samples.append({'case': l[:400], 'impl': r[:600]})
        for msg in hist_oracles.ORACLES[pid](tmap[sid], suite['meta'][cid], rs, rflags):
            viol.append({'what': msg, 'case': l, 'impl': r, 'model': m, 'concrete': True, 'source': 'oracle'})
    seen = set(v['case'] for v in viol)
    for cid, l, d in disagree:
        if l in seen:
            continue
        viol.append({'what': 'model and implementation differ (correspondence suite "hist", projection of %s): %s'
                             % (pid, '; '.join(d)[:700]), 'case': l, 'impl': suite['rres'].get(cid),
                     'model': suite['mres'].get(cid), 'concrete': False, 'source': 'correspondence'})
    cross = suite.get('cross') or {}
    if cross.get('error') or cross.get('differing'):
        viol.append({'what': 'the extracted model (runner/) and the model evaluated inside Coq by vm_compute differ on the '
                             'histories %s: the extraction or the OCaml driver misrepresents the model (tools/coqcross.py)'
                             % (cross.get('differing') or cross.get('error')), 'case': None, 'concrete': False,
                     'source': 'coqcross'})
    cov = {
        'evaluations': n_steps, 'distinct_nontrivial': len(distinct),
        'model_cross_checked_inside_coq': '%d sampled histories: extracted runner = vm_compute in coqc, step by step' % cross.get('n', 0),
        'rule': 'seeded operation histories (gen/hist_cases.py) on FlatVec / FlatString / FlexVec instantiations of the '
                'shape corpus; after every step both sides print result, validity, deep read, size(), re-map of the '
                'first size() bytes and the raw buffer. evaluations = executed steps; distinct = distinct (shape, result, '
                'view, buffer) observations.',
        'samples': samples or [{'case': suite['cases'][0][:300]}],
        'programs': len([1 for s, t in suite['shapes'] if t[0] in ('vec', 'str', 'flex')]),
        'histories': len(suite['cases']), 'disagreements_checked': len(disagree),
        'step_result_histogram': dict(hist), 'suite_wall_s': round(suite.get('wall', 0), 1),
    }
    return viol, cov


def run_property_hist(pid, tier, seed):
    suite = hist_suite(tier, seed)
    viol, cov = analyse_hist(pid, suite)
    return {'violations': viol, 'coverage': cov}


# ---------------------------------------------------------------- IO suite (C07-C10)

def run_io(tier, seed):
    import io_cases
    t0 = time.time()
    shapes = type_shapes(tier, seed)
    runner = vlib.build_runner()
    harness = vlib.build_harness(shapes)
    tl = cs.type_lines(shapes)
    l1, m1 = io_cases.stage1(shapes, seed, tier)
    r1 = vlib.run_model(runner, tl + l1)
    lines, meta = io_cases.stage2(shapes, m1, r1, seed, tier)
    mres = vlib.run_model(runner, tl + lines, shards=16)
    rres = vlib.run_rust(harness, lines, shards=16)
    import coqcross
    cross = coqcross.run_io({sid: shp.sexp(t) for sid, t in shapes}, lines, mres, 60 if tier == 'quick' else 300, seed)
    return {'shapes': shapes, 'cases': lines, 'mres': mres, 'rres': rres, 'meta': meta, 'cross': cross,
            'wall': time.time() - t0}


def io_suite(tier, seed):
    return cached('io', tier, seed, lambda: run_io(tier, seed))


def io_select(pid, md):
    if pid == 'C07':
        return md['kind'] in ('send', 'recv') and not md.get('faults') and 'garbage' not in md
    if pid == 'C08':
        return md['kind'] in ('asend', 'arecv', 'sys') and not md.get('faults') and 'garbage' not in md
    if pid == 'C09':
        return bool(md.get('faults'))
    if pid == 'C10':
        return 'garbage' in md
    return False


def io_kv(line):
    body = line.split(' ', 1)[1] if ' ' in line else ''
    kv = {}
    import re
    for m in re.finditer(r'(?:^| )([a-z_]+)=(.*?)(?= [a-z_]+=|$)', body):
        kv[m.group(1)] = m.group(2)
    return kv


def io_oracle(pid, t, md, kv):
    from oracles import expected_content, parse_sexp, strip_caps
    import re
    re_w = re.compile(r'w\d+')
    out = []
    want = ['msg:' + expected_content(t, parse_sexp(i) if i.startswith('(') else i) for i in md['inits']]
    kind = md['kind']
    if 'HARNESS-ERROR' in str(kv):
        return ['harness error']
    if kind in ('recv', 'arecv'):
        outs = kv.get('r', '').split(';') if kv.get('r') else []
        if any(o in ('panic', 'hang') for o in outs):
            out.append('recv did not terminate normally: %s' % [o for o in outs if o in ('panic', 'hang')])
        msgs = [strip_caps(o) for o in outs if o.startswith('msg:')]
        if pid in ('C07', 'C08'):
            exp = want + ['closed'] * (len(outs) - len(want))
            got = [strip_caps(o) for o in outs]
            if got != exp:
                out.append('received %s, sent %s then Closed' % (got[:6], exp[:6]))
        elif pid == 'C09':
            if msgs != want[:len(msgs)]:
                out.append('after read faults the delivered messages %s are not a prefix of the sent ones %s'
                           % (msgs[:6], want[:6]))
        elif pid == 'C10':
            for o in outs:
                if not (o.startswith('msg:') or o.startswith('parse:') or o.startswith('read:') or o == 'closed'):
                    out.append('recv outcome %r is none of message / parse error / read error / Closed' % o)
    elif kind in ('send', 'asend'):
        outs = kv.get('s', '').split(';') if kv.get('s') else []
        heads = [o.split('[')[0] for o in outs]
        if 'hang' in heads:
            out.append('send did not return within the bounded number of pipe calls')
        sink = kv.get('sink', '-')
        slen = 0 if sink == '-' else len(sink) // 2
        if pid in ('C07', 'C08'):
            if heads != ['ok'] * len(md['inits']):
                out.append('sends reported %s' % heads)
            if slen != len(md['stream']) and not md.get('edited'):
                out.append('the sink holds %d bytes, the messages are %d bytes' % (slen, len(md['stream'])))
            if kind == 'asend':
                for o in outs:
                    evs = o[o.index('[') + 1:-1].split('.') if '[' in o else []
                    if o.startswith('ok') and (not evs or evs[-1] != 'fo' or any(e.startswith('w') for e in evs[[i for i, e in enumerate(evs) if e[0] == 'w' and e not in ('wp', 'we', 'wz')][-1] + 1:] if e.startswith('w') and e not in ('wp',)) if any(e[0] == 'w' and e not in ('wp', 'we', 'wz') for e in evs) else False):
                        out.append('a send completed without a final successful flush after its last byte: %s' % o)
        elif pid == 'C09':
            # sink = whole messages of the completed sends + at most one partial message with nothing after it
            sizes = md['sizes']
            ok_bytes = sum(sizes[i] for i, h in enumerate(heads) if h == 'ok')
            residual = slen - ok_bytes
            fails = [i for i, h in enumerate(heads) if h.startswith('io:')]
            if kind == 'asend':
                poisoned_at = None
                total = 0
                for i, o in enumerate(outs):
                    evs = o[o.index('[') + 1:-1].split('.') if '[' in o and o[o.index('[') + 1:-1] else []
                    c = sum(int(e[1:]) for e in evs if re_w.fullmatch(e))
                    total += c
                    if poisoned_at is not None and c > 0:
                        out.append('bytes of message %d reached the sink after a partial message' % i)
                    if heads[i] == 'ok' and c != sizes[i]:
                        out.append('send %d reported Ok but handed %d of %d bytes to the pipe' % (i, c, sizes[i]))
                    if heads[i] != 'ok' and 0 < c < sizes[i] and poisoned_at is None:
                        poisoned_at = i
                    if heads[i] != 'ok' and c > sizes[i]:
                        out.append('send %d handed %d bytes of a %d byte message to the pipe' % (i, c, sizes[i]))
                if total != slen:
                    out.append('the sink holds %d bytes, the accepted writes add up to %d' % (slen, total))
            else:
                last = None
                for i in fails:
                    if all(h == 'panic' for h in heads[i + 1:]):
                        last = i
                        break
                if last is None:
                    if residual != 0:
                        out.append('the sink holds %d bytes beyond the completed sends although every failed send was '
                                   'followed by further traffic: outcomes %s sizes %s' % (residual, heads, sizes))
                elif not (0 <= residual < sizes[last]):
                    out.append('the sink is not whole messages plus at most one proper prefix of a message: %d bytes, '
                               'sizes %s, outcomes %s' % (slen, sizes, heads))
    elif kind == 'sys':
        dl = kv.get('delivered', '')
        got = ['msg:' + strip_caps(x) for x in dl.split(';')] if dl else []
        if got != want:
            out.append('delivered %s, sent %s' % (got[:6], want[:6]))
        if kv.get('recv_end') != 'closed' or kv.get('send_end') != 'ok':
            out.append('the tasks ended with recv_end=%s send_end=%s' % (kv.get('recv_end'), kv.get('send_end')))
    return out


def analyse_io(pid, suite):
    viol, disagree = [], []
    n = 0
    distinct = set()
    hist = collections.Counter()
    samples = []
    tmap = dict(suite['shapes'])
    for l in suite['cases']:
        cid = l.split(' ')[1]
        md = suite['meta'][cid]
        if not io_select(pid, md):
            continue
        n += 1
        m, r = suite['mres'].get(cid), suite['rres'].get(cid)
        if m is None or r is None:
            disagree.append((cid, l, ['missing result model=%r impl=%r' % (m, r)]))
            continue
        mk, rk = io_kv(m), io_kv(r)
        d = []
        for k in sorted(set(mk) | set(rk)):
            av, bv = mk.get(k, '<absent>'), rk.get(k, '<absent>')
            if k == 'sink':
                if not vlib.buf_match(av, bv):
                    d.append('sink: model=%s impl=%s' % (av, bv))
            elif av != bv:
                d.append('%s: model=%s impl=%s' % (k, av[:300], bv[:300]))
        if d:
            disagree.append((cid, l, d))
        hist[md['kind']] += 1
        distinct.add(r.split(' ', 1)[1] if ' ' in r else r)
        if len(samples) < 4 and n % 211 == 1:
            samples.append({'case': l[:300], 'impl': r[:300]})
        for msg in io_oracle(pid, tmap[md['shape']], md, rk):
            viol.append({'what': msg, 'case': l, 'impl': r, 'model': m, 'concrete': True, 'source': 'oracle'})
    seen = set(v['case'] for v in viol)
    for cid, l, d in disagree:
        if l in seen:
            continue
        viol.append({'what': 'model and implementation differ (correspondence suite "io", cases of %s): %s'
                             % (pid, '; '.join(d)[:700]), 'case': l, 'impl': suite['rres'].get(cid),
                     'model': suite['mres'].get(cid), 'concrete': False, 'source': 'correspondence'})
    cross = suite.get('cross') or {}
    if cross.get('error') or cross.get('differing'):
        viol.append({'what': 'the extracted model (runner/) and the model evaluated inside Coq by vm_compute differ on the io '
                             'cases %s: the extraction or the OCaml driver misrepresents the model (tools/coqcross.py)'
                             % (cross.get('differing') or cross.get('error')), 'case': None, 'concrete': False,
                     'source': 'coqcross'})
    cov = {
        'evaluations': n, 'distinct_nontrivial': len(distinct),
        'model_cross_checked_inside_coq': '%d sampled recv / arecv / send / asend cases: extracted runner = vm_compute in coqc' % cross.get('n', 0),
        'rule': 'scripted-pipe cases (gen/io_cases.py, notes/io-protocol.md): the real Sender / Receiver (blocking and '
                'async) over pipes that follow a per-call directive script (chunk sizes, Ok(0), io errors, Pending), and '
                'the composed sender || bounded ring || receiver system under a poll schedule; distinct = distinct '
                'implementation result lines.',
        'samples': samples or [{'case': suite['cases'][0][:300]}],
        'programs': len(set(suite['meta'][l.split(' ')[1]]['shape'] for l in suite['cases'])),
        'disagreements_checked': len(disagree), 'case_kinds': dict(hist), 'suite_wall_s': round(suite.get('wall', 0), 1),
    }
    return viol, cov


def run_property_io(pid, tier, seed):
    suite = io_suite(tier, seed)
    viol, cov = analyse_io(pid, suite)
    return {'violations': viol, 'coverage': cov}


# ---------------------------------------------------------------- portable scalars (C16)

def run_portable(tier, seed):
    import portable_cases
    t0 = time.time()
    shapes = type_shapes(tier, seed)
    runner = vlib.build_runner()
    harness = vlib.build_harness(shapes)
    lines = portable_cases.generate(seed, tier)
    mres = vlib.run_model(runner, lines, shards=16)
    rres = vlib.run_rust(harness, lines, shards=16)
    return {'cases': lines, 'mres': mres, 'rres': rres, 'wall': time.time() - t0}


def run_property_portable(pid, tier, seed):
    suite = cached('portable', tier, seed, lambda: run_portable(tier, seed))
    viol = []
    hist = collections.Counter()
    distinct = set()
    samples = []
    n_model = 0
    for l in suite['cases']:
        toks = l.split(' ')
        cid, ty, op = toks[1], toks[2], toks[3]
        m, r = suite['mres'].get(cid), suite['rres'].get(cid)
        hist['%s' % op] += 1
        if r is None or 'HARNESS-ERROR' in r:
            viol.append({'what': 'no result for %s' % l, 'case': l, 'impl': r, 'concrete': False, 'source': 'correspondence'})
            continue
        body = r.split(' ', 1)[1]
        distinct.add((ty, op, body))
        if op in ('enc', 'dec', 'val'):
            n_model += 1
            mb = m.split(' ', 1)[1] if m else None
            if mb != body:
                viol.append({'what': 'portable %s %s: the stored bytes / decoded value differ from the fixed byte order of the '
                                     'model: model=%s impl=%s' % (ty, op, mb, body), 'case': l, 'impl': r, 'model': m,
                             'concrete': True, 'source': 'oracle'})
        else:
            kv = dict(x.split('=', 1) for x in body.split(' ') if '=' in x)
            if kv.get('p') != kv.get('n'):
                viol.append({'what': 'portable %s %s gives %s, the native type gives %s' % (ty, op, kv.get('p'), kv.get('n')),
                             'case': l, 'impl': r, 'concrete': True, 'source': 'oracle'})
        if len(samples) < 5 and len(distinct) % 4001 == 1:
            samples.append({'case': l, 'impl': r})
    cov = {
        'evaluations': len(suite['cases']), 'distinct_nontrivial': len(distinct),
        'rule': 'all 16 portable scalar types and Bool: enc/dec exhaustively for the 16-bit types and all 256 bytes for '
                'Bool, boundary and seeded values for wider types (compared with the model byte for byte); every trait '
                'method on boundary x boundary pairs against the native type in Rust (panic vs panic included). distinct = '
                'distinct (type, operation, result).',
        'samples': samples or [{'case': suite['cases'][0]}], 'exhaustive': False,
        'compared_with_model': n_model, 'op_histogram': dict(hist), 'programs': 17,
        'suite_wall_s': round(suite.get('wall', 0), 1),
    }
    return {'violations': viol, 'coverage': cov}
