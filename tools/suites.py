#!/usr/bin/env python3
"""suites.py — the correspondence suites: generation, execution on both sides (cached per
repository state), comparison under a property's projection, oracle evaluation."""
import collections
import json
import os
import pickle
import time

import vlib
import oracles
import shapes as shp
import cases as cs


def cache_path(name, tier, seed):
    d = os.path.join(vlib.CACHE, 'suites')
    os.makedirs(d, exist_ok=True)
    return os.path.join(d, '%s-%s-%s-%s-%d.pkl' % (vlib.repo_hash(), vlib.verif_hash(), name, tier, seed))


def cached(name, tier, seed, fn):
    p = cache_path(name, tier, seed)
    if os.path.exists(p):
        with open(p, 'rb') as f:
            return pickle.load(f)
    r = fn()
    with open(p, 'wb') as f:
        pickle.dump(r, f)
    # keep the cache small: drop results of other repository states
    d = os.path.dirname(p)
    keep = '%s-%s-' % (vlib.repo_hash(), vlib.verif_hash())
    for f in os.listdir(d):
        if not f.startswith(keep):
            try:
                os.remove(os.path.join(d, f))
            except OSError:
                pass
    return r


# ---------------------------------------------------------------- the type-level suite

def type_shapes(tier, seed):
    if tier == 'thorough':
        return shp.build(seed, 150, with_small=True)
    return shp.build(seed, 30)


def run_types(tier, seed, shapes=None, per_shape=3):
    """layout, emplace, map/validate (images, prefixes, extensions, mutations, malformed), assign,
    default — on both sides"""
    t0 = time.time()
    shapes = shapes or type_shapes(tier, seed)
    runner = vlib.build_runner()
    harness = vlib.build_harness(shapes)
    tl = cs.type_lines(shapes)
    l1, m1 = cs.stage1(shapes, seed, per_shape=per_shape if tier == 'quick' else 5)
    r1 = vlib.run_model(runner, tl + l1)
    l2, m2 = cs.stage2(shapes, m1, r1, seed, tier)
    layout = ['L %s.L %s' % (sid, sid) for sid, _ in shapes]
    meta = {}
    for sid, _ in shapes:
        meta[sid + '.L'] = {'op': 'L', 'shape': sid, 'off': 0, 'len': 0}
    for cid, m in m1.items():
        meta[cid] = {'op': 'E', 'shape': m['shape'], 'off': 0, 'len': 320, 'kind': 'stage1'}
    meta.update(m2)
    allc = layout + l1 + l2
    mres = vlib.run_model(runner, tl + allc, shards=16)
    rres = vlib.run_rust(harness, allc, shards=16)
    # extents for the stage-1 cases (the model's size of the emplaced value)
    for cid in m1:
        _, head, kv, _ = vlib.parse_kv(mres.get(cid, 'x x'))
        if head == 'ok' and kv.get('size', '').startswith('ok:'):
            meta[cid]['extent'] = int(kv['size'][3:])
    return {'shapes': shapes, 'cases': allc, 'mres': mres, 'rres': rres, 'meta': meta,
            'wall': time.time() - t0}


def types_suite(tier, seed):
    return cached('types', tier, seed, lambda: run_types(tier, seed))


def analyse_types(pid, suite, search=True):
    """comparison under the projection of pid + oracle.  Returns (violations, coverage)."""
    proj = oracles.PROJECTION[pid]
    ctx = oracles.Ctx(suite['shapes'], suite['cases'], suite['mres'], suite['rres'], suite['meta'])
    viol = []
    disagree = []
    n_cmp = 0
    distinct = set()
    hist = collections.Counter()
    samples = []
    for l in suite['cases']:
        op = l.split(' ', 1)[0]
        if op not in proj:
            continue
        cid = l.split(' ')[1]
        m, r = suite['mres'].get(cid), suite['rres'].get(cid)
        n_cmp += 1
        if m is None or r is None:
            disagree.append((cid, l, ['missing result model=%r impl=%r' % (m, r)]))
            continue
        _, mh, _, _ = vlib.parse_kv(m)
        _, rh, _, _ = vlib.parse_kv(r)
        d = []
        if op != 'L' and oracles.head_class(pid, mh) != oracles.head_class(pid, rh):
            d.append('outcome: model=%s impl=%s' % (mh, rh))
        keys = proj[op]
        if keys is None or keys:
            d.extend(vlib.compare_lines(m, r, keys=keys, head=False))
        if op == 'L':
            # the first token of an L line is itself a key=value (align=..)
            if m.split(' ')[1] != r.split(' ')[1]:
                d.append('align: model=%s impl=%s' % (m.split(' ')[1], r.split(' ')[1]))
        if d:
            disagree.append((cid, l, d))
        hc = oracles.head_class(pid, rh)
        hist[(op, hc.split(':')[0] + (':' + hc.split(':')[1] if ':' in hc and not hc.startswith('ok') else ''))] += 1
        # distinct & non-trivial: the implementation got past the first gate (alignment / minimum size)
        nontrivial = not (rh.startswith('err:BadAlign') or (rh.startswith('err:InsufficientSize') and rh.endswith(':0')))
        if nontrivial:
            distinct.add(r.split(' ', 1)[1] + '|' + l.split(' ', 2)[2])
        if len(samples) < 4 and nontrivial and (len(samples) == 0 or n_cmp % 997 == 0):
            samples.append({'case': l[:300], 'model': m[:300], 'impl': r[:300]})
    ov, n_oracle = oracles.ORACLES[pid](ctx)
    tmap = dict(suite['shapes'])
    known_reproduced = set()
    for cid, msg in ov:
        v = {'what': msg, 'case': ctx.line.get(cid, cid), 'impl': suite['rres'].get(cid),
             'model': suite['mres'].get(cid), 'concrete': True, 'source': 'oracle'}
        kc = oracles.classify(pid, tmap.get(suite['meta'].get(cid, {}).get('shape')), v)
        if kc:
            v['known_class'] = kc
        viol.append(v)
    oracle_ids = set(cid for cid, _ in ov)
    for cid, l, d in disagree:
        if cid in oracle_ids:
            continue
        viol.append({'what': 'model and implementation differ (correspondence suite "types", projection of %s): %s'
                             % (pid, '; '.join(d)[:600]),
                     'case': l, 'impl': suite['rres'].get(cid), 'model': suite['mres'].get(cid),
                     'concrete': False, 'source': 'correspondence'})
    coverage = {
        'evaluations': n_cmp,
        'distinct_nontrivial': len(distinct),
        'rule': 'seeded model-directed generation (gen/cases.py): per shape, value specs emplaced by the model give '
                'canonical images; derived cases are emplacement into every buffer length and address offset, all '
                'prefixes, extensions, single-byte mutations, malformed strings, assignments and defaults. A case is '
                'non-trivial when the implementation passed the alignment / minimum-size gate; distinct = distinct '
                '(input, implementation observation) pairs among those.',
        'samples': samples or [{'case': suite['cases'][0]}],
        'programs': len(suite['shapes']),
        'disagreements_checked': len(disagree),
        'oracle_evaluations': n_oracle,
        'outcome_histogram': {'%s %s' % k: v for k, v in sorted(hist.items())},
        'suite_wall_s': round(suite.get('wall', 0), 1),
    }
    return viol, coverage


def run_property_types(pid, tier, seed):
    suite = types_suite(tier, seed)
    viol, cov = analyse_types(pid, suite)
    # a broken correspondence without a concrete witness: search the neighbourhood for a failing input
    if viol and not any(v.get('concrete') for v in viol):
        bad_shapes = []
        for v in viol:
            if v.get('case'):
                sid = v['case'].split(' ')[2]
                if sid not in bad_shapes:
                    bad_shapes.append(sid)
        tmap = dict(suite['shapes'])
        sub = [(sid, tmap[sid]) for sid in bad_shapes[:12] if sid in tmap]
        for s2 in range(3):
            if not sub:
                break
            try:
                extra = run_types('thorough', seed * 31 + s2 + 7, shapes=sub)
            except vlib.BuildError:
                break
            ev, _ = analyse_types(pid, extra, search=False)
            conc = [v for v in ev if v.get('concrete')]
            if conc:
                viol = conc[:5] + viol
                break
        cov['neighbourhood_search'] = 'run' if sub else 'not applicable'
    return {'violations': viol, 'coverage': cov}


def replay(pid, path):
    """re-executes the recorded case on both sides"""
    rec = json.load(open(path))
    first = rec.get('first', {})
    case = first.get('case')
    print('replay of %s: %s' % (pid, first.get('what')))
    if not case or not isinstance(case, str) or case.split(' ')[0] not in 'LVMEAD':
        print('recorded detail:', json.dumps(first, indent=1)[:3000])
        return 0
    sid = case.split(' ')[2]
    for tier in ('quick', 'thorough'):
        shapes = type_shapes(tier, rec.get('seed', 1))
        if sid in dict(shapes):
            break
    runner = vlib.build_runner()
    harness = vlib.build_harness(shapes)
    tl = cs.type_lines(shapes)
    m = vlib.run_model(runner, tl + [case])
    r = vlib.run_rust(harness, [case])
    cid = case.split(' ')[1]
    print('case :', case)
    print('model:', m.get(cid))
    print('impl :', r.get(cid))
    return 0
