(* View.v — what a reference obtained from a slice covers and what the safe accessors return.
   Source anchors:
     base/src/traits.rs            FlatUnsized::{ptr_from_bytes, ptr_to_bytes, from_bytes_unchecked, as_bytes},
                                   FlatBase::size for sized types
     containers/src/vec.rs         ptr_from_bytes, ptr_to_bytes, size; stavec GenericVec::{len, capacity, as_slice}
     containers/src/string.rs      the same for FlatString
     containers/src/flex.rs        ptr_from_bytes, ptr_to_bytes, iter, len, size
     macros/src/items/unsized_.rs  ptr_from_bytes_method, ptr_to_bytes_method
     macros/src/items/unsized_enum.rs gen_ref_impl (as_ref)
     macros/src/items/base.rs      size_method; base/src/utils/iter.rs FoldSizeIter
   [view] is the deep read through the public accessors; reads are unchecked in the Rust
   (the value is assumed valid), so every out-of-range read is an explicit Crash here. *)
From Flatty.Model Require Import Base Ty Layout Validate.

(* observable content: scalars as numbers; plain nodes carry the enum tag (0 otherwise);
   FlatVec / FlatString nodes carry the capacity they report *)
Inductive value :=
| VInt (n : N)
| VNode (tag : N) (vs : list value)
| VCont (cap : N) (vs : list value).

(* content without capacities *)
Fixpoint strip (v : value) : value :=
  match v with
  | VInt n => VInt n
  | VNode tag vs => VNode tag (map strip vs)
  | VCont _ vs => VCont 0 (map strip vs)
  end.

(* every container reports len <= capacity *)
Fixpoint caps_ok (v : value) : bool :=
  match v with
  | VInt _ => true
  | VNode _ vs => forallb caps_ok vs
  | VCont cap vs => (N.of_nat (length vs) <=? cap) && forallb caps_ok vs
  end.

Fixpoint view_arr (f : N -> bytes -> res value) (s : N) (bs : bytes) (k : nat) (i : N) : res (list value) :=
  match k with
  | O => Ok []
  | S k' =>
      do from <- drop_unchecked (i * s) bs;
      do el <- take_unchecked s from;
      do v <- f i el;
      do r <- view_arr f s bs k' (i + 1);
      Ok (v :: r)
  end.

(* iter().map(|r| r.unwrap()): a chain error is a panic *)
Definition unwrap_err {A} (r : res A) : res A :=
  match r with
  | Err _ _ => Crash PanicUnwrap
  | _ => r
  end.

Fixpoint view (t : ty) (bs : bytes) {struct t} : res value :=
  match t with
  | TUnit => Ok (VNode 0 [])
  | TInt i => do v <- read_int i bs; Ok (VInt v)
  | TBool => match bs with [] => Crash OobRead | b :: _ => Ok (VInt b) end
  | TCLike tag _ _ => do v <- read_int tag bs; Ok (VInt v)
  | TArr t n =>
      do vs <- view_arr (fun _ el => view t el) (ssize t) bs (N.to_nat n) 0;
      Ok (VNode 0 vs)
  | TVec t l =>
      let d := vec_data_offset t l in
      do slots <- vec_slots t l (blen bs);
      do len <- read_len l bs;
      do cap <- clamp_cap l slots;
      do data <- drop_unchecked d bs;
      if slots <? len then Crash OobRead
      else
        do vs <- view_arr (fun _ el => view t el) (ssize t) data (N.to_nat len) 0;
        Ok (VCont cap vs)
  | TStr l =>
      let d := isize l in
      do slots <- str_slots l (blen bs);
      do len <- read_len l bs;
      do cap <- clamp_cap l slots;
      do data <- drop_unchecked d bs;
      if slots <? len then Crash OobRead
      else
        do s <- take_unchecked len data;
        Ok (VCont cap (map VInt s))
  | TFlex t l =>
      let os := flex_offset_size t l in
      let data := take (floor_mul (blen bs) (align (TFlex t l))) bs in
      do r <- unwrap_err
                (flex_fold l os (align (TFlex t l))
                   (fun (acc : list value) _ _ payload => do v <- view t payload; Ok (v :: acc))
                   (flex_fuel data) [] 0 data 0);
      Ok (VNode 0 (rev (fst r)))
  | TStruct s fs =>
      let data := if s then bs else take (floor_mul (blen bs) (align_fields fs)) bs in
      do vs <- view_fields fs data 0;
      Ok (VNode 0 vs)
  | TEnum s tag _ vs =>
      let d := data_offset tag vs in
      do v <- read_int tag bs;
      do data0 <- drop_unchecked d bs;
      let data := if s then data0
                  else take (floor_mul (blen data0) (umax (ialign tag) (align_variants vs))) data0 in
      do fvs <- view_variant vs (N.to_nat v) data;
      Ok (VNode v fvs)
  end
with view_fields (fs : fields) (data : bytes) (pos : N) {struct fs} : res (list value) :=
  match fs with
  | FNil => Ok []
  | FCons t r =>
      do v <- view t data;
      match r with
      | FNil => Ok [v]
      | FCons t' _ =>
          let np := pos_next pos t t' in
          do sp <- split_at (np - pos) data;
          do rest <- view_fields r (snd sp) np;
          Ok (v :: rest)
      end
  end
with view_variant (vs : variants) (k : nat) (data : bytes) {struct vs} : res (list value) :=
  match vs with
  | VNil => Crash OobRead
  | VCons fs r =>
      match k with
      | O => view_fields fs data 0
      | S k' => view_variant r k' data
      end
  end.

(* ---------- FlatBase::size ---------- *)

Fixpoint size_m (t : ty) (bs : bytes) {struct t} : res N :=
  match t with
  | TVec t l =>
      do len <- read_len l bs;
      Ok (ceil_mul (vec_data_offset t l + ssize t * len) (align (TVec t l)))
  | TStr l =>
      do len <- read_len l bs;
      Ok (ceil_mul (isize l + len) (ialign l))
  | TFlex t l =>
      let os := flex_offset_size t l in
      let al := align (TFlex t l) in
      let data := take (floor_mul (blen bs) al) bs in
      (* bytes_iter().map(Result::unwrap).last(): remembers the last payload *)
      do r <- unwrap_err
                (flex_fold l os al
                   (fun (_ : option (N * bytes)) _ pa payload => Ok (Some (pa, payload)))
                   (flex_fuel data) None 0 data 0);
      match r with
      | (None, _) => Ok os
      | (Some _, EndZero pos) => Ok (pos + os)
      | (Some (pa, payload), EndLast pos) =>
          (* T::from_bytes(last_payload).unwrap().size() *)
          do sz <- size_m t payload;
          Ok (pos + os + ceil_mul sz al)
      end
  | TStruct false fs =>
      let al := align_fields fs in
      let data := take (floor_mul (blen bs) al) bs in
      do s <- size_last fs data 0;
      Ok (ceil_mul s al)
  | TEnum false tag _ vs =>
      let al := umax (ialign tag) (align_variants vs) in
      let d := data_offset tag vs in
      do v <- read_int tag bs;
      do data0 <- drop_unchecked d bs;
      let data := take (floor_mul (blen data0) al) data0 in
      do s <- size_variant vs (N.to_nat v) data;
      Ok (ceil_mul (d + s) al)
  | _ => Ok (ssize t)
  end
(* struct: LAST_FIELD_OFFSET + self.last.size(); [data] starts at position [pos] *)
with size_last (fs : fields) (data : bytes) (pos : N) {struct fs} : res N :=
  match fs with
  | FNil => Ok 0
  | FCons t r =>
      match r with
      | FNil => do s <- size_m t data; Ok (pos + s)
      | FCons t' _ =>
          let np := pos_next pos t t' in
          do from <- drop_unchecked (np - pos) data;
          size_last r from np
      end
  end
(* enum: FoldSizeIter::fold_size over the fields of the active variant *)
with size_variant (vs : variants) (k : nat) (data : bytes) {struct vs} : res N :=
  match vs with
  | VNil => Crash OobRead
  | VCons fs r =>
      match k with
      | O => match fs with FNil => Ok 0 | _ => fold_size_iter fs data 0 0 end
      | S k' => size_variant r k' data
      end
  end
(* fold_size(size): TwoOrMore: next().0.fold_size(ceil_mul(size, ALIGN) + SIZE);
   Single: ceil_mul(size, ALIGN) + value.size() *)
with fold_size_iter (fs : fields) (data : bytes) (pos : N) (acc : N) {struct fs} : res N :=
  match fs with
  | FNil => Ok acc
  | FCons t r =>
      match r with
      | FNil => do s <- size_m t data; Ok (ceil_mul acc (align t) + s)
      | FCons t' _ =>
          let np := pos_next pos t t' in
          do sp <- split_at (np - pos) data;
          fold_size_iter r (snd sp) np (ceil_mul acc (align t) + ssize t)
      end
  end.

(* ---------- ptr_to_bytes ∘ ptr_from_bytes: length of as_bytes() of a reference mapped from n bytes ---------- *)

Fixpoint bytes_len (t : ty) (n : N) {struct t} : res N :=
  match t with
  | TVec t l =>
      do slots <- vec_slots t l n;
      Ok (ceil_mul (vec_data_offset t l + slots * ssize t) (align (TVec t l)))
  | TStr l =>
      do slots <- str_slots l n;
      Ok (isize l + slots)
  | TFlex t l => Ok (floor_mul n (align (TFlex t l)))
  | TStruct false fs =>
      let al := align_fields fs in
      let lfo := last_field_offset fs in
      if floor_mul n al <? lfo then Crash PanicArith
      else
        do m <- bytes_len_last fs (floor_mul n al - lfo);
        Ok (ceil_mul (lfo + m) al)
  | TEnum false tag _ vs =>
      let al := umax (ialign tag) (align_variants vs) in
      let d := data_offset tag vs in
      if n <? d then Crash PanicArith
      else Ok (d + floor_mul (n - d) al)
  | _ => Ok (ssize t)
  end
with bytes_len_last (fs : fields) (n : N) {struct fs} : res N :=
  match fs with
  | FNil => Ok 0
  | FCons t r =>
      match r with
      | FNil => bytes_len t n
      | FCons _ _ => bytes_len_last r n
      end
  end.
