(* Ty.v — the universe of flat types: a deep embedding of everything the library and the
   #[flat] macro accept.  Mutual (ty / fields / variants) so that induction is the generated
   Combined Scheme.
   Source anchors: base/src/primitive.rs, portable/src/{int,float,bool_}.rs,
   containers/src/{vec,string,flex}.rs, macros/src/lib.rs (which items are generated for which
   kind of definition). *)
From Flatty.Model Require Import Base.

Inductive ty :=
| TUnit                                   (* (), PhantomData<T>: size 0, align 1 *)
| TInt  (i : intty)                       (* u8..u128, i8..i128, usize, isize, f32, f64, portable Int/Float *)
| TBool                                   (* portable::Bool *)
| TCLike (tag : intty) (n : N) (dflt : N) (* #[flat] enum with unit variants only: repr(tag), n variants *)
| TArr  (t : ty) (n : N)                  (* [T; N], T sized *)
| TVec  (t : ty) (l : intty)              (* FlatVec<T, L> *)
| TStr  (l : intty)                       (* FlatString<L> *)
| TFlex (t : ty) (l : intty)              (* FlexVec<T, L>, T possibly unsized *)
| TStruct (sized : bool) (fs : fields)    (* #[flat] struct / #[flat(sized = false)] struct *)
| TEnum (sized : bool) (tag : intty) (dflt : N) (vs : variants)
                                          (* #[flat(tag_type = ..)] enum with payloads; dflt = index of #[default] *)
with fields := FNil | FCons (t : ty) (fs : fields)
with variants := VNil | VCons (fs : fields) (vs : variants).

Scheme ty_ind' := Induction for ty Sort Prop
  with fields_ind' := Induction for fields Sort Prop
  with variants_ind' := Induction for variants Sort Prop.
Combined Scheme ty_mutind from ty_ind', fields_ind', variants_ind'.

Fixpoint flen (fs : fields) : N :=
  match fs with FNil => 0 | FCons _ r => 1 + flen r end.
Fixpoint vlen (vs : variants) : N :=
  match vs with VNil => 0 | VCons _ r => 1 + vlen r end.

Fixpoint vnth (k : nat) (vs : variants) : option fields :=
  match vs, k with
  | VNil, _ => None
  | VCons fs _, O => Some fs
  | VCons _ r, S k' => vnth k' r
  end.

(* is the type statically sized (FlatSized)? *)
Definition sized (t : ty) : bool :=
  match t with
  | TUnit | TInt _ | TBool | TCLike _ _ _ | TArr _ _ => true
  | TVec _ _ | TStr _ | TFlex _ _ => false
  | TStruct s _ => s
  | TEnum s _ _ _ => s
  end.

Definition pow2_le16 (a : N) : bool :=
  (a =? 1) || (a =? 2) || (a =? 4) || (a =? 8) || (a =? 16).

(* a scalar class the compiler can produce: size 1,2,4,8,16; align 1 or = size (native) *)
Definition wf_int (i : intty) : bool :=
  pow2_le16 (isize i) && ((ialign i =? 1) || (ialign i =? isize i)).

(* a native integer (enum tags are repr(tag) with a primitive tag type) *)
Definition native (i : intty) : bool := (ialign i =? isize i) && negb (ibe i).

(* a type usable as a length / tag: at most 8 bytes wide (wider ones are the known finding D15) *)
Definition narrow (i : intty) : bool := isize i <=? 8.

(* "the library / macro accepts this definition" *)
Fixpoint wf (t : ty) : bool :=
  match t with
  | TUnit => true
  | TInt i => wf_int i
  | TBool => true
  | TCLike tag n d => wf_int tag && native tag && (1 <=? n) && (n <=? int_max tag + 1) && (d <? n)
  | TArr t _ => wf t && sized t
  | TVec t l => wf t && sized t && wf_int l
  | TStr l => wf_int l
  | TFlex t l => wf t && wf_int l
  | TStruct s fs => if s then wf_fields_sized fs else wf_fields_unsized fs
  | TEnum s tag d vs =>
      wf_int tag && native tag && (1 <=? vlen vs) && (vlen vs <=? int_max tag + 1) && (d <? vlen vs)
      && wf_variants s vs
  end
(* all fields sized *)
with wf_fields_sized (fs : fields) : bool :=
  match fs with
  | FNil => true
  | FCons t r => wf t && sized t && wf_fields_sized r
  end
(* non-empty, all but the last sized, the last unsized (with a sized last field the struct itself
   is Sized and the generated impls collide with the blanket ones: rejected by rustc) *)
with wf_fields_unsized (fs : fields) : bool :=
  match fs with
  | FNil => false
  | FCons t FNil => wf t && negb (sized t)
  | FCons t r => wf t && sized t && wf_fields_unsized r
  end
(* variant of an unsized enum: non-empty, all but the last sized, the last anything *)
with wf_fields_any (fs : fields) : bool :=
  match fs with
  | FNil => false
  | FCons t FNil => wf t
  | FCons t r => wf t && sized t && wf_fields_any r
  end
with wf_variants (s : bool) (vs : variants) : bool :=
  match vs with
  | VNil => true
  | VCons fs r =>
      (if s then wf_fields_sized fs
       else match fs with FNil => true | _ => wf_fields_any fs end)
      && wf_variants s r
  end.

(* no length/offset type wider than usize anywhere (excludes the known finding D15) *)
Fixpoint narrow_ty (t : ty) : bool :=
  match t with
  | TUnit | TInt _ | TBool => true
  | TCLike tag _ _ => narrow tag
  | TArr t _ => narrow_ty t
  | TVec t l => narrow_ty t && narrow l
  | TStr l => narrow l
  | TFlex t l => narrow_ty t && narrow l
  | TStruct _ fs => narrow_fields fs
  | TEnum _ tag _ vs => narrow tag && narrow_variants vs
  end
with narrow_fields (fs : fields) : bool :=
  match fs with FNil => true | FCons t r => narrow_ty t && narrow_fields r end
with narrow_variants (vs : variants) : bool :=
  match vs with VNil => true | VCons fs r => narrow_fields fs && narrow_variants r end.
