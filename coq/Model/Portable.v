(* Portable.v — portable scalars (portable/src/{int,float,bool_}.rs): a value is stored as the byte
   sequence of its bit pattern in a fixed order; every operator converts to the native value,
   applies the native operator and converts back.  Floats are their to_bits integer here. *)
From Flatty.Model Require Import Base Ty Layout Validate.

(* from_native: n.to_le_bytes() / n.to_be_bytes() of the bit pattern v *)
Definition p_enc (be : bool) (n : N) (v : N) : bytes := to_bytes be n v.
(* to_native: from_le_bytes / from_be_bytes *)
Definition p_dec (be : bool) (bs : bytes) : N := of_bytes be bs.

(* the descriptor of a portable scalar: alignment 1, native size *)
Definition p_intty (be : bool) (n : N) : intty := {| isize := n; ialign := 1; ibe := be |}.

Section Ops.
  Variables (be : bool) (n : N).
  (* any native unary / binary operation on bit patterns, any native comparison *)
  Variable op1_n : N -> N.
  Variable op2_n : N -> N -> N.
  Variable cmp_n : N -> N -> comparison.

  Definition p_op1 (a : bytes) : bytes := p_enc be n (op1_n (p_dec be a)).
  Definition p_op2 (a b : bytes) : bytes := p_enc be n (op2_n (p_dec be a) (p_dec be b)).
  Definition p_cmp (a b : bytes) : comparison := cmp_n (p_dec be a) (p_dec be b).
End Ops.
