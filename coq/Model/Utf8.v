(* Utf8.v — core::str::from_utf8 / Utf8Error::valid_up_to, specified from the table of
   well-formed UTF-8 byte sequences (Unicode standard, table 3-7), which is what Rust documents.
   [utf8_err bs] = None when the whole string is well formed, Some i when the first ill-formed or
   incomplete sequence starts at byte i (= valid_up_to). *)
From Flatty.Model Require Import Base.

Definition in_range (lo hi b : N) : bool := (lo <=? b) && (b <=? hi).
Definition cont (b : N) : bool := in_range 128 191 b.

(* consumes 1..4 bytes per step; structural on the list *)
Fixpoint utf8_go (bs : bytes) (pos : N) : option N :=
  match bs with
  | [] => None
  | b0 :: r0 =>
      if b0 <=? 127 then utf8_go r0 (pos + 1)
      else if in_range 194 223 b0 then
        match r0 with
        | b1 :: r1 => if cont b1 then utf8_go r1 (pos + 2) else Some pos
        | _ => Some pos
        end
      else if in_range 224 239 b0 then
        match r0 with
        | b1 :: b2 :: r2 =>
            let ok1 :=
              if b0 =? 224 then in_range 160 191 b1
              else if b0 =? 237 then in_range 128 159 b1
              else cont b1 in
            if ok1 && cont b2 then utf8_go r2 (pos + 3) else Some pos
        | _ => Some pos
        end
      else if in_range 240 244 b0 then
        match r0 with
        | b1 :: b2 :: b3 :: r3 =>
            let ok1 :=
              if b0 =? 240 then in_range 144 191 b1
              else if b0 =? 244 then in_range 128 143 b1
              else cont b1 in
            if ok1 && cont b2 && cont b3 then utf8_go r3 (pos + 4) else Some pos
        | _ => Some pos
        end
      else Some pos
  end.

Definition utf8_err (bs : bytes) : option N := utf8_go bs 0.
