(* Base.v — outcomes, byte lists, integer codecs, rounding arithmetic.
   Source anchors: base/src/error.rs (Error, ErrorKind, Error::offset),
   base/src/utils/mod.rs (max, min, ceil_mul, floor_mul).
   No proofs in Model/ files: the model must extract and run even when a proof breaks. *)
From Coq Require Export List NArith Bool.
Export ListNotations.
Open Scope N_scope.

(* ---------- outcomes ---------- *)

(* flatty::ErrorKind *)
Inductive kind := InsufficientSize | BadAlign | InvalidEnumTag | InvalidData | Other.

(* every way the Rust can leave the "returns Ok or Err" world *)
Inductive crash :=
| PanicSplit      (* split_at / split_at_mut with mid > len, slice index out of range *)
| PanicUnwrap     (* Option::unwrap / Result::unwrap on the failing case *)
| PanicAssert     (* assert! *)
| PanicArith      (* usize subtraction underflow / overflow (overflow checks on) *)
| PanicDivZero    (* division by zero *)
| OobRead         (* unchecked read outside the slice: undefined behaviour in Rust *)
| OobWrite        (* unchecked write outside the slice: undefined behaviour in Rust *)
| FuelOut.        (* model artefact: loop fuel exhausted; excluded by the fuel lemmas *)

Inductive res (A : Type) :=
| Ok (a : A)
| Err (k : kind) (p : N)
| Crash (c : crash).
Arguments Ok {A} a.
Arguments Err {A} k p.
Arguments Crash {A} c.

Definition bind {A B} (r : res A) (f : A -> res B) : res B :=
  match r with
  | Ok a => f a
  | Err k p => Err k p
  | Crash c => Crash c
  end.

Notation "'do' x <- r ; k" := (bind r (fun x => k))
  (at level 200, x name, r at level 100, k at level 200, right associativity).


(* Error::offset *)
Definition shift {A} (off : N) (r : res A) : res A :=
  match r with
  | Err k p => Err k (p + off)
  | _ => r
  end.

Definition is_ok {A} (r : res A) : bool := match r with Ok _ => true | _ => false end.
Definition is_crash {A} (r : res A) : bool := match r with Crash _ => true | _ => false end.

(* ---------- rounding (base/src/utils/mod.rs) ---------- *)

Definition ceil_mul (x m : N) : N := ((x + m - 1) / m) * m.
Definition floor_mul (x m : N) : N := (x / m) * m.
Definition umax (a b : N) : N := if b <=? a then a else b.   (* max: if a >= b {a} else {b} *)
Definition umin (a b : N) : N := if a <=? b then a else b.   (* min: if a <= b {a} else {b} *)

(* ---------- byte lists ---------- *)

Definition bytes := list N.

Definition blen (bs : bytes) : N := N.of_nat (length bs).
Definition take (n : N) (bs : bytes) : bytes := firstn (N.to_nat n) bs.
Definition drop (n : N) (bs : bytes) : bytes := skipn (N.to_nat n) bs.

Definition byte_ok (b : N) : bool := b <? 256.
Definition bytes_ok (bs : bytes) : bool := forallb byte_ok bs.

(* checked split_at: panics when mid > len *)
Definition split_at (mid : N) (bs : bytes) : res (bytes * bytes) :=
  if mid <=? blen bs then Ok (take mid bs, drop mid bs) else Crash PanicSplit.

(* unchecked sub-slice bs[from..]: undefined behaviour when from > len *)
Definition drop_unchecked (from : N) (bs : bytes) : res bytes :=
  if from <=? blen bs then Ok (drop from bs) else Crash OobRead.
(* unchecked sub-slice bs[..to] *)
Definition take_unchecked (to : N) (bs : bytes) : res bytes :=
  if to <=? blen bs then Ok (take to bs) else Crash OobRead.

(* write `src` over `dst` at position `pos`; outside `dst` it is an out-of-bounds write *)
Definition write_at (pos : N) (src dst : bytes) : res bytes :=
  if pos + blen src <=? blen dst
  then Ok (take pos dst ++ src ++ drop (pos + blen src) dst)
  else Crash OobWrite.

(* ---------- integer codecs ---------- *)

(* value of a little-endian digit string *)
Fixpoint le_val (bs : bytes) : N :=
  match bs with
  | [] => 0
  | b :: r => b + 256 * le_val r
  end.

(* the n little-endian base-256 digits of v *)
Fixpoint le_digits (n : nat) (v : N) : bytes :=
  match n with
  | O => []
  | S n' => (v mod 256) :: le_digits n' (v / 256)
  end.

(* an integer-like scalar class: size, alignment, byte order.
   Native u8..u128/i8..i128/usize/isize/f32/f64: align = size (16 for 128-bit), host order (little endian).
   portable le::/be:: Int and Float: align 1, fixed order. *)
Record intty := { isize : N; ialign : N; ibe : bool }.

Definition to_bytes (be : bool) (n : N) (v : N) : bytes :=
  let d := le_digits (N.to_nat n) v in if be then rev d else d.
Definition of_bytes (be : bool) (bs : bytes) : N :=
  le_val (if be then rev bs else bs).

Definition int_max (i : intty) : N := 256 ^ (isize i) - 1.

(* unchecked read of a scalar at the start of a slice *)
Definition read_int (i : intty) (bs : bytes) : res N :=
  if isize i <=? blen bs then Ok (of_bytes (ibe i) (take (isize i) bs)) else Crash OobRead.

Definition two64 : N := 18446744073709551616.

(* num_traits ToPrimitive::to_usize().unwrap() of a length value read from memory *)
Definition to_usize (v : N) : res N := if v <? two64 then Ok v else Crash PanicUnwrap.

(* L::from_usize(v): None when the value does not fit the length type *)
Definition from_usize (l : intty) (v : N) : option N := if v <=? int_max l then Some v else None.

(* alignment of an address *)
Definition aligned (a m : N) : bool := (a mod m =? 0).
