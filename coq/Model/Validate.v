(* Validate.v — validation of a byte slice as a flat type.
   Source anchors:
     base/src/utils/mem.rs     check_align_and_min_size
     base/src/traits.rs        FlatValidate::{validate, validate_ptr}
     base/src/utils/iter.rs    ValidateIter::validate_all, DataIter::next (checked split)
     base/src/primitive.rs     primitives, [T; N]
     portable/src/bool_.rs     Bool
     macros/src/items/tag.rs   validate_code (tag range check)
     macros/src/items/cast.rs  validate_method (struct / enum, DATA_MIN_SIZES size check)
     containers/src/vec.rs     validate_unchecked, ptr_from_bytes
     containers/src/string.rs  validate_unchecked, ptr_from_bytes
     containers/src/flex.rs    DataIter::next, validate_unchecked, ptr_from_bytes
   Every slice carries the address [a] of its first byte (only a mod 16 matters).
   Every unchecked access of the Rust is an explicit Crash branch here. *)
From Flatty.Model Require Import Base Ty Layout Utf8.

Definition check_align_min (t : ty) (a : N) (bs : bytes) : res unit :=
  if negb (aligned a (align t)) then Err BadAlign 0
  else if blen bs <? min_size t then Err InsufficientSize 0
  else Ok tt.

(* number of element slots a FlatVec reference mapped from n bytes covers (ptr_from_bytes metadata):
   floor_mul(n - DATA_OFFSET, ALIGN) / T::SIZE; a vector of zero-sized items has no slots *)
Definition vec_slots (t : ty) (l : intty) (n : N) : res N :=
  let d := vec_data_offset t l in
  if n <? d then Crash PanicArith
  else
    let room := floor_mul (n - d) (align (TVec t l)) in
    if ssize t =? 0 then Ok 0 else Ok (room / ssize t).

(* stavec GenericVec::capacity: clamp_max(slots, L::max_value().to_usize().unwrap()) *)
Definition clamp_cap (l : intty) (slots : N) : res N :=
  do m <- to_usize (int_max l); Ok (umin slots m).

(* bytes of string data a FlatString reference mapped from n bytes covers *)
Definition str_slots (l : intty) (n : N) : res N :=
  if n <? isize l then Crash PanicArith
  else Ok (floor_mul (n - isize l) (ialign l)).

(* stored length: GenericVec::len = self.len.to_usize().unwrap() *)
Definition read_len (l : intty) (bs : bytes) : res N :=
  do v <- read_int l bs; to_usize v.

(* ---------- FlexVec chain walk (containers/src/flex.rs DataIter) ---------- *)

Inductive flex_end :=
| EndZero (pos : N)      (* chain ends in a 0 slot at pos (iterator keeps its data) *)
| EndLast (pos : N).     (* chain ends in an L::MAX-marked item whose slot is at pos (data = None) *)

Section FlexWalk.
  Context {A : Type}.
  (* l = the offset type, os = OFFSET_SIZE, al = ALIGN of the FlexVec *)
  Variables (l : intty) (os : N) (al : N).
  (* item callback: accumulator, slot position, payload address, payload bytes *)
  Variable item : A -> N -> N -> bytes -> res A.

  (* [rem] = remaining data, first byte at address [a], logical position [pos] *)
  Fixpoint flex_fold (fuel : nat) (acc : A) (a : N) (rem : bytes) (pos : N) : res (A * flex_end) :=
    match fuel with
    | O => Crash FuelOut
    | S fuel' =>
        (* L::from_bytes(data.bytes()): full validation of the offset slot *)
        if negb (aligned a (ialign l)) then Err BadAlign pos
        else if blen rem <? isize l then Err InsufficientSize pos
        else
          do raw <- read_int l rem;
          do next <- to_usize raw;
          if next =? 0 then Ok (acc, EndZero pos)
          else
            do m <- to_usize (int_max l);
            let last := next =? m in
            if next <? os then Err InsufficientSize (pos + os)
            else if negb last && negb (next mod al =? 0) then Err BadAlign pos
            else if (negb last && (blen rem <? next)) || (blen rem <? os) then Err InsufficientSize pos
            else if last then
              do sp <- split_at os rem;
              do acc' <- item acc pos (a + os) (snd sp);
              Ok (acc', EndLast pos)
            else
              do sp <- split_at next rem;
              do sp2 <- split_at os (fst sp);
              do acc' <- item acc pos (a + os) (snd sp2);
              flex_fold fuel' acc' (a + next) (snd sp) (pos + next)
    end.
End FlexWalk.

Definition flex_fuel (data : bytes) : nat := S (length data).

(* ---------- validate ---------- *)

Fixpoint arr_loop (f : N -> bytes -> res unit) (s : N) (bs : bytes) (k : nat) (i : N) : res unit :=
  match k with
  | O => Ok tt
  | S k' =>
      do from <- drop_unchecked (i * s) bs;
      do el <- take_unchecked s from;
      do _ <- shift (i * s) (f i el);
      arr_loop f s bs k' (i + 1)
  end.

Fixpoint validate_u (t : ty) (a : N) (bs : bytes) {struct t} : res unit :=
  match t with
  | TUnit => Ok tt
  | TInt _ => Ok tt
  | TBool =>
      match bs with
      | [] => Crash OobRead
      | b :: _ => if b <=? 1 then Ok tt else Err InvalidData 0
      end
  | TCLike tag n _ =>
      do v <- read_int tag bs;
      if v <? n then Ok tt else Err InvalidEnumTag 0
  | TArr t n =>
      let s := ssize t in
      arr_loop (fun i el => validate_u t (a + i * s) el) s bs (N.to_nat n) 0
  | TVec t l =>
      let d := vec_data_offset t l in
      let s := ssize t in
      do slots <- vec_slots t l (blen bs);
      do len <- read_len l bs;
      do cap <- clamp_cap l slots;
      if cap <? len then Err InsufficientSize d
      else
        do data <- drop_unchecked d bs;
        arr_loop (fun i el => shift d (validate_u t (a + d + i * s) el)) s data (N.to_nat len) 0
  | TStr l =>
      let d := isize l in
      do slots <- str_slots l (blen bs);
      do len <- read_len l bs;
      do cap <- clamp_cap l slots;
      if cap <? len then Err InsufficientSize d
      else
        do data <- drop_unchecked d bs;
        do s <- take_unchecked len data;
        match utf8_err s with
        | None => Ok tt
        | Some i => Err InvalidData (d + i)
        end
  | TFlex t l =>
      let os := flex_offset_size t l in
      let data := take (floor_mul (blen bs) (align (TFlex t l))) bs in
      do r <- flex_fold l os (align (TFlex t l))
                (fun (_ : unit) pos pa payload =>
                   shift (pos + os) (do _ <- check_align_min t pa payload; validate_u t pa payload))
                (flex_fuel data) tt a data 0;
      Ok tt
  | TStruct s fs =>
      let data := if s then bs else take (floor_mul (blen bs) (align_fields fs)) bs in
      validate_fields fs a data 0
  | TEnum s tag _ vs =>
      let d := data_offset tag vs in
      do v <- read_int tag bs;
      if negb (v <? vlen vs) then Err InvalidEnumTag 0
      else
        do data0 <- drop_unchecked d bs;
        let data := if s then data0
                    else take (floor_mul (blen data0) (umax (ialign tag) (align_variants vs))) data0 in
        shift d (validate_variant vs (N.to_nat v) s (a + d) data)
  end
(* ValidateIter::validate_all: [data] starts at the field's position [pos] *)
with validate_fields (fs : fields) (a : N) (data : bytes) (pos : N) {struct fs} : res unit :=
  match fs with
  | FNil => Ok tt
  | FCons t r =>
      do _ <- shift pos (validate_u t a data);
      match r with
      | FNil => Ok tt
      | FCons t' _ =>
          let np := pos_next pos t t' in
          do sp <- split_at (np - pos) data;
          validate_fields r (a + (np - pos)) (snd sp) np
      end
  end
(* select the variant by tag, apply the DATA_MIN_SIZES check (unsized only), walk its fields *)
with validate_variant (vs : variants) (k : nat) (s : bool) (a : N) (data : bytes) {struct vs} : res unit :=
  match vs with
  | VNil => Crash OobRead   (* tag was range checked: unreachable *)
  | VCons fs r =>
      match k with
      | O =>
          if negb s && (blen data <? data_min_size fs) then Err InsufficientSize 0
          else validate_fields fs a data 0
      | S k' => validate_variant r k' s a data
      end
  end.

(* FlatValidate::validate *)
Definition validate (t : ty) (a : N) (bs : bytes) : res unit :=
  do _ <- check_align_min t a bs; validate_u t a bs.
