(* Ops.v — in-place container operations on the byte image.
   Source anchors:
     stavec 0.4.2 src/generic.rs (GenericVec::{len, capacity, remaining, push, pop, push_slice,
       extend_until_full, truncate, clear, remove, swap_remove, resize, index_mut}) and src/string.rs
       (GenericString::{push, push_str, clear}) as reached through Deref of FlatVec / FlatString
       (containers/src/vec.rs, containers/src/string.rs);
     containers/src/flex.rs FlexVec::{len, push, push_default, pop, truncate, clear, iter_mut}.
   A container is operated on through the slice [bs] it was mapped from; every operation returns the
   slice afterwards and what the call reported. *)
From Flatty.Model Require Import Base Ty Layout Validate View Emplace.

Inductive oout :=
| ODone            (* Ok(()) / Some(_) / plain completion *)
| ORefused         (* Err(value) / Err(FullError) / Err(EmptyError) / None: the documented refusal *)
| OErr (k : kind)  (* flatty::Error of that kind (FlexVec::push) *)
| OPanic           (* assert! / index out of range *)
| OBad.            (* operation not applicable to this type: not generated *)

(* ---------- FlatVec / FlatString core, parametrised by the geometry ---------- *)

Record geom := { g_len : intty; g_d : N; g_s : N; g_slots : N }.

Definition geom_vec (t : ty) (l : intty) (n : N) : geom :=
  let d := vec_data_offset t l in
  {| g_len := l; g_d := d; g_s := ssize t;
     g_slots := if ssize t =? 0 then 0 else floor_mul (n - d) (align (TVec t l)) / ssize t |}.

Definition geom_str (l : intty) (n : N) : geom :=
  {| g_len := l; g_d := isize l; g_s := 1; g_slots := floor_mul (n - isize l) (ialign l) |}.

Definition c_len (g : geom) (bs : bytes) : N := of_bytes (ibe (g_len g)) (take (isize (g_len g)) bs).
Definition c_cap (g : geom) : N := umin (g_slots g) (int_max (g_len g)).
Definition set_len (g : geom) (v : N) (bs : bytes) : bytes :=
  to_bytes (ibe (g_len g)) (isize (g_len g)) v ++ drop (isize (g_len g)) bs.

(* raw bytes of slot i *)
Definition slot (g : geom) (i : N) (bs : bytes) : bytes := take (g_s g) (drop (g_d g + i * g_s g) bs).
Definition set_slot_raw (g : geom) (i : N) (raw : bytes) (bs : bytes) : bytes :=
  take (g_d g + i * g_s g) bs ++ raw ++ drop (g_d g + i * g_s g + g_s g) bs.
(* write an encoded element (padding per policy) into slot i *)
Definition set_slot (pv : option N) (g : geom) (i : N) (e : mbytes) (bs : bytes) : bytes :=
  set_slot_raw g i (overlay pv e (slot g i bs)) bs.

(* push the elements one after another starting at index len (stavec push_unchecked) *)
Fixpoint push_all (pv : option N) (g : geom) (es : list mbytes) (len : N) (bs : bytes) : bytes :=
  match es with
  | [] => bs
  | e :: r => push_all pv g r (len + 1) (set_len g (len + 1) (set_slot pv g len e bs))
  end.

(* ptr::copy(ptr.add(1), ptr, n): shift n slots down by one starting at index i+1 *)
Fixpoint shift_down (g : geom) (i : N) (n : nat) (bs : bytes) : bytes :=
  match n with
  | O => bs
  | S n' => shift_down g (i + 1) n' (set_slot_raw g i (slot g (i + 1) bs) bs)
  end.

Inductive cop :=
| CPush (e : mbytes)
| CPop
| CPushSlice (es : list mbytes)
| CExtend (es : list mbytes)
| CTruncate (n : N)
| CClear
| CRemove (i : N)
| CSwapRemove (i : N)
| CResize (n : N) (e : mbytes)
| CSet (i : N) (e : mbytes).

Definition cont_op (pv : option N) (g : geom) (op : cop) (bs : bytes) : bytes * oout :=
  let len := c_len g bs in
  let cap := c_cap g in
  match op with
  | CPush e =>
      if len =? cap then (bs, ORefused) else (push_all pv g [e] len bs, ODone)
  | CPop =>
      if len =? 0 then (bs, ORefused) else (set_len g (len - 1) bs, ODone)
  | CPushSlice es =>
      let n := N.of_nat (length es) in
      if cap - len <? n then (bs, ORefused)
      else
        (* elements first, the length once at the end *)
        (set_len g (len + n) (snd (fold_left (fun st e => (fst st + 1, set_slot pv g (fst st) e (snd st))) es (len, bs))),
         ODone)
  | CExtend es => (push_all pv g (firstn (N.to_nat (cap - len)) es) len bs, ODone)
  | CTruncate n => if len <=? n then (bs, ODone) else (set_len g n bs, ODone)
  | CClear => (set_len g 0 bs, ODone)
  | CRemove i =>
      if i <? len then (set_len g (len - 1) (shift_down g i (N.to_nat (len - i - 1)) bs), ODone)
      else (bs, OPanic)
  | CSwapRemove i =>
      if i <? len then (set_len g (len - 1) (set_slot_raw g i (slot g (len - 1) bs) bs), ODone)
      else (bs, OPanic)
  | CResize n e =>
      if n <=? len then (if len <=? n then bs else set_len g n bs, ODone)
      else if cap <? n then (bs, OPanic)
      else (push_all pv g (repeat e (N.to_nat (n - len))) len bs, ODone)
  | CSet i e =>
      if i <? len then (set_slot pv g i e bs, ODone) else (bs, OPanic)
  end.

(* CClear through truncate(0): len <= 0 keeps bs byte-identical *)
Definition cont_clear (g : geom) (bs : bytes) : bytes := if c_len g bs <=? 0 then bs else set_len g 0 bs.

(* ---------- typed front end ---------- *)

Inductive vop :=
| VPush (i : init) | VPop | VPushSlice (is : list init) | VExtend (is : list init)
| VTruncate (n : N) | VClear | VRemove (i : N) | VSwapRemove (i : N) | VResize (n : N) (i : init)
| VSet (i : N) (x : init)
| SPushStr (s : bytes) | SPushChar (c : N).

(* char::encode_utf8 *)
Definition utf8_encode (c : N) : bytes :=
  if c <? 128 then [c]
  else if c <? 2048 then [192 + c / 64; 128 + c mod 64]
  else if c <? 65536 then [224 + c / 4096; 128 + (c / 64) mod 64; 128 + c mod 64]
  else [240 + c / 262144; 128 + (c / 4096) mod 64; 128 + (c / 64) mod 64; 128 + c mod 64].

Definition vec_op (pv : option N) (t : ty) (op : vop) (bs : bytes) : bytes * oout :=
  match t with
  | TVec et l =>
      let g := geom_vec et l (blen bs) in
      let enc1 i := enc_sized et i in
      let encs is := opt_all (map (enc_sized et) is) in
      match op with
      | VPush i => match enc1 i with Some e => cont_op pv g (CPush e) bs | None => (bs, OBad) end
      | VPop => cont_op pv g CPop bs
      | VPushSlice is => match encs is with Some es => cont_op pv g (CPushSlice es) bs | None => (bs, OBad) end
      | VExtend is => match encs is with Some es => cont_op pv g (CExtend es) bs | None => (bs, OBad) end
      | VTruncate n => cont_op pv g (CTruncate n) bs
      | VClear => (cont_clear g bs, ODone)
      | VRemove i => cont_op pv g (CRemove i) bs
      | VSwapRemove i => cont_op pv g (CSwapRemove i) bs
      | VResize n i => match enc1 i with Some e => cont_op pv g (CResize n e) bs | None => (bs, OBad) end
      | VSet i x => match enc1 x with Some e => cont_op pv g (CSet i e) bs | None => (bs, OBad) end
      | _ => (bs, OBad)
      end
  | TStr l =>
      let g := geom_str l (blen bs) in
      let raw s := map (fun b => [Some b]) s in
      match op with
      | SPushStr s => cont_op pv g (CPushSlice (raw s)) bs
      | SPushChar c => cont_op pv g (CPushSlice (raw (utf8_encode c))) bs
      | VClear => (cont_clear g bs, ODone)
      | _ => (bs, OBad)
      end
  | _ => (bs, OBad)
  end.

(* ---------- FlexVec ---------- *)

(* the chain as the iterator sees it: (slot position, payload length) per item, and how it ends *)
Definition flex_chain (l : intty) (os al : N) (data : bytes) : res (list (N * N) * flex_end) :=
  do r <- flex_fold l os al
            (fun (acc : list (N * N)) pos _ payload => Ok ((pos, blen payload) :: acc))
            (flex_fuel data) [] 0 data 0;
  Ok (rev (fst r), snd r).

Inductive fop :=
| FPush (i : init)
| FPop
| FTruncate (n : N)
| FClear
| FEditVec (i : N) (op : vop)       (* iter_mut().nth(i) then a FlatVec / FlatString operation *)
| FEditAssign (i : N) (x : init).   (* iter_mut().nth(i) then assign_in_place / plain assignment *)

Definition write_int_at (l : intty) (pos : N) (v : N) (data : bytes) : bytes :=
  take pos data ++ to_bytes (ibe l) (isize l) v ++ drop (pos + isize l) data.

Definition flex_truncate (l : intty) (os al : N) (n : N) (data : bytes) : bytes * oout :=
  if n =? 0 then (write_int_at l 0 0 data, ODone)
  else
    match flex_chain l os al data with
    | Ok (items, _) =>
        match nth_error items (N.to_nat n) with
        | Some (pos, _) => (write_int_at l pos 0 data, ODone)
        | None => (data, ODone)
        end
    | _ => (data, OPanic)
    end.

Definition flex_op (pv : option N) (t : ty) (a : N) (op : fop) (bs : bytes) : bytes * oout :=
  match t with
  | TFlex et l =>
      let os := flex_offset_size et l in
      let al := align (TFlex et l) in
      let n := floor_mul (blen bs) al in
      let data := take n bs in
      let tail := drop n bs in
      let back (r : bytes * oout) := (fst r ++ tail, snd r) in
      match flex_chain l os al data with
      | Ok (items, fin) =>
          match op with
          | FPush i =>
              (* where the new slot goes, and the seal of the current last item *)
              let place :=
                match fin with
                | EndZero pos => Ok (pos, None)
                | EndLast pos =>
                    match size_m et (drop (pos + os) data) with
                    | Ok sz =>
                        let lo := os + ceil_mul sz al in
                        match from_usize l lo with
                        | Some o => if o <? int_max l then Ok (pos + lo, Some (pos, lo))
                                    else Err InsufficientSize (pos + lo)
                        | None => Err InsufficientSize (pos + lo)
                        end
                    | Err k p => Err k p
                    | Crash c => Crash c
                    end
                end in
              match place with
              | Ok (tp, seal) =>
                  if n <? tp then (bs, OPanic)
                  else if n - tp <? os then (bs, OErr InsufficientSize)
                  else
                    let payload := drop (tp + os) data in
                    match emplace pv et i (a + tp + os) payload with
                    | (payload', Ok _) =>
                        let d1 := take (tp + os) data ++ payload' in
                        let d2 := write_int_at l tp (int_max l) d1 in
                        let d3 := match seal with Some (sp, lo) => write_int_at l sp lo d2 | None => d2 end in
                        back (d3, ODone)
                    | (payload', Err k _) => back (take (tp + os) data ++ payload', OErr k)
                    | (_, Crash _) => (bs, OPanic)
                    end
              | Err k _ => (bs, OErr k)
              | Crash _ => (bs, OPanic)
              end
          | FPop =>
              let len := N.of_nat (length items) in
              if len =? 0 then (bs, ORefused) else back (flex_truncate l os al (len - 1) data)
          | FTruncate k => back (flex_truncate l os al k data)
          | FClear => back (flex_truncate l os al 0 data)
          | FEditVec i vo =>
              match nth_error items (N.to_nat i) with
              | Some (pos, plen) =>
                  let r := vec_op pv et vo (take plen (drop (pos + os) data)) in
                  back (take (pos + os) data ++ fst r ++ drop (pos + os + plen) data, snd r)
              | None => (bs, OPanic)
              end
          | FEditAssign i x =>
              match nth_error items (N.to_nat i) with
              | Some (pos, plen) =>
                  let r := assign_in_place pv et x (a + pos + os) (take plen (drop (pos + os) data)) in
                  back (take (pos + os) data ++ fst r ++ drop (pos + os + plen) data,
                        match snd r with Ok _ => ODone | Err k _ => OErr k | Crash _ => OPanic end)
              | None => (bs, OPanic)
              end
          end
      | _ => (bs, OPanic)
      end
  | _ => (bs, OBad)
  end.

(* ---------- a container nested as the unsized tail of a struct / enum variant ----------
   Source anchors: macros/src/items/unsized_.rs ptr_from_bytes_method (the tail gets the floored
   slice behind LAST_FIELD_OFFSET), macros/src/items/unsized_enum.rs gen_mut_impl (as_mut: the
   fields of the stored variant over the floored data).  Mutating a nested container through the
   mapped value is the container operation on the sub-slice its field reference covers.
   [tail_container t bs] = (position in bs, length, type) of the innermost container reached by
   following the last fields of the value mapped from bs. *)
Fixpoint tail_container (t : ty) (bs : bytes) {struct t} : option (N * N * ty) :=
  match t with
  | TVec _ _ | TStr _ | TFlex _ _ => Some (0, blen bs, t)
  | TStruct false fs =>
      let data := take (floor_mul (blen bs) (align_fields fs)) bs in
      tail_fields fs data 0
  | TEnum false tag _ vs =>
      let al := umax (ialign tag) (align_variants vs) in
      let d := data_offset tag vs in
      match read_int tag bs with
      | Ok v =>
          if d <=? blen bs then
            let data0 := drop d bs in
            let data := take (floor_mul (blen data0) al) data0 in
            match tail_variant vs (N.to_nat v) data with
            | Some (p, n, ct) => Some (d + p, n, ct)
            | None => None
            end
          else None
      | _ => None
      end
  | _ => None
  end
(* [data] starts at position [pos] of the field list *)
with tail_fields (fs : fields) (data : bytes) (pos : N) {struct fs} : option (N * N * ty) :=
  match fs with
  | FNil => None
  | FCons t r =>
      match r with
      | FNil =>
          match tail_container t data with
          | Some (p, n, ct) => Some (pos + p, n, ct)
          | None => None
          end
      | FCons t' _ =>
          let np := pos_next pos t t' in
          if np - pos <=? blen data then tail_fields r (drop (np - pos) data) np else None
      end
  end
with tail_variant (vs : variants) (k : nat) (data : bytes) {struct vs} : option (N * N * ty) :=
  match vs with
  | VNil => None
  | VCons fs r =>
      match k with
      | O => tail_fields fs data 0
      | S k' => tail_variant r k' data
      end
  end.

Definition nested_vec_op (pv : option N) (t : ty) (op : vop) (bs : bytes) : bytes * oout :=
  match tail_container t bs with
  | Some (p, n, ct) =>
      let r := vec_op pv ct op (take n (drop p bs)) in
      (take p bs ++ fst r ++ drop (p + n) bs, snd r)
  | None => (bs, OBad)
  end.

Definition nested_flex_op (pv : option N) (t : ty) (a : N) (op : fop) (bs : bytes) : bytes * oout :=
  match tail_container t bs with
  | Some (p, n, ct) =>
      let r := flex_op pv ct (a + p) op (take n (drop p bs)) in
      (take p bs ++ fst r ++ drop (p + n) bs, snd r)
  | None => (bs, OBad)
  end.

(* ---------- an item of a FlexVec that is itself a FlexVec, mutated through iter_mut().nth(i) ----------
   Source anchors: containers/src/flex.rs iter_mut (FlexMutIter::next: the item gets the payload between its own
   slot and the next one; the last item gets everything up to the end of the vector's data), then the FlexVec
   operation on that item.  [flex_edit_flex] is kept apart from [fop] (an operation of the outer vector that is
   an operation of one of its items, one level of nesting); the outcome is that of the inner operation. *)
Definition flex_edit_flex (pv : option N) (t : ty) (a : N) (i : N) (op : fop) (bs : bytes) : bytes * oout :=
  match t with
  | TFlex (TFlex it il) l =>
      let et := TFlex it il in
      let os := flex_offset_size et l in
      let al := align (TFlex et l) in
      let n := floor_mul (blen bs) al in
      let data := take n bs in
      let tail := drop n bs in
      match flex_chain l os al data with
      | Ok (items, _) =>
          match nth_error items (N.to_nat i) with
          | Some (pos, plen) =>
              let r := flex_op pv et (a + pos + os) op (take plen (drop (pos + os) data)) in
              (take (pos + os) data ++ fst r ++ drop (pos + os + plen) data ++ tail, snd r)
          | None => (bs, OPanic)
          end
      | _ => (bs, OPanic)
      end
  | _ => (bs, OBad)
  end.

Definition nested_flex_edit_flex (pv : option N) (t : ty) (a : N) (i : N) (op : fop) (bs : bytes) : bytes * oout :=
  match tail_container t bs with
  | Some (p, n, ct) =>
      let r := flex_edit_flex pv ct (a + p) i op (take n (drop p bs)) in
      (take p bs ++ fst r ++ drop (p + n) bs, snd r)
  | None => (bs, OBad)
  end.
