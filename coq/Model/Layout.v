(* Layout.v — the constants and positions the library computes.
   Source anchors:
     base/src/traits.rs       FlatBase for T: FlatSized (ALIGN = align_of, MIN_SIZE = SIZE)
     base/src/utils/iter.rs   PosIter::next, TypeIter::{align,min_size}, fold_size!, fold_min_size!
     macros/src/items/base.rs align_const, min_size_const, self_impl (DATA_OFFSET, DATA_MIN_SIZES,
                              LAST_FIELD_OFFSET), macros/src/items/align_as.rs
     containers/src/vec.rs    DATA_OFFSET = max(L::SIZE, T::ALIGN), ALIGN = max(L::ALIGN, T::ALIGN)
     containers/src/string.rs DATA_OFFSET = L::SIZE, ALIGN = L::ALIGN
     containers/src/flex.rs   OFFSET_SIZE = max(L::SIZE, T::ALIGN), ALIGN = max(L::ALIGN, T::ALIGN) *)
From Flatty.Model Require Import Base Ty.

(* ALIGN: align_of for sized types, align_of::<AlignAs> (a repr(C) tuple of all field types) otherwise *)
Fixpoint align (t : ty) : N :=
  match t with
  | TUnit => 1
  | TInt i => ialign i
  | TBool => 1
  | TCLike tag _ _ => ialign tag
  | TArr t _ => align t
  | TVec t l => umax (ialign l) (align t)
  | TStr l => ialign l
  | TFlex t l => umax (ialign l) (align t)
  | TStruct _ fs => align_fields fs
  | TEnum _ tag _ vs => umax (ialign tag) (align_variants vs)
  end
with align_fields (fs : fields) : N :=
  match fs with
  | FNil => 1
  | FCons t r => umax (align t) (align_fields r)
  end
with align_variants (vs : variants) : N :=
  match vs with
  | VNil => 1
  | VCons fs r => umax (align_fields fs) (align_variants r)
  end.

(* FlatSized::SIZE = size_of::<Self>() — for sized structs and enums this is what the compiler
   does (repr(C) / repr(C, tag)), written here in the library's own vocabulary (fold_size);
   RefLayout.v restates it independently as the C rule and C04 proves them equal. *)
Fixpoint ssize (t : ty) : N :=
  match t with
  | TUnit => 0
  | TInt i => isize i
  | TBool => 1
  | TCLike tag _ _ => isize tag
  | TArr t n => n * ssize t
  | TVec _ _ | TStr _ | TFlex _ _ => 0
  | TStruct _ fs => ceil_mul (fold_size 0 fs) (align_fields fs)
  | TEnum _ tag _ vs =>
      let a := umax (ialign tag) (align_variants vs) in
      ceil_mul (ceil_mul (isize tag) a + max_fold_size vs) a
  end
(* fold_size!(acc; T0, T1, ..): acc' = ceil_mul(acc, ALIGN_i) + SIZE_i *)
with fold_size (acc : N) (fs : fields) : N :=
  match fs with
  | FNil => acc
  | FCons t r => fold_size (ceil_mul acc (align t) + ssize t) r
  end
with max_fold_size (vs : variants) : N :=
  match vs with
  | VNil => 0
  | VCons fs r => umax (fold_size 0 fs) (max_fold_size r)
  end.

Definition vec_data_offset (t : ty) (l : intty) : N := umax (isize l) (align t).
Definition flex_offset_size (t : ty) (l : intty) : N := umax (isize l) (align t).

(* enum DATA_OFFSET = ceil_mul(tag SIZE, Self::ALIGN) *)
Definition data_offset (tag : intty) (vs : variants) : N :=
  ceil_mul (isize tag) (umax (ialign tag) (align_variants vs)).

(* MIN_SIZE *)
Fixpoint min_size (t : ty) : N :=
  match t with
  | TVec t l => umax (isize l) (align t)
  | TStr l => isize l
  | TFlex t l => umax (isize l) (align t)
  | TStruct false fs => ceil_mul (fold_min_size 0 fs) (align_fields fs)
  | TEnum false tag _ vs =>
      let a := umax (ialign tag) (align_variants vs) in
      ceil_mul (ceil_mul (isize tag) a + min_data_min_size vs) a
  | _ => ssize t
  end
(* fold_min_size!(acc; T0, .., Tn): like fold_size, the last type contributes MIN_SIZE *)
with fold_min_size (acc : N) (fs : fields) : N :=
  match fs with
  | FNil => acc
  | FCons t FNil => ceil_mul acc (align t) + min_size t
  | FCons t r => fold_min_size (ceil_mul acc (align t) + ssize t) r
  end
(* min over DATA_MIN_SIZES *)
with min_data_min_size (vs : variants) : N :=
  match vs with
  | VNil => 0
  | VCons fs VNil => fold_min_size 0 fs
  | VCons fs r => umin (fold_min_size 0 fs) (min_data_min_size r)
  end.

(* DATA_MIN_SIZES[k]: 0 for a unit variant, fold_min_size!(0; fields) otherwise *)
Definition data_min_size (fs : fields) : N := fold_min_size 0 fs.

(* PosIter: position of the next field given the position of this one *)
Definition pos_next (pos : N) (t next : ty) : N := ceil_mul (pos + ssize t) (align next).

(* LAST_FIELD_OFFSET = ceil_mul(fold_size!(0; all but last), ALIGN of last); 0 for one field *)
Fixpoint last_field_offset_from (acc : N) (fs : fields) : N :=
  match fs with
  | FNil => acc
  | FCons t FNil => ceil_mul acc (align t)
  | FCons t r => last_field_offset_from (ceil_mul acc (align t) + ssize t) r
  end.
Definition last_field_offset (fs : fields) : N := last_field_offset_from 0 fs.

Fixpoint last_field (fs : fields) : option ty :=
  match fs with
  | FNil => None
  | FCons t FNil => Some t
  | FCons _ r => last_field r
  end.
