(* RefLayout.v — the reference: the plain C layout rule applied to the declared field list
   (Rust reference, "The C representation": repr(C) structs; RFC 2195: repr(C, tag) enums are
   struct { tag; union { variant structs } }).  Written independently of Layout.v: different
   rounding formula, N.max, explicit union.  C04 proves the two agree; rustc is observed to
   follow this file in the layout suite. *)
From Flatty.Model Require Import Base Ty.

Definition round_up (x a : N) : N := if x mod a =? 0 then x else x + (a - x mod a).

Fixpoint c_align (t : ty) : N :=
  match t with
  | TUnit => 1
  | TInt i => ialign i
  | TBool => 1
  | TCLike tag _ _ => ialign tag
  | TArr t _ => c_align t
  | TVec t l => N.max (ialign l) (c_align t)      (* struct { len: L, data: [T] } *)
  | TStr l => ialign l                            (* struct { len: L, data: [u8] } *)
  | TFlex t l => N.max (ialign l) (c_align t)     (* struct { _align: [(T::AlignAs, L); 0], data: [u8] } *)
  | TStruct _ fs => c_align_fields fs
  | TEnum _ tag _ vs => N.max (ialign tag) (c_align_variants vs)
  end
with c_align_fields (fs : fields) : N :=
  match fs with FNil => 1 | FCons t r => N.max (c_align t) (c_align_fields r) end
with c_align_variants (vs : variants) : N :=
  match vs with VNil => 1 | VCons fs r => N.max (c_align_fields fs) (c_align_variants r) end.

Fixpoint c_size (t : ty) : N :=
  match t with
  | TUnit => 0
  | TInt i => isize i
  | TBool => 1
  | TCLike tag _ _ => isize tag
  | TArr t n => n * c_size t
  | TStruct _ fs => round_up (c_end fs 0) (c_align_fields fs)
  | TEnum _ tag _ vs =>
      let ua := c_align_variants vs in
      let uoff := round_up (isize tag) ua in
      let usize := round_up (c_union_size vs) ua in
      round_up (uoff + usize) (N.max (ialign tag) ua)
  | _ => 0
  end
(* end offset after laying the fields out one after another starting at [off] *)
with c_end (fs : fields) (off : N) : N :=
  match fs with
  | FNil => off
  | FCons t r => c_end r (round_up off (c_align t) + c_size t)
  end
(* size of the union of the variant structs (before rounding to the union's alignment) *)
with c_union_size (vs : variants) : N :=
  match vs with
  | VNil => 0
  | VCons fs r => N.max (round_up (c_end fs 0) (c_align_fields fs)) (c_union_size r)
  end.

(* offset of field number i when the fields are laid out starting at [off] *)
Fixpoint c_offset (fs : fields) (off : N) (i : nat) : option N :=
  match fs with
  | FNil => None
  | FCons t r =>
      let o := round_up off (c_align t) in
      match i with
      | O => Some o
      | S i' => c_offset r (o + c_size t) i'
      end
  end.

(* offset of the payload union of a repr(C, tag) enum *)
Definition c_union_offset (tag : intty) (vs : variants) : N := round_up (isize tag) (c_align_variants vs).

(* offset of the data of struct { len: L, data: [T] } *)
Definition c_vec_data_offset (t : ty) (l : intty) : N := round_up (isize l) (c_align t).
