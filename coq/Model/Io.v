(* Io.v — the framed IO state machines, blocking and async, over scripted pipes.
   Source anchors:
     io/src/common/io.rs      Buffer {window}, occupied / vacant, skip, advance, make_contiguous, IoBuffer
     io/src/blocking/io.rs    WriteBuffer::{alloc, write_all}, ReadBuffer::{read, skip} for IoBuffer
     io/src/blocking/recv.rs  Receiver::{io, recv}, RecvGuard (Drop = skip(size()))
     io/src/blocking/send.rs  Sender::{io, alloc}, UninitSendGuard::new_in_place, SendGuard::send
     io/src/async_/io.rs      poll_alloc, WriteAll::poll, poll_read
     io/src/async_/recv.rs, send.rs  (the same loops with .await)
   The IO layer never looks inside a message: it calls M::validate, size() and the emplacer.  They
   are parameters here (Section variables), instantiated with validate / size_m / emplace of a type
   descriptor by the runner and by the instantiation lemmas.
   Pipes are oracles driven by scripts (notes/io-protocol.md): one directive per pipe call. *)
From Flatty.Model Require Import Base.

(* std::io::ErrorKind as far as the scripts use it *)
Inductive iokind := Interrupted | WouldBlock | IoOther | UnexpectedEof | BrokenPipe | TimedOut | OutOfMemory.

Inductive rdir := RD (k : N) | RZ | RE (e : iokind) | RP.      (* read: deliver / Ok(0) / Err / Pending *)
Inductive wdir := WA (k : N) | WZ | WE (e : iokind) | WP.      (* write: accept / Ok(0) / Err / Pending *)
Inductive fdir := FO | FE (e : iokind) | FP.                   (* flush: Ok / Err / Pending *)

(* ---------- Buffer ---------- *)

Record buffer := { data : bytes; st : N; en : N }.

Definition cap (b : buffer) : N := blen (data b).
Definition occupied (b : buffer) : bytes := take (en b - st b) (drop (st b) (data b)).
Definition vacant_len (b : buffer) : N := cap b - en b.
Definition new_buffer (c : N) (fill : N) : buffer :=
  {| data := repeat fill (N.to_nat c); st := 0; en := 0 |}.

(* Buffer::skip: assert!(start <= end); an empty window is reset *)
Definition skip (count : N) (b : buffer) : res buffer :=
  let s := st b + count in
  if en b <? s then Crash PanicAssert
  else if s =? en b then Ok {| data := data b; st := 0; en := 0 |}
  else Ok {| data := data b; st := s; en := en b |}.

(* Buffer::advance: assert!(end <= capacity) *)
Definition advance (count : N) (b : buffer) : res buffer :=
  if cap b <? en b + count then Crash PanicAssert
  else Ok {| data := data b; st := st b; en := en b + count |}.

(* Buffer::make_contiguous: copy_within(window, 0) *)
Definition make_contiguous (b : buffer) : buffer :=
  let occ := occupied b in
  {| data := occ ++ drop (blen occ) (data b); st := 0; en := en b - st b |}.

(* store bytes into the vacant part *)
Definition fill_vacant (bs : bytes) (b : buffer) : buffer :=
  {| data := take (en b) (data b) ++ bs ++ drop (en b + blen bs) (data b); st := st b; en := en b |}.

(* ReadBuffer::read up to the pipe call: room for the pipe, or OutOfMemory *)
Definition read_prepare (b : buffer) : option buffer :=
  if vacant_len b =? 0 then
    if 0 <? st b then Some (make_contiguous b) else None
  else Some b.

Section Msg.
  (* the message type as the IO layer sees it: alignment, minimum size, validate (address, bytes),
     size() of the value mapped from bytes, the emplacer *)
  Variable A : N.
  Variable MIN : N.
  Variable validate_f : N -> bytes -> res unit.
  Variable size_f : bytes -> res N.
  Variable I : Type.
  Variable emplace_f : I -> N -> bytes -> bytes * res unit.

  Definition io_capacity (max_msg_len : N) : N := 2 * (if max_msg_len <? MIN then MIN else max_msg_len).

  (* ------------------------------------------------------------ receiving *)

  Inductive rout :=
  | RMsg (occ : bytes)            (* a guard: the occupied bytes at the moment of delivery *)
  | RClosed
  | RParse (k : kind) (p : N)
  | RRead (e : iokind)
  | RPanic
  | RHang                          (* the pipe was called more often than the watchdog allows *)
  | RPending.                      (* async only: the poll returned Pending *)

  (* the source: remaining stream, remaining script, calls made *)
  Record source := { stream : bytes; rscript : list rdir; rcalls : N }.

  (* one pipe read call offering [room] bytes *)
  Definition pipe_read (room : N) (s : source) : source * rdir * bytes :=
    let d := match rscript s with [] => RD (blen (stream s) + room + 1) | d :: _ => d end in
    let s' := {| stream := stream s; rscript := tl (rscript s); rcalls := rcalls s + 1 |} in
    match d with
    | RD k =>
        let n := umin k (umin room (blen (stream s))) in
        ({| stream := drop n (stream s); rscript := tl (rscript s); rcalls := rcalls s + 1 |}, d, take n (stream s))
    | _ => (s', d, [])
    end.

  (* Receiver::recv.  The async variant differs only in RP: Poll::Pending leaves everything as it is
     (the next poll re-enters at the pending read).  [fuel] bounds the loop; the watchdog [limit]
     bounds the pipe calls like the harness's pipe does. *)
  Fixpoint recv_loop (fuel : nat) (limit : N) (skip_validate : bool) (b : buffer) (s : source)
    : buffer * source * rout :=
    match fuel with
    | O => (b, s, RHang)
    | S fuel' =>
        let v := if skip_validate then Err InsufficientSize 0 else validate_f (st b) (occupied b) in
        match v with
        | Ok _ => (b, s, RMsg (occupied b))
        | Crash _ => (b, s, RPanic)
        | Err InsufficientSize _ =>
            match read_prepare b with
            | None => (b, s, RRead OutOfMemory)
            | Some b1 =>
                if limit <? rcalls s + 1
                then (b1, {| stream := stream s; rscript := rscript s; rcalls := rcalls s + 1 |}, RHang)
                else
                  match pipe_read (vacant_len b1) s with
                  | (s', RD _, got) =>
                      match advance (blen got) (fill_vacant got b1) with
                      | Ok b2 => if blen got =? 0 then (b2, s', RClosed) else recv_loop fuel' limit false b2 s'
                      | _ => (b1, s', RPanic)
                      end
                  | (s', RZ, _) => (b1, s', RClosed)
                  | (s', RE e, _) => (b1, s', RRead e)
                  | (s', RP, _) => (b1, s', RPending)
                  end
            end
        | Err k p => (b, s, RParse k p)
        end
    end.

  (* drop(guard): skip(size()) *)
  Definition drop_guard (b : buffer) : res buffer :=
    match size_f (occupied b) with
    | Ok n => skip n b
    | Err _ _ => Crash PanicUnwrap
    | Crash c => Crash c
    end.

  Definition recv_fuel (b : buffer) (s : source) : nat :=
    S (S (length (stream s) + length (rscript s) + length (data b))).

  (* nrecv blocking recv() calls, each followed by the drop of its guard; stops after panic / hang *)
  Fixpoint recv_many (n : nat) (limit : N) (b : buffer) (s : source) : list rout * source :=
    match n with
    | O => ([], s)
    | S n' =>
        match recv_loop (recv_fuel b s) limit false b s with
        | (b1, s1, RMsg occ) =>
            match drop_guard b1 with
            | Ok b2 => let r := recv_many n' limit b2 s1 in (RMsg occ :: fst r, snd r)
            | _ => ([RMsg occ; RPanic], s1)
            end
        | (b1, s1, RPanic) => ([RPanic], s1)
        | (b1, s1, RHang) => ([RHang], s1)
        | (b1, s1, o) => let r := recv_many n' limit b1 s1 in (o :: fst r, snd r)
        end
    end.

  (* async: every recv() future is polled until Ready; polls are counted against [limit].
     pending = true: the future is suspended in its read (validation is not repeated on resume) *)
  Fixpoint arecv_many (n : nat) (fuel : nat) (limit : N) (polls : N) (pending : bool) (b : buffer) (s : source)
    : list rout * source * N :=
    match fuel with
    | O => ([RHang], s, polls)
    | S fuel' =>
        match n with
        | O => ([], s, polls)
        | S n' =>
            if limit <=? polls then ([RHang], s, polls)
            else
              match recv_loop (recv_fuel b s) limit pending b s with
              | (b1, s1, RPending) => arecv_many n fuel' limit (polls + 1) true b1 s1
              | (b1, s1, RMsg occ) =>
                  match drop_guard b1 with
                  | Ok b2 => let r := arecv_many n' fuel' limit (polls + 1) false b2 s1 in
                             (RMsg occ :: fst (fst r), snd (fst r), snd r)
                  | _ => ([RMsg occ; RPanic], s1, polls + 1)
                  end
              | (b1, s1, RPanic) => ([RPanic], s1, polls + 1)
              | (b1, s1, RHang) => ([RHang], s1, polls + 1)
              | (b1, s1, o) => let r := arecv_many n' fuel' limit (polls + 1) false b1 s1 in
                               (o :: fst (fst r), snd (fst r), snd r)
              end
        end
    end.

  (* ------------------------------------------------------------ sending *)

  Inductive sout :=
  | SOk
  | SEmplace (k : kind) (p : N)
  | SIo (e : iokind)
  | SPanic
  | SHang
  | SPending.

  Inductive wev := EvW (n : N) | EvWZ | EvWE | EvWP | EvFO | EvFP | EvFE.

  Record sink := { sunk : bytes; wscript : list wdir; fscript : list fdir; wcalls : N }.

  Record sender := { sbuf : buffer; poisoned : bool }.

  (* WriteBuffer::alloc / poll_alloc *)
  Definition alloc (b : buffer) : res buffer :=
    if 0 <? vacant_len b then advance (vacant_len b) b else Ok b.

  Definition clear (b : buffer) : buffer := {| data := data b; st := 0; en := 0 |}.

  (* write_all / WriteAll::poll from position [pos]; returns new position, events (reversed) *)
  Fixpoint write_loop (fuel : nat) (limit : N) (pos count : N) (sd : sender) (k : sink) (evs : list wev)
    : sender * sink * N * list wev * sout :=
    match fuel with
    | O => (sd, k, pos, evs, SHang)
    | S fuel' =>
        if pos <? count then
          if limit <? wcalls k + 1
          then (sd, {| sunk := sunk k; wscript := wscript k; fscript := fscript k; wcalls := wcalls k + 1 |}, pos, evs, SHang)
          else
            let offered := take (count - pos) (drop pos (occupied (sbuf sd))) in
            let d := match wscript k with [] => WA (blen offered + 1) | d :: _ => d end in
            let k1 := {| sunk := sunk k; wscript := tl (wscript k); fscript := fscript k; wcalls := wcalls k + 1 |} in
            let poison := {| sbuf := sbuf sd; poisoned := negb (pos =? 0) || poisoned sd |} in
            match d with
            | WA n0 =>
                let n := umin n0 (blen offered) in
                if n =? 0 then (poison, k1, pos, EvWZ :: evs, SIo BrokenPipe)
                else
                  write_loop fuel' limit (pos + n) count sd
                    {| sunk := sunk k ++ take n offered; wscript := tl (wscript k); fscript := fscript k;
                       wcalls := wcalls k + 1 |} (EvW n :: evs)
            | WZ => (poison, k1, pos, EvWZ :: evs, SIo BrokenPipe)
            | WE e => (poison, k1, pos, EvWE :: evs, SIo e)
            | WP => (sd, k1, pos, EvWP :: evs, SPending)
            end
        else (sd, k, pos, evs, SOk)
    end.

  (* blocking SendGuard::send after a successful emplacement *)
  Definition send_blocking (limit : N) (sd : sender) (k : sink) : sender * sink * sout :=
    if poisoned sd then (sd, k, SPanic)
    else
      match size_f (occupied (sbuf sd)) with
      | Ok count =>
          match write_loop (S (N.to_nat count)) limit 0 count sd k [] with
          | (sd1, k1, _, _, SOk) => ({| sbuf := clear (sbuf sd1); poisoned := poisoned sd1 |}, k1, SOk)
          | (sd1, k1, _, _, o) => (sd1, k1, o)
          end
      | _ => (sd, k, SPanic)
      end.

  (* one whole blocking message: alloc, new_in_place, send *)
  Definition send_one (limit : N) (i : I) (sd : sender) (k : sink) : sender * sink * sout :=
    match alloc (sbuf sd) with
    | Ok b1 =>
        match emplace_f i (st b1) (occupied b1) with
        | (occ', Ok _) =>
            let b2 := {| data := take (st b1) (data b1) ++ occ' ++ drop (en b1) (data b1); st := st b1; en := en b1 |} in
            send_blocking limit {| sbuf := b2; poisoned := poisoned sd |} k
        | (occ', Err kk p) =>
            let b2 := {| data := take (st b1) (data b1) ++ occ' ++ drop (en b1) (data b1); st := st b1; en := en b1 |} in
            ({| sbuf := b2; poisoned := poisoned sd |}, k, SEmplace kk p)
        | (_, Crash _) => ({| sbuf := b1; poisoned := poisoned sd |}, k, SPanic)
        end
    | _ => (sd, k, SPanic)
    end.

  Fixpoint send_many (limit : N) (is : list I) (sd : sender) (k : sink) : list sout * sink :=
    match is with
    | [] => ([], k)
    | i :: r =>
        match send_one limit i sd k with
        | (sd1, k1, SHang) => ([SHang], k1)
        | (sd1, k1, o) => let rr := send_many limit r sd1 k1 in (o :: fst rr, snd rr)
        end
    end.

  (* async send of one message, polled until Ready: returns outcome, events, polls used.
     phase: writing from [pos], then flushing *)
  Fixpoint asend_poll (fuel : nat) (limit : N) (polls : N) (pos count : N) (sd : sender) (k : sink) (evs : list wev)
    : sender * sink * N * list wev * sout :=
    match fuel with
    | O => (sd, k, polls, evs, SHang)
    | S fuel' =>
        if limit <=? polls then (sd, k, polls, evs, SHang)
        else if poisoned sd then (sd, k, polls + 1, evs, SPanic)
        else
          match write_loop (S (N.to_nat count)) limit pos count sd k evs with
          | (sd1, k1, pos1, evs1, SOk) =>
              (* poll_flush *)
              let d := match fscript k1 with [] => FO | d :: _ => d end in
              let k2 := {| sunk := sunk k1; wscript := wscript k1; fscript := tl (fscript k1); wcalls := wcalls k1 |} in
              match d with
              | FO => ({| sbuf := clear (sbuf sd1); poisoned := poisoned sd1 |}, k2, polls + 1, EvFO :: evs1, SOk)
              | FE e => (sd1, k2, polls + 1, EvFE :: evs1, SIo e)
              | FP => asend_poll fuel' limit (polls + 1) pos1 count sd1 k2 (EvFP :: evs1)
              end
          | (sd1, k1, pos1, evs1, SPending) => asend_poll fuel' limit (polls + 1) pos1 count sd1 k1 evs1
          | (sd1, k1, pos1, evs1, o) => (sd1, k1, polls + 1, evs1, o)
          end
    end.

  Definition asend_one (fuel : nat) (limit : N) (polls : N) (i : I) (sd : sender) (k : sink)
    : sender * sink * N * list wev * sout :=
    (* alloc().await: one poll *)
    if limit <=? polls then (sd, k, polls, [], SHang)
    else
      match alloc (sbuf sd) with
      | Ok b1 =>
          let polls1 := polls + 1 in
          match emplace_f i (st b1) (occupied b1) with
          | (occ', Ok _) =>
              let b2 := {| data := take (st b1) (data b1) ++ occ' ++ drop (en b1) (data b1); st := st b1; en := en b1 |} in
              match size_f (occupied b2) with
              | Ok count => asend_poll fuel limit polls1 0 count {| sbuf := b2; poisoned := poisoned sd |} k []
              | _ => ({| sbuf := b2; poisoned := poisoned sd |}, k, polls1, [], SPanic)
              end
          | (occ', Err kk p) =>
              let b2 := {| data := take (st b1) (data b1) ++ occ' ++ drop (en b1) (data b1); st := st b1; en := en b1 |} in
              ({| sbuf := b2; poisoned := poisoned sd |}, k, polls1, [], SEmplace kk p)
          | (_, Crash _) => ({| sbuf := b1; poisoned := poisoned sd |}, k, polls1, [], SPanic)
          end
      | _ => (sd, k, polls + 1, [], SPanic)
      end.

  Fixpoint asend_many (fuel : nat) (limit : N) (polls : N) (is : list I) (sd : sender) (k : sink)
    : list (sout * list wev) * sink * N :=
    match is with
    | [] => ([], k, polls)
    | i :: r =>
        match asend_one fuel limit polls i sd k with
        | (sd1, k1, p1, evs, SHang) => ([(SHang, rev evs)], k1, p1)
        | (sd1, k1, p1, evs, o) =>
            let rr := asend_many fuel limit p1 r sd1 k1 in
            ((o, rev evs) :: fst (fst rr), snd (fst rr), snd rr)
        end
    end.

  (* ------------------------------------------------------------ the composed system *)

  (* bounded ring pipe *)
  Record ring := { rbytes : bytes; rcap : N; closed : bool }.

  Inductive stask :=
  | TIdle (is : list I)                   (* between messages *)
  | TWriting (is : list I) (pos count : N)
  | TDone (o : sout).

  Record sys := {
    y_send : stask; y_sd : sender;
    y_ring : ring;
    y_recv : option rout;                 (* Some o: the receiver task has finished with o *)
    y_rb : buffer;
    y_rpending : bool;                    (* receiver suspended in its read *)
    y_delivered : list bytes;             (* occupied bytes at each delivery, newest first *)
    y_polls : N
  }.

  (* one poll of the sender task: runs until Pending or completion *)
  Fixpoint sys_poll_send (fuel : nat) (spur : bool) (t : stask) (sd : sender) (r : ring) : stask * sender * ring :=
    match fuel with
    | O => (TDone SHang, sd, r)
    | S fuel' =>
        match t with
        | TDone _ => (t, sd, r)
        | TIdle [] => (TDone SOk, sd, r)
        | TIdle (i :: rest) =>
            match alloc (sbuf sd) with
            | Ok b1 =>
                match emplace_f i (st b1) (occupied b1) with
                | (occ', Ok _) =>
                    let b2 := {| data := take (st b1) (data b1) ++ occ' ++ drop (en b1) (data b1); st := st b1; en := en b1 |} in
                    match size_f (occupied b2) with
                    | Ok count => sys_poll_send fuel' spur (TWriting rest 0 count) {| sbuf := b2; poisoned := poisoned sd |} r
                    | _ => (TDone SPanic, sd, r)
                    end
                | (_, Err kk p) => (TDone (SEmplace kk p), sd, r)
                | (_, Crash _) => (TDone SPanic, sd, r)
                end
            | _ => (TDone SPanic, sd, r)
            end
        | TWriting rest pos count =>
            if poisoned sd then (TDone SPanic, sd, r)
            else if pos <? count then
              if spur then (t, sd, r)         (* spurious Pending; the caller clears the flag *)
              else
                let free := rcap r - blen (rbytes r) in
                if free =? 0 then (t, sd, r)
                else
                  let offered := take (count - pos) (drop pos (occupied (sbuf sd))) in
                  let n := umin (blen offered) free in
                  sys_poll_send fuel' false (TWriting rest (pos + n) count) sd
                    {| rbytes := rbytes r ++ take n offered; rcap := rcap r; closed := closed r |}
            else
              (* flush: Ok *)
              sys_poll_send fuel' spur (TIdle rest) {| sbuf := clear (sbuf sd); poisoned := poisoned sd |} r
        end
    end.

  (* one poll of the receiver task *)
  Fixpoint sys_poll_recv (fuel : nat) (spur : bool) (pending : bool) (b : buffer) (r : ring) (del : list bytes)
    : option rout * buffer * bool * ring * list bytes :=
    match fuel with
    | O => (Some RHang, b, false, r, del)
    | S fuel' =>
        let v := if pending then Err InsufficientSize 0 else validate_f (st b) (occupied b) in
        match v with
        | Ok _ =>
            let occ := occupied b in
            match drop_guard b with
            | Ok b2 => sys_poll_recv fuel' spur false b2 r (occ :: del)
            | _ => (Some RPanic, b, false, r, occ :: del)
            end
        | Crash _ => (Some RPanic, b, false, r, del)
        | Err InsufficientSize _ =>
            match read_prepare b with
            | None => (Some (RRead OutOfMemory), b, false, r, del)
            | Some b1 =>
                if spur then (None, b1, true, r, del)
                else if blen (rbytes r) =? 0 then
                  if closed r then (Some RClosed, b1, false, r, del) else (None, b1, true, r, del)
                else
                  let n := umin (vacant_len b1) (blen (rbytes r)) in
                  match advance n (fill_vacant (take n (rbytes r)) b1) with
                  | Ok b2 =>
                      sys_poll_recv fuel' false false b2
                        {| rbytes := drop n (rbytes r); rcap := rcap r; closed := closed r |} del
                  | _ => (Some RPanic, b1, false, r, del)
                  end
            end
        | Err k p => (Some (RParse k p), b, false, r, del)
        end
    end.

  Definition sender_done (t : stask) : bool := match t with TDone _ => true | _ => false end.

  Definition sys_step (fuel : nat) (who_sender : bool) (spur : bool) (y : sys) : sys :=
    if who_sender then
      if sender_done (y_send y) then y
      else
        match sys_poll_send fuel spur (y_send y) (y_sd y) (y_ring y) with
        | (t, sd, r) =>
            {| y_send := t; y_sd := sd;
               y_ring := {| rbytes := rbytes r; rcap := rcap r; closed := sender_done t |};
               y_recv := y_recv y; y_rb := y_rb y; y_rpending := y_rpending y; y_delivered := y_delivered y;
               y_polls := y_polls y + 1 |}
        end
    else
      match y_recv y with
      | Some _ => y
      | None =>
          match sys_poll_recv fuel spur (y_rpending y) (y_rb y) (y_ring y) (y_delivered y) with
          | (o, b, pend, r, del) =>
              {| y_send := y_send y; y_sd := y_sd y; y_ring := r; y_recv := o; y_rb := b; y_rpending := pend;
                 y_delivered := del; y_polls := y_polls y + 1 |}
          end
      end.

  Definition sys_done (y : sys) : bool :=
    sender_done (y_send y) && match y_recv y with Some _ => true | None => false end.

  (* schedule: (sender?, spurious?) per poll *)
  Definition run_schedule (fuel : nat) (sch : list (bool * bool)) (y : sys) : sys :=
    fold_left (fun y p => sys_step fuel (fst p) (snd p) y) sch y.

  (* the tail: S, R alternating until both are done or [budget] further polls were made *)
  Fixpoint run_tail (n : nat) (fuel : nat) (budget : N) (start : N) (who_sender : bool) (y : sys) : sys :=
    match n with
    | O => y
    | S n' =>
        if sys_done y then y
        else if budget <=? y_polls y - start then y
        else run_tail n' fuel budget start (negb who_sender) (sys_step fuel who_sender false y)
    end.
End Msg.
