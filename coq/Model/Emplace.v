(* Emplace.v — in-place initialisation.
   Source anchors:
     base/src/emplacer.rs      Emplacer::emplace (check, then emplace_unchecked); impl Emplacer<T> for T (ptr.write)
     base/src/traits.rs        new_in_place, assign_in_place, default_in_place, FlatDefault for T: Flat + Default
     containers/src/vec.rs     Empty, FromArray, FromIterator (stavec push_unchecked / push / extend_until_full)
     containers/src/string.rs  Empty, FromStr (stavec push_str)
     containers/src/flex.rs    Empty, FromIterator
     macros/src/items/init.rs  impl_ (generated <T>Init), impl_default
   An emplacer is a state transformer on the buffer: it returns the buffer as it stands afterwards
   together with the outcome, so that what a *failed* emplacer leaves behind is part of the model
   (needed for C18).  After Crash the buffer is meaningless. *)
From Flatty.Model Require Import Base Ty Layout Validate View.

(* run-time description of an emplacer expression *)
Inductive init :=
| IInt (n : N)                  (* scalar literal: integer / float bits / Bool (0,1) / C-like variant index *)
| ISeq (is : list init)         (* array or sized-struct literal; generated <S>Init { .. } for an unsized struct *)
| IVar (k : N) (is : list init) (* enum variant literal; generated <E>Init<Variant>( .. ) for an unsized enum *)
| IVecArr (is : list init)      (* vec::FromArray([..]) / flat_vec![..] *)
| IVecIter (is : list init)     (* vec::FromIterator(..) *)
| IStr (s : bytes)              (* string::FromStr(..): the UTF-8 bytes of the &str *)
| IFlex (is : list init)        (* flex::FromIterator::new(..) *)
| IEmpty                        (* vec::Empty / string::Empty / flex::Empty *)
| IDefault.                     (* <T as FlatDefault>::default_emplacer() *)

(* bytes of a sized value as ptr.write stores them: None = padding (unspecified after the write) *)
Definition mbytes := list (option N).

Definition mlen (m : mbytes) : N := N.of_nat (length m).
Definition pad_to (n : N) (m : mbytes) : mbytes := m ++ repeat None (N.to_nat (n - mlen m)).

Definition field_inits (i : init) (n : N) : option (list init) :=
  match i with
  | ISeq is => if N.of_nat (length is) =? n then Some is else None
  | IDefault => Some (repeat IDefault (N.to_nat n))
  | _ => None
  end.

Fixpoint concat_opt {A} (l : list (option (list A))) : option (list A) :=
  match l with
  | [] => Some []
  | None :: _ => None
  | Some x :: r => match concat_opt r with Some y => Some (x ++ y) | None => None end
  end.

(* the image of a sized value: fields at their PosIter positions, padding in between and after *)
Fixpoint enc_sized (t : ty) (i : init) {struct t} : option mbytes :=
  match t with
  | TUnit => Some []
  | TInt it =>
      match i with
      | IInt n => if n <=? int_max it then Some (map Some (to_bytes (ibe it) (isize it) n)) else None
      | IDefault => Some (map Some (to_bytes (ibe it) (isize it) 0))
      | _ => None
      end
  | TBool =>
      match i with
      | IInt n => if n <=? 1 then Some [Some n] else None
      | IDefault => Some [Some 0]
      | _ => None
      end
  | TCLike tag n d =>
      match i with
      | IInt k => if k <? n then Some (map Some (to_bytes (ibe tag) (isize tag) k)) else None
      | IDefault => Some (map Some (to_bytes (ibe tag) (isize tag) d))
      | _ => None
      end
  | TArr t n =>
      match field_inits i n with
      | Some is => concat_opt (map (enc_sized t) is)
      | None => None
      end
  | TStruct true fs =>
      match field_inits i (flen fs) with
      | Some is =>
          match enc_fields fs is [] with
          | Some m => Some (pad_to (ssize (TStruct true fs)) m)
          | None => None
          end
      | None => None
      end
  | TEnum true tag d vs =>
      let go k is :=
        if k <? vlen vs then
          match enc_variant vs (N.to_nat k) is
                  (pad_to (data_offset tag vs) (map Some (to_bytes (ibe tag) (isize tag) k))) with
          | Some m => Some (pad_to (ssize (TEnum true tag d vs)) m)
          | None => None
          end
        else None in
      match i with
      | IVar k is => go k is
      | IDefault => go d []
      | _ => None
      end
  | _ => None
  end
(* [m] = image emitted so far; the next field goes at ceil_mul(|m|, ALIGN) *)
with enc_fields (fs : fields) (is : list init) (m : mbytes) {struct fs} : option mbytes :=
  match fs, is with
  | FNil, [] => Some m
  | FCons t r, i :: is' =>
      match enc_sized t i with
      | Some e => enc_fields r is' (pad_to (ceil_mul (mlen m) (align t)) m ++ e)
      | None => None
      end
  | _, _ => None
  end
with enc_variant (vs : variants) (k : nat) (is : list init) (m : mbytes) {struct vs} : option mbytes :=
  match vs with
  | VNil => None
  | VCons fs r =>
      match k with
      | O =>
          (* payload fields are laid out relative to DATA_OFFSET = |m| *)
          match field_inits (ISeq is) (flen fs) with
          | Some is' =>
              match enc_fields fs is' [] with
              | Some e => Some (m ++ e)
              | None => None
              end
          | None => None
          end
      | S k' => enc_variant r k' is m
      end
  end.

(* ---------- buffer transformers ---------- *)

Definition eres := (bytes * res unit)%type.

Definition ok (b : bytes) : eres := (b, Ok tt).
Definition fail (b : bytes) (k : kind) (p : N) : eres := (b, Err k p).
Definition crashed (c : crash) : eres := ([], Crash c).

Definition ebind (r : eres) (f : bytes -> eres) : eres :=
  match r with
  | (b, Ok _) => f b
  | other => other
  end.
Notation "'dob' b <- r ; k" := (ebind r (fun b => k))
  (at level 200, b name, r at level 100, k at level 200, right associativity).

Definition eshift (off : N) (r : eres) : eres := (fst r, shift off (snd r)).

(* lift a crash-only computation *)
Definition lift (r : res bytes) : eres :=
  match r with
  | Ok b => ok b
  | Err k p => ([], Err k p)
  | Crash c => crashed c
  end.

(* run [f] on the sub-slice buf[pos .. pos+len] and splice the result back, whatever the outcome *)
Definition on_slice (pos len : N) (f : bytes -> eres) (buf : bytes) : eres :=
  let sub := take len (drop pos buf) in
  let r := f sub in
  (take pos buf ++ fst r ++ drop (pos + len) buf, snd r).

(* ptr.write of a sized value at the start of [buf]: padding bytes keep their old content in the model *)
(* [pv] is the padding policy: None = a padding byte keeps its old content, Some v = it becomes v
   (the correspondence run uses Some 256 to mark the bytes Rust leaves unspecified) *)
Fixpoint overlay (pv : option N) (m : mbytes) (buf : bytes) : bytes :=
  match m, buf with
  | [], _ => buf
  | _, [] => []
  | Some b :: m', _ :: buf' => b :: overlay pv m' buf'
  | None :: m', x :: buf' => match pv with Some v => v | None => x end :: overlay pv m' buf'
  end.
Definition write_masked (pv : option N) (m : mbytes) (buf : bytes) : eres :=
  if mlen m <=? blen buf then ok (overlay pv m buf) else crashed OobWrite.

(* raw write of an integer of type l at the start of buf: (ptr as *mut L).write(v) *)
Definition write_int (l : intty) (v : N) (buf : bytes) : eres :=
  lift (write_at 0 (to_bytes (ibe l) (isize l) v) buf).

(* L::emplace(v, slot): the checked emplacer of a sized scalar (alignment and size of the slot) *)
Definition emplace_int (l : intty) (v : N) (a : N) (slot : bytes) : eres :=
  if negb (aligned a (ialign l)) then fail slot BadAlign 0
  else if blen slot <? isize l then fail slot InsufficientSize 0
  else write_int l v slot.

(* push the items one by one: element i at d + i*s, then len := i+1 (stavec push_unchecked) *)
Fixpoint vec_fill (pv : option N) (t : ty) (l : intty) (encs : list mbytes) (len : N) (buf : bytes) : eres :=
  match encs with
  | [] => ok buf
  | e :: r =>
      let d := vec_data_offset t l in
      dob b1 <- on_slice (d + len * ssize t) (ssize t) (write_masked pv e) buf;
      dob b2 <- write_int l (len + 1) b1;
      vec_fill pv t l r (len + 1) b2
  end.

Fixpoint opt_all {A} (l : list (option A)) : option (list A) :=
  match l with
  | [] => Some []
  | None :: _ => None
  | Some x :: r => match opt_all r with Some y => Some (x :: y) | None => None end
  end.

Definition bad_init : eres := crashed PanicUnwrap.  (* an emplacer expression that does not type-check: not generated *)

Section FlexEmplace.
  Variables (t : ty) (l : intty).
  (* item emplacer (checked): address, payload -> result *)
  Variable item : init -> N -> bytes -> eres.
  (* size() of the item just emplaced *)
  Variable item_size : bytes -> res N.

  (* flex::FromIterator loop.  [data] = the remaining bytes at address [a], position [pos];
     [pre] = everything before them (already final except for the slot at [prev]).
     prev = Some (slot position in pre, offset that will replace its L::MAX marker) *)
  Fixpoint flex_fill (is : list init) (pre : bytes) (prev : option (N * N)) (a : N) (data : bytes) (pos : N)
    : eres :=
    match is with
    | [] => ok (pre ++ data)
    | i :: r =>
        let os := flex_offset_size t l in
        let al := align (TFlex t l) in
        if blen data <? os then fail (pre ++ data) InsufficientSize pos
        else
          let slot := take os data in
          let payload := drop os data in
          match item i (a + os) payload with
          | (payload', Ok _) =>
              match item_size payload' with
              | Ok sz =>
                  let psize := ceil_mul sz al in
                  let off := os + psize in
                  match from_usize l off with
                  | Some o =>
                      if o <? int_max l then
                        match emplace_int l (int_max l) a slot with
                        | (slot', Ok _) =>
                            (* seal the previous item *)
                            let pre' :=
                              match prev with
                              | Some (pp, po) =>
                                  take pp pre ++ to_bytes (ibe l) (isize l) po ++ drop (pp + isize l) pre
                              | None => pre
                              end in
                            if blen payload' <? psize then crashed PanicSplit
                            else
                              flex_fill r (pre' ++ slot' ++ take psize payload')
                                        (Some (blen pre', off)) (a + off) (drop psize payload') (pos + off)
                        | (slot', e) => (pre ++ slot' ++ payload', e)
                        end
                      else fail (pre ++ slot ++ payload') InsufficientSize pos
                  | None => fail (pre ++ slot ++ payload') InsufficientSize pos
                  end
              | Err k p => crashed PanicUnwrap
              | Crash c => crashed c
              end
          | (payload', e) => (pre ++ slot ++ payload', e)
          end
    end.
End FlexEmplace.

(* Emplacer::emplace_unchecked for every (type, emplacer) pair the library offers.
   [a] = address of buf[0]. *)
Fixpoint emplace_u (pv : option N) (t : ty) (i : init) (a : N) (buf : bytes) {struct t} : eres :=
  match t with
  | TVec et l =>
      let d := vec_data_offset et l in
      let with_items (is : list init) (check_first : bool) :=
        match opt_all (map (enc_sized et) is) with
        | None => bad_init
        | Some encs =>
            match (do slots <- vec_slots et l (blen buf); clamp_cap l slots) with
            | Ok cap =>
                let n := N.of_nat (length encs) in
                if check_first && (cap <? n) then fail buf InsufficientSize 0
                else
                  dob b0 <- write_int l 0 buf;
                  (* FromIterator: push until full, then Err *)
                  let fit := firstn (N.to_nat cap) encs in
                  dob b1 <- vec_fill pv et l fit 0 b0;
                  if cap <? n then fail b1 InsufficientSize 0 else ok b1
            | Err k p => crashed PanicUnwrap
            | Crash c => crashed c
            end
        end in
      match i with
      | IEmpty | IDefault => write_int l 0 buf
      | IVecArr is => with_items is true
      | IVecIter is => with_items is false
      | _ => bad_init
      end
  | TStr l =>
      match i with
      | IEmpty | IDefault => write_int l 0 buf
      | IStr s =>
          match (do slots <- str_slots l (blen buf); clamp_cap l slots) with
          | Ok cap =>
              if cap <? blen s then fail buf InsufficientSize 0
              else
                dob b0 <- write_int l 0 buf;
                dob b1 <- lift (write_at (isize l) s b0);
                write_int l (blen s) b1
          | Err k p => crashed PanicUnwrap
          | Crash c => crashed c
          end
      | _ => bad_init
      end
  | TFlex et l =>
      match i with
      | IEmpty | IDefault => write_int l 0 buf
      | IFlex is =>
          let al := align (TFlex et l) in
          let n := floor_mul (blen buf) al in
          let data := take n buf in
          let tail := drop n buf in
          (* L::zero().emplace(data) *)
          match emplace_int l 0 a data with
          | (data0, Ok _) =>
              let r := flex_fill et l
                         (fun i pa payload =>
                            match check_align_min et pa payload with
                            | Ok _ => emplace_u pv et i pa payload
                            | Err k p => fail payload k p
                            | Crash c => crashed c
                            end)
                         (size_m et) is [] None a data0 0 in
              (fst r ++ tail, snd r)
          | (data0, e) => (data0 ++ tail, e)
          end
      | _ => bad_init
      end
  | TStruct false fs =>
      match field_inits i (flen fs) with
      | None => bad_init
      | Some is =>
          let al := align_fields fs in
          let n := floor_mul (blen buf) al in
          let data := take n buf in
          let tail := drop n buf in
          (* BytesMutIter::new: TypeIter::check_align_and_min_size *)
          if negb (aligned a al) then fail buf BadAlign 0
          else if n <? fold_min_size 0 fs then fail buf InsufficientSize 0
          else
            let r := emplace_fields pv fs is a data 0 in
            (fst r ++ tail, snd r)
      end
  | TEnum false tag d vs =>
      let go (k : N) (is : list init) :=
        if negb (k <? vlen vs) then bad_init
        else
          let al := umax (ialign tag) (align_variants vs) in
          let dof := data_offset tag vs in
          if blen buf <? dof then crashed PanicSplit
          else
            let tagb := take dof buf in
            let rest := drop dof buf in
            let n := floor_mul (blen rest) al in
            let data := take n rest in
            let tail := drop n rest in
            let r := emplace_variant pv vs (N.to_nat k) is (a + dof) data tag k tagb in
            (fst r ++ tail, snd r)
      in
      match i with
      | IVar k is => go k is
      | IDefault => go d []
      | _ => bad_init
      end
  | _ =>
      match enc_sized t i with
      | Some m => write_masked pv m buf
      | None => bad_init
      end
  end
(* fields of a generated Init: [data] starts at position [pos] (address a); each field's emplacer
   gets exactly the piece up to the next field's position (emplace_unchecked: no check) *)
with emplace_fields (pv : option N) (fs : fields) (is : list init) (a : N) (data : bytes) (pos : N) {struct fs} : eres :=
  match fs, is with
  | FNil, _ => ok data
  | FCons t r, i :: is' =>
      match r with
      | FNil => emplace_u pv t i a data
      | FCons t' _ =>
          let np := pos_next pos t t' in
          if blen data <? np - pos then crashed PanicSplit
          else
            let piece := take (np - pos) data in
            let rest := drop (np - pos) data in
            match emplace_u pv t i a piece with
            | (piece', Ok _) =>
                let rr := emplace_fields pv r is' (a + (np - pos)) rest np in
                (piece' ++ fst rr, snd rr)
            | (piece', e) => (piece' ++ rest, e)
            end
      end
  | FCons _ _, [] => bad_init
  end
(* enum Init: fit check of the variant, then the tag, then the fields.
   returns tag bytes ++ data *)
with emplace_variant (pv : option N) (vs : variants) (k : nat) (is : list init) (a : N) (data : bytes)
                     (tag : intty) (kv : N) (tagb : bytes) {struct vs} : eres :=
  match vs with
  | VNil => bad_init
  | VCons fs r =>
      match k with
      | O =>
          match field_inits (ISeq is) (flen fs) with
          | None => bad_init
          | Some is' =>
              let chk :=
                match fs with
                | FNil => Ok tt
                | _ =>
                    if negb (aligned a (align_fields fs)) then Err BadAlign 0
                    else if blen data <? fold_min_size 0 fs then Err InsufficientSize 0
                    else Ok tt
                end in
              match chk with
              | Ok _ =>
                  match write_int tag kv tagb with
                  | (tagb', Ok _) =>
                      let rr := emplace_fields pv fs is' a data 0 in
                      (tagb' ++ fst rr, snd rr)
                  | (_, e) => crashed OobWrite
                  end
              | Err kk p => fail (tagb ++ data) kk (p + blen tagb)
              | Crash c => crashed c
              end
          end
      | S k' => emplace_variant pv r k' is a data tag kv tagb
      end
  end.

(* Emplacer::emplace *)
Definition emplace (pv : option N) (t : ty) (i : init) (a : N) (buf : bytes) : eres :=
  match check_align_min t a buf with
  | Ok _ => emplace_u pv t i a buf
  | Err k p => fail buf k p
  | Crash c => crashed c
  end.

(* FlatUnsized::new_in_place / FlatDefault::default_in_place / FlatWrap::new_in_place *)
Definition new_in_place := emplace.
Definition default_in_place (pv : option N) (t : ty) (a : N) (buf : bytes) : eres := emplace pv t IDefault a buf.

(* FlatUnsized::assign_in_place: emplace_unchecked on self.as_mut_bytes() *)
Definition assign_in_place (pv : option N) (t : ty) (i : init) (a : N) (bs : bytes) : eres :=
  match bytes_len t (blen bs) with
  | Ok n => on_slice 0 n (emplace_u pv t i a) bs
  | Err k p => crashed PanicUnwrap
  | Crash c => crashed c
  end.
