(* C11 — the fixed-capacity vector on its byte image is a list whose growth is refused beyond the
   capacity: every operation of FlatVec / FlatString (stavec GenericVec on the {len; data} image)
   acts on the byte image exactly as the same operation acts on an ordinary list, for every
   geometry, byte string, operation and argument, and so does every finite history of operations.
   Pinned statements only; proofs in Proofs/VecOpsFacts.v.

   Reading guide.
   - cont_wf g bs: the length field lies before the data (isize <= g_d), the g_slots slots of g_s
     bytes lie inside the slice, the stored length is at most c_cap g = min g_slots (int_max len type).
     No assumption g_slots <= int_max: the capacity may be limited by the length type.
   - absd dec g bs: the decoded slots below the stored length — what len, indexing, iteration and
     equality observe.
   - dec / val / okm: any decoding of a slot, any value of an element image, any class of element
     images such that decoding a slot written with image e gives val e whatever the slot held before
     and whatever the padding policy wrote into the padding bytes (the premise of each theorem).
   - spec_step val cap xs op: the list operation with refusal at capacity cap (VecOpsFacts.v).
   - The capacity c_cap g is a function of the geometry alone, so it is the same before and after. *)
From Coq Require Import NArith List Bool.
From Flatty.Model Require Import Base Ty Layout Validate View Emplace Ops.
From Flatty.Proofs Require Import VecOpsFacts.
Open Scope N_scope.

(* one operation: the state stays well formed (in particular len <= capacity <= int_max, so len + 1
   never wraps the length type), the slice keeps its size, the new abstract list and the reported
   outcome are those of the list operation, and the stored length is the length of the list *)
Theorem c11_step : forall (X : Type) (dec : bytes -> X) (val : mbytes -> X) (g : geom) (okm : mbytes -> Prop),
  (forall pv e old, okm e -> mlen e = g_s g -> blen old = g_s g -> dec (overlay pv e old) = val e) ->
  forall pv op bs, cont_wf g bs -> op_wf g okm op ->
  let r := cont_op pv g op bs in
  cont_wf g (fst r) /\ blen (fst r) = blen bs /\
  (absd dec g (fst r), snd r) = spec_step val (c_cap g) (absd dec g bs) op /\
  N.of_nat (length (absd dec g (fst r))) = c_len g (fst r) /\
  c_len g (fst r) <= int_max (g_len g).
Proof. exact cont_op_refines. Qed.

(* the stored length is the length of the abstract list, in every state *)
Theorem c11_len : forall (X : Type) (dec : bytes -> X) g bs,
  N.of_nat (length (absd dec g bs)) = c_len g bs.
Proof. exact absd_length. Qed.

(* every finite history: same outcomes, related final states, well-formedness at every step *)
Theorem c11_history : forall (X : Type) (dec : bytes -> X) (val : mbytes -> X) (g : geom) (okm : mbytes -> Prop),
  (forall pv e old, okm e -> mlen e = g_s g -> blen old = g_s g -> dec (overlay pv e old) = val e) ->
  forall pv ops bs, cont_wf g bs -> Forall (op_wf g okm) ops ->
  let ri := run_impl pv g ops bs in
  let rs := run_spec val (c_cap g) ops (absd dec g bs) in
  absd dec g (fst ri) = fst rs /\ snd ri = snd rs /\
  cont_wf g (fst ri) /\ blen (fst ri) = blen bs /\
  Forall (cont_wf g) (trace_impl pv g ops bs).
Proof. exact cont_history_refines. Qed.

(* frame: the slice keeps its size; nothing behind the data region changes; the bytes between the
   length field and the data do not change; pop / truncate / clear change the length field only *)
Theorem c11_frame : forall pv g op bs, cont_wf g bs -> op_wf g (fun _ => True) op ->
  let r := fst (cont_op pv g op bs) in
  blen r = blen bs /\
  drop (g_d g + g_slots g * g_s g) r = drop (g_d g + g_slots g * g_s g) bs /\
  take (g_d g - isize (g_len g)) (drop (isize (g_len g)) r) =
  take (g_d g - isize (g_len g)) (drop (isize (g_len g)) bs) /\
  (only_len op = true -> drop (isize (g_len g)) r = drop (isize (g_len g)) bs).
Proof. exact cont_op_frame_plain. Qed.

(* clear (truncate(0)): the empty list, well formed, only the length field rewritten *)
Theorem c11_clear : forall (X : Type) (dec : bytes -> X) g bs, cont_wf g bs ->
  cont_wf g (cont_clear g bs) /\ absd dec g (cont_clear g bs) = [] /\
  blen (cont_clear g bs) = blen bs /\
  drop (isize (g_len g)) (cont_clear g bs) = drop (isize (g_len g)) bs.
Proof. exact cont_clear_refines. Qed.

(* cont_wf says nothing about byte values; with a byte padding policy and byte element images the
   bytes stay bytes *)
Theorem c11_bytes_ok : forall pv g op bs, pv_ok pv -> op_bytes_ok op -> bytes_ok bs = true ->
  bytes_ok (fst (cont_op pv g op bs)) = true.
Proof. exact cont_op_bytes_ok. Qed.

(* the premise on the decoding is satisfiable: element images without padding decoded as their
   bytes; c11_step then speaks about the raw slots themselves *)
Theorem c11_step_raw : forall g pv op bs, cont_wf g bs -> op_wf g no_pad op ->
  let r := cont_op pv g op bs in
  cont_wf g (fst r) /\ blen (fst r) = blen bs /\
  (absd (fun x => x) g (fst r), snd r) = spec_step val_bytes (c_cap g) (absd (fun x => x) g bs) op.
Proof.
  intros g pv op bs Hwf Hop.
  destruct (c11_step bytes (fun x => x) val_bytes g no_pad (dec_overlay_bytes g) pv op bs Hwf Hop) as (A & B & C & _).
  split; [exact A|split; [exact B|exact C]].
Qed.

(* non-vacuity: a one-byte length, three two-byte slots, two elements stored, one byte behind the
   data; and 300 one-byte slots under a one-byte length: the capacity is 255, not 300 *)
Definition ex_u8 := {| isize := 1; ialign := 1; ibe := false |}.
Definition ex_g := {| g_len := ex_u8; g_d := 1; g_s := 2; g_slots := 3 |}.
Definition ex_bs : bytes := [2; 1; 2; 3; 4; 9; 9; 7].
Definition ex_g300 := {| g_len := ex_u8; g_d := 1; g_s := 1; g_slots := 300 |}.

Example c11_example_wf : cont_wf ex_g ex_bs /\ cont_wf ex_g300 (255 :: repeat 1 300).
Proof. unfold cont_wf. vm_compute. repeat split; discriminate. Qed.

Example c11_example :
  let e := [Some 5; Some 6] in
  absd (fun x => x) ex_g ex_bs = [[1; 2]; [3; 4]] /\ c_cap ex_g = 3 /\
  cont_op None ex_g (CPush e) ex_bs = ([3; 1; 2; 3; 4; 5; 6; 7], ODone) /\
  spec_step val_bytes 3 [[1; 2]; [3; 4]] (CPush e) = ([[1; 2]; [3; 4]; [5; 6]], ODone) /\
  cont_op None ex_g (CPush e) [3; 1; 2; 3; 4; 5; 6; 7] = ([3; 1; 2; 3; 4; 5; 6; 7], ORefused) /\
  spec_step val_bytes 3 [[1; 2]; [3; 4]; [5; 6]] (CPush e) = ([[1; 2]; [3; 4]; [5; 6]], ORefused) /\
  cont_op None ex_g (CRemove 0) ex_bs = ([1; 3; 4; 3; 4; 9; 9; 7], ODone) /\
  spec_step val_bytes 3 [[1; 2]; [3; 4]] (CRemove 0) = ([[3; 4]], ODone) /\
  snd (cont_op None ex_g (CRemove 2) ex_bs) = OPanic /\
  snd (cont_op None ex_g (CPushSlice [e; e]) ex_bs) = ORefused /\
  absd (fun x => x) ex_g (fst (cont_op None ex_g (CExtend [e; e]) ex_bs)) = [[1; 2]; [3; 4]; [5; 6]] /\
  fst (run_spec val_bytes 3 [CPush e; CSwapRemove 0; CPop] [[1; 2]; [3; 4]]) = [[5; 6]] /\
  snd (run_impl None ex_g [CPush e; CSwapRemove 0; CPop; CPop; CPop] ex_bs) = [ODone; ODone; ODone; ODone; ORefused] /\
  c_cap ex_g300 = 255 /\
  snd (cont_op None ex_g300 (CPush [Some 5]) (255 :: repeat 1 300)) = ORefused /\
  snd (cont_op None ex_g300 (CResize 256 [Some 5]) (3 :: repeat 1 300)) = OPanic.
Proof. vm_compute. repeat split; reflexivity. Qed.

Print Assumptions c11_step.
Print Assumptions c11_len.
Print Assumptions c11_history.
Print Assumptions c11_frame.
Print Assumptions c11_clear.
Print Assumptions c11_bytes_ok.
Print Assumptions c11_step_raw.
