(* C16 — portable scalars: fixed byte order, alignment 1, lossless, operators as the native type.
   Pinned statements only; proofs in Proofs/PortableFacts.v. *)
From Coq Require Import NArith List Bool.
From Flatty.Model Require Import Base Ty Layout Validate Portable.
From Flatty.Proofs Require Import PortableFacts.
Open Scope N_scope.

(* native -> portable -> native is the identity for every value of the native width *)
Theorem c16_native_roundtrip : forall be n v, v < 256 ^ n -> p_dec be (p_enc be n v) = v.
Proof. exact dec_enc. Qed.

(* portable -> native -> portable keeps every byte pattern (NaN payloads, extremes) *)
Theorem c16_bytes_roundtrip : forall be bs, bytes_ok bs = true -> p_enc be (blen bs) (p_dec be bs) = bs.
Proof. exact enc_dec. Qed.

(* be:: is the byte-reversed le:: image; byte i of le:: is digit i base 256 *)
Theorem c16_le_be : forall n v, p_enc true n v = rev (p_enc false n v).
Proof. exact enc_le_be. Qed.
Theorem c16_digit : forall n v i, (i < N.to_nat n)%nat ->
  nth i (p_enc false n v) 0 = (v / 256 ^ N.of_nat i) mod 256.
Proof. exact enc_digit. Qed.

(* size of the native counterpart, alignment 1 *)
Theorem c16_size_align : forall be n v,
  blen (p_enc be n v) = n /\ ssize (TInt (p_intty be n)) = n /\ align (TInt (p_intty be n)) = 1.
Proof. intros be n v. split; [apply enc_length | apply portable_size_align]. Qed.

(* every unary / binary operator and every comparison gives the native result — for any native
   operation whatsoever (Section variable), whenever its result is a value of the type *)
Theorem c16_ops_native : forall be n (op2_n : N -> N -> N) v1 v2, v1 < 256 ^ n -> v2 < 256 ^ n ->
  p_op2 be n op2_n (p_enc be n v1) (p_enc be n v2) = p_enc be n (op2_n v1 v2).
Proof. exact op2_on_values. Qed.
Theorem c16_op1_native : forall be n (op1_n : N -> N) a, op1_n (p_dec be a) < 256 ^ n ->
  p_dec be (p_op1 be n op1_n a) = op1_n (p_dec be a).
Proof. exact op1_native. Qed.
Theorem c16_ord : forall be n (cmp_n : N -> N -> comparison) v1 v2, v1 < 256 ^ n -> v2 < 256 ^ n ->
  p_cmp be cmp_n (p_enc be n v1) (p_enc be n v2) = cmp_n v1 v2.
Proof. exact cmp_native. Qed.

(* equality of the stored bytes is equality of the values *)
Theorem c16_eq_bytes : forall be n v1 v2, v1 < 256 ^ n -> v2 < 256 ^ n ->
  p_enc be n v1 = p_enc be n v2 -> v1 = v2.
Proof. exact enc_inj. Qed.

(* Bool: validation accepts exactly 0 and 1 *)
Theorem c16_bool : forall a b, validate TBool a [b] = Ok tt <-> b <= 1.
Proof. exact bool_validate. Qed.

Example c16_example :
  p_enc true 4 305419896 = [18; 52; 86; 120] /\ p_enc false 4 305419896 = [120; 86; 52; 18]
  /\ p_dec true [127; 192; 0; 1] = 2143289345.
Proof. vm_compute. repeat split; reflexivity. Qed.

Print Assumptions c16_native_roundtrip.
Print Assumptions c16_bytes_roundtrip.
Print Assumptions c16_le_be.
Print Assumptions c16_digit.
Print Assumptions c16_size_align.
Print Assumptions c16_ops_native.
Print Assumptions c16_op1_native.
Print Assumptions c16_ord.
Print Assumptions c16_eq_bytes.
Print Assumptions c16_bool.
