(* C04 (kernel) — the layout arithmetic of the MODEL is the layout arithmetic of the SOURCE.
   Generated/Kernel.v is produced by tools/translate.py from /repo's current source on every run of
   ./check (rounding helpers, container constants, ptr_from_bytes / ptr_to_bytes formulas, the
   field-list walks of utils/iter.rs, the constants the #[flat] macro emits).  Each statement says
   that a definition of Model/ equals the translated source formula; together with c04_* (model =
   reference C layout) this ties the C04 theorems to the code by proof for these formulas, not by
   testing.  Pinned statements only; proofs in Proofs/KernelFacts.v. *)
From Coq Require Import NArith List Bool.
From Flatty.Model Require Import Base Ty Layout Validate View.
From Flatty.Generated Require Import Kernel.
From Flatty.Proofs Require Import KernelFacts.
Open Scope N_scope.

(* base/src/utils/mod.rs: max, min, ceil_mul, floor_mul *)
Theorem c04_kernel_rounding : forall a b,
  umax a b = g_max a b /\ umin a b = g_min a b /\ ceil_mul a b = g_ceil_mul a b /\ floor_mul a b = g_floor_mul a b.
Proof. intros a b. split; [exact (k_max a b)|]. split; [exact (k_min a b)|]. split; [exact (k_ceil_mul a b) | exact (k_floor_mul a b)]. Qed.

(* containers: DATA_OFFSET / OFFSET_SIZE, ALIGN, MIN_SIZE of FlatVec, FlatString, FlexVec *)
Theorem c04_kernel_container_constants : forall t l,
  vec_data_offset t l = g_vec_DATA_OFFSET (isize l) (ialign l) (ssize t) (align t) /\
  align (TVec t l) = g_vec_ALIGN (isize l) (ialign l) (ssize t) (align t) /\
  min_size (TVec t l) = g_vec_MIN_SIZE (isize l) (ialign l) (ssize t) (align t) /\
  align (TStr l) = g_str_ALIGN (isize l) (ialign l) /\
  min_size (TStr l) = g_str_MIN_SIZE (isize l) (ialign l) /\
  flex_offset_size t l = g_flex_OFFSET_SIZE (isize l) (ialign l) (ssize t) (align t) /\
  align (TFlex t l) = g_flex_ALIGN (isize l) (ialign l) (ssize t) (align t) /\
  min_size (TFlex t l) = g_flex_MIN_SIZE (isize l) (ialign l) (ssize t) (align t).
Proof.
  intros t l. split; [exact (k_vec_data_offset t l)|]. split; [exact (k_vec_align t l)|].
  split; [exact (k_vec_min_size t l)|]. split; [exact (k_str_align l)|]. split; [exact (k_str_min_size l)|].
  split; [exact (k_flex_offset_size t l)|]. split; [exact (k_flex_align t l) | exact (k_flex_min_size t l)].
Qed.

(* what a mapped reference covers (ptr_from_bytes) and the length of as_bytes() (ptr_to_bytes): the
   formulas behind "a mapped unsized value never claims more bytes than the slice it was mapped from" *)
Theorem c04_kernel_mapped_extent : forall t l n,
  vec_slots t l n = (if n <? g_vec_DATA_OFFSET (isize l) (ialign l) (ssize t) (align t) then Crash PanicArith
                     else Ok (g_vec_meta (isize l) (ialign l) (ssize t) (align t) n)) /\
  bytes_len (TVec t l) n = (do slots <- vec_slots t l n; Ok (g_vec_bytes_len (isize l) (ialign l) (ssize t) (align t) slots)) /\
  str_slots l n = (if n <? g_str_DATA_OFFSET (isize l) (ialign l) then Crash PanicArith else Ok (g_str_meta (isize l) (ialign l) n)) /\
  bytes_len (TStr l) n = (do slots <- str_slots l n; Ok (g_str_bytes_len (isize l) (ialign l) slots)) /\
  bytes_len (TFlex t l) n = Ok (g_flex_meta (isize l) (ialign l) (ssize t) (align t) n).
Proof.
  intros t l n. split; [exact (k_vec_slots t l n)|]. split; [exact (k_vec_bytes_len t l n)|].
  split; [exact (k_str_slots l n)|]. split; [exact (k_str_bytes_len l n) | exact (k_flex_bytes_len t l n)].
Qed.

(* base/src/utils/iter.rs: PosIter::next, fold_size!, fold_min_size!, TypeIter::min_size *)
Theorem c04_kernel_field_walks :
  (forall pos t next, pos_next pos t next = g_pos_next (ssize t) (align next) pos) /\
  (forall acc t r, fold_size acc (FCons t r) = fold_size (g_fold_size_macro_step (align t) (ssize t) acc) r) /\
  (forall acc t, fold_size acc (FCons t FNil) = g_fold_size_macro_last (align t) (ssize t) acc) /\
  (forall acc t, fold_min_size acc (FCons t FNil) = g_fold_min_size_macro_last (align t) (min_size t) acc) /\
  (forall acc t t' r, fold_min_size acc (FCons t (FCons t' r)) =
                      fold_min_size (g_fold_min_size_macro_step (align t) (ssize t) acc) (FCons t' r)) /\
  (forall acc t, fold_min_size acc (FCons t FNil) = g_single_min_size (align t) (min_size t) acc) /\
  (forall acc t t' r, fold_min_size acc (FCons t (FCons t' r)) =
                      fold_min_size (g_two_min_size_arg (align t) (ssize t) acc) (FCons t' r)).
Proof.
  split; [exact k_pos_next|]. split; [exact k_fold_size_cons|]. split; [exact k_fold_size_last|].
  split; [exact k_fold_min_size_last|]. split; [exact k_fold_min_size_cons|].
  split; [exact k_type_iter_min_size_last | exact k_type_iter_min_size_cons].
Qed.

(* macros/src/items/base.rs: MIN_SIZE of structs and enums, DATA_OFFSET of enums, LAST_FIELD_OFFSET *)
Theorem c04_kernel_macro_constants :
  (forall fs, min_size (TStruct false fs) = g_struct_MIN_SIZE (fold_min_size 0 fs) (align_fields fs)) /\
  (forall acc t, last_field_offset_from acc (FCons t FNil) = g_struct_LAST_FIELD_OFFSET acc (align t)) /\
  (forall acc t t' r, last_field_offset_from acc (FCons t (FCons t' r)) =
                      last_field_offset_from (g_fold_size_macro_step (align t) (ssize t) acc) (FCons t' r)) /\
  (forall tag vs, data_offset tag vs = g_enum_DATA_OFFSET (isize tag) (umax (ialign tag) (align_variants vs))) /\
  (forall tag d vs, min_size (TEnum false tag d vs) =
     let a := umax (ialign tag) (align_variants vs) in
     g_enum_MIN_SIZE (g_enum_DATA_OFFSET (isize tag) a) (min_data_min_size vs) a) /\
  (forall fs fs' r, min_data_min_size (VCons fs (VCons fs' r)) =
                    g_enum_min_fold (fold_min_size 0 fs) (min_data_min_size (VCons fs' r))).
Proof.
  split; [exact k_struct_min_size|]. split; [exact k_struct_last_field_offset|].
  split; [exact k_struct_last_field_offset_cons|]. split; [exact k_enum_data_offset|].
  split; [exact k_enum_min_size | exact k_enum_min_fold].
Qed.

(* non-vacuity: the translated formulas compute: FlatVec<u8, le::U16> has data offset 2 and alignment 1;
   struct { u8, u32, tail: align 1 } has LAST_FIELD_OFFSET 8 *)
Example c04_kernel_example :
  g_ceil_mul 5 4 = 8 /\ g_floor_mul 7 4 = 4 /\ g_max 2 1 = 2 /\
  g_vec_DATA_OFFSET 2 1 1 1 = 2 /\ g_vec_ALIGN 2 1 1 1 = 1 /\ g_vec_meta 2 2 3 1 11 = 2 /\
  g_struct_LAST_FIELD_OFFSET (g_fold_size_macro_step 4 4 (g_fold_size_macro_step 1 1 0)) 1 = 8.
Proof. vm_compute. repeat split; reflexivity. Qed.

Print Assumptions c04_kernel_rounding.
Print Assumptions c04_kernel_container_constants.
Print Assumptions c04_kernel_mapped_extent.
Print Assumptions c04_kernel_field_walks.
Print Assumptions c04_kernel_macro_constants.
