(* C08 (receive part) — Pending polls are transparent: the async receiver on a pipe that answers
   Pending any number of times, anywhere, yields what the blocking receiver yields on the same pipe
   without those answers.  Pinned statements only; proofs in Proofs/IoRecvFacts.v. *)
From Coq Require Import NArith List Bool.
From Flatty.Model Require Import Base Io.
From Flatty.Proofs Require Import IoRecvFacts.
Open Scope N_scope.

Definition total_v (v : N -> bytes -> res unit) : Prop := forall a bs, is_crash (v a bs) = false.
Definition sized_v (v : N -> bytes -> res unit) (sz : bytes -> res N) : Prop :=
  forall a bs, v a bs = Ok tt -> exists n, sz bs = Ok n /\ 0 < n /\ n <= blen bs.

Theorem c08_recv_defs : forall sc,
  nrp sc = filter (fun d => match d with RP => false | _ => true end) sc /\
  countRP sc = length (filter (fun d => match d with RP => true | _ => false end) sc).
Proof.
  intros sc. split; [|reflexivity]. unfold nrp. apply filter_ext. intros [k| |e|]; reflexivity.
Qed.

(* n recv() futures polled to completion on a script with RP entries (poll fuel above n + number
   of RP entries, watchdog limit above the calls and polls needed) yield the outcome list of n
   blocking recv() calls on the script with the RP entries removed — for every stream, every script,
   every well-formed buffer *)
Theorem c08_recv_pending_transparent : forall v sz, total_v v -> sized_v v sz ->
  forall n fuel limit limit' b s, wfb b ->
  (n + countRP (rscript s) < fuel)%nat ->
  N.of_nat (n + countRP (rscript s)) <= limit ->
  rcalls s + blen (stream s) + N.of_nat (n + countRP (rscript s)) <= limit ->
  rcalls s + blen (stream s) + N.of_nat n <= limit' ->
  fst (fst (arecv_many v sz n fuel limit 0 false b s))
  = fst (recv_many v sz n limit' b
           {| stream := stream s; rscript := nrp (rscript s); rcalls := rcalls s |}).
Proof. exact arecv_pending_transparent. Qed.

(* one poll: when it returns Pending the buffer is well formed, no byte was lost, and the buffer is
   already prepared for the read the resumed future starts with *)
Theorem c08_recv_pending_step : forall v sz, total_v v -> sized_v v sz ->
  forall fuel limit sv b s b' s', wfb b ->
  recv_loop v fuel limit sv b s = (b', s', RPending) ->
  wfb b' /\ occupied b' ++ stream s' = occupied b ++ stream s /\ read_prepare b' = Some b'.
Proof. exact recv_loop_pending_step. Qed.

(* non-vacuity: Pending before the first read, between chunks of one message (with a compaction
   pending) and twice in a row *)
Example c08_recv_example :
  fst (fst (arecv_many toy_validate toy_size 4 20 100 0 false (new_buffer 4 0)
              {| stream := [3; 1; 2; 2; 9; 4; 1; 1; 1]; rcalls := 0;
                 rscript := [RP; RD 1; RP; RD 2; RP; RP; RD 5] |}))
  = [RMsg [3; 1; 2]; RMsg [2; 9; 4; 1]; RMsg [4; 1; 1; 1]; RClosed]
  /\ fst (recv_many toy_validate toy_size 4 100 (new_buffer 4 0)
            {| stream := [3; 1; 2; 2; 9; 4; 1; 1; 1]; rcalls := 0; rscript := [RD 1; RD 2; RD 5] |})
  = [RMsg [3; 1; 2]; RMsg [2; 9; 4; 1]; RMsg [4; 1; 1; 1]; RClosed].
Proof. vm_compute. split; reflexivity. Qed.

Print Assumptions c08_recv_pending_transparent.
Print Assumptions c08_recv_pending_step.
Print Assumptions c08_recv_defs.
