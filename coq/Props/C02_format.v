(* C02 (first half) — from_bytes succeeds on a byte slice if and only if the slice is suitably
   aligned and holds a well-formed encoding of the type under the documented format, and when it
   succeeds the content read through the accessors is the reference decoding of the slice.
   The reference is Proofs/FormatSpec.v (ref_decode: the documented format laid out by the C rule of
   Model/RefLayout.v, sharing no function with the validation code except the UTF-8 table).
   Hypotheses of every statement: the definition is accepted by the library (wf), no length / offset
   / tag type is wider than usize (narrow_ty: the code converts stored lengths with
   to_usize().unwrap(), the known finding for 16-byte length types), and the slice is made of bytes
   (bytes_ok: every element < 256).
   Pinned statements only; proofs in Proofs/FormatFacts.v. *)
From Coq Require Import NArith List Bool.
From Flatty.Model Require Import Base Ty Layout Validate View RefLayout.
From Flatty.Proofs Require Import FormatSpec FormatFacts.
Open Scope N_scope.

(* validation of a slice at address a succeeds exactly when a is a multiple of the type's alignment
   and the reference decoder accepts the slice *)
Theorem c02_accept_iff : forall t, wf t = true -> narrow_ty t = true -> forall a bs, bytes_ok bs = true ->
  (validate t a bs = Ok tt <-> aligned a (align t) = true /\ ref_decode t bs <> None).
Proof. exact accept_iff. Qed.

(* an accepted slice is aligned, the deep read through the accessors returns, and what it returns
   is (capacities aside) the reference decoding of the slice *)
Theorem c02_content_is_reference_decoding : forall t, wf t = true -> narrow_ty t = true ->
  forall a bs, bytes_ok bs = true -> validate t a bs = Ok tt ->
  aligned a (align t) = true /\ exists v, view t bs = Ok v /\ ref_decode t bs = Some (strip v).
Proof. exact accept_sound. Qed.

(* every well-formed encoding at an aligned address is accepted *)
Theorem c02_well_formed_accepted : forall t, wf t = true -> narrow_ty t = true ->
  forall a bs, bytes_ok bs = true -> aligned a (align t) = true -> well_formed t bs ->
  validate t a bs = Ok tt.
Proof. exact accept_complete. Qed.

(* non-vacuity: FlexVec<S, u16> with S = struct { a: u32, b: FlatVec<u8, u16> } (unsized, align 4)
   holding two items: accepted at address 0 with the reference content; the same bytes at address 2
   are rejected (BadAlign) although well formed; cut after 20 bytes the second item has no room
   (not well formed, rejected); with a first offset of 10 (not a multiple of 4) not well formed,
   rejected.  And the struct alone: a stored length of 7 exceeds the 6 slots of the slice *)
Example c02_format_example :
  let u8 := TInt {| isize := 1; ialign := 1; ibe := false |} in
  let u32 := TInt {| isize := 4; ialign := 4; ibe := false |} in
  let l16 := {| isize := 2; ialign := 2; ibe := false |} in
  let ts := TStruct false (FCons u32 (FCons (TVec u8 l16) FNil)) in
  let tf := TFlex ts l16 in
  let mf := [12;0;0;0; 1;0;0;0; 1;0; 7;0;  255;255;0;0; 2;0;0;0; 2;0; 8;9; 0;0;0;0] in
  let mf' := [10;0;0;0; 1;0;0;0; 1;0; 7;0;  255;255;0;0; 2;0;0;0; 2;0; 8;9; 0;0;0;0] in
  let ms := [1;0;0;0; 2;0; 7;8; 9;9;9;9;9] in
  let ms' := [1;0;0;0; 7;0; 7;8; 9;9;9;9;9] in
  wf tf = true /\ narrow_ty tf = true /\ bytes_ok mf = true /\ align tf = 4 /\
  validate tf 0 mf = Ok tt /\
  view tf mf = Ok (VNode 0 [VNode 0 [VInt 1; VCont 2 [VInt 7]]; VNode 0 [VInt 2; VCont 6 [VInt 8; VInt 9]]]) /\
  ref_decode tf mf = Some (VNode 0 [VNode 0 [VInt 1; VCont 0 [VInt 7]]; VNode 0 [VInt 2; VCont 0 [VInt 8; VInt 9]]]) /\
  validate tf 2 mf = Err BadAlign 0 /\
  validate tf 0 (take 20 mf) = Err InsufficientSize 16 /\ ref_decode tf (take 20 mf) = None /\
  validate tf 0 mf' = Err BadAlign 0 /\ ref_decode tf mf' = None /\
  validate ts 0 ms = Ok tt /\ ref_decode ts ms = Some (VNode 0 [VInt 1; VCont 0 [VInt 7; VInt 8]]) /\
  validate ts 0 ms' = Err InsufficientSize 6 /\ ref_decode ts ms' = None.
Proof. vm_compute. repeat split; reflexivity. Qed.

Print Assumptions c02_accept_iff.
Print Assumptions c02_content_is_reference_decoding.
Print Assumptions c02_well_formed_accepted.
