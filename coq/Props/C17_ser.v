(* C17 (serialisation) — the emplaced image of a portable value is the reference serialisation
   (Proofs/SerSpec.v: plain concatenation of tag, fields, length, elements in their fixed byte
   order) of the specified content.
   Pinned statements only; proofs in Proofs/SerFacts.v. *)
From Coq Require Import NArith List Bool.
From Flatty.Model Require Import Base Ty Layout Validate Emplace.
From Flatty.Proofs Require Import EmplaceSpec PortableTyFacts EmplaceUnsizedFacts SerSpec SerFacts.
Open Scope N_scope.

(* the emplaced image of a portable value is the reference serialisation of the specified content,
   at every address, whatever the buffer held before (and whatever the padding policy), and it is
   exactly extent-many bytes long.  [tight]: every SIZED enum inside has variants of one payload
   size (known finding enum_slack); unsized enums are not constrained. *)
Theorem c17_image_is_reference_serialisation : forall t i, wf t = true -> narrow_ty t = true ->
  portable t = true -> tight t = true -> init_ok t i = true -> utf8_init i = true ->
  forall pv a buf buf', new_in_place pv t i a buf = (buf', Ok tt) ->
    exists s, ser t i = Some s /\ blen s = extent t i /\ take (extent t i) buf' = s.
Proof. exact image_is_reference_serialisation. Qed.

(* hence the image is a pure function of the content: two emplacements of the same content, at any
   two addresses into any two buffers, give the same first extent bytes *)
Theorem c17_image_function_of_content : forall t i, wf t = true -> narrow_ty t = true ->
  portable t = true -> tight t = true -> init_ok t i = true -> utf8_init i = true ->
  forall pv1 pv2 a1 a2 buf1 buf2 b1 b2,
    new_in_place pv1 t i a1 buf1 = (b1, Ok tt) -> new_in_place pv2 t i a2 buf2 = (b2, Ok tt) ->
    take (extent t i) b1 = take (extent t i) b2.
Proof. exact image_function_of_content. Qed.

(* the unchecked emplacer, with the frame: the serialisation is written over the head of the buffer,
   every byte behind it keeps its old content *)
Theorem c17_emplace_u_is_ser_and_frame : forall t, wf t = true -> narrow_ty t = true ->
  portable t = true -> tight t = true ->
  forall pv i a buf buf', init_ok t i = true -> utf8_init i = true ->
    emplace_u pv t i a buf = (buf', Ok tt) ->
    exists s, ser t i = Some s /\ blen s = extent t i /\ buf' = s ++ drop (blen s) buf.
Proof. exact emplace_u_is_ser. Qed.

(* sized case, directly on the masked image ptr.write stores: no padding byte, equal to ser *)
Theorem c17_sized_image_is_ser : forall t i m, wf t = true -> portable t = true -> tight t = true ->
  sized t = true -> enc_sized t i = Some m -> exists s, ser t i = Some s /\ m = map Some s.
Proof. exact sized_image_is_ser. Qed.

(* ser is defined exactly for the well-typed emplacer expressions *)
Theorem c17_ser_defined : forall t i, wf t = true -> (init_ok t i = true <-> exists s, ser t i = Some s).
Proof. exact ser_defined. Qed.

(* [tight] cannot be dropped (known finding enum_slack): a sized portable enum whose variants differ
   in payload size, emplaced with its short variant into two buffers, keeps the old bytes behind the
   tag, so the first extent bytes differ and are longer than the serialisation *)
Theorem c17_refuted_untight_image :
  let u8 := {| isize := 1; ialign := 1; ibe := false |} in
  let be32 := {| isize := 4; ialign := 1; ibe := true |} in
  let t := TEnum true u8 0 (VCons FNil (VCons (FCons (TInt be32) FNil) VNil)) in
  let i := IVar 0 [] in
  wf t = true /\ narrow_ty t = true /\ portable t = true /\ tight t = false /\
  init_ok t i = true /\ utf8_init i = true /\ extent t i = 5 /\ ser t i = Some [0] /\
  new_in_place None t i 0 [9;9;9;9;9] = ([0;9;9;9;9], Ok tt) /\
  new_in_place None t i 0 [7;7;7;7;7] = ([0;7;7;7;7], Ok tt).
Proof. vm_compute. repeat split; reflexivity. Qed.

(* non-vacuity: (1) the unsized portable struct { le::U32, FlatVec<{ be::U16, Bool }, be::U16> } of
   c17_example emplaced at the odd address 3 into a garbage buffer (padding policy: mark with 256):
   the first extent = 12 bytes are the serialisation, the rest of the buffer is untouched;
   (2) a FlexVec<E, be::U16> of an UNSIZED enum E { A, B(be::U16, FlatString<u8>) } whose variants
   have different sizes (so no_slack fails, tight holds), with a string item, a default item and an
   empty-string item, at address 5 *)
Example c17_ser_example :
  let le32 := {| isize := 4; ialign := 1; ibe := false |} in
  let be16 := {| isize := 2; ialign := 1; ibe := true |} in
  let u8 := {| isize := 1; ialign := 1; ibe := false |} in
  let p := TStruct true (FCons (TInt be16) (FCons TBool FNil)) in
  let t := TStruct false (FCons (TInt le32) (FCons (TVec p be16) FNil)) in
  let i := ISeq [IInt 67305985; IVecArr [ISeq [IInt 258; IInt 1]; ISeq [IInt 7; IInt 0]]] in
  let buf := [170;171;172;173;174;175;176;177;178;179;180;181;182;183;184] in
  let e := TEnum false u8 0 (VCons FNil (VCons (FCons (TInt be16) (FCons (TStr u8) FNil)) VNil)) in
  let tf := TFlex e be16 in
  let j := IFlex [IVar 1 [IInt 513; IStr [104;105]]; IDefault; IVar 1 [IInt 1; IEmpty]] in
  wf t = true /\ narrow_ty t = true /\ portable t = true /\ tight t = true /\
  init_ok t i = true /\ utf8_init i = true /\ extent t i = 12 /\
  ser t i = Some [1;2;3;4; 0;2; 1;2;1; 0;7;0] /\
  new_in_place (Some 256) t i 3 buf = ([1;2;3;4; 0;2; 1;2;1; 0;7;0; 182;183;184], Ok tt) /\
  wf tf = true /\ narrow_ty tf = true /\ portable tf = true /\ tight tf = true /\ no_slack tf = false /\
  init_ok tf j = true /\ utf8_init j = true /\ extent tf j = 17 /\
  ser tf j = Some [0;8; 1; 2;1; 2;104;105;  0;3; 0;  255;255; 1; 0;1; 0] /\
  take 17 (fst (new_in_place None tf j 5 (repeat 238 24)))
    = [0;8; 1; 2;1; 2;104;105;  0;3; 0;  255;255; 1; 0;1; 0] /\
  snd (new_in_place None tf j 5 (repeat 238 24)) = Ok tt.
Proof. vm_compute. repeat split; reflexivity. Qed.

Print Assumptions c17_image_is_reference_serialisation.
Print Assumptions c17_image_function_of_content.
Print Assumptions c17_emplace_u_is_ser_and_frame.
Print Assumptions c17_sized_image_is_ser.
Print Assumptions c17_ser_defined.
Print Assumptions c17_refuted_untight_image.
