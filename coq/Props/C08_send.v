(* C08 (async send) — Pending is transparent, flush comes last: across polls the sink always holds
   a prefix of the message; completion means the whole message was handed over, then flushed; a
   flush error leaves the whole message in the sink; removing the Pending directives changes
   neither outcome nor bytes.
   Pinned statements only; proofs in Proofs/IoSendFacts.v.  Events are accumulated newest first.
   is_wev = write events (EvW, EvWZ, EvWE, EvWP), is_fev = flush events, is_fp = EvFP,
   ev_bytes = sum of the EvW amounts; strip_pending k = k without WP / FP directives. *)
From Coq Require Import NArith List Bool Lia.
From Flatty.Model Require Import Base Io.
From Flatty.Proofs Require Import IoSendFacts.
Import ListNotations.
Open Scope N_scope.

(* 7 (a). Every run, every script, every outcome: the position only advances and the sink has
   gained exactly the consecutive bytes pos .. pos' of the message. *)
Theorem c08_asend_poll_prefix : forall fuel limit polls count sd pos k evs sd' k' polls' evs' o,
  asend_poll fuel limit polls pos count sd k evs = (sd', k', polls', evs', o) ->
  pos <= count ->
  exists pos', pos <= pos' /\ pos' <= count
    /\ sunk k' = sunk k ++ take (pos' - pos) (drop pos (occupied (sbuf sd)))
    /\ (o = SOk -> pos' = count) /\ polls <= polls'.
Proof. exact asend_poll_prefix. Qed.

(* the shape of every run: new events = flush events (newest) then write events; the sink gained
   exactly the bytes of the write events; a flush event exists only if every byte was handed
   over; SOk only with EvFO newest; EvFE newest only with outcome SIo e for an FE e of the script *)
Theorem c08_asend_poll_shape : forall fuel limit polls count sd pos k evs sd' k' polls' evs' o,
  asend_poll fuel limit polls pos count sd k evs = (sd', k', polls', evs', o) ->
  pos <= count ->
  exists fl wr,
    evs' = fl ++ wr ++ evs
    /\ forallb is_wev wr = true /\ forallb is_fev fl = true
    /\ pos + ev_bytes wr <= count
    /\ sunk k' = sunk k ++ take (ev_bytes wr) (drop pos (occupied (sbuf sd)))
    /\ (pos = count -> wr = [])
    /\ (fl <> [] -> pos + ev_bytes wr = count)
    /\ (o = SOk -> (exists fl', fl = EvFO :: fl' /\ forallb is_fp fl' = true)
                   /\ sbuf sd' = clear (sbuf sd) /\ poisoned sd' = poisoned sd)
    /\ (forall fl', fl = EvFE :: fl' -> exists e, o = SIo e /\ In (FE e) (fscript k))
    /\ polls <= polls'.
Proof. exact asend_poll_shape. Qed.

(* 7 (b). SOk: the sink gained the whole rest of the message; the newest event is EvFO, before it
   only EvFP, before those the write events, whose EvW amounts add up to the whole rest. *)
Theorem c08_asend_flush_last : forall fuel limit polls count sd pos k evs sd' k' polls' evs',
  asend_poll fuel limit polls pos count sd k evs = (sd', k', polls', evs', SOk) ->
  pos <= count ->
  sunk k' = sunk k ++ take (count - pos) (drop pos (occupied (sbuf sd)))
  /\ (exists fl wr, evs' = EvFO :: fl ++ wr ++ evs
        /\ forallb is_fp fl = true /\ forallb is_wev wr = true /\ ev_bytes wr = count - pos)
  /\ sbuf sd' = clear (sbuf sd) /\ poisoned sd' = poisoned sd.
Proof. exact asend_flush_last. Qed.

(* the same for a whole asend_one (alloc, emplacement, polls) *)
Theorem c08_asend_one_ok : forall size_f I emplace_f CAP fuel limit polls (i : I) sd k sd' k' polls' evs',
  sd_ready CAP sd -> emplace_good size_f I emplace_f CAP i ->
  asend_one size_f I emplace_f fuel limit polls i sd k = (sd', k', polls', evs', SOk) ->
  sunk k' = sunk k ++ msg_bytes size_f I emplace_f i (data (sbuf sd))
  /\ (exists fl wr, evs' = EvFO :: fl ++ wr
        /\ forallb is_fp fl = true /\ forallb is_wev wr = true
        /\ ev_bytes wr = blen (msg_bytes size_f I emplace_f i (data (sbuf sd))))
  /\ sd_ready CAP sd' /\ poisoned sd' = poisoned sd.
Proof. exact asend_one_ok. Qed.

(* 7 (c). Removing every WP and FP directive changes neither the outcome, nor the final sender, nor
   the bytes in the sink — only fewer polls and pipe calls (same fuel, same limit). *)
Theorem c08_asend_poll_pending_transparent : forall fuel limit polls count sd pos k evs sd' k' polls' evs' o,
  asend_poll fuel limit polls pos count sd k evs = (sd', k', polls', evs', o) ->
  o <> SHang -> pos <= count ->
  exists kc' pollsc' evsc',
    asend_poll fuel limit polls pos count sd (strip_pending k) evs = (sd', kc', pollsc', evsc', o)
    /\ sunk kc' = sunk k' /\ pollsc' <= polls' /\ wcalls kc' <= wcalls k'
    /\ wscript kc' = filter not_wp (wscript k') /\ fscript kc' = filter not_fp (fscript k').
Proof. exact asend_poll_pending_transparent. Qed.

(* "fuel and limit large enough": one poll per script entry, one call per byte and script entry *)
Theorem c08_asend_poll_no_hang : forall fuel limit polls count sd pos k evs sd' k' polls' evs' o,
  asend_poll fuel limit polls pos count sd k evs = (sd', k', polls', evs', o) ->
  pos <= count ->
  (length (wscript k) + length (fscript k) < fuel)%nat ->
  polls + N.of_nat (length (wscript k) + length (fscript k)) < limit ->
  wcalls k + (count - pos) + N.of_nat (length (wscript k)) <= limit ->
  o <> SHang.
Proof. exact asend_poll_no_hang. Qed.

(* the one-step forms: a Pending write / a Pending flush changes only script position, call and
   poll counters and the event list — not pos, sunk, sbuf, poisoned *)
Theorem c08_asend_poll_WP_step : forall fuel limit polls pos count sd k evs t,
  wscript k = WP :: t -> pos < count -> wcalls k + 1 <= limit -> polls < limit -> poisoned sd = false ->
  asend_poll (S fuel) limit polls pos count sd k evs =
  asend_poll fuel limit (polls + 1) pos count sd
    {| sunk := sunk k; wscript := tl (wscript k); fscript := fscript k; wcalls := wcalls k + 1 |}
    (EvWP :: evs).
Proof. exact asend_poll_WP_step. Qed.

Theorem c08_asend_poll_FP_step : forall fuel limit polls count sd k evs t,
  fscript k = FP :: t -> polls < limit -> poisoned sd = false ->
  asend_poll (S fuel) limit polls count count sd k evs =
  asend_poll fuel limit (polls + 1) count count sd
    {| sunk := sunk k; wscript := wscript k; fscript := tl (fscript k); wcalls := wcalls k |}
    (EvFP :: evs).
Proof. exact asend_poll_FP_step. Qed.

(* 8. No write fault (accept >= 1 or Pending), the flush answers Pending j times, then FE e: unless
   the watchdog fires the outcome is SIo e, the sink holds the whole message, the newest event is
   EvFE, the sender (buffer, poisoned flag) is unchanged. *)
Theorem c08_asend_flush_error : forall fuel j limit polls count sd pos k evs e rest sd' k' polls' evs' o,
  asend_poll fuel limit polls pos count sd k evs = (sd', k', polls', evs', o) ->
  poisoned sd = false -> pos <= count -> count <= blen (occupied (sbuf sd)) ->
  Forall accepts_or_pending (wscript k) ->
  fscript k = repeat FP j ++ FE e :: rest ->
  o <> SHang ->
  o = SIo e
  /\ sunk k' = sunk k ++ take (count - pos) (drop pos (occupied (sbuf sd)))
  /\ fscript k' = rest /\ sd' = sd
  /\ exists evs'', evs' = EvFE :: evs''.
Proof. exact asend_flush_error. Qed.

(* by the events alone, for every script: newest event EvFE => SIo e and the whole message *)
Theorem c08_asend_flush_error_events : forall fuel limit polls count sd pos k evs sd' k' polls' evs' o fl wr,
  asend_poll fuel limit polls pos count sd k evs = (sd', k', polls', evs', o) ->
  pos <= count ->
  evs' = EvFE :: fl ++ wr ++ evs -> forallb is_fev fl = true -> forallb is_wev wr = true ->
  (exists e, o = SIo e /\ In (FE e) (fscript k))
  /\ sunk k' = sunk k ++ take (count - pos) (drop pos (occupied (sbuf sd))).
Proof. exact asend_flush_error_events. Qed.

(* non-vacuity: a toy message [3;1;2;3] through Pending writes and flushes; with and without the
   Pending directives; with a flush error; two messages through asend_many *)
Definition ex_sd := {| sbuf := new_buffer 6 0; poisoned := false |}.
Definition ex_k ws fs := {| sunk := [77]; wscript := ws; fscript := fs; wcalls := 0 |}.
Example c08_example :
  asend_one toy_size bytes toy_emplace 20 50 0 [1;2;3] ex_sd (ex_k [WA 1; WP; WP; WA 2; WP] [FP; FP; FO])
  = ({| sbuf := {| data := [3;1;2;3;0;0]; st := 0; en := 0 |}; poisoned := false |},
     {| sunk := [77; 3;1;2;3]; wscript := []; fscript := []; wcalls := 6 |},
     7, [EvFO; EvFP; EvFP; EvW 1; EvWP; EvW 2; EvWP; EvWP; EvW 1], SOk)
  /\ asend_one toy_size bytes toy_emplace 20 50 0 [1;2;3] ex_sd
       (strip_pending (ex_k [WA 1; WP; WP; WA 2; WP] [FP; FP; FO]))
  = ({| sbuf := {| data := [3;1;2;3;0;0]; st := 0; en := 0 |}; poisoned := false |},
     {| sunk := [77; 3;1;2;3]; wscript := []; fscript := []; wcalls := 3 |},
     2, [EvFO; EvW 1; EvW 2; EvW 1], SOk)
  /\ asend_one toy_size bytes toy_emplace 20 50 0 [1;2;3] ex_sd (ex_k [WA 1; WP; WA 2; WP] [FP; FE TimedOut; FO])
  = ({| sbuf := {| data := [3;1;2;3;0;0]; st := 0; en := 6 |}; poisoned := false |},
     {| sunk := [77; 3;1;2;3]; wscript := []; fscript := [FO]; wcalls := 5 |},
     5, [EvFE; EvFP; EvW 1; EvWP; EvW 2; EvWP; EvW 1], SIo TimedOut)
  /\ fst (fst (asend_many toy_size bytes toy_emplace 20 50 0 [[1;2;3]; [4]] ex_sd
                 (ex_k [WA 1; WP; WP; WA 2; WP] [FP; FP; FO; FP])))
  = [(SOk, [EvW 1; EvWP; EvWP; EvW 2; EvWP; EvW 1; EvFP; EvFP; EvFO]); (SOk, [EvW 2; EvFP; EvFO])].
Proof. vm_compute. repeat split; reflexivity. Qed.

Print Assumptions c08_asend_poll_prefix.
Print Assumptions c08_asend_poll_shape.
Print Assumptions c08_asend_flush_last.
Print Assumptions c08_asend_one_ok.
Print Assumptions c08_asend_poll_pending_transparent.
Print Assumptions c08_asend_poll_no_hang.
Print Assumptions c08_asend_poll_WP_step.
Print Assumptions c08_asend_poll_FP_step.
Print Assumptions c08_asend_flush_error.
Print Assumptions c08_asend_flush_error_events.
