(* C05 — size(): for a slice that validates, size() is defined, lies within the slice, and the
   first size() bytes determine the value (validity, size and content).
   Pinned statements only; proofs in Proofs/ChainFacts.v, Proofs/ViewFacts.v. *)
From Coq Require Import NArith List Bool.
From Flatty.Model Require Import Base Ty Layout Validate View.
From Flatty.Proofs Require Import ValidateFacts FramingFacts ChainFacts ViewFacts.
Open Scope N_scope.

(* within: for every accepted definition, address and slice that validates, size() returns a
   number k that is at most the slice length, a multiple of ALIGN and at least MIN_SIZE; reading
   the value through the accessors stays inside the slice (view = Ok) *)
Theorem c05_size_within : forall t a bs, wf t = true -> validate t a bs = Ok tt ->
  exists k v, size_m t bs = Ok k /\ k <= blen bs /\ k mod align t = 0 /\ min_size t <= k /\
              view t bs = Ok v /\ caps_ok v = true.
Proof. exact valid_size_view. Qed.

(* sufficient: any prefix of a valid slice of at least size() bytes (in particular exactly size()
   bytes) validates, has the same size() and the same content (capacities aside) *)
Theorem c05_size_sufficient : forall t a bs k n, wf t = true ->
  validate t a bs = Ok tt -> size_m t bs = Ok k -> k <= n ->
  validate t a (take n bs) = Ok tt /\ size_m t (take n bs) = Ok k /\
  exists v v', view t bs = Ok v /\ view t (take n bs) = Ok v' /\ strip v' = strip v.
Proof. exact size_sufficient. Qed.

(* locality: any slice bs' (shorter or longer, with anything behind) that carries the same first
   size() bytes as a valid slice bs validates at the same address, has the same size() and the
   same content *)
Theorem c05_locality : forall t a bs bs' k, wf t = true ->
  validate t a bs = Ok tt -> size_m t bs = Ok k -> k <= blen bs' -> take k bs' = take k bs ->
  validate t a bs' = Ok tt /\ size_m t bs' = Ok k /\
  exists v v', view t bs = Ok v /\ view t bs' = Ok v' /\ strip v' = strip v.
Proof. exact valid_local. Qed.

(* non-vacuity: FlexVec<FlatVec<u8, u8>, u8> with two items (offset 3, then the L::MAX marker),
   and struct { a: u32, b: FlatVec<u8, u16> } *)
Example c05_example :
  let u8 := TInt {| isize := 1; ialign := 1; ibe := false |} in
  let u32 := TInt {| isize := 4; ialign := 4; ibe := false |} in
  let l8 := {| isize := 1; ialign := 1; ibe := false |} in
  let l16 := {| isize := 2; ialign := 2; ibe := false |} in
  let tf := TFlex (TVec u8 l8) l8 in
  let mf := [3;1;7; 255;2;8;9] in
  let ts := TStruct false (FCons u32 (FCons (TVec u8 l16) FNil)) in
  let ms := [1;0;0;0; 2;0; 7;8] in
  wf tf = true /\ validate tf 0 mf = Ok tt /\ size_m tf mf = Ok 7 /\
  view tf mf = Ok (VNode 0 [VCont 1 [VInt 7]; VCont 2 [VInt 8; VInt 9]]) /\
  validate tf 0 (mf ++ [5;5]) = Ok tt /\ size_m tf (mf ++ [5;5]) = Ok 7 /\
  view tf (mf ++ [5;5]) = Ok (VNode 0 [VCont 1 [VInt 7]; VCont 4 [VInt 8; VInt 9]]) /\
  size_m tf [3;1;7;0;9;9] = Ok 4 /\ validate tf 0 (take 4 [3;1;7;0;9;9]) = Ok tt /\
  wf ts = true /\ validate ts 0 ms = Ok tt /\ size_m ts ms = Ok 8 /\
  validate ts 0 (ms ++ [9;9;9;9;9]) = Ok tt /\ size_m ts (ms ++ [9;9;9;9;9]) = Ok 8 /\
  validate ts 0 (take 8 (ms ++ [9;9;9;9;9])) = Ok tt.
Proof. vm_compute. repeat split; reflexivity. Qed.

Print Assumptions c05_size_within.
Print Assumptions c05_size_sufficient.
Print Assumptions c05_locality.
