(* C15 — emplacement into any buffer either succeeds correctly or reports the right error.
   Pinned statements only; proofs in Proofs/EmplaceFacts.v and Proofs/EncFacts.v. *)
From Coq Require Import NArith List Bool.
From Flatty.Model Require Import Base Ty Layout Validate View Emplace.
From Flatty.Proofs Require Import EmplaceFacts EmplaceSpec EncFacts.
Open Scope N_scope.

(* a misaligned buffer is refused with BadAlign and left untouched — every type, every emplacer
   expression, every buffer length, before anything else is looked at *)
Theorem c15_badalign : forall pv t i a buf, aligned a (align t) = false ->
  emplace pv t i a buf = (buf, Err BadAlign 0).
Proof. exact emplace_badalign. Qed.

(* an aligned buffer shorter than the type's MIN_SIZE is refused with InsufficientSize, untouched *)
Theorem c15_too_small_for_type : forall pv t i a buf,
  aligned a (align t) = true -> blen buf < min_size t ->
  emplace pv t i a buf = (buf, Err InsufficientSize 0).
Proof. exact emplace_too_small. Qed.

(* sized types (scalars, arrays, sized structs and enums, nested): the three outcomes, for every
   well-typed emplacer expression, every address and EVERY buffer length: BadAlign, InsufficientSize
   (untouched), or Ok with a value that validates, reads back the specified content, and nothing
   behind the value written — never a crash *)
Theorem c15_sized : forall t i, wf t = true -> sized t = true -> init_ok t i = true ->
  forall pv a buf,
    let r := emplace pv t i a buf in
    (aligned a (align t) = false -> r = (buf, Err BadAlign 0)) /\
    (aligned a (align t) = true -> blen buf < ssize t -> r = (buf, Err InsufficientSize 0)) /\
    (aligned a (align t) = true -> ssize t <= blen buf ->
       snd r = Ok tt /\ validate t a (fst r) = Ok tt /\
       (exists v, view t (fst r) = Ok v /\ spec_value t i = Some (strip v)) /\
       blen (fst r) = blen buf /\ drop (ssize t) (fst r) = drop (ssize t) buf).
Proof. exact sized_emplace_ok. Qed.

(* the empty / default state of the three containers is accepted by every aligned buffer of at
   least MIN_SIZE bytes (and by c15_too_small_for_type refused by every shorter one) *)
Theorem c15_vec_default : forall pv t l a buf,
  wf (TVec t l) = true -> narrow l = true ->
  aligned a (align (TVec t l)) = true -> min_size (TVec t l) <= blen buf ->
  let r := default_in_place pv (TVec t l) a buf in
  snd r = Ok tt /\ blen (fst r) = blen buf /\ validate (TVec t l) a (fst r) = Ok tt.
Proof.
  intros pv t l a buf Hw Hn Ha Hm r.
  destruct (vec_default_ok pv t l a buf Hw Hn Ha Hm) as (H1 & _ & H3 & H4 & _). auto.
Qed.

Theorem c15_flex_default : forall pv t l a buf,
  wf (TFlex t l) = true -> narrow l = true ->
  aligned a (align (TFlex t l)) = true -> min_size (TFlex t l) <= blen buf ->
  let r := default_in_place pv (TFlex t l) a buf in
  snd r = Ok tt /\ validate (TFlex t l) a (fst r) = Ok tt.
Proof.
  intros pv t l a buf Hw Hn Ha Hm r.
  destruct (flex_default_ok pv t l a buf Hw Hn Ha Hm) as (H1 & _ & H3 & _). auto.
Qed.

(* non-vacuity: struct { u8, u32 } at an odd address, in 7 bytes, in 8 bytes *)
Example c15_example :
  let u8 := TInt {| isize := 1; ialign := 1; ibe := false |} in
  let u32 := TInt {| isize := 4; ialign := 4; ibe := false |} in
  let t := TStruct true (FCons u8 (FCons u32 FNil)) in
  let i := ISeq [IInt 7; IInt 1000] in
  snd (emplace None t i 2 (repeat 9 8)) = Err BadAlign 0 /\
  snd (emplace None t i 4 (repeat 9 7)) = Err InsufficientSize 0 /\
  emplace None t i 4 (repeat 9 8) = ([7; 9; 9; 9; 232; 3; 0; 0], Ok tt).
Proof. vm_compute. repeat split; reflexivity. Qed.

Print Assumptions c15_badalign.
Print Assumptions c15_too_small_for_type.
Print Assumptions c15_sized.
Print Assumptions c15_vec_default.
Print Assumptions c15_flex_default.
