(* C15 — emplacement into a buffer of any length at any address never panics: a misaligned buffer is
   refused with BadAlign, a buffer too small for the type or for the requested content with
   InsufficientSize, and an aligned buffer that can hold the content is accepted and then validates,
   reads back the specified content and measures the reference extent (C03).
   Pinned statements only; proofs in Proofs/EmplaceFacts.v and Proofs/EmplaceUnsizedFacts.v.
   [utf8_init i]: every string literal inside the emplacer expression is well-formed UTF-8 (a Rust
   &str always is; the model's byte list need not be, see c15_utf8_needed). *)
From Coq Require Import NArith List Bool.
From Flatty.Model Require Import Base Ty Layout Validate View Emplace.
From Flatty.Proofs Require Import EmplaceFacts EmplaceSpec EmplaceUnsizedFacts.
Open Scope N_scope.

(* for every accepted definition whose length / tag types fit usize, every well-typed emplacer
   expression, every padding policy, every address and every buffer of every length:
   new_in_place returns Ok or Err (Crash covers every panic and every out-of-bounds write) *)
Theorem c15_never_crashes : forall t i, wf t = true -> narrow_ty t = true ->
  init_ok t i = true -> utf8_init i = true ->
  forall pv a buf, is_crash (snd (new_in_place pv t i a buf)) = false.
Proof. exact emplace_never_crashes. Qed.

(* a misaligned buffer is refused with BadAlign and returned as it was *)
Theorem c15_badalign : forall pv t i a buf, aligned a (align t) = false ->
  new_in_place pv t i a buf = (buf, Err BadAlign 0).
Proof. exact emplace_badalign. Qed.

(* an aligned buffer shorter than MIN_SIZE is refused with InsufficientSize and returned as it was *)
Theorem c15_too_small : forall pv t i a buf, aligned a (align t) = true -> blen buf < min_size t ->
  new_in_place pv t i a buf = (buf, Err InsufficientSize 0).
Proof. exact emplace_too_small. Qed.

(* an aligned buffer is refused with InsufficientSize whenever the content is not representable
   (a length or offset does not fit its type, a vector of zero-sized items is not empty) or needs
   more bytes than the buffer has *)
Theorem c15_insufficient : forall t i, wf t = true -> narrow_ty t = true ->
  init_ok t i = true -> utf8_init i = true ->
  forall pv a buf, aligned a (align t) = true ->
    ~ (representable t i = true /\ extent t i <= blen buf) ->
    exists p, snd (new_in_place pv t i a buf) = Err InsufficientSize p.
Proof. exact emplace_insufficient. Qed.

(* exactly when it is accepted: the address is aligned, the content is representable and its
   reference extent is at most the buffer length (every single length, not only multiples of the
   alignment) *)
Theorem c15_ok_iff : forall t i, wf t = true -> narrow_ty t = true ->
  init_ok t i = true -> utf8_init i = true ->
  forall pv a buf,
    snd (new_in_place pv t i a buf) = Ok tt <->
    aligned a (align t) = true /\ representable t i = true /\ extent t i <= blen buf.
Proof. exact emplace_ok_iff. Qed.

(* the only errors: BadAlign exactly for a misaligned address, InsufficientSize otherwise *)
Theorem c15_errors : forall t i, wf t = true -> narrow_ty t = true ->
  init_ok t i = true -> utf8_init i = true ->
  forall pv a buf k p, snd (new_in_place pv t i a buf) = Err k p ->
    (k = BadAlign /\ aligned a (align t) = false) \/ (k = InsufficientSize /\ aligned a (align t) = true).
Proof. exact emplace_errors. Qed.

(* whatever the outcome the buffer keeps its length *)
Theorem c15_keeps_length : forall t i, wf t = true -> narrow_ty t = true ->
  init_ok t i = true -> utf8_init i = true ->
  forall pv a buf, blen (fst (new_in_place pv t i a buf)) = blen buf.
Proof. exact emplace_keeps_length. Qed.

(* an accepted buffer satisfies C03 *)
Theorem c15_accepted_reads_back : forall t i, wf t = true -> narrow_ty t = true ->
  init_ok t i = true -> utf8_init i = true ->
  forall pv a buf buf', new_in_place pv t i a buf = (buf', Ok tt) ->
    blen buf' = blen buf /\
    validate t a buf' = Ok tt /\
    (exists v, view t buf' = Ok v /\ spec_value t i = Some (strip v)) /\
    size_m t buf' = Ok (extent t i).
Proof. exact emplace_reads_back. Qed.

(* the unchecked emplacer behind the gate (what nested emplacers and the generated Init types call):
   no crash, the length is kept, the only error is InsufficientSize, success exactly when the
   content is representable and fits, and then the result is valid with the specified content *)
Theorem c15_unchecked : forall t, wf t = true -> narrow_ty t = true ->
  forall pv i a buf, init_ok t i = true -> utf8_init i = true ->
    aligned a (align t) = true -> min_size t <= blen buf ->
    let r := emplace_u pv t i a buf in
    is_crash (snd r) = false /\
    blen (fst r) = blen buf /\
    (snd r = Ok tt ->
       validate_u t a (fst r) = Ok tt /\
       (exists v, view t (fst r) = Ok v /\ spec_value t i = Some (strip v)) /\
       size_m t (fst r) = Ok (extent t i)) /\
    (snd r = Ok tt <-> representable t i = true /\ extent t i <= blen buf) /\
    (forall k p, snd r = Err k p -> k = InsufficientSize).
Proof. exact emplace_u_ok. Qed.

(* assign_in_place on a valid value: no crash, the length is kept, the only error is
   InsufficientSize, and on success the value is valid with the newly specified content *)
Theorem c15_assign_in_place : forall t i, wf t = true -> narrow_ty t = true ->
  init_ok t i = true -> utf8_init i = true ->
  forall pv a bs, validate t a bs = Ok tt ->
    let r := assign_in_place pv t i a bs in
    is_crash (snd r) = false /\
    blen (fst r) = blen bs /\
    (snd r = Ok tt ->
       validate t a (fst r) = Ok tt /\
       (exists v, view t (fst r) = Ok v /\ spec_value t i = Some (strip v)) /\
       size_m t (fst r) = Ok (extent t i)) /\
    (forall k p, snd r = Err k p -> k = InsufficientSize).
Proof. exact assign_in_place_ok. Qed.

(* the condition utf8_init cannot be dropped from the read-back statements: a string literal that
   is not UTF-8 (impossible for a Rust &str) is copied as it is and the result does not validate *)
Example c15_utf8_needed :
  let l8 := {| isize := 1; ialign := 1; ibe := false |} in
  let r := new_in_place None (TStr l8) (IStr [255]) 0 [0; 0; 0] in
  init_ok (TStr l8) (IStr [255]) = true /\ utf8_init (IStr [255]) = false /\
  r = ([1; 255; 0], Ok tt) /\ validate (TStr l8) 0 (fst r) = Err InvalidData 1.
Proof. vm_compute. repeat split; reflexivity. Qed.

(* non-vacuity: FlexVec<FlatVec<u32, u8>, u8> with three items (extent 44, alignment 4): accepted
   for every buffer length from 44 on and refused with InsufficientSize below, for every length
   0..60; BadAlign at a misaligned address; a vector literal that exceeds the capacity is refused *)
Example c15_example :
  let u8i := {| isize := 1; ialign := 1; ibe := false |} in
  let u32 := TInt {| isize := 4; ialign := 4; ibe := false |} in
  let t := TFlex (TVec u32 u8i) u8i in
  let i := IFlex [IVecArr [IInt 1; IInt 2]; IVecIter []; IVecArr [IInt 5; IInt 6; IInt 7]] in
  let buf n := repeat 170 n in
  wf t = true /\ narrow_ty t = true /\ init_ok t i = true /\ utf8_init i = true /\
  representable t i = true /\ extent t i = 44 /\ min_size t = 4 /\
  forallb (fun n => Bool.eqb (is_ok (snd (new_in_place None t i 8 (buf n)))) (44 <=? N.of_nat n))
          (seq 0 61) = true /\
  forallb (fun n => match snd (new_in_place None t i 8 (buf n)) with
                    | Ok _ => 44 <=? N.of_nat n
                    | Err InsufficientSize _ => N.of_nat n <? 44
                    | _ => false end) (seq 0 61) = true /\
  snd (new_in_place None t i 6 (buf 44%nat)) = Err BadAlign 0 /\
  view t (fst (new_in_place None t i 8 (buf 44%nat))) =
    Ok (VNode 0 [VCont 2 [VInt 1; VInt 2]; VCont 0 []; VCont 3 [VInt 5; VInt 6; VInt 7]]) /\
  size_m t (fst (new_in_place None t i 8 (buf 47%nat))) = Ok 44 /\
  snd (new_in_place None (TVec u32 u8i) (IVecArr [IInt 1; IInt 2; IInt 3]) 4 (buf 15%nat)) = Err InsufficientSize 0 /\
  snd (new_in_place None (TVec u32 u8i) (IVecArr [IInt 1; IInt 2; IInt 3]) 4 (buf 16%nat)) = Ok tt.
Proof. vm_compute. repeat split; reflexivity. Qed.

Print Assumptions c15_never_crashes.
Print Assumptions c15_badalign.
Print Assumptions c15_too_small.
Print Assumptions c15_insufficient.
Print Assumptions c15_ok_iff.
Print Assumptions c15_errors.
Print Assumptions c15_keeps_length.
Print Assumptions c15_accepted_reads_back.
Print Assumptions c15_unchecked.
Print Assumptions c15_assign_in_place.
