(* C03 — emplace then read back.  Sized types: the image ptr.write stores for a well-typed emplacer
   expression of a sized type, written over any previous buffer contents with any padding policy,
   validates, reads back exactly the specified content, and changes nothing behind the value.
   Every type (containers, unsized structs and enums, nested emplacers): an accepted new_in_place
   validates, reads back exactly the specified content and measures the reference extent.
   Pinned statements only; proofs in Proofs/EncFacts.v and Proofs/EmplaceUnsizedFacts.v. *)
From Coq Require Import NArith List Bool.
From Flatty.Model Require Import Base Ty Layout Validate View Emplace.
From Flatty.Proofs Require Import EmplaceSpec EncFacts EmplaceUnsizedFacts.
Open Scope N_scope.

(* for every accepted sized definition and every expression that has an image: the image has
   exactly SIZE bytes; laid over any buffer of at least SIZE bytes, with padding bytes keeping
   their old content (pv = None) or becoming any fixed value (pv = Some v), the result validates
   at every address, the accessors return exactly the content the expression specifies, the
   length of the buffer is kept and the bytes behind the value are untouched *)
Theorem c03_sized_image_valid : forall t i m, wf t = true -> sized t = true -> enc_sized t i = Some m ->
  mlen m = ssize t /\
  forall pv a buf, ssize t <= blen buf ->
    let buf' := overlay pv m buf in
    validate_u t a buf' = Ok tt /\
    (exists v, view t buf' = Ok v /\ spec_value t i = Some (strip v)) /\
    blen buf' = blen buf /\ drop (ssize t) buf' = drop (ssize t) buf.
Proof. exact enc_sized_valid. Qed.

(* the checked emplacer of a sized type: a misaligned address or a short buffer is refused with
   the buffer returned as it was; otherwise it succeeds, the result validates, reads back the
   specified content, keeps the length and leaves everything behind the value untouched *)
Theorem c03_sized_emplace : forall t i, wf t = true -> sized t = true -> init_ok t i = true ->
  forall pv a buf,
    let r := emplace pv t i a buf in
    (aligned a (align t) = false -> r = (buf, Err BadAlign 0)) /\
    (aligned a (align t) = true -> blen buf < ssize t -> r = (buf, Err InsufficientSize 0)) /\
    (aligned a (align t) = true -> ssize t <= blen buf ->
       snd r = Ok tt /\ validate t a (fst r) = Ok tt /\
       (exists v, view t (fst r) = Ok v /\ spec_value t i = Some (strip v)) /\
       blen (fst r) = blen buf /\ drop (ssize t) (fst r) = drop (ssize t) buf).
Proof. exact sized_emplace_ok. Qed.

(* on sized types an expression specifies a content exactly when it has an image: the reference
   notion of a well-typed expression and the one of the emplacer coincide *)
Theorem c03_init_ok_enc : forall t i, wf t = true -> sized t = true ->
  (init_ok t i = true <-> exists m, enc_sized t i = Some m).
Proof. exact init_ok_enc. Qed.

(* the specified (non-padding) bytes of an image land in the result whatever the buffer held
   before: two buffers of the same length agree afterwards at every non-padding position *)
Theorem c03_nonpad_independent : forall pv m buf1 buf2 j x,
  blen buf1 = blen buf2 -> mlen m <= blen buf1 -> nth_error m j = Some (Some x) ->
  nth_error (overlay pv m buf1) j = nth_error (overlay pv m buf2) j.
Proof. exact overlay_nonpad_independent. Qed.

(* non-vacuity: struct { a: u8, b: u32, c: enum { A, B(u16) } } (size 12, three padding bytes
   after a, one after the tag of c, two after a unit variant), emplaced over garbage with both
   padding policies; the same content is read back, the tail of the buffer is untouched *)
Example c03_example :
  let u8 := TInt {| isize := 1; ialign := 1; ibe := false |} in
  let u16 := TInt {| isize := 2; ialign := 2; ibe := false |} in
  let u32 := TInt {| isize := 4; ialign := 4; ibe := false |} in
  let tag8 := {| isize := 1; ialign := 1; ibe := false |} in
  let en := TEnum true tag8 0 (VCons FNil (VCons (FCons u16 FNil) VNil)) in
  let t := TStruct true (FCons u8 (FCons u32 (FCons en FNil))) in
  let i := ISeq [IInt 7; IInt 1000; IVar 1 [IInt 513]] in
  let garbage := [11;12;13;14;15;16;17;18;19;20;21;22;23;24;25] in
  let content := VNode 0 [VInt 7; VInt 1000; VNode 1 [VInt 513]] in
  wf t = true /\ sized t = true /\ init_ok t i = true /\ ssize t = 12 /\ align t = 4 /\
  spec_value t i = Some content /\
  emplace None t i 8 garbage = ([7;12;13;14; 232;3;0;0; 1;20;1;2; 23;24;25], Ok tt) /\
  emplace (Some 255) t i 8 garbage = ([7;255;255;255; 232;3;0;0; 1;255;1;2; 23;24;25], Ok tt) /\
  validate t 8 (fst (emplace None t i 8 garbage)) = Ok tt /\
  validate t 8 (fst (emplace (Some 255) t i 8 garbage)) = Ok tt /\
  view t (fst (emplace None t i 8 garbage)) = Ok content /\
  view t (fst (emplace (Some 255) t i 8 garbage)) = Ok content /\
  emplace None t i 2 garbage = (garbage, Err BadAlign 0) /\
  emplace None t i 8 (take 11 garbage) = (take 11 garbage, Err InsufficientSize 0) /\
  fst (emplace (Some 255) t IDefault 8 garbage) = [0;255;255;255; 0;0;0;0; 0;255;255;255; 23;24;25] /\
  view t (fst (emplace (Some 255) t IDefault 8 garbage)) = Ok (VNode 0 [VInt 0; VInt 0; VNode 0 []]).
Proof. vm_compute. repeat split; reflexivity. Qed.

(* every accepted definition (sized or not) whose length / tag types fit usize, every well-typed
   emplacer expression whose string literals are UTF-8 (vec::FromArray, vec::FromIterator,
   string::FromStr, flex::FromIterator, the generated Init types, Empty, the default emplacer,
   nested to any depth), every padding policy, every address, every buffer with arbitrary previous
   contents: when new_in_place accepts, the buffer keeps its length, the result passes validation,
   the accessors return exactly the specified content and size() is the reference extent *)
Theorem c03_emplace_reads_back : forall t i, wf t = true -> narrow_ty t = true ->
  init_ok t i = true -> utf8_init i = true ->
  forall pv a buf buf', new_in_place pv t i a buf = (buf', Ok tt) ->
    blen buf' = blen buf /\
    validate t a buf' = Ok tt /\
    (exists v, view t buf' = Ok v /\ spec_value t i = Some (strip v)) /\
    size_m t buf' = Ok (extent t i).
Proof. exact emplace_reads_back. Qed.

(* and it accepts every aligned buffer that can hold the content *)
Theorem c03_emplace_accepts : forall t i, wf t = true -> narrow_ty t = true ->
  init_ok t i = true -> utf8_init i = true ->
  forall pv a buf,
    snd (new_in_place pv t i a buf) = Ok tt <->
    aligned a (align t) = true /\ representable t i = true /\ extent t i <= blen buf.
Proof. exact emplace_ok_iff. Qed.

(* non-vacuity (unsized): #[flat(sized = false)] struct { a: u32, v: FlatVec<u8, u16> } from a
   literal, an unsized enum with a string payload, a FlexVec of unsized structs holding FlexVecs
   of strings; over garbage, with both padding policies *)
Example c03_example_unsized :
  let u8i := {| isize := 1; ialign := 1; ibe := false |} in
  let u16i := {| isize := 2; ialign := 2; ibe := false |} in
  let u32i := {| isize := 4; ialign := 4; ibe := false |} in
  let t1 := TStruct false (FCons (TInt u32i) (FCons (TVec (TInt u8i) u16i) FNil)) in
  let i1 := ISeq [IInt 77; IVecArr [IInt 1; IInt 2; IInt 3]] in
  let t2 := TEnum false u8i 0 (VCons FNil (VCons (FCons (TInt u16i) (FCons (TStr u8i) FNil)) VNil)) in
  let i2 := IVar 1 [IInt 513; IStr [104; 105; 33]] in
  let t3 := TFlex (TStruct false (FCons (TInt u16i) (FCons (TFlex (TStr u8i) u16i) FNil))) u16i in
  let i3 := IFlex [ISeq [IInt 1; IFlex [IStr [65]; IStr []]]; IDefault; ISeq [IInt 3; IEmpty]] in
  let g n := map (fun k => 100 + N.of_nat k) (seq 0 n) in
  wf t1 = true /\ narrow_ty t1 = true /\ init_ok t1 i1 = true /\ utf8_init i1 = true /\ extent t1 i1 = 12 /\
  new_in_place None t1 i1 4 (g 14%nat) = ([77;0;0;0; 3;0; 1;2;3; 109;110;111; 112;113], Ok tt) /\
  validate t1 4 (fst (new_in_place None t1 i1 4 (g 14%nat))) = Ok tt /\
  view t1 (fst (new_in_place None t1 i1 4 (g 14%nat))) = Ok (VNode 0 [VInt 77; VCont 6 [VInt 1; VInt 2; VInt 3]]) /\
  size_m t1 (fst (new_in_place None t1 i1 4 (g 14%nat))) = Ok 12 /\
  wf t2 = true /\ init_ok t2 i2 = true /\ utf8_init i2 = true /\ extent t2 i2 = 8 /\
  new_in_place (Some 255) t2 i2 2 (g 9%nat) = ([1;101; 1;2; 3;104;105;33; 108], Ok tt) /\
  validate t2 2 (fst (new_in_place (Some 255) t2 i2 2 (g 9%nat))) = Ok tt /\
  (exists cap, view t2 (fst (new_in_place (Some 255) t2 i2 2 (g 9%nat))) =
     Ok (VNode 1 [VInt 513; VCont cap [VInt 104; VInt 105; VInt 33]])) /\
  wf t3 = true /\ narrow_ty t3 = true /\ init_ok t3 i3 = true /\ utf8_init i3 = true /\ extent t3 i3 = 24 /\
  snd (new_in_place None t3 i3 2 (g 24%nat)) = Ok tt /\
  validate t3 2 (fst (new_in_place None t3 i3 2 (g 24%nat))) = Ok tt /\
  (exists v, view t3 (fst (new_in_place None t3 i3 2 (g 24%nat))) = Ok v /\ spec_value t3 i3 = Some (strip v)) /\
  size_m t3 (fst (new_in_place None t3 i3 2 (g 24%nat))) = Ok 24 /\
  (exists p, snd (new_in_place None t3 i3 2 (g 23%nat)) = Err InsufficientSize p).
Proof. vm_compute. repeat split; try reflexivity; eexists; try split; reflexivity. Qed.

Print Assumptions c03_sized_image_valid.
Print Assumptions c03_sized_emplace.
Print Assumptions c03_init_ok_enc.
Print Assumptions c03_nonpad_independent.
Print Assumptions c03_emplace_reads_back.
Print Assumptions c03_emplace_accepts.
