(* C03 (sized types) — the image ptr.write stores for a well-typed emplacer expression of a sized
   type, written over any previous buffer contents with any padding policy, validates, reads back
   exactly the specified content, and changes nothing behind the value.
   Pinned statements only; proofs in Proofs/EncFacts.v. *)
From Coq Require Import NArith List Bool.
From Flatty.Model Require Import Base Ty Layout Validate View Emplace.
From Flatty.Proofs Require Import EmplaceSpec EncFacts.
Open Scope N_scope.

(* for every accepted sized definition and every expression that has an image: the image has
   exactly SIZE bytes; laid over any buffer of at least SIZE bytes, with padding bytes keeping
   their old content (pv = None) or becoming any fixed value (pv = Some v), the result validates
   at every address, the accessors return exactly the content the expression specifies, the
   length of the buffer is kept and the bytes behind the value are untouched *)
Theorem c03_sized_image_valid : forall t i m, wf t = true -> sized t = true -> enc_sized t i = Some m ->
  mlen m = ssize t /\
  forall pv a buf, ssize t <= blen buf ->
    let buf' := overlay pv m buf in
    validate_u t a buf' = Ok tt /\
    (exists v, view t buf' = Ok v /\ spec_value t i = Some (strip v)) /\
    blen buf' = blen buf /\ drop (ssize t) buf' = drop (ssize t) buf.
Proof. exact enc_sized_valid. Qed.

(* the checked emplacer of a sized type: a misaligned address or a short buffer is refused with
   the buffer returned as it was; otherwise it succeeds, the result validates, reads back the
   specified content, keeps the length and leaves everything behind the value untouched *)
Theorem c03_sized_emplace : forall t i, wf t = true -> sized t = true -> init_ok t i = true ->
  forall pv a buf,
    let r := emplace pv t i a buf in
    (aligned a (align t) = false -> r = (buf, Err BadAlign 0)) /\
    (aligned a (align t) = true -> blen buf < ssize t -> r = (buf, Err InsufficientSize 0)) /\
    (aligned a (align t) = true -> ssize t <= blen buf ->
       snd r = Ok tt /\ validate t a (fst r) = Ok tt /\
       (exists v, view t (fst r) = Ok v /\ spec_value t i = Some (strip v)) /\
       blen (fst r) = blen buf /\ drop (ssize t) (fst r) = drop (ssize t) buf).
Proof. exact sized_emplace_ok. Qed.

(* on sized types an expression specifies a content exactly when it has an image: the reference
   notion of a well-typed expression and the one of the emplacer coincide *)
Theorem c03_init_ok_enc : forall t i, wf t = true -> sized t = true ->
  (init_ok t i = true <-> exists m, enc_sized t i = Some m).
Proof. exact init_ok_enc. Qed.

(* the specified (non-padding) bytes of an image land in the result whatever the buffer held
   before: two buffers of the same length agree afterwards at every non-padding position *)
Theorem c03_nonpad_independent : forall pv m buf1 buf2 j x,
  blen buf1 = blen buf2 -> mlen m <= blen buf1 -> nth_error m j = Some (Some x) ->
  nth_error (overlay pv m buf1) j = nth_error (overlay pv m buf2) j.
Proof. exact overlay_nonpad_independent. Qed.

(* non-vacuity: struct { a: u8, b: u32, c: enum { A, B(u16) } } (size 12, three padding bytes
   after a, one after the tag of c, two after a unit variant), emplaced over garbage with both
   padding policies; the same content is read back, the tail of the buffer is untouched *)
Example c03_example :
  let u8 := TInt {| isize := 1; ialign := 1; ibe := false |} in
  let u16 := TInt {| isize := 2; ialign := 2; ibe := false |} in
  let u32 := TInt {| isize := 4; ialign := 4; ibe := false |} in
  let tag8 := {| isize := 1; ialign := 1; ibe := false |} in
  let en := TEnum true tag8 0 (VCons FNil (VCons (FCons u16 FNil) VNil)) in
  let t := TStruct true (FCons u8 (FCons u32 (FCons en FNil))) in
  let i := ISeq [IInt 7; IInt 1000; IVar 1 [IInt 513]] in
  let garbage := [11;12;13;14;15;16;17;18;19;20;21;22;23;24;25] in
  let content := VNode 0 [VInt 7; VInt 1000; VNode 1 [VInt 513]] in
  wf t = true /\ sized t = true /\ init_ok t i = true /\ ssize t = 12 /\ align t = 4 /\
  spec_value t i = Some content /\
  emplace None t i 8 garbage = ([7;12;13;14; 232;3;0;0; 1;20;1;2; 23;24;25], Ok tt) /\
  emplace (Some 255) t i 8 garbage = ([7;255;255;255; 232;3;0;0; 1;255;1;2; 23;24;25], Ok tt) /\
  validate t 8 (fst (emplace None t i 8 garbage)) = Ok tt /\
  validate t 8 (fst (emplace (Some 255) t i 8 garbage)) = Ok tt /\
  view t (fst (emplace None t i 8 garbage)) = Ok content /\
  view t (fst (emplace (Some 255) t i 8 garbage)) = Ok content /\
  emplace None t i 2 garbage = (garbage, Err BadAlign 0) /\
  emplace None t i 8 (take 11 garbage) = (take 11 garbage, Err InsufficientSize 0) /\
  fst (emplace (Some 255) t IDefault 8 garbage) = [0;255;255;255; 0;0;0;0; 0;255;255;255; 23;24;25] /\
  view t (fst (emplace (Some 255) t IDefault 8 garbage)) = Ok (VNode 0 [VInt 0; VInt 0; VNode 0 []]).
Proof. vm_compute. repeat split; reflexivity. Qed.

Print Assumptions c03_sized_image_valid.
Print Assumptions c03_sized_emplace.
Print Assumptions c03_init_ok_enc.
Print Assumptions c03_nonpad_independent.
