(* C13 (FlexVec::push) — a push that is rejected leaves the vector as it was: the same validity,
   contents, len(), size() and slice length, and byte for byte the same first size() bytes (the
   only bytes that may differ lie behind size(), where a failing item emplacer may have written).
   Pinned statements only; proofs in Proofs/FlexOpsFacts.v.  The refused pop is c13_flex_pop_reject
   in Props/C13.v.  The premises on the item emplacer are those of c12_push (Props/C12.v), which
   c12_push_sized discharges for every sized item type. *)
From Coq Require Import NArith List Bool.
From Flatty.Model Require Import Base Ty Layout Validate View Emplace Ops.
From Flatty.Proofs Require Import EmplaceSpec FlexOpsFacts.
Open Scope N_scope.

(* a push on a valid image reports completion or a flatty error, never a panic *)
Theorem c13_flex_push_outcomes : forall pv et l a, wf (TFlex et l) = true -> narrow l = true ->
  (forall i pa payload payload', init_ok et i = true ->
     emplace pv et i pa payload = (payload', Ok tt) ->
     blen payload' = blen payload /\ validate et pa payload' = Ok tt /\
     (exists v, view et payload' = Ok v /\ spec_value et i = Some (strip v))) ->
  (forall i pa payload, init_ok et i = true ->
     is_crash (snd (emplace pv et i pa payload)) = false ->
     blen (fst (emplace pv et i pa payload)) = blen payload) ->
  (forall i pa payload, init_ok et i = true ->
     is_crash (snd (emplace pv et i pa payload)) = false) ->
  forall i bs, init_ok et i = true -> validate (TFlex et l) a bs = Ok tt ->
  snd (flex_op pv (TFlex et l) a (FPush i) bs) = ODone \/
  exists kd, snd (flex_op pv (TFlex et l) a (FPush i) bs) = OErr kd.
Proof. exact flex_push_outcomes. Qed.

(* the rejected push: slice length, validity, size(), the first size() bytes, the contents and
   len() are those of the state before the call *)
Theorem c13_flex_push_rejected : forall pv et l a, wf (TFlex et l) = true -> narrow l = true ->
  (forall i pa payload payload', init_ok et i = true ->
     emplace pv et i pa payload = (payload', Ok tt) ->
     blen payload' = blen payload /\ validate et pa payload' = Ok tt /\
     (exists v, view et payload' = Ok v /\ spec_value et i = Some (strip v))) ->
  (forall i pa payload, init_ok et i = true ->
     is_crash (snd (emplace pv et i pa payload)) = false ->
     blen (fst (emplace pv et i pa payload)) = blen payload) ->
  (forall i pa payload, init_ok et i = true ->
     is_crash (snd (emplace pv et i pa payload)) = false) ->
  forall i bs vs k kd, init_ok et i = true ->
  validate (TFlex et l) a bs = Ok tt -> view (TFlex et l) bs = Ok (VNode 0 vs) ->
  size_m (TFlex et l) bs = Ok k ->
  snd (flex_op pv (TFlex et l) a (FPush i) bs) = OErr kd ->
  let bs' := fst (flex_op pv (TFlex et l) a (FPush i) bs) in
  blen bs' = blen bs /\ validate (TFlex et l) a bs' = Ok tt /\ size_m (TFlex et l) bs' = Ok k /\
  take k bs' = take k bs /\
  exists vs', view (TFlex et l) bs' = Ok (VNode 0 vs') /\ map strip vs' = map strip vs /\
              length vs' = length vs.
Proof. exact flex_push_rejected. Qed.

(* the outcomes of pop / truncate / clear (shrink_op) are functions of the first size() bytes and of
   the slice length: from two images related by frel (the first valid with size() = k, the second
   of the same length and equal on the first k bytes, hence valid with the same size and contents)
   every history of these operations reports the same outcomes and ends in related images *)
Theorem c13_flex_shrink_local : forall pv et l a, wf (TFlex et l) = true -> narrow l = true ->
  forall ops k bs1 bs2, Forall shrink_op ops -> frel et l a k bs1 bs2 ->
  snd (flex_run pv et l a ops bs2) = snd (flex_run pv et l a ops bs1) /\
  exists k', frel et l a k' (fst (flex_run pv et l a ops bs1)) (fst (flex_run pv et l a ops bs2)).
Proof. exact flex_then_same. Qed.

(* after a rejected push every later history of pop / truncate / clear reports what it would have
   reported had the push not been attempted, and ends in a state of the same slice length,
   validity, size() and contents *)
Theorem c13_flex_then_same : forall pv et l a, wf (TFlex et l) = true -> narrow l = true ->
  (forall i pa payload payload', init_ok et i = true ->
     emplace pv et i pa payload = (payload', Ok tt) ->
     blen payload' = blen payload /\ validate et pa payload' = Ok tt /\
     (exists v, view et payload' = Ok v /\ spec_value et i = Some (strip v))) ->
  (forall i pa payload, init_ok et i = true ->
     is_crash (snd (emplace pv et i pa payload)) = false ->
     blen (fst (emplace pv et i pa payload)) = blen payload) ->
  (forall i pa payload, init_ok et i = true ->
     is_crash (snd (emplace pv et i pa payload)) = false) ->
  forall i bs kd ops, init_ok et i = true ->
  validate (TFlex et l) a bs = Ok tt -> snd (flex_op pv (TFlex et l) a (FPush i) bs) = OErr kd ->
  Forall shrink_op ops ->
  let bs' := fst (flex_op pv (TFlex et l) a (FPush i) bs) in
  let r := flex_run pv et l a ops bs in
  let r' := flex_run pv et l a ops bs' in
  snd r' = snd r /\ blen (fst r') = blen (fst r) /\
  validate (TFlex et l) a (fst r) = Ok tt /\ validate (TFlex et l) a (fst r') = Ok tt /\
  size_m (TFlex et l) (fst r') = size_m (TFlex et l) (fst r) /\
  exists vs1 vs2, view (TFlex et l) (fst r) = Ok (VNode 0 vs1) /\
    view (TFlex et l) (fst r') = Ok (VNode 0 vs2) /\ map strip vs2 = map strip vs1.
Proof. exact flex_push_rejected_then_same. Qed.

(* non-vacuity: FlexVec<FlatVec<u8, u8>, u8> with the items [7], [8, 9] and three spare bytes.
   flex::push(vec::FromIterator([4, 5, 6, 4])): the slot fits, the item emplacer stores one element
   and then fails; two bytes behind size() = 7 have changed, everything observable is as before,
   and a later history of pop / truncate / clear reports the same from both states *)
Example c13_flex_example :
  let l8 := {| isize := 1; ialign := 1; ibe := false |} in
  let tv := TVec (TInt l8) l8 in
  let t1 := TFlex tv l8 in
  let im1 := [3;1;7; 255;2;8;9; 0;0;0] in
  let i := IVecIter [IInt 4; IInt 5; IInt 6; IInt 4] in
  let bs' := [3;1;7; 255;2;8;9; 0;1;4] in
  let ops := [FPop; FTruncate 3; FPop; FPop; FClear] in
  init_ok tv i = true /\ validate t1 0 im1 = Ok tt /\ size_m t1 im1 = Ok 7 /\
  flex_op None t1 0 (FPush i) im1 = (bs', OErr InsufficientSize) /\
  validate t1 0 bs' = Ok tt /\ size_m t1 bs' = Ok 7 /\ view t1 bs' = view t1 im1 /\
  view t1 im1 = Ok (VNode 0 [VCont 1 [VInt 7]; VCont 5 [VInt 8; VInt 9]]) /\
  take 7 bs' = take 7 im1 /\
  flex_run None tv l8 0 ops im1 = ([0;1;7; 0;2;8;9; 0;0;0], [ODone; ODone; ODone; ORefused; ODone]) /\
  flex_run None tv l8 0 ops bs' = ([0;1;7; 0;2;8;9; 0;1;4], [ODone; ODone; ODone; ORefused; ODone]) /\
  (* rejected without a write: no room for a slot *)
  flex_op None t1 0 (FPush i) [255;2;8;9] = ([255;2;8;9], OErr InsufficientSize).
Proof. vm_compute. repeat split; reflexivity. Qed.

Print Assumptions c13_flex_push_outcomes.
Print Assumptions c13_flex_push_rejected.
Print Assumptions c13_flex_shrink_local.
Print Assumptions c13_flex_then_same.
