(* C02 (text) — the str validation inside FlatString accepts EXACTLY the encodings of sequences of
   Unicode scalar values.  Pinned statements only; proofs in Proofs/Utf8AcceptFacts.v, Utf8DecFacts.v.

   Reading guide.
   - utf8_err bs = None: core::str::from_utf8 as modelled in Model/Utf8.v (compared with the library on
     every check by the types suite: every FlatString image, valid and mutated, with the error position).
   - scalar c: c < 0xD800 or 0xE000 <= c < 0x110000.  text_of cs: the concatenation of the RFC 3629
     encodings of cs (utf8_encode, Model/Ops.v).  utf8_dec: the reference decoder (Utf8DecFacts.v).
   - so: no overlong form, no surrogate, nothing above 0x10FFFF, no truncated sequence is accepted,
     and every text of scalar values is. *)
From Coq Require Import NArith List Bool.
From Flatty.Model Require Import Base Ty Layout Utf8 Validate View Emplace Ops.
From Flatty.Proofs Require Import EmplaceSpec VecOpsFacts VecTypedFacts Utf8DecFacts Utf8AcceptFacts.
Import ListNotations.
Open Scope N_scope.

(* accepted <-> the text of some sequence of scalar values *)
Theorem c02_utf8_accept_iff : forall bs,
  utf8_err bs = None <-> exists cs, Forall scalar cs /\ text_of cs = bs.
Proof. exact utf8_accept_iff. Qed.

(* and the reference decoder reads that sequence *)
Theorem c02_utf8_accepted_decodes : forall bs, utf8_err bs = None ->
  exists cs, utf8_dec bs = Some cs /\ Forall scalar cs /\ text_of cs = bs.
Proof. exact utf8_accepted_is_text. Qed.

(* FlatString<l>: validate_unchecked accepts exactly a well-formed container state whose stored text
   is the encoding of a sequence of scalar values *)
Theorem c02_str_accept_chars_iff : forall l a bs, wf (TStr l) = true -> narrow l = true ->
  min_size (TStr l) <= blen bs ->
  let g := geom_str l (blen bs) in
  validate_u (TStr l) a bs = Ok tt <->
  cont_wf g bs /\ exists cs, Forall scalar cs /\ text_of cs = take (c_len g bs) (drop (isize l) bs).
Proof. exact str_valid_chars_iff. Qed.

(* non-vacuity and the classic ill-formed inputs: overlong "/" (C0 AF), overlong 3-byte (E0 80 80),
   a surrogate (ED A0 80), above 0x10FFFF (F4 90 80 80), F5, a lone continuation, a truncated sequence *)
Example c02_utf8_examples :
  utf8_err [104; 195;169; 226;130;172; 240;159;152;128] = None /\
  utf8_dec [104; 195;169; 226;130;172; 240;159;152;128] = Some [104; 233; 8364; 128512] /\
  utf8_err [192; 175] = Some 0 /\ utf8_err [65; 224; 128; 128] = Some 1 /\
  utf8_err [237; 160; 128] = Some 0 /\ utf8_err [244; 144; 128; 128] = Some 0 /\
  utf8_err [245; 128; 128; 128] = Some 0 /\ utf8_err [128] = Some 0 /\ utf8_err [65; 66; 226; 130] = Some 2 /\
  utf8_err [237; 159; 191; 238; 128; 128; 244; 143; 191; 191] = None /\
  utf8_dec [237; 159; 191; 238; 128; 128; 244; 143; 191; 191] = Some [55295; 57344; 1114111].
Proof. vm_compute. repeat split; reflexivity. Qed.

Print Assumptions c02_utf8_accept_iff.
Print Assumptions c02_utf8_accepted_decodes.
Print Assumptions c02_str_accept_chars_iff.
