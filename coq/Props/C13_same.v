(* C13 (FlexVec, every later operation) — after a push that is refused, EVERY later operation behaves
   as if the refused call had never happened.  Props/C13_flex.v / C13_flex_all.v show that the state
   after a refused push has the same slice length, validity, size(), contents and first size() bytes
   as the state before, and compare later histories of pop / truncate / clear only (relation frel:
   equal first size() bytes).  A failed item emplacer may have written behind size(); a later push
   emplaces a new item over those bytes and the new item's padding / spare bytes keep them, so the
   two runs stop being byte-equal.  What stays the same is everything observable.  This file states
   that with the relation srel (same skeleton, equivalent items), for push, pop, truncate, clear,
   in-place FlatVec / FlatString operations on an item and in-place assignment to an item.
   Pinned statements only; proofs in Proofs/FlexSameFacts.v.

   Hypotheses: the definition is accepted (wf), no length / offset / tag type wider than 8 bytes
   (narrow_ty), pushed / assigned emplacer expressions well typed (init_ok) with UTF-8 string
   literals (utf8_init), what is pushed into a FlatString item is UTF-8 / a scalar value
   (item_vop_ok), and for in-place assignment: the assignment is not refused by the item's emplacer
   in the reference run (assign_done / assigns_done).  The last restriction is necessary for the
   method, not an omission: a refused assignment may leave stale bytes that differ between the two
   runs and can even leave an invalid item (known finding late_field_refusal, Props/C18.v
   c18_refuted_late_refusal). *)
From Coq Require Import NArith List Bool.
From Flatty.Model Require Import Base Ty Layout Validate View Emplace Ops.
From Flatty.Proofs Require Import EmplaceSpec EmplaceUnsizedFacts VecTypedFacts FlexOpsFacts FlexSameFacts.
Import ListNotations.
Open Scope N_scope.

(* srel et l a bs1 bs2, spelled out: the two slices have the same length; both validate as
   FlexVec<et, l> at address a and report the same size(); the iterator of the operations
   (Model/Ops.v flex_chain, over the floored data) sees the same list of (slot position, payload
   length) and the same termination (a zero slot or an L::MAX-marked last item, and where) in both
   — hence the same stored offsets; and the payloads of corresponding items are equivalent: both
   validate as et at the payload address, report the same size() and read the same content up to the
   capacities nested containers report (strip).  For a FlatVec / FlatString item the stored length
   is part of the content. *)
Theorem c13_srel_def : forall et l a bs1 bs2,
  srel et l a bs1 bs2 <->
  (let t := TFlex et l in
   let os := flex_offset_size et l in
   let al := align (TFlex et l) in
   let d1 := take (floor_mul (blen bs1) al) bs1 in
   let d2 := take (floor_mul (blen bs2) al) bs2 in
   blen bs2 = blen bs1 /\
   validate t a bs1 = Ok tt /\ validate t a bs2 = Ok tt /\
   size_m t bs2 = size_m t bs1 /\
   exists its e,
     flex_chain l os al d1 = Ok (its, e) /\ flex_chain l os al d2 = Ok (its, e) /\
     Forall (fun pl : N * N =>
               let pa := a + fst pl + os in
               let p1 := take (snd pl) (drop (fst pl + os) d1) in
               let p2 := take (snd pl) (drop (fst pl + os) d2) in
               validate et pa p1 = Ok tt /\ validate et pa p2 = Ok tt /\
               size_m et p2 = size_m et p1 /\
               exists v1 v2, view et p1 = Ok v1 /\ view et p2 = Ok v2 /\ strip v2 = strip v1) its).
Proof. intros et l a bs1 bs2. split; intros H; exact H. Qed.

(* it is symmetric and transitive *)
Theorem c13_srel_sym : forall et l a bs1 bs2, srel et l a bs1 bs2 -> srel et l a bs2 bs1.
Proof. exact srel_sym. Qed.

Theorem c13_srel_trans : forall et l a bs1 bs2 bs3,
  srel et l a bs1 bs2 -> srel et l a bs2 bs3 -> srel et l a bs1 bs3.
Proof. exact srel_trans. Qed.

(* related states cannot be told apart: the same slice length, validity, size(), len() and contents *)
Theorem c13_srel_observables : forall et l a,
  wf (TFlex et l) = true -> narrow_ty (TFlex et l) = true ->
  forall bs1 bs2, srel et l a bs1 bs2 ->
  blen bs2 = blen bs1 /\ validate (TFlex et l) a bs1 = Ok tt /\ validate (TFlex et l) a bs2 = Ok tt /\
  size_m (TFlex et l) bs2 = size_m (TFlex et l) bs1 /\
  exists vs1 vs2, view (TFlex et l) bs1 = Ok (VNode 0 vs1) /\ view (TFlex et l) bs2 = Ok (VNode 0 vs2) /\
    map strip vs2 = map strip vs1 /\ length vs2 = length vs1.
Proof. exact srel_observe. Qed.

(* two slices related by frel (Props/C13_flex.v: the first valid with size() = k, the second of the
   same length and equal on the first k bytes) are related by srel *)
Theorem c13_srel_of_frel : forall et l a,
  wf (TFlex et l) = true -> narrow_ty (TFlex et l) = true ->
  forall k bs1 bs2, frel et l a k bs1 bs2 -> srel et l a bs1 bs2.
Proof. exact srel_of_frel. Qed.

(* hence the state after a refused push is related to the state before it *)
Theorem c13_refused_push_srel : forall pv et l a,
  wf (TFlex et l) = true -> narrow_ty (TFlex et l) = true ->
  forall i bs kd, init_ok et i = true -> utf8_init i = true ->
  validate (TFlex et l) a bs = Ok tt -> snd (flex_op pv (TFlex et l) a (FPush i) bs) = OErr kd ->
  srel et l a bs (fst (flex_op pv (TFlex et l) a (FPush i) bs)).
Proof. exact push_err_srel. Qed.

(* the operations covered (same_op), the condition on assignments (assign_done, assigns_done) and
   the list of states a history passes through (flex_trace) *)
Theorem c13_same_op_def : forall et op,
  same_op et op <->
  match op with
  | FPush i => init_ok et i = true /\ utf8_init i = true
  | FPop | FTruncate _ | FClear => True
  | FEditVec _ vo => match et with TStr _ => str_vop_ok vo | _ => True end
  | FEditAssign _ x => init_ok et x = true /\ utf8_init x = true
  end.
Proof. intros et op. destruct op; split; intros H; exact H. Qed.

Theorem c13_assigns_done_def :
  (forall op o, assign_done op o <-> match op with FEditAssign _ _ => forall k, o <> OErr k | _ => True end) /\
  (forall outs, assigns_done [] outs <-> True) /\ (forall ops, assigns_done ops [] <-> True) /\
  (forall op ops o outs, assigns_done (op :: ops) (o :: outs) <-> assign_done op o /\ assigns_done ops outs).
Proof.
  split; [intros op o; destruct op; split; intros H; exact H|].
  split; [intros outs; split; intros H; exact I|].
  split; [intros [|op ops]; split; intros H; exact I|].
  intros op ops o outs. split; intros H; exact H.
Qed.

Theorem c13_flex_trace_def : forall pv et l a,
  (forall bs, flex_trace pv et l a [] bs = [bs]) /\
  (forall op ops bs, flex_trace pv et l a (op :: ops) bs =
                     bs :: flex_trace pv et l a ops (fst (flex_op pv (TFlex et l) a op bs))).
Proof. intros pv et l a. split; intros; reflexivity. Qed.

(* outcome determinism and preservation: one operation from two related states reports the same
   outcome and leaves related states.  For a push: whether the item emplacer succeeds, and with
   which error it fails, depends on the address and the room only; after success the new item reads
   the specified content with the reference extent in both runs.  Pop / truncate / clear depend on
   the skeleton only.  A FlatVec / FlatString operation's outcome and resulting content are
   functions of the old content and the capacity, which is a function of the payload length. *)
Theorem c13_same_step : forall pv et l a,
  wf (TFlex et l) = true -> narrow_ty (TFlex et l) = true ->
  forall op bs1 bs2, same_op et op -> srel et l a bs1 bs2 ->
  assign_done op (snd (flex_op pv (TFlex et l) a op bs1)) ->
  snd (flex_op pv (TFlex et l) a op bs2) = snd (flex_op pv (TFlex et l) a op bs1) /\
  srel et l a (fst (flex_op pv (TFlex et l) a op bs1)) (fst (flex_op pv (TFlex et l) a op bs2)).
Proof. exact same_step. Qed.

(* the outcome alone needs no condition on assignments: what ANY covered operation reports from two
   related states is the same; an in-place assignment is refused in one run iff it is refused in
   the other (its success depends on the length of the item's payload only) *)
Theorem c13_same_outcome : forall pv et l a,
  wf (TFlex et l) = true -> narrow_ty (TFlex et l) = true ->
  forall op bs1 bs2, same_op et op -> srel et l a bs1 bs2 ->
  snd (flex_op pv (TFlex et l) a op bs2) = snd (flex_op pv (TFlex et l) a op bs1).
Proof. exact same_outcome. Qed.

(* every history of these operations from two related states: the same outcome list, related final
   states, related states at every step (hence, by c13_srel_observables, at every step the same
   slice length, validity, size(), len() and contents) *)
Theorem c13_same_history : forall pv et l a,
  wf (TFlex et l) = true -> narrow_ty (TFlex et l) = true ->
  forall ops bs1 bs2, Forall (same_op et) ops -> srel et l a bs1 bs2 ->
  assigns_done ops (snd (flex_run pv et l a ops bs1)) ->
  snd (flex_run pv et l a ops bs2) = snd (flex_run pv et l a ops bs1) /\
  srel et l a (fst (flex_run pv et l a ops bs1)) (fst (flex_run pv et l a ops bs2)) /\
  Forall2 (srel et l a) (flex_trace pv et l a ops bs1) (flex_trace pv et l a ops bs2).
Proof. exact same_history. Qed.

(* the property: for every valid FlexVec image, every push that is refused (no room for the slot,
   offset not representable, or the item's emplacer fails) and every later history of the
   operations above: the history run after the refused push reports what it reports when the push
   is never attempted, passes through related states, and ends in a state of the same slice length,
   validity, size(), len() and contents *)
Theorem c13_refused_push_then_same_all : forall pv et l a,
  wf (TFlex et l) = true -> narrow_ty (TFlex et l) = true ->
  forall i bs kd ops, init_ok et i = true -> utf8_init i = true ->
  validate (TFlex et l) a bs = Ok tt -> snd (flex_op pv (TFlex et l) a (FPush i) bs) = OErr kd ->
  Forall (same_op et) ops -> assigns_done ops (snd (flex_run pv et l a ops bs)) ->
  let bs' := fst (flex_op pv (TFlex et l) a (FPush i) bs) in
  let r := flex_run pv et l a ops bs in
  let r' := flex_run pv et l a ops bs' in
  snd r' = snd r /\ blen (fst r') = blen (fst r) /\
  validate (TFlex et l) a (fst r) = Ok tt /\ validate (TFlex et l) a (fst r') = Ok tt /\
  size_m (TFlex et l) (fst r') = size_m (TFlex et l) (fst r) /\
  (exists vs1 vs2, view (TFlex et l) (fst r) = Ok (VNode 0 vs1) /\
     view (TFlex et l) (fst r') = Ok (VNode 0 vs2) /\
     map strip vs2 = map strip vs1 /\ length vs2 = length vs1) /\
  Forall2 (srel et l a) (flex_trace pv et l a ops bs) (flex_trace pv et l a ops bs').
Proof. exact refused_push_then_same. Qed.

(* non-vacuity: the situation of c13_flex_example (Props/C13_flex.v) with a 2-byte offset type, so
   that items are padded to a multiple of 2.  FlexVec<FlatVec<u8, u8>, u16> holding [7], [8, 9] in 14
   bytes; push(FromIterator of four elements) is refused after the item emplacer has written two
   bytes behind size() = 10.  Then, from both states: push(Empty) succeeds and the new item's
   padding byte keeps what was there: the two runs now differ INSIDE the first size() = 14 bytes
   (frel no longer holds); a FlatVec push into item 1 and one into the new item, a push that is
   refused for lack of room, an in-place assignment to item 0, pop, push, truncate, pops, clear:
   the same outcomes from both states, the same validity, size() and contents at every step *)
Example c13_same_example :
  let l8 := {| isize := 1; ialign := 1; ibe := false |} in
  let l16 := {| isize := 2; ialign := 2; ibe := false |} in
  let tv := TVec (TInt l8) l8 in
  let t1 := TFlex tv l16 in
  let im1 := [4;0;1;7; 255;255;2;8;9;0; 0;0;0;0] in
  let i := IVecIter [IInt 4; IInt 5; IInt 6; IInt 4] in
  let bs' := [4;0;1;7; 255;255;2;8;9;0; 0;0;1;4] in
  let ops := [FPush IEmpty; FEditVec 1 (VPush (IInt 1)); FEditVec 2 (VPush (IInt 3)); FPush IEmpty;
              FEditAssign 0 (IVecArr [IInt 5]); FPop; FPush (IVecArr [IInt 6]);
              FTruncate 1; FPop; FPop; FClear] in
  let outs := [ODone; ODone; ODone; OErr InsufficientSize; ODone; ODone; ODone; ODone; ODone; ORefused; ODone] in
  wf t1 = true /\ narrow_ty t1 = true /\ init_ok tv i = true /\ utf8_init i = true /\
  validate t1 0 im1 = Ok tt /\ size_m t1 im1 = Ok 10 /\
  flex_op None t1 0 (FPush i) im1 = (bs', OErr InsufficientSize) /\
  Forall (same_op tv) ops /\ assigns_done ops (snd (flex_run None tv l16 0 ops im1)) /\
  (* after the successful push the two runs differ in byte 13, inside size() = 14 *)
  flex_op None t1 0 (FPush IEmpty) im1 = ([4;0;1;7; 6;0;2;8;9;0; 255;255;0;0], ODone) /\
  flex_op None t1 0 (FPush IEmpty) bs' = ([4;0;1;7; 6;0;2;8;9;0; 255;255;0;4], ODone) /\
  size_m t1 [4;0;1;7; 6;0;2;8;9;0; 255;255;0;0] = Ok 14 /\ size_m t1 [4;0;1;7; 6;0;2;8;9;0; 255;255;0;4] = Ok 14 /\
  view t1 [4;0;1;7; 6;0;2;8;9;0; 255;255;0;0] = Ok (VNode 0 [VCont 1 [VInt 7]; VCont 3 [VInt 8; VInt 9]; VCont 1 []]) /\
  view t1 [4;0;1;7; 6;0;2;8;9;0; 255;255;0;4] = Ok (VNode 0 [VCont 1 [VInt 7]; VCont 3 [VInt 8; VInt 9]; VCont 1 []]) /\
  snd (flex_run None tv l16 0 ops im1) = outs /\ snd (flex_run None tv l16 0 ops bs') = outs /\
  map (view t1) (flex_trace None tv l16 0 ops bs') = map (view t1) (flex_trace None tv l16 0 ops im1) /\
  map (size_m t1) (flex_trace None tv l16 0 ops bs') = map (size_m t1) (flex_trace None tv l16 0 ops im1) /\
  map (validate t1 0) (flex_trace None tv l16 0 ops bs') = map (validate t1 0) (flex_trace None tv l16 0 ops im1) /\
  nth 3 (map (view t1) (flex_trace None tv l16 0 ops im1)) (Ok (VInt 0)) =
    Ok (VNode 0 [VCont 1 [VInt 7]; VCont 3 [VInt 8; VInt 9; VInt 1]; VCont 1 [VInt 3]]) /\
  (* the restriction on assignments: a refused assignment is outside the compared class *)
  snd (flex_op None t1 0 (FEditAssign 0 (IVecArr [IInt 5; IInt 5])) im1) = OErr InsufficientSize /\
  ~ assign_done (FEditAssign 0 (IVecArr [IInt 5; IInt 5]))
      (snd (flex_op None t1 0 (FEditAssign 0 (IVecArr [IInt 5; IInt 5])) im1)).
Proof.
  vm_compute.
  repeat match goal with
         | |- _ /\ _ => split
         | |- Forall _ _ => constructor
         | |- True => exact I
         | |- _ = _ => reflexivity
         | |- forall _ : kind, _ = _ -> False => intros k0 Hk0; discriminate Hk0
         end.
  intros Hall. apply (Hall InsufficientSize). reflexivity.
Qed.

Print Assumptions c13_srel_def.
Print Assumptions c13_srel_sym.
Print Assumptions c13_srel_trans.
Print Assumptions c13_srel_observables.
Print Assumptions c13_srel_of_frel.
Print Assumptions c13_refused_push_srel.
Print Assumptions c13_same_op_def.
Print Assumptions c13_assigns_done_def.
Print Assumptions c13_flex_trace_def.
Print Assumptions c13_same_step.
Print Assumptions c13_same_outcome.
Print Assumptions c13_same_history.
Print Assumptions c13_refused_push_then_same_all.
