(* C12 (every item type) — FlexVec::push and the histories of push / pop / truncate / clear on the
   byte image, for EVERY accepted item type (sized or unsized, nested containers included).  The
   three premises on the item emplacer that c12_push / c12_history (Props/C12.v) carry are
   discharged here from the emplacement theorems (C03 / C15, Proofs/EmplaceUnsizedFacts.v).
   Pinned statements only; proofs in Proofs/FlexAllFacts.v (instantiation) and
   Proofs/FlexOpsFacts.v (the operations).

   What remains as hypotheses: the definition is accepted (wf), no length / offset / tag type is
   wider than 8 bytes (narrow_ty: excludes the known finding D15), the pushed emplacer expression is
   well typed for the item type (init_ok) and every string literal in it is well-formed UTF-8
   (utf8_init: a Rust &str always is), and the image is valid.  The UTF-8 condition is necessary:
   c12_push_needs_utf8 below. *)
From Coq Require Import NArith List Bool.
From Flatty.Model Require Import Base Ty Layout Validate View Emplace Ops.
From Flatty.Proofs Require Import ChainFacts ViewFacts EmplaceSpec FlexOpsFacts EmplaceUnsizedFacts AssignValidFacts AssignSpineFacts FlexAllFacts.
Import ListNotations.
Open Scope N_scope.

(* push(i) on a valid image.  Never a panic.  Either it succeeds: the slice keeps its length and is
   valid; its items are the old ones followed by the new one, which reads the specified content;
   the old values are unchanged except that the previous last item, whose room now ends at the new
   slot, may report a smaller capacity; of the first size() bytes only the slot the old chain ended
   in (at p) is rewritten.  Or it reports an error kd (no room for a slot, offset not representable:
   InsufficientSize with the slice returned byte for byte; or the error of the item emplacer): the
   slice keeps its length, is valid, has the same size(), the same first size() bytes and the same
   contents. *)
Theorem c12_push_all : forall pv et l a, wf (TFlex et l) = true -> narrow_ty (TFlex et l) = true ->
  forall i bs vs k, init_ok et i = true -> utf8_init i = true ->
  validate (TFlex et l) a bs = Ok tt -> view (TFlex et l) bs = Ok (VNode 0 vs) ->
  size_m (TFlex et l) bs = Ok k ->
  let r := flex_op pv (TFlex et l) a (FPush i) bs in
  blen (fst r) = blen bs /\ validate (TFlex et l) a (fst r) = Ok tt /\
  ((snd r = ODone /\
    exists vs' v, view (TFlex et l) (fst r) = Ok (VNode 0 (vs' ++ [v])) /\
      map strip vs' = map strip vs /\ removelast vs' = removelast vs /\
      spec_value et i = Some (strip v) /\
      exists p, p + isize l <= k /\ take p (fst r) = take p bs /\
        take (k - (p + isize l)) (drop (p + isize l) (fst r)) =
        take (k - (p + isize l)) (drop (p + isize l) bs))
   \/
   (exists kd, snd r = OErr kd /\
      ((kd = InsufficientSize /\ fst r = bs) \/
       exists pa payload p, snd (emplace pv et i pa payload) = Err kd p) /\
      take k (fst r) = take k bs /\ size_m (TFlex et l) (fst r) = Ok k /\
      exists vs', view (TFlex et l) (fst r) = Ok (VNode 0 vs') /\ map strip vs' = map strip vs)).
Proof. exact flex_push_all. Qed.

(* the histories: simple_op_u = push of a well-typed expression with UTF-8 literals, pop, truncate,
   clear *)
Theorem c12_simple_op_u_def : forall et op,
  simple_op_u et op <->
  match op with
  | FPush i => init_ok et i = true /\ utf8_init i = true
  | FPop | FTruncate _ | FClear => True
  | _ => False
  end.
Proof. exact simple_op_u_def. Qed.

(* every finite history of push / pop / truncate / clear from a valid image: the slice keeps its
   length, stays valid, its contents are those the list model computes from the reported outcomes
   (flex_spec_run) and the reported outcomes are those the list model allows (flex_spec_outs); see
   c12_history in Props/C12.v for the reading of the two *)
Theorem c12_history_all : forall pv et l a, wf (TFlex et l) = true -> narrow_ty (TFlex et l) = true ->
  forall ops bs vs, Forall (simple_op_u et) ops ->
  validate (TFlex et l) a bs = Ok tt -> view (TFlex et l) bs = Ok (VNode 0 vs) ->
  let r := flex_run pv et l a ops bs in
  blen (fst r) = blen bs /\ validate (TFlex et l) a (fst r) = Ok tt /\
  exists vs', view (TFlex et l) (fst r) = Ok (VNode 0 vs') /\
    map strip vs' = flex_spec_run et ops (snd r) (map strip vs) /\
    flex_spec_outs et ops (snd r) (map strip vs).
Proof. exact flex_history_all. Qed.

(* the three premises of c12_push, restricted to expressions with UTF-8 literals, hold for every
   accepted item type *)
Theorem c12_item_premises_all : forall pv et, wf et = true -> narrow_ty et = true ->
  (forall i pa payload payload', utf8_init i = true -> init_ok et i = true ->
     emplace pv et i pa payload = (payload', Ok tt) ->
     blen payload' = blen payload /\ validate et pa payload' = Ok tt /\
     (exists v, view et payload' = Ok v /\ spec_value et i = Some (strip v))) /\
  (forall i pa payload, utf8_init i = true -> init_ok et i = true ->
     is_crash (snd (emplace pv et i pa payload)) = false ->
     blen (fst (emplace pv et i pa payload)) = blen payload) /\
  (forall i pa payload, utf8_init i = true -> init_ok et i = true ->
     is_crash (snd (emplace pv et i pa payload)) = false).
Proof.
  intros pv et Hw Hn. split; [exact (all_item_ok pv et Hw Hn)|].
  split; [exact (all_item_len pv et Hw Hn)|exact (all_item_nocrash pv et Hw Hn)].
Qed.

(* iter_mut().nth(j) followed by assign_in_place(x) on the item, EVERY item type (the premise of
   c12_edit_assign discharged for the assignment that succeeds).  With j out of range the call
   panics and the slice is returned.  Otherwise the slice keeps its length, the call reports the
   outcome of the assignment on the payload of item j (never a crash; an error is
   InsufficientSize), and when the assignment succeeds the slice is valid, item j reads the
   specified content and every other item is unchanged.  Nothing is claimed about the contents
   after a FAILED assignment here: for item types with generated initialisers a failed assignment
   may leave an invalid item (known finding class late_field_refusal, Props/C18.v). *)
Theorem c12_edit_assign_done_all : forall pv et l a,
  wf (TFlex et l) = true -> narrow_ty (TFlex et l) = true ->
  forall j x bs vs, init_ok et x = true -> utf8_init x = true ->
  validate (TFlex et l) a bs = Ok tt -> view (TFlex et l) bs = Ok (VNode 0 vs) ->
  let r := flex_op pv (TFlex et l) a (FEditAssign j x) bs in
  (nth_error vs (N.to_nat j) = None -> r = (bs, OPanic)) /\
  (forall v, nth_error vs (N.to_nat j) = Some v ->
     exists pa pl, validate et pa pl = Ok tt /\ view et pl = Ok v /\
       snd r = assign_out (assign_in_place pv et x pa pl) /\ blen (fst r) = blen bs /\
       is_crash (snd (assign_in_place pv et x pa pl)) = false /\
       (forall k p, snd (assign_in_place pv et x pa pl) = Err k p -> k = InsufficientSize) /\
       (snd (assign_in_place pv et x pa pl) = Ok tt ->
        exists v', view et (fst (assign_in_place pv et x pa pl)) = Ok v' /\
          spec_value et x = Some (strip v') /\
          validate (TFlex et l) a (fst r) = Ok tt /\
          view (TFlex et l) (fst r) = Ok (VNode 0 (splice (N.to_nat j) v' vs)))).
Proof. exact flex_edit_assign_done_all. Qed.

(* ... and whatever the outcome of the assignment when a failed assignment of x leaves a valid item:
   the class fv_ok false et x = true of Props/C18_valid.v (every expression when the item type is
   sized, FlatVec, FlatString or FlexVec of anything; generated initialisers whose failing emplacer
   keeps validity): the conclusion of c12_edit_assign with no premise on the item-level operation *)
Theorem c12_edit_assign_all : forall pv et l a,
  wf (TFlex et l) = true -> narrow_ty (TFlex et l) = true ->
  forall j x bs vs, fv_ok false et x = true -> init_ok et x = true -> utf8_init x = true ->
  validate (TFlex et l) a bs = Ok tt -> view (TFlex et l) bs = Ok (VNode 0 vs) ->
  let r := flex_op pv (TFlex et l) a (FEditAssign j x) bs in
  (nth_error vs (N.to_nat j) = None -> r = (bs, OPanic)) /\
  (forall v, nth_error vs (N.to_nat j) = Some v ->
     exists pa pl v', validate et pa pl = Ok tt /\ view et pl = Ok v /\
       snd r = assign_out (assign_in_place pv et x pa pl) /\
       view et (fst (assign_in_place pv et x pa pl)) = Ok v' /\
       blen (fst r) = blen bs /\ validate (TFlex et l) a (fst r) = Ok tt /\
       view (TFlex et l) (fst r) = Ok (VNode 0 (splice (N.to_nat j) v' vs))).
Proof. exact flex_edit_assign_all. Qed.

(* ... and not without that restriction: FlexVec<FlatString<u8>, u8>, push(FromStr) of a model
   string that is not UTF-8 (no Rust &str is): the expression is well typed, the push completes, the
   image no longer validates.  The unrestricted premises of c12_push are false for this item type. *)
Theorem c12_push_needs_utf8 :
  let l8 := {| isize := 1; ialign := 1; ibe := false |} in
  let t := TFlex (TStr l8) l8 in
  let im := [0;9;9;9;9;9;9;9;9;9] in
  wf t = true /\ narrow_ty t = true /\ validate t 0 im = Ok tt /\
  init_ok (TStr l8) (IStr [255]) = true /\ utf8_init (IStr [255]) = false /\
  flex_op None t 0 (FPush (IStr [255])) im = ([255;1;255;9;9;9;9;9;9;9], ODone) /\
  validate t 0 [255;1;255;9;9;9;9;9;9;9] = Err InvalidData 2.
Proof. vm_compute. repeat split; reflexivity. Qed.

(* non-vacuity: unsized item types.  FlexVec<FlatString<u8>, u8>: two pushes, a rejected one;
   FlexVec<FlexVec<u8, u8>, u8>: a push of a nested vector and a history *)
Example c12_all_example :
  let l8 := {| isize := 1; ialign := 1; ibe := false |} in
  let ts := TStr l8 in
  let t1 := TFlex ts l8 in
  let im0 := [0;9;9;9;9;9;9;9;9;9] in
  let im1 := [255;2;104;105;9;9;9;9;9;9] in
  let im2 := [4;2;104;105;255;2;195;169;9;9] in
  let tf := TFlex (TInt l8) l8 in
  let t2 := TFlex tf l8 in
  let jm0 := [0;9;9;9;9;9;9;9;9;9;9;9] in
  wf t1 = true /\ narrow_ty t1 = true /\ sized ts = false /\
  validate t1 0 im0 = Ok tt /\ size_m t1 im0 = Ok 1 /\
  init_ok ts (IStr [104;105]) = true /\ utf8_init (IStr [104;105]) = true /\
  flex_op None t1 0 (FPush (IStr [104;105])) im0 = (im1, ODone) /\
  view t1 im1 = Ok (VNode 0 [VCont 8 [VInt 104; VInt 105]]) /\
  utf8_init (IStr [195;169]) = true /\
  flex_op None t1 0 (FPush (IStr [195;169])) im1 = (im2, ODone) /\
  view t1 im2 = Ok (VNode 0 [VCont 2 [VInt 104; VInt 105]; VCont 4 [VInt 195; VInt 169]]) /\
  flex_op None t1 0 (FPush (IStr [65;66;67;68;69])) im2 = (im2, OErr InsufficientSize) /\
  wf t2 = true /\ narrow_ty t2 = true /\ validate t2 0 jm0 = Ok tt /\
  simple_op_u tf (FPush (IFlex [IInt 5; IInt 6])) /\
  flex_op None t2 0 (FPush (IFlex [IInt 5; IInt 6])) jm0 = ([255;2;5;255;6;9;9;9;9;9;9;9], ODone) /\
  view t2 [255;2;5;255;6;9;9;9;9;9;9;9] = Ok (VNode 0 [VNode 0 [VInt 5; VInt 6]]) /\
  flex_run None tf l8 0
    [FPush (IFlex [IInt 5; IInt 6]); FPush IEmpty; FPush (IFlex [IInt 1; IInt 1; IInt 1; IInt 1; IInt 1]); FPop] jm0
  = ([5;2;5;255;6;0;0;9;2;1;255;1], [ODone; ODone; OErr InsufficientSize; ODone]) /\
  view t2 [5;2;5;255;6;0;0;9;2;1;255;1] = Ok (VNode 0 [VNode 0 [VInt 5; VInt 6]]) /\
  (* editing item 0 of [["hi"], ["é"]] in place: a successful and a failed assignment *)
  fv_ok false ts (IStr [65;66;67]) = true /\
  flex_op None t1 0 (FEditAssign 0 (IStr [65])) im2 = ([4;1;65;105;255;2;195;169;9;9], ODone) /\
  view t1 [4;1;65;105;255;2;195;169;9;9] = Ok (VNode 0 [VCont 2 [VInt 65]; VCont 4 [VInt 195; VInt 169]]) /\
  flex_op None t1 0 (FEditAssign 0 (IStr [65;66;67])) im2 = (im2, OErr InsufficientSize).
Proof.
  vm_compute. repeat split; try reflexivity.
Qed.

Print Assumptions c12_push_all.
Print Assumptions c12_simple_op_u_def.
Print Assumptions c12_history_all.
Print Assumptions c12_item_premises_all.
Print Assumptions c12_edit_assign_done_all.
Print Assumptions c12_edit_assign_all.
Print Assumptions c12_push_needs_utf8.
