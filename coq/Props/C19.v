(* C19 — the position carried by a content error is the offset of an offending byte.
   When validation rejects a slice because of an invalid byte pattern (a Bool other than 0/1, an
   enum tag that is not a variant index, ill-formed UTF-8), the error's position, counted from the
   start of the validated slice, is inside the slice and is the position of an offending byte in
   the sense of the reference description Proofs/ErrPosSpec.v (bad_at: descent through the
   documented format by the reference C offsets), however deeply the byte is nested.
   Pinned statements only; proofs in Proofs/ErrPosFacts.v. *)
From Coq Require Import NArith List Bool.
From Flatty.Model Require Import Base Ty Layout Validate RefLayout.
From Flatty.Proofs Require Import FramingFacts ErrPosSpec ErrPosFacts.
Open Scope N_scope.

(* for every accepted definition, address and slice: an InvalidData / InvalidEnumTag error is
   reported at a position inside the slice, and the byte at that position is offending with that
   kind according to the reference description *)
Theorem c19_pos_offending : forall t, wf t = true -> forall a bs k p,
  validate t a bs = Err k p -> content_kind k -> p < blen bs /\ bad_at t bs p k.
Proof. exact errpos_offending. Qed.

(* the position of a content error is always inside the validated slice *)
Theorem c19_pos_inside : forall t, wf t = true -> forall a bs k p,
  validate t a bs = Err k p -> content_kind k -> p < blen bs.
Proof. exact errpos_inside. Qed.

(* the reported byte is still an offending byte, at the same position, of every slice that
   continues the validated one (the reference looks at the whole slice, validation at the slice
   floored to the alignment: trailing bytes do not move or hide the offending byte) *)
Theorem c19_pos_offending_ext : forall t, wf t = true -> forall a bs k p,
  validate t a bs = Err k p -> content_kind k ->
  p < blen bs /\ forall bs', ext bs bs' -> bad_at t bs' p k.
Proof. exact errpos_offending_ext. Qed.

(* non-vacuity: struct { a: u32, v: FlatVec<struct { x: u32, b: Bool }, u32> } (unsized) whose
   second element has b = 2: rejected with InvalidData at 4 + 4 + 8 + 4 = 20 *)
Example c19_example :
  let u32 := {| isize := 4; ialign := 4; ibe := false |} in
  let el := TStruct true (FCons (TInt u32) (FCons TBool FNil)) in
  let t := TStruct false (FCons (TInt u32) (FCons (TVec el u32) FNil)) in
  let m := [1;0;0;0; 2;0;0;0; 9;0;0;0;1;0;0;0; 9;0;0;0;2;0;0;0] in
  wf t = true /\ validate t 0 m = Err InvalidData 20 /\ validate t 0 (m ++ [7]) = Err InvalidData 20.
Proof. vm_compute. repeat split; reflexivity. Qed.

(* the reference side of the same instance, by hand: position 20 is the Bool of element 1 *)
Example c19_example_ref :
  let u32 := {| isize := 4; ialign := 4; ibe := false |} in
  let el := TStruct true (FCons (TInt u32) (FCons TBool FNil)) in
  let t := TStruct false (FCons (TInt u32) (FCons (TVec el u32) FNil)) in
  let m := [1;0;0;0; 2;0;0;0; 9;0;0;0;1;0;0;0; 9;0;0;0;2;0;0;0] in
  bad_at t m 20 InvalidData /\ ~ bad_at t m 19 InvalidData.
Proof. split; [exact ErrPosExamples.ex1_ref | exact ErrPosExamples.ex1_ref_not]. Qed.

Print Assumptions c19_pos_offending.
Print Assumptions c19_pos_inside.
Print Assumptions c19_pos_offending_ext.
