(* C14 — in-place mutation stays inside the value.
   Every write the model performs goes through the primitives below; each keeps the length of the
   slice, is either inside the slice or the explicit OobWrite outcome, and leaves every byte outside
   its footprint as it was.  Pinned statements only; proofs in Proofs/OpsFacts.v. *)
From Coq Require Import NArith List Bool.
From Flatty.Model Require Import Base Ty Layout Validate View Emplace Ops.
From Flatty.Proofs Require Import OpsFacts.
Open Scope N_scope.

(* raw write (length fields, string data, offset slots): in range, frame *)
Theorem c14_write_at_frame : forall pos src dst d', write_at pos src dst = Ok d' ->
  pos + blen src <= blen dst /\ blen d' = blen dst /\
  take pos d' = take pos dst /\ drop (pos + blen src) d' = drop (pos + blen src) dst /\
  take (blen src) (drop pos d') = src.
Proof. exact write_at_ok. Qed.

(* a write that would leave the slice is the explicit out-of-bounds outcome, never a silent one *)
Theorem c14_write_at_oob : forall pos src dst, blen dst < pos + blen src -> write_at pos src dst = Crash OobWrite.
Proof. exact write_at_oob. Qed.

(* ptr.write of a sized value: the slot keeps its length, bytes behind the value are untouched *)
Theorem c14_overlay_frame : forall pv m buf,
  blen (overlay pv m buf) = blen buf /\ drop (mlen m) (overlay pv m buf) = drop (mlen m) buf.
Proof. intros. split; [apply overlay_blen | apply overlay_drop]. Qed.

(* a nested emplacer / item edit runs on a sub-slice: siblings before and after keep their bytes *)
Theorem c14_on_slice_frame : forall pos len f buf,
  pos + len <= blen buf ->
  blen (fst (f (take len (drop pos buf)))) = len ->
  let r := fst (on_slice pos len f buf) in
  blen r = blen buf /\ take pos r = take pos buf /\ drop (pos + len) r = drop (pos + len) buf.
Proof. exact on_slice_frame. Qed.

(* FlexVec slot writes (seal, terminator, marker) *)
Theorem c14_slot_write_frame : forall l pos v data, pos + isize l <= blen data ->
  let r := write_int_at l pos v data in
  blen r = blen data /\ take pos r = take pos data /\ drop (pos + isize l) r = drop (pos + isize l) data.
Proof. exact write_int_at_frame. Qed.

Example c14_example : write_at 1 [9; 9] [1; 2; 3; 4] = Ok [1; 9; 9; 4] /\ write_at 3 [9; 9] [1; 2; 3; 4] = Crash OobWrite.
Proof. vm_compute. split; reflexivity. Qed.

Print Assumptions c14_write_at_frame.
Print Assumptions c14_write_at_oob.
Print Assumptions c14_overlay_frame.
Print Assumptions c14_on_slice_frame.
Print Assumptions c14_slot_write_frame.
