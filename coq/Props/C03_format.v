(* C03 (image) — the bytes an emplacer leaves are a well-formed encoding, under the DOCUMENTED format
   (the reference decoder Proofs/FormatSpec.v, written from the documentation and the reference C
   layout, independent of the library's code), of exactly the content that was specified; and the
   first extent(content) bytes alone already are.  Composition of C03 (emplacement), C02 (reference
   decoding) and C05 (size() is sufficient). *)
From Coq Require Import NArith List Bool.
From Flatty.Model Require Import Base Ty Layout Validate View Emplace.
From Flatty.Proofs Require Import EmplaceSpec EmplaceUnsizedFacts EmplaceBytesFacts FormatSpec FormatFacts
  BytesFacts ViewFacts.
Open Scope N_scope.

Theorem c03_image_is_documented_encoding : forall t i, wf t = true -> narrow_ty t = true ->
  init_ok t i = true -> utf8_init i = true ->
  forall pv a buf buf', match pv with Some v => v < 256 | None => True end -> bytes_ok buf = true ->
    new_in_place pv t i a buf = (buf', Ok tt) ->
    ref_decode t buf' = spec_value t i /\
    ref_decode t (take (extent t i) buf') = spec_value t i /\
    extent t i <= blen buf'.
Proof.
  intros t i Hw Hn Hi Hu pv a buf buf' Hpv Hb He.
  destruct (emplace_reads_back t i Hw Hn Hi Hu pv a buf buf' He) as (Hlen & Hval & (v & Hview & Hspec) & Hsz).
  assert (Hb' : bytes_ok buf' = true).
  { pose proof (emplace_bytes_ok t pv i a buf Hpv Hu Hb) as H. unfold new_in_place in He. rewrite He in H. exact H. }
  destruct (accept_sound t Hw Hn a buf' Hb' Hval) as (_ & v1 & Hv1 & Hr1).
  rewrite Hview in Hv1. injection Hv1 as <-.
  destruct (size_sufficient t a buf' (extent t i) (extent t i) Hw Hval Hsz (N.le_refl _))
    as (Hval2 & Hsz2 & v2 & v3 & Hv2 & Hv3 & Hstrip).
  rewrite Hview in Hv2. injection Hv2 as <-.
  destruct (accept_sound t Hw Hn a (take (extent t i) buf') (bytes_ok_take _ _ Hb') Hval2) as (_ & v4 & Hv4 & Hr4).
  rewrite Hv3 in Hv4. injection Hv4 as <-.
  split; [rewrite Hr1; symmetry; exact Hspec|]. split; [rewrite Hr4, Hstrip; symmetry; exact Hspec|].
  destruct (valid_size_view t a buf' Hw Hval) as (k & vv & Hk & Hle & _). rewrite Hsz in Hk. injection Hk as <-. exact Hle.
Qed.

(* non-vacuity: enum { A, B(u16, FlatString<u8>) } holding B(513, "hi") in a garbage buffer *)
Example c03_format_example :
  let u8i := {| isize := 1; ialign := 1; ibe := false |} in
  let u16i := {| isize := 2; ialign := 2; ibe := false |} in
  let t := TEnum false u8i 0 (VCons FNil (VCons (FCons (TInt u16i) (FCons (TStr u8i) FNil)) VNil)) in
  let i := IVar 1 [IInt 513; IStr [104; 105]] in
  let r := new_in_place None t i 0 (repeat 170 12) in
  snd r = Ok tt /\ fst r = [1; 170; 1; 2; 2; 104; 105; 170; 170; 170; 170; 170] /\ extent t i = 8 /\
  ref_decode t (take 8 (fst r)) = Some (VNode 1 [VInt 513; VCont 0 [VInt 104; VInt 105]]) /\
  spec_value t i = Some (VNode 1 [VInt 513; VCont 0 [VInt 104; VInt 105]]).
Proof. vm_compute. repeat split; reflexivity. Qed.

Print Assumptions c03_image_is_documented_encoding.
