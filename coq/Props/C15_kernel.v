(* C15 (kernel; also the gate of C01 / C02) — the alignment / minimum-size gates of the MODEL are those of the
   SOURCE: check_align_and_min_size (base/src/utils/mem.rs) and TypeIter::check_align_and_min_size
   (base/src/utils/iter.rs, the run-time check of a generated Init) as translated into Generated/KernelGate.v on
   every run of ./check — misaligned -> BadAlign at 0, else too short -> InsufficientSize at 0, else Ok — and
   validate / emplace apply the gate first and the unchecked part only after it (base/src/traits.rs,
   base/src/emplacer.rs).  Pinned statements only; proofs in Proofs/KernelGateFacts.v. *)
From Coq Require Import NArith List Bool.
From Flatty.Model Require Import Base Ty Layout Validate View Emplace.
From Flatty.Generated Require Import KernelGate.
From Flatty.Proofs Require Import KernelGateFacts.
Open Scope N_scope.

Theorem c15_kernel_gate : forall t a bs,
  check_align_min t a bs = g_check_align_and_min_size (align t) (min_size t) a (blen bs) /\
  validate t a bs = g_gate_then (check_align_min t a bs) (validate_u t a bs).
Proof. intros t a bs. split; [exact (k_check_align_min t a bs) | exact (k_validate t a bs)]. Qed.

Theorem c15_kernel_emplace_gate : forall pv t i a buf,
  snd (emplace pv t i a buf) = g_gate_then (check_align_min t a buf) (snd (emplace_u pv t i a buf)) /\
  (forall k p, check_align_min t a buf = Err k p -> fst (emplace pv t i a buf) = buf).
Proof. exact k_emplace. Qed.

Theorem c15_kernel_struct_init_gate : forall pv fs i a buf is k p,
  field_inits i (flen fs) = Some is ->
  g_type_iter_check (align_fields fs) (fold_min_size 0 fs) a (floor_mul (blen buf) (align_fields fs)) = Err k p ->
  emplace_u pv (TStruct false fs) i a buf = (buf, Err k p).
Proof. exact k_struct_init_gate. Qed.

(* non-vacuity: alignment 4, minimum size 6: address 2 -> BadAlign; address 8, 5 bytes -> InsufficientSize; 6 bytes -> Ok *)
Example c15_kernel_example :
  g_check_align_and_min_size 4 6 2 100 = Err BadAlign 0 /\ g_check_align_and_min_size 4 6 8 5 = Err InsufficientSize 0 /\
  g_check_align_and_min_size 4 6 8 6 = Ok tt /\ g_type_iter_check 2 3 1 9 = Err BadAlign 0.
Proof. vm_compute. repeat split; reflexivity. Qed.

Print Assumptions c15_kernel_gate.
Print Assumptions c15_kernel_emplace_gate.
Print Assumptions c15_kernel_struct_init_gate.
