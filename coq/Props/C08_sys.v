(* C08 (composed system) — a sender task, a bounded in-memory ring pipe of any capacity and a
   receiver task, polled in an arbitrary order with or without spurious Pending answers
   (Model/Io.v: sys_poll_send, sys_poll_recv, sys_step, run_schedule, run_tail): no message is
   lost, duplicated, reordered or altered, and both tasks complete once the pipe has made enough
   progress.  Pinned statements only; proofs in Proofs/IoSysFacts.v.

   Vocabulary (c08_sys_defs below pins the definitions):
     ms        the byte strings the sender transmits (IoSendFacts.msgs of the initialisers, every
               emplacement working on the bytes the previous one left in the sender's buffer)
     sys_init  sender idle with all initialisers, sender buffer of CAPs bytes, empty open ring of
               capacity c, receiver buffer of CAPr bytes, nothing delivered
     pushed y  the bytes the sender has put into the ring so far: the completed messages and the
               first pos bytes of the current one
     taken y   the bytes the receiver has taken from the ring: the delivered messages followed by
               its window
     mu y      the variant: 2 * bytes not yet pushed + bytes in the ring + unfinished tasks
     fuel_ok   the per-poll fuel is at least 2 * total bytes + CAPr + 2 * messages + 3
   y_delivered holds the window at each delivery, newest first; a window starts with its message
   (take (blen m) occ = m), it may already hold bytes of the following ones. *)
From Coq Require Import NArith List Bool Lia.
From Flatty.Model Require Import Base Io.
From Flatty.Proofs Require Import IoRecvFacts IoSendFacts IoSysFacts.
Import ListNotations.
Open Scope N_scope.

(* the hypotheses on the message type and on the run, as in Props/C07_recv.v and C07_send.v:
   validation never crashes (C01); a validated value has a size within its bytes (C05); alignment
   positive; every initialiser can be emplaced into a buffer of CAPs bytes; every message is
   canonical (C06: short prefixes are "too short", the message followed by anything validates with
   its own size); every message fits the receiver's buffer; if there is nothing to send the
   receiver's buffer is not empty and the empty window is "too short" *)
Definition sys_hyps (A : N) (v : N -> bytes -> res unit) (sz : bytes -> res N) (I : Type)
    (e : I -> N -> bytes -> bytes * res unit) (is0 : list I) (CAPs CAPr fill_s : N) : Prop :=
  (forall a bs, is_crash (v a bs) = false) /\
  (forall a bs, v a bs = Ok tt -> exists n, sz bs = Ok n /\ 0 < n /\ n <= blen bs) /\
  0 < A /\
  Forall (emplace_good sz I e CAPs) is0 /\
  Forall (canon v sz A) (ms sz I e is0 CAPs fill_s) /\
  (forall m, In m (ms sz I e is0 CAPs fill_s) -> blen m <= CAPr) /\
  (ms sz I e is0 CAPs fill_s <> [] \/
   (0 < CAPr /\ forall a, a mod A = 0 -> exists p, v a [] = Err InsufficientSize p)).

Theorem c08_sys_defs : forall (sz : bytes -> res N) (I : Type) (e : I -> N -> bytes -> bytes * res unit)
    (is0 : list I) (CAPs CAPr c fill_s fill_r : N) (y : sys I) (fuel : nat),
  ms sz I e is0 CAPs fill_s = msgs sz I e is0 (repeat fill_s (N.to_nat CAPs)) /\
  sys_init I is0 CAPs CAPr c fill_s fill_r =
    {| y_send := TIdle I is0; y_sd := {| sbuf := new_buffer CAPs fill_s; poisoned := false |};
       y_ring := {| rbytes := []; rcap := c; closed := false |};
       y_recv := None; y_rb := new_buffer CAPr fill_r; y_rpending := false;
       y_delivered := []; y_polls := 0 |} /\
  pushed sz I e is0 CAPs fill_s y =
    (let l := ms sz I e is0 CAPs fill_s in
     match y_send I y with
     | TIdle _ is => concat (firstn (length l - length is) l)
     | TWriting _ is pos _ =>
         concat (firstn (length l - S (length is)) l) ++ take pos (nth (length l - S (length is)) l [])
     | TDone _ _ => concat l
     end) /\
  taken sz I e is0 CAPs fill_s y =
    concat (firstn (length (y_delivered I y)) (ms sz I e is0 CAPs fill_s)) ++ occupied (y_rb I y) /\
  mu sz I e is0 CAPs fill_s y =
    2 * (blen (concat (ms sz I e is0 CAPs fill_s)) - blen (pushed sz I e is0 CAPs fill_s y))
    + blen (rbytes (y_ring I y))
    + (if sender_done I (y_send I y) then 0 else 1)
    + (match y_recv I y with Some _ => 0 | None => 1 end) /\
  (fuel_ok sz I e is0 CAPs CAPr fill_s fuel <->
   2 * blen (concat (ms sz I e is0 CAPs fill_s)) + CAPr + 2 * N.of_nat (length is0) + 3 <= N.of_nat fuel).
Proof. intros. repeat split; try reflexivity; intros H; exact H. Qed.

(* The invariant.  It holds initially and every poll of either task, spurious or not, preserves
   it, for every ring capacity (even 0). *)
Theorem c08_sys_inv_init : forall A v sz I e is0 CAPs CAPr c fill_s fill_r,
  sys_hyps A v sz I e is0 CAPs CAPr fill_s ->
  sys_inv A sz I e is0 CAPs CAPr c fill_s (sys_init I is0 CAPs CAPr c fill_s fill_r).
Proof. intros A v sz I e is0 CAPs CAPr c fill_s fill_r (H1 & H2 & H3 & H4 & H5 & H6 & H7). eapply sys_init_inv; eassumption. Qed.

Theorem c08_sys_inv_step : forall A v sz I e is0 CAPs CAPr c fill_s fuel who spur y,
  sys_hyps A v sz I e is0 CAPs CAPr fill_s ->
  fuel_ok sz I e is0 CAPs CAPr fill_s fuel ->
  sys_inv A sz I e is0 CAPs CAPr c fill_s y ->
  sys_inv A sz I e is0 CAPs CAPr c fill_s (sys_step v sz I e fuel who spur y).
Proof. intros A v sz I e is0 CAPs CAPr c fill_s fuel who spur y (H1 & H2 & H3 & H4 & H5 & H6 & H7). apply sys_step_inv; assumption. Qed.

(* What the invariant says.  (a) the pushed bytes are a prefix of the stream of messages.
   (b) FIFO: the bytes taken by the receiver followed by the ring content are the pushed bytes,
   and the ring never holds more than its capacity.  (c) the receiver's buffer is well formed, its
   window starts aligned, taken y = delivered messages ++ window (by definition of taken), the
   j-th delivered window starts with the j-th sent message.  (d) a finished sender finished with
   SOk, a finished receiver with RClosed. *)
Theorem c08_sys_inv_spec : forall A sz I e is0 CAPs CAPr c fill_s (y : sys I),
  sys_inv A sz I e is0 CAPs CAPr c fill_s y ->
  (exists u, pushed sz I e is0 CAPs fill_s y ++ u = concat (ms sz I e is0 CAPs fill_s)) /\
  (taken sz I e is0 CAPs fill_s y ++ rbytes (y_ring I y) = pushed sz I e is0 CAPs fill_s y /\
   blen (rbytes (y_ring I y)) <= rcap (y_ring I y) /\ rcap (y_ring I y) = c) /\
  (wfb (y_rb I y) /\ st (y_rb I y) mod A = 0 /\ cap (y_rb I y) = CAPr /\
   (length (y_delivered I y) <= length (ms sz I e is0 CAPs fill_s))%nat /\
   Forall2 (fun occ m => take (blen m) occ = m) (rev (y_delivered I y))
     (firstn (length (y_delivered I y)) (ms sz I e is0 CAPs fill_s))) /\
  ((forall o, y_send I y = TDone I o -> o = SOk) /\ (forall o, y_recv I y = Some o -> o = RClosed)).
Proof. exact sys_inv_spec. Qed.

(* (d) spelled out: no task is ever in a panic, hang or error state *)
Theorem c08_sys_inv_no_panic : forall A sz I e is0 CAPs CAPr c fill_s (y : sys I),
  sys_inv A sz I e is0 CAPs CAPr c fill_s y ->
  y_send I y <> TDone I SPanic /\ y_send I y <> TDone I SHang /\
  (forall k p, y_send I y <> TDone I (SEmplace k p)) /\ (forall e0, y_send I y <> TDone I (SIo e0)) /\
  y_recv I y <> Some RPanic /\ y_recv I y <> Some RHang /\
  (forall k p, y_recv I y <> Some (RParse k p)) /\ (forall e0, y_recv I y <> Some (RRead e0)).
Proof. exact sys_inv_no_panic. Qed.

(* SAFETY.  For every schedule (any list of polls, any interleaving, any spurious flags) and every
   ring capacity: what has been delivered is, in order, a prefix of what was sent — nothing lost
   before it, nothing duplicated, reordered or altered. *)
Theorem c08_sys_safety : forall A v sz I e is0 CAPs CAPr c fill_s fill_r fuel sch,
  sys_hyps A v sz I e is0 CAPs CAPr fill_s ->
  fuel_ok sz I e is0 CAPs CAPr fill_s fuel ->
  let y := run_schedule v sz I e fuel sch (sys_init I is0 CAPs CAPr c fill_s fill_r) in
  (length (y_delivered I y) <= length (ms sz I e is0 CAPs fill_s))%nat /\
  Forall2 (fun occ m => take (blen m) occ = m) (rev (y_delivered I y))
    (firstn (length (y_delivered I y)) (ms sz I e is0 CAPs fill_s)).
Proof. intros A v sz I e is0 CAPs CAPr c fill_s fill_r fuel sch (H1 & H2 & H3 & H4 & H5 & H6 & H7) Hf. apply (sys_safety A v); assumption. Qed.

(* COMPLETION.  If after the schedule both tasks have finished, the sender finished with SOk, the
   receiver with RClosed, and every message was delivered, in order, unaltered. *)
Theorem c08_sys_completion : forall A v sz I e is0 CAPs CAPr c fill_s fill_r fuel sch,
  sys_hyps A v sz I e is0 CAPs CAPr fill_s ->
  fuel_ok sz I e is0 CAPs CAPr fill_s fuel ->
  let y := run_schedule v sz I e fuel sch (sys_init I is0 CAPs CAPr c fill_s fill_r) in
  sys_done I y = true ->
  y_send I y = TDone I SOk /\ y_recv I y = Some RClosed /\
  length (y_delivered I y) = length (ms sz I e is0 CAPs fill_s) /\
  Forall2 (fun occ m => take (blen m) occ = m) (rev (y_delivered I y)) (ms sz I e is0 CAPs fill_s).
Proof. intros A v sz I e is0 CAPs CAPr c fill_s fill_r fuel sch (H1 & H2 & H3 & H4 & H5 & H6 & H7) Hf. apply (sys_completion A v); assumption. Qed.

(* PROGRESS, one poll.  The variant never increases ... *)
Theorem c08_sys_mu_le : forall A v sz I e is0 CAPs CAPr c fill_s fuel who spur y,
  sys_hyps A v sz I e is0 CAPs CAPr fill_s ->
  fuel_ok sz I e is0 CAPs CAPr fill_s fuel ->
  sys_inv A sz I e is0 CAPs CAPr c fill_s y ->
  mu sz I e is0 CAPs fill_s (sys_step v sz I e fuel who spur y) <= mu sz I e is0 CAPs fill_s y.
Proof. intros A v sz I e is0 CAPs CAPr c fill_s fuel who spur y (H1 & H2 & H3 & H4 & H5 & H6 & H7). apply mu_step_le; assumption. Qed.

(* ... it strictly decreases at a non-spurious poll of an unfinished sender unless the ring is full ... *)
Theorem c08_sys_mu_send_lt : forall A v sz I e is0 CAPs CAPr c fill_s fuel y,
  sys_hyps A v sz I e is0 CAPs CAPr fill_s ->
  fuel_ok sz I e is0 CAPs CAPr fill_s fuel ->
  sys_inv A sz I e is0 CAPs CAPr c fill_s y ->
  sender_done I (y_send I y) = false ->
  blen (rbytes (y_ring I y)) < rcap (y_ring I y) ->
  mu sz I e is0 CAPs fill_s (sys_step v sz I e fuel true false y) < mu sz I e is0 CAPs fill_s y.
Proof. intros A v sz I e is0 CAPs CAPr c fill_s fuel y (H1 & H2 & H3 & H4 & H5 & H6 & H7). apply mu_step_send_lt; assumption. Qed.

(* ... and at a non-spurious poll of an unfinished receiver unless the ring is empty and open. *)
Theorem c08_sys_mu_recv_lt : forall A v sz I e is0 CAPs CAPr c fill_s fuel y,
  sys_hyps A v sz I e is0 CAPs CAPr fill_s ->
  fuel_ok sz I e is0 CAPs CAPr fill_s fuel ->
  sys_inv A sz I e is0 CAPs CAPr c fill_s y ->
  y_recv I y = None ->
  rbytes (y_ring I y) <> [] \/ closed (y_ring I y) = true ->
  mu sz I e is0 CAPs fill_s (sys_step v sz I e fuel false false y) < mu sz I e is0 CAPs fill_s y.
Proof. intros A v sz I e is0 CAPs CAPr c fill_s fuel y (H1 & H2 & H3 & H4 & H5 & H6 & H7). apply mu_step_recv_lt; assumption. Qed.

(* PROGRESS, the tail.  With a ring of capacity >= 1, from every state of the invariant the
   alternating tail (whoever polls first) finishes both tasks within mu y + 2 turns, provided the
   poll budget allows mu y + 1 further polls. *)
Theorem c08_sys_tail : forall A v sz I e is0 CAPs CAPr c fill_s fuel budget start n who y,
  sys_hyps A v sz I e is0 CAPs CAPr fill_s ->
  fuel_ok sz I e is0 CAPs CAPr fill_s fuel -> 1 <= c ->
  sys_inv A sz I e is0 CAPs CAPr c fill_s y ->
  mu sz I e is0 CAPs fill_s y + 2 <= N.of_nat n ->
  y_polls I y - start + mu sz I e is0 CAPs fill_s y + 1 <= budget ->
  sys_done I (run_tail v sz I e n fuel budget start who y) = true.
Proof. intros A v sz I e is0 CAPs CAPr c fill_s fuel budget start n who y (H1 & H2 & H3 & H4 & H5 & H6 & H7). apply run_tail_reaches_done; assumption. Qed.

(* The whole run: any schedule, then the alternating tail with turn and poll budgets above twice
   the number of bytes: both tasks finish, the sender with SOk, the receiver with RClosed, and
   every message has been delivered, in order, unaltered. *)
Theorem c08_sys_progress : forall A v sz I e is0 CAPs CAPr c fill_s fill_r fuel sch n budget who,
  sys_hyps A v sz I e is0 CAPs CAPr fill_s ->
  fuel_ok sz I e is0 CAPs CAPr fill_s fuel -> 1 <= c ->
  2 * blen (concat (ms sz I e is0 CAPs fill_s)) + 4 <= N.of_nat n ->
  2 * blen (concat (ms sz I e is0 CAPs fill_s)) + 3 <= budget ->
  let y1 := run_schedule v sz I e fuel sch (sys_init I is0 CAPs CAPr c fill_s fill_r) in
  let y2 := run_tail v sz I e n fuel budget (y_polls I y1) who y1 in
  sys_done I y2 = true /\ y_send I y2 = TDone I SOk /\ y_recv I y2 = Some RClosed /\
  length (y_delivered I y2) = length (ms sz I e is0 CAPs fill_s) /\
  Forall2 (fun occ m => take (blen m) occ = m) (rev (y_delivered I y2)) (ms sz I e is0 CAPs fill_s).
Proof. intros A v sz I e is0 CAPs CAPr c fill_s fill_r fuel sch n budget who (H1 & H2 & H3 & H4 & H5 & H6 & H7) Hf Hc Hn Hb. apply (sys_progress A v); assumption. Qed.

(* the fuel, turn budget and poll budget of the test harness (runner/main.ml, case "sys", with
   total >= the number of bytes to send and both buffers of CAPr bytes) are large enough *)
Theorem c08_sys_harness_numbers : forall sz I e (is0 : list I) CAPs CAPr fill_s total,
  blen (concat (ms sz I e is0 CAPs fill_s)) <= total ->
  fuel_ok sz I e is0 CAPs CAPr fill_s (N.to_nat (4 * (total + CAPr) + 8 * N.of_nat (length is0) + 64)) /\
  (let budget := 4 * (total + N.of_nat (length is0)) + 64 in
   2 * blen (concat (ms sz I e is0 CAPs fill_s)) + 4 <= N.of_nat (N.to_nat (2 * budget + 8)) /\
   2 * blen (concat (ms sz I e is0 CAPs fill_s)) + 3 <= budget).
Proof. intros sz I e is0 CAPs CAPr fill_s total H. split; [apply harness_fuel_ok|apply harness_budget_ok]; exact H. Qed.

(* the hypotheses can be met: the toy message type (first byte = total length, alignment 1;
   toy_validate / toy_size of IoRecvFacts, the emplacer sys_toy_emplace writes 1 + length of the
   payload followed by the payload), any payloads that fit both buffers *)
Theorem c08_sys_toy_run : forall (is : list bytes) CAPs CAPr c fill_s fill_r fuel sch n budget who,
  Forall (fun i => 1 + blen i <= CAPs) is -> Forall (fun i => 1 + blen i <= CAPr) is -> 0 < CAPr ->
  1 <= c ->
  fuel_ok IoRecvFacts.toy_size bytes sys_toy_emplace is CAPs CAPr fill_s fuel ->
  2 * blen (concat (map sys_toy_msg is)) + 4 <= N.of_nat n ->
  2 * blen (concat (map sys_toy_msg is)) + 3 <= budget ->
  let y1 := run_schedule toy_validate IoRecvFacts.toy_size bytes sys_toy_emplace fuel sch
              (sys_init bytes is CAPs CAPr c fill_s fill_r) in
  let y2 := run_tail toy_validate IoRecvFacts.toy_size bytes sys_toy_emplace n fuel budget (y_polls bytes y1) who y1 in
  sys_done bytes y2 = true /\ y_send bytes y2 = TDone bytes SOk /\ y_recv bytes y2 = Some RClosed /\
  Forall2 (fun occ m => take (blen m) occ = m) (rev (y_delivered bytes y2)) (map sys_toy_msg is).
Proof. exact sys_toy_run. Qed.

(* non-vacuity: three toy messages [4;1;2;3], [1], [3;9;9] through a ring of capacity 1, sender
   buffer of 8 bytes, receiver buffer of 4 bytes (the longest message fills it); an adversarial
   schedule (S/R = poll of sender/receiver, lower case = spurious Pending), then the alternating
   tail.  After the schedule 3 bytes have been pushed, 3 taken, nothing delivered; the variant
   went from 18 to 12; after the tail (10 more polls) everything is delivered in order and both
   tasks are finished.  With a ring of capacity 2 the same schedule already delivers the first two
   messages (the second window [1;3] holds a byte of the third message). *)
Definition ex_tsz := IoRecvFacts.toy_size.
Definition ex_S := (true, false).  Definition ex_s := (true, true).
Definition ex_R := (false, false). Definition ex_r := (false, true).
Definition ex_sch := [ex_s; ex_r; ex_R; ex_S; ex_S; ex_r; ex_R; ex_R; ex_s; ex_S; ex_R; ex_r; ex_S; ex_s; ex_R].
Definition ex_is : list bytes := [[1;2;3]; []; [9;9]].
Definition ex_y1 c := run_schedule toy_validate ex_tsz bytes sys_toy_emplace 40 ex_sch (sys_init bytes ex_is 8 4 c 7 0).
Definition ex_y2 c := run_tail toy_validate ex_tsz bytes sys_toy_emplace 24 40 24 (y_polls bytes (ex_y1 c)) true (ex_y1 c).
Example c08_sys_example :
  ms ex_tsz bytes sys_toy_emplace ex_is 8 7 = [[4;1;2;3]; [1]; [3;9;9]]
  /\ (pushed ex_tsz bytes sys_toy_emplace ex_is 8 7 (ex_y1 1), taken ex_tsz bytes sys_toy_emplace ex_is 8 7 (ex_y1 1),
      rbytes (y_ring bytes (ex_y1 1)), y_delivered bytes (ex_y1 1))
     = ([4;1;2], [4;1;2], [], [])
  /\ (mu ex_tsz bytes sys_toy_emplace ex_is 8 7 (sys_init bytes ex_is 8 4 1 7 0),
      mu ex_tsz bytes sys_toy_emplace ex_is 8 7 (ex_y1 1)) = (18, 12)
  /\ (rev (y_delivered bytes (ex_y2 1)), y_send bytes (ex_y2 1), y_recv bytes (ex_y2 1),
      sys_done bytes (ex_y2 1), y_polls bytes (ex_y2 1) - y_polls bytes (ex_y1 1))
     = ([[4;1;2;3]; [1]; [3;9;9]], TDone bytes SOk, Some RClosed, true, 10)
  /\ rev (y_delivered bytes (ex_y1 2)) = [[4;1;2;3]; [1;3]]
  /\ (rev (y_delivered bytes (ex_y2 2)), sys_done bytes (ex_y2 2)) = ([[4;1;2;3]; [1;3]; [3;9;9]], true).
Proof. vm_compute. repeat split; reflexivity. Qed.

(* the fuel (40) and the tail budgets (24) of the example satisfy the premises of the theorems *)
Example c08_sys_example_fuel :
  fuel_ok ex_tsz bytes sys_toy_emplace ex_is 8 4 7 40
  /\ 2 * blen (concat (ms ex_tsz bytes sys_toy_emplace ex_is 8 7)) + 4 <= N.of_nat 24.
Proof. split; vm_compute; discriminate. Qed.

Print Assumptions c08_sys_defs.
Print Assumptions c08_sys_inv_init.
Print Assumptions c08_sys_inv_step.
Print Assumptions c08_sys_inv_spec.
Print Assumptions c08_sys_inv_no_panic.
Print Assumptions c08_sys_safety.
Print Assumptions c08_sys_completion.
Print Assumptions c08_sys_mu_le.
Print Assumptions c08_sys_mu_send_lt.
Print Assumptions c08_sys_mu_recv_lt.
Print Assumptions c08_sys_tail.
Print Assumptions c08_sys_progress.
Print Assumptions c08_sys_harness_numbers.
Print Assumptions c08_sys_toy_run.
