(* C11 (typed level) — FlatVec<T, L> / FlatString<L> on a valid byte image: every in-place
   operation keeps the slice length, leaves a VALID image, and what the accessors read afterwards
   (len, capacity, the elements / the text, size()) is the list operation with refusal at the
   capacity applied to what they read before; so does every finite history.
   Pinned statements only; proofs in Proofs/VecTypedFacts.v (on top of Proofs/VecOpsFacts.v, C11).

   Reading guide.
   - t = TVec et l (FlatVec<et, l>) or TStr l (FlatString<l>); wf t = the library accepts the type
     (in particular et is sized); narrow l = the length type is at most 8 bytes wide.
   - validate t a bs = Ok tt: bs, mapped at address a, passes FlatValidate::validate (this contains
     the alignment of a and the minimum size); validate_u = validate_unchecked.
   - g = geom_vec et l (blen bs) / geom_str l (blen bs): where the length field, the data and the
     slots of the reference mapped from blen bs bytes are (Model/Ops.v); c_len g bs = stored length,
     c_cap g = capacity() = min(slots, L::MAX), slot g j bs = the bytes of element j,
     cont_wf g bs = the container state of C11 (contains c_len g bs <= c_cap g).
   - view t bs = Ok (VCont cap vs): capacity() and the values of the elements (strip removes the
     capacities nested containers report); size_m = size().
   - vec_op pv t op bs = (slice afterwards, what the call reported); pv = what ptr.write leaves in
     padding bytes (None = old content, Some v = v): every statement holds for every pv.
   - tspec_step et cap xs op / sspec_step cap s op: the list / text operation with refusal at cap
     (Proofs/VecTypedFacts.v); a pushed element has the content spec_value et i its emplacer
     expression specifies; an expression that does not type-check (not generated) reports OBad.
   - No condition on the byte values (bytes_ok) is needed anywhere: a stored length that does not
     fit usize fails validation and violates cont_wf alike. *)
From Coq Require Import NArith List Bool.
From Flatty.Model Require Import Base Ty Layout Utf8 Validate View Emplace Ops.
From Flatty.Proofs Require Import EmplaceSpec VecOpsFacts VecTypedFacts.
From Flatty.Proofs Require FlexOpsFacts.
Open Scope N_scope.

(* validation of FlatVec = the container state is well formed (stored length within the capacity)
   and every element below the stored length validates at its address *)
Theorem c11_vec_valid_iff : forall et l a bs, wf (TVec et l) = true -> narrow l = true ->
  min_size (TVec et l) <= blen bs ->
  let g := geom_vec et l (blen bs) in
  validate_u (TVec et l) a bs = Ok tt <->
  cont_wf g bs /\ forall j, j < c_len g bs -> validate_u et (a + g_d g + j * g_s g) (slot g j bs) = Ok tt.
Proof. exact vec_valid_iff. Qed.

(* validation of FlatString = the container state is well formed and the first len data bytes are
   well-formed UTF-8 *)
Theorem c11_str_valid_iff : forall l a bs, wf (TStr l) = true -> narrow l = true ->
  min_size (TStr l) <= blen bs ->
  let g := geom_str l (blen bs) in
  validate_u (TStr l) a bs = Ok tt <->
  cont_wf g bs /\ utf8_err (take (c_len g bs) (drop (isize l) bs)) = None.
Proof. exact str_valid_iff. Qed.

(* what the accessors of a valid FlatVec read: the capacity of the geometry and the views of the
   slots below the stored length (abs g bs), every one of which reads without error; hence the
   abstraction of C11 under the content decoding edec is the list of stripped element values *)
Theorem c11_vec_view : forall et l a bs, wf (TVec et l) = true -> validate_u (TVec et l) a bs = Ok tt ->
  let g := geom_vec et l (blen bs) in
  view (TVec et l) bs = Ok (VCont (c_cap g) (map (fun raw => unres (view et raw)) (abs g bs))) /\
  Forall (fun raw => exists v, view et raw = Ok v) (abs g bs) /\
  absd (edec et) g bs = map strip (map (fun raw => unres (view et raw)) (abs g bs)) /\
  read_len l bs = Ok (c_len g bs).
Proof. exact vec_view. Qed.

(* the premise of c11_step holds for the content decoding: a slot written with the image e of an
   emplacer expression decodes to the content of e (eval et e, a function of e alone), whatever
   the slot held and whatever the padding policy; that content is what the expression specifies,
   and two expressions with the same image specify the same content *)
Theorem c11_elem_decoding : forall et, wf et = true -> sized et = true ->
  (forall pv e old, okm et e -> mlen e = ssize et -> blen old = ssize et ->
     edec et (overlay pv e old) = eval et e) /\
  (forall i e, enc_sized et i = Some e -> spec_value et i = Some (eval et e)) /\
  (forall i1 i2 e, enc_sized et i1 = Some e -> enc_sized et i2 = Some e -> spec_value et i1 = spec_value et i2).
Proof.
  intros et Hw Hs. split; [exact (dec_overlay_typed et Hw Hs)|].
  split; [intros i e; exact (eval_spec et i e Hw Hs)|intros i1 i2 e; exact (enc_same_image et i1 i2 e Hw Hs)].
Qed.

(* c11_step on the geometry of FlatVec<et, l> with that decoding *)
Theorem c11_step_typed : forall pv et l n c bs, wf et = true -> sized et = true ->
  let g := geom_vec et l n in
  cont_wf g bs -> op_wf g (okm et) c ->
  let r := cont_op pv g c bs in
  cont_wf g (fst r) /\ blen (fst r) = blen bs /\
  (absd (edec et) g (fst r), snd r) = spec_step (eval et) (c_cap g) (absd (edec et) g bs) c /\
  N.of_nat (length (absd (edec et) g (fst r))) = c_len g (fst r) /\
  c_len g (fst r) <= int_max (g_len g).
Proof. exact vec_cont_op_refines. Qed.

(* one FlatVec operation, any operation and arguments, on an image valid at address a: the slice
   keeps its length; the result is valid at a; before and after, the accessors report the same
   capacity, and the new contents and the reported outcome are those of the list operation on the
   old contents; len() is the stored length, within the capacity; size() is the rounded end of the
   stored elements *)
Theorem c11_vec_op_typed : forall pv et l a op bs, wf (TVec et l) = true -> validate (TVec et l) a bs = Ok tt ->
  let t := TVec et l in
  let g := geom_vec et l (blen bs) in
  let r := vec_op pv t op bs in
  blen (fst r) = blen bs /\ validate t a (fst r) = Ok tt /\
  (exists vs vs', view t bs = Ok (VCont (c_cap g) vs) /\ view t (fst r) = Ok (VCont (c_cap g) vs') /\
     (map strip vs', snd r) = tspec_step et (c_cap g) (map strip vs) op /\
     N.of_nat (length vs') = c_len g (fst r) /\ c_len g (fst r) <= c_cap g /\
     absd (edec et) g bs = map strip vs /\ absd (edec et) g (fst r) = map strip vs') /\
  size_m t (fst r) = Ok (ceil_mul (g_d g + g_s g * c_len g (fst r)) (align t)).
Proof. exact vec_op_typed. Qed.

(* one FlatString operation: push_str of well-formed UTF-8, push of a Unicode scalar value, clear
   (str_vop_ok); same conclusions, the contents being the text (a byte list), which stays
   well-formed UTF-8 *)
Theorem c11_str_op_typed : forall pv l a op bs, wf (TStr l) = true -> str_vop_ok op ->
  validate (TStr l) a bs = Ok tt ->
  let t := TStr l in
  let g := geom_str l (blen bs) in
  let r := vec_op pv t op bs in
  blen (fst r) = blen bs /\ validate t a (fst r) = Ok tt /\
  (exists s s', view t bs = Ok (VCont (c_cap g) (map VInt s)) /\ view t (fst r) = Ok (VCont (c_cap g) (map VInt s')) /\
     (s', snd r) = sspec_step (c_cap g) s op /\
     blen s' = c_len g (fst r) /\ c_len g (fst r) <= c_cap g /\ utf8_err s' = None /\
     absd sdec g bs = s /\ absd sdec g (fst r) = s') /\
  size_m t (fst r) = Ok (ceil_mul (isize l + c_len g (fst r)) (ialign l)).
Proof. exact str_op_typed. Qed.

(* the two facts about UTF-8 behind it: concatenation of well-formed texts is well formed;
   char::encode_utf8 of a scalar value (not a surrogate, below 0x110000) is well formed *)
Theorem c11_utf8_app : forall a b, utf8_err a = None -> utf8_err b = None -> utf8_err (a ++ b) = None.
Proof. exact utf8_app. Qed.

Theorem c11_utf8_encode : forall c, c < 55296 \/ (57344 <= c /\ c < 1114112) -> utf8_err (utf8_encode c) = None.
Proof. exact utf8_encode_ok. Qed.

(* every finite history of FlatVec operations from a valid image: the slice keeps its length and is
   valid after every step (vec_trace lists the states passed through), the outcomes and the final
   contents are those of the list model run from the initial contents *)
Theorem c11_history_typed : forall pv et l a ops, wf (TVec et l) = true ->
  forall bs, validate (TVec et l) a bs = Ok tt ->
  let t := TVec et l in
  let g := geom_vec et l (blen bs) in
  let ri := vec_run pv t ops bs in
  blen (fst ri) = blen bs /\ validate t a (fst ri) = Ok tt /\
  Forall (fun b => blen b = blen bs /\ validate t a b = Ok tt) (vec_trace pv t ops bs) /\
  exists vs vs', view t bs = Ok (VCont (c_cap g) vs) /\ view t (fst ri) = Ok (VCont (c_cap g) vs') /\
    (map strip vs', snd ri) = tspec_run et (c_cap g) ops (map strip vs).
Proof. exact vec_history_typed. Qed.

(* the same for FlatString histories of push_str / push / clear *)
Theorem c11_str_history_typed : forall pv l a ops, wf (TStr l) = true -> Forall str_vop_ok ops ->
  forall bs, validate (TStr l) a bs = Ok tt ->
  let t := TStr l in
  let g := geom_str l (blen bs) in
  let ri := vec_run pv t ops bs in
  blen (fst ri) = blen bs /\ validate t a (fst ri) = Ok tt /\
  Forall (fun b => blen b = blen bs /\ validate t a b = Ok tt) (vec_trace pv t ops bs) /\
  exists s s', view t bs = Ok (VCont (c_cap g) (map VInt s)) /\ view t (fst ri) = Ok (VCont (c_cap g) (map VInt s')) /\
    (s', snd ri) = sspec_run (c_cap g) ops s.
Proof. exact str_history_typed. Qed.

(* the item-level premise of the FlexVec edit theorem (c12_edit_vec): a FlatVec / FlatString
   operation maps an item payload valid at its address to a valid payload of the same length.
   item_vop_ok it vo is True unless the item is a FlatString, where it is str_vop_ok vo *)
Theorem c11_item_edit : forall pv it vo, wf it = true -> item_vop_ok it vo ->
  forall pa pl, validate it pa pl = Ok tt ->
  blen (fst (vec_op pv it vo pl)) = blen pl /\ validate it pa (fst (vec_op pv it vo pl)) = Ok tt.
Proof. exact vec_op_item_edit. Qed.

(* c12_edit_vec with that premise discharged: iter_mut().nth(j) followed by a FlatVec / FlatString
   operation on the item keeps the FlexVec valid; item j reads the value of the new payload and
   every other item is unchanged *)
Theorem c12_edit_vec_discharged : forall pv et l a, wf (TFlex et l) = true -> narrow l = true ->
  forall j vo bs vs, item_vop_ok et vo ->
  validate (TFlex et l) a bs = Ok tt -> view (TFlex et l) bs = Ok (VNode 0 vs) ->
  let r := flex_op pv (TFlex et l) a (FEditVec j vo) bs in
  (nth_error vs (N.to_nat j) = None -> r = (bs, OPanic)) /\
  (forall v, nth_error vs (N.to_nat j) = Some v ->
     exists pa pl v', validate et pa pl = Ok tt /\ view et pl = Ok v /\
       snd r = snd (vec_op pv et vo pl) /\ view et (fst (vec_op pv et vo pl)) = Ok v' /\
       blen (fst r) = blen bs /\ validate (TFlex et l) a (fst r) = Ok tt /\
       view (TFlex et l) (fst r) = Ok (VNode 0 (FlexOpsFacts.splice (N.to_nat j) v' vs))).
Proof. exact flex_edit_vec_discharged. Qed.

(* non-vacuity.
   t1 = FlatVec<struct{u8, u32}, u8>: DATA_OFFSET 4, element size 8 with 3 padding bytes, ALIGN 4,
        mapped at address 4 from 23 bytes (3 spare): capacity 2; pushes write 77 into the padding.
   t2 = FlatVec<u16, be::U16>: big-endian length, DATA_OFFSET 2, 9 bytes: capacity 3.
   t3 = FlatVec<u8, u8> mapped from 301 bytes: 300 slots, capacity 255 (limited by the length type).
   ts = FlatString<u16> holding "hé" in 9 bytes: capacity 6. *)
Definition ex_u8 := {| isize := 1; ialign := 1; ibe := false |}.
Definition ex_u16 := {| isize := 2; ialign := 2; ibe := false |}.
Definition ex_u32 := {| isize := 4; ialign := 4; ibe := false |}.
Definition ex_be16 := {| isize := 2; ialign := 1; ibe := true |}.
Definition ex_st := TStruct true (FCons (TInt ex_u8) (FCons (TInt ex_u32) FNil)).
Definition ex_t1 := TVec ex_st ex_u8.
Definition ex_im1 : bytes := [1;9;9;9; 7;0;0;0; 1;2;3;4; 5;5;5;5; 6;6;6;6; 8;8;8].
Definition ex_x := ISeq [IInt 3; IInt 258].
Definition ex_t2 := TVec (TInt ex_u16) ex_be16.
Definition ex_im2 : bytes := [0;2; 1;0; 2;0; 9;9; 7].
Definition ex_t3 := TVec (TInt ex_u8) ex_u8.
Definition ex_im3 : bytes := 255 :: repeat 1 300.
Definition ex_ts := TStr ex_u16.
Definition ex_ims : bytes := [3;0; 104;195;169; 1;2;3; 9].

Example c11_typed_example :
  wf ex_t1 = true /\ narrow ex_u8 = true /\ validate ex_t1 4 ex_im1 = Ok tt /\
  c_cap (geom_vec ex_st ex_u8 23) = 2 /\
  view ex_t1 ex_im1 = Ok (VCont 2 [VNode 0 [VInt 7; VInt 67305985]]) /\
  vec_op (Some 77) ex_t1 (VPush ex_x) ex_im1 =
    ([2;9;9;9; 7;0;0;0; 1;2;3;4; 3;77;77;77; 2;1;0;0; 8;8;8], ODone) /\
  validate ex_t1 4 [2;9;9;9; 7;0;0;0; 1;2;3;4; 3;77;77;77; 2;1;0;0; 8;8;8] = Ok tt /\
  view ex_t1 [2;9;9;9; 7;0;0;0; 1;2;3;4; 3;77;77;77; 2;1;0;0; 8;8;8] =
    Ok (VCont 2 [VNode 0 [VInt 7; VInt 67305985]; VNode 0 [VInt 3; VInt 258]]) /\
  size_m ex_t1 [2;9;9;9; 7;0;0;0; 1;2;3;4; 3;77;77;77; 2;1;0;0; 8;8;8] = Ok 20 /\
  tspec_step ex_st 2 [VNode 0 [VInt 7; VInt 67305985]] (VPush ex_x) =
    ([VNode 0 [VInt 7; VInt 67305985]; VNode 0 [VInt 3; VInt 258]], ODone) /\
  snd (vec_op None ex_t1 (VPush ex_x) [2;9;9;9; 7;0;0;0; 1;2;3;4; 3;77;77;77; 2;1;0;0; 8;8;8]) = ORefused /\
  vec_op None ex_t1 (VSwapRemove 0) [2;9;9;9; 7;0;0;0; 1;2;3;4; 3;77;77;77; 2;1;0;0; 8;8;8] =
    ([1;9;9;9; 3;77;77;77; 2;1;0;0; 3;77;77;77; 2;1;0;0; 8;8;8], ODone) /\
  tspec_step ex_st 2 [VNode 0 [VInt 7; VInt 67305985]; VNode 0 [VInt 3; VInt 258]] (VSwapRemove 0) =
    ([VNode 0 [VInt 3; VInt 258]], ODone) /\
  (* an expression that does not type-check for the element type *)
  vec_op None ex_t1 (VPush (IInt 3)) ex_im1 = (ex_im1, OBad) /\
  snd (tspec_step ex_st 2 [VNode 0 [VInt 7; VInt 67305985]] (VPush (IInt 3))) = OBad /\
  (* big-endian length *)
  wf ex_t2 = true /\ validate ex_t2 2 ex_im2 = Ok tt /\ view ex_t2 ex_im2 = Ok (VCont 3 [VInt 1; VInt 2]) /\
  vec_op None ex_t2 (VRemove 0) ex_im2 = ([0;1; 2;0; 2;0; 9;9; 7], ODone) /\
  validate ex_t2 2 [0;1; 2;0; 2;0; 9;9; 7] = Ok tt /\ view ex_t2 [0;1; 2;0; 2;0; 9;9; 7] = Ok (VCont 3 [VInt 2]) /\
  size_m ex_t2 [0;1; 2;0; 2;0; 9;9; 7] = Ok 4 /\
  tspec_step (TInt ex_u16) 3 [VInt 1; VInt 2] (VRemove 0) = ([VInt 2], ODone) /\
  vec_op None ex_t2 (VExtend [IInt 5; IInt 6; IInt 7]) ex_im2 = ([0;3; 1;0; 2;0; 5;0; 7], ODone) /\
  tspec_step (TInt ex_u16) 3 [VInt 1; VInt 2] (VExtend [IInt 5; IInt 6; IInt 7]) = ([VInt 1; VInt 2; VInt 5], ODone) /\
  (* capacity limited by the length type *)
  validate ex_t3 0 ex_im3 = Ok tt /\ c_cap (geom_vec (TInt ex_u8) ex_u8 301) = 255 /\
  snd (vec_op None ex_t3 (VPush (IInt 1)) ex_im3) = ORefused /\
  snd (vec_op None ex_t3 (VResize 256 (IInt 1)) ex_im3) = OPanic /\
  snd (tspec_step (TInt ex_u8) 255 (repeat (VInt 1) 255) (VResize 256 (IInt 1))) = OPanic /\
  (* a stored length beyond the capacity: neither valid nor well formed *)
  validate ex_t3 0 [5;1;1;1] = Err InsufficientSize 1 /\
  c_len (geom_vec (TInt ex_u8) ex_u8 4) [5;1;1;1] = 5 /\ c_cap (geom_vec (TInt ex_u8) ex_u8 4) = 3 /\
  (* FlatString *)
  wf ex_ts = true /\ validate ex_ts 2 ex_ims = Ok tt /\ view ex_ts ex_ims = Ok (VCont 6 [VInt 104; VInt 195; VInt 169]) /\
  vec_op None ex_ts (SPushChar 8364) ex_ims = ([6;0; 104;195;169; 226;130;172; 9], ODone) /\
  validate ex_ts 2 [6;0; 104;195;169; 226;130;172; 9] = Ok tt /\
  size_m ex_ts [6;0; 104;195;169; 226;130;172; 9] = Ok 8 /\
  sspec_step 6 [104;195;169] (SPushChar 8364) = ([104;195;169; 226;130;172], ODone) /\
  vec_op None ex_ts (SPushChar 128512) ex_ims = (ex_ims, ORefused) /\
  sspec_step 6 [104;195;169] (SPushChar 128512) = ([104;195;169], ORefused) /\
  vec_op None ex_ts VClear ex_ims = ([0;0; 104;195;169; 1;2;3; 9], ODone) /\
  validate ex_ts 2 [0;0; 104;195;169; 1;2;3; 9] = Ok tt /\
  (* the premises of c11_str_op_typed are needed: a surrogate is not a char, a truncated
     sequence is not a &str; the model would store them and the result is invalid *)
  validate ex_ts 2 (fst (vec_op None ex_ts (SPushChar 55296) ex_ims)) = Err InvalidData 5 /\
  validate ex_ts 2 (fst (vec_op None ex_ts (SPushStr [195]) ex_ims)) = Err InvalidData 5 /\
  (* histories *)
  vec_run None ex_ts [SPushChar 8364; SPushStr [33]; VClear; SPushStr [65;66]] ex_ims =
    ([2;0; 65;66;169; 226;130;172; 9], [ODone; ORefused; ODone; ODone]) /\
  sspec_run 6 [SPushChar 8364; SPushStr [33]; VClear; SPushStr [65;66]] [104;195;169] =
    ([65;66], [ODone; ORefused; ODone; ODone]) /\
  vec_run (Some 77) ex_t1 [VPush ex_x; VPush ex_x; VSwapRemove 0; VPop; VPop] ex_im1 =
    ([0;9;9;9; 3;77;77;77; 2;1;0;0; 3;77;77;77; 2;1;0;0; 8;8;8], [ODone; ORefused; ODone; ODone; ORefused]) /\
  tspec_run ex_st 2 [VPush ex_x; VPush ex_x; VSwapRemove 0; VPop; VPop] [VNode 0 [VInt 7; VInt 67305985]] =
    ([], [ODone; ORefused; ODone; ODone; ORefused]).
Proof. vm_compute. repeat split; reflexivity. Qed.

Print Assumptions c11_vec_valid_iff.
Print Assumptions c11_str_valid_iff.
Print Assumptions c11_vec_view.
Print Assumptions c11_elem_decoding.
Print Assumptions c11_step_typed.
Print Assumptions c11_vec_op_typed.
Print Assumptions c11_str_op_typed.
Print Assumptions c11_utf8_app.
Print Assumptions c11_utf8_encode.
Print Assumptions c11_history_typed.
Print Assumptions c11_str_history_typed.
Print Assumptions c11_item_edit.
Print Assumptions c12_edit_vec_discharged.
