(* C18 — a failed in-place assignment leaves a valid value behind; when the target simply has too
   little room for the new content (the failure is detected by the emplacer's outermost check) it is
   left byte for byte unchanged.  Pinned statements only; proofs in Proofs/AssignFacts.v. *)
From Coq Require Import NArith List Bool.
From Flatty.Model Require Import Base Ty Layout Validate View Emplace.
From Flatty.Proofs Require Import AssignFacts.
Open Scope N_scope.

(* flat_vec![..] / FromArray into a FlatVec: an error can only be the capacity check made before
   anything is written — the target is unchanged, for every element type, length type, content,
   buffer and padding policy *)
Theorem c18_vec_from_array_unchanged : forall pv et l is a buf b' k p,
  emplace_u pv (TVec et l) (IVecArr is) a buf = (b', Err k p) -> b' = buf /\ k = InsufficientSize.
Proof. exact vec_from_array_err_unchanged. Qed.

(* FromStr into a FlatString: likewise *)
Theorem c18_str_from_str_unchanged : forall pv l s a buf b' k p,
  emplace_u pv (TStr l) (IStr s) a buf = (b', Err k p) -> b' = buf /\ k = InsufficientSize.
Proof. exact str_from_str_err_unchanged. Qed.

(* the Empty / default emplacers of the three containers never fail *)
Theorem c18_container_default_never_fails : forall pv t a buf,
  (exists et l, t = TVec et l) \/ (exists l, t = TStr l) \/ (exists et l, t = TFlex et l) ->
  forall i, i = IEmpty \/ i = IDefault -> is_err (snd (emplace_u pv t i a buf)) = false.
Proof. exact container_default_not_err. Qed.

(* generated enum initialiser: when the chosen variant does not fit the target's bytes (the check
   made before the tag is written) the target, tag included, is unchanged *)
Theorem c18_enum_variant_does_not_fit_unchanged : forall pv tag d vs k is a buf b' kk p,
  data_offset tag vs <= blen buf ->
  emplace_u pv (TEnum false tag d vs) (IVar k is) a buf = (b', Err kk p) ->
  (let al := umax (ialign tag) (align_variants vs) in
   let dof := data_offset tag vs in
   let data := take (floor_mul (blen (drop dof buf)) al) (drop dof buf) in
   forall fs is', vnth (N.to_nat k) vs = Some fs -> field_inits (ISeq is) (flen fs) = Some is' ->
     fs <> FNil /\ (aligned (a + dof) (align_fields fs) = false \/ blen data < fold_min_size 0 fs)) ->
  b' = buf.
Proof. exact enum_init_check_unchanged. Qed.

(* generated struct initialiser: misalignment / a buffer below the field list's minimum is detected
   before any field is written *)
Theorem c18_struct_gate_unchanged : forall pv fs i a buf is,
  field_inits i (flen fs) = Some is ->
  aligned a (align_fields fs) = false \/ floor_mul (blen buf) (align_fields fs) < fold_min_size 0 fs ->
  exists k, emplace_u pv (TStruct false fs) i a buf = (buf, Err k 0).
Proof. exact struct_init_gate_unchanged. Qed.

(* assign_in_place = the emplacer run on the value's own bytes: unchanged bytes there mean an
   unchanged slice *)
Theorem c18_assign_unchanged : forall pv t i a bs n r,
  bytes_len t (blen bs) = Ok n -> n <= blen bs ->
  emplace_u pv t i a (take n (drop 0 bs)) = (take n (drop 0 bs), r) ->
  assign_in_place pv t i a bs = (bs, r).
Proof. exact assign_unchanged. Qed.

(* ---- known findings (known_findings.txt), with their witnesses ---- *)
Definition u8i := {| isize := 1; ialign := 1; ibe := false |}.
Definition u8 := TInt u8i.

(* class late_field_refusal: emplacers write as they go.  enum { V0(FlatVec<u8,u8>), #[default] V1 }
   holding V1 in 8 bytes with a stale byte behind the tag; assigning V0(flat_vec![8 items]) fails in
   the FIELD's emplacer, after the tag was written: Err, and the target no longer validates *)
Theorem c18_refuted_late_refusal :
  let t := TEnum false u8i 1 (VCons (FCons (TVec u8 u8i) FNil) (VCons FNil VNil)) in
  let cur := [1; 200; 0; 0; 0; 0; 0; 0] in
  let repl := IVar 0 [IVecArr [IInt 1; IInt 2; IInt 3; IInt 4; IInt 5; IInt 6; IInt 7; IInt 8]] in
  wf t = true /\ validate t 0 cur = Ok tt /\
  assign_in_place None t repl 0 cur = ([0; 200; 0; 0; 0; 0; 0; 0], Err InsufficientSize 0) /\
  validate t 0 [0; 200; 0; 0; 0; 0; 0; 0] = Err InsufficientSize 2.
Proof. vm_compute. repeat split; reflexivity. Qed.

(* the same class on a struct: struct { a: u8, v: FlatVec<u8,u8> } holding {1,[2]}; the failing
   assignment has already overwritten a — the target stays valid but is not unchanged *)
Theorem c18_refuted_late_refusal_struct :
  let t := TStruct false (FCons u8 (FCons (TVec u8 u8i) FNil)) in
  let repl := ISeq [IInt 7; IVecArr [IInt 1; IInt 2; IInt 3; IInt 4; IInt 5]] in
  validate t 0 [1; 1; 2; 0] = Ok tt /\
  assign_in_place None t repl 0 [1; 1; 2; 0] = ([7; 1; 2; 0], Err InsufficientSize 0) /\
  validate t 0 [7; 1; 2; 0] = Ok tt.
Proof. vm_compute. repeat split; reflexivity. Qed.

(* class iter_emplacer: vec::FromIterator learns that the content does not fit only after writing a
   prefix of it: the target stays valid and holds that prefix instead of the old value *)
Theorem c18_refuted_iter_emplacer :
  let t := TVec u8 u8i in
  assign_in_place None t (IVecIter [IInt 9; IInt 8; IInt 7; IInt 6]) 0 [2; 1; 2]
    = ([2; 9; 8], Err InsufficientSize 0) /\
  validate t 0 [2; 9; 8] = Ok tt.
Proof. vm_compute. split; reflexivity. Qed.

(* non-vacuity of the unchanged theorems: FlatVec<u8,u8> holding [1,2] in 3 bytes, flat_vec![5 items] *)
Example c18_example :
  emplace_u None (TVec u8 u8i) (IVecArr [IInt 1; IInt 2; IInt 3; IInt 4; IInt 5]) 0 [2; 1; 2]
  = ([2; 1; 2], Err InsufficientSize 0).
Proof. vm_compute. reflexivity. Qed.

Print Assumptions c18_vec_from_array_unchanged.
Print Assumptions c18_str_from_str_unchanged.
Print Assumptions c18_container_default_never_fails.
Print Assumptions c18_enum_variant_does_not_fit_unchanged.
Print Assumptions c18_struct_gate_unchanged.
Print Assumptions c18_assign_unchanged.
Print Assumptions c18_refuted_late_refusal.
Print Assumptions c18_refuted_late_refusal_struct.
Print Assumptions c18_refuted_iter_emplacer.
