(* C12 / C14 / C13 (nested) — an item of a FlexVec that is itself a FlexVec, edited in place through
   iter_mut().nth(j) followed by a FlexVec operation on the item (Model/Ops.v flex_edit_flex).
   Pinned statements only; proofs in Proofs/FlexNestedFacts.v.

   Reading guide.
   - The outer vector is FlexVec<FlexVec<it, il>, l>: et = TFlex it il is the item type, t = TFlex et l.
     Its image bs mapped at address a is valid (validate t a bs = Ok tt) and reads the items vs
     (view t bs = Ok (VNode 0 vs)); every item value is itself VNode 0 <inner items> (c12n_item_node).
   - flex_edit_flex pv t a j fo bs = (slice afterwards, what the call reported): fo is the operation
     of the inner vector (flex_op at the item type, run on the payload of item j at its address).
   - splice j v' vs = vs with element j replaced by v' (Props/C12.v c12_splice).
   - Hypotheses: the definition is accepted (wf t), the offset type of the outer vector is at most 8
     bytes wide (narrow l); where a theorem about the inner operation is used, the same for the inner
     offset type (narrow il). *)
From Coq Require Import NArith List Bool.
From Flatty.Model Require Import Base Ty Layout Validate View Emplace Ops.
From Flatty.Proofs Require Import ChainFacts ViewFacts EmplaceSpec FlexOpsFacts FlexNestedFacts.
Open Scope N_scope.

(* the generic statement, the shape of c12_edit_vec.  Premise: fo maps a valid item payload to a valid
   payload of the same length.  With j out of range the call panics and the slice is returned;
   otherwise the outcome is that of fo on the payload of item j, the slice keeps its length and is
   valid, item j reads the value of the new payload and every other item is unchanged *)
Theorem c12n_edit_flex : forall pv it il l a,
  wf (TFlex (TFlex it il) l) = true -> narrow l = true ->
  forall j fo bs vs,
  (forall pa pl, validate (TFlex it il) pa pl = Ok tt ->
     blen (fst (flex_op pv (TFlex it il) pa fo pl)) = blen pl /\
     validate (TFlex it il) pa (fst (flex_op pv (TFlex it il) pa fo pl)) = Ok tt) ->
  validate (TFlex (TFlex it il) l) a bs = Ok tt -> view (TFlex (TFlex it il) l) bs = Ok (VNode 0 vs) ->
  let r := flex_edit_flex pv (TFlex (TFlex it il) l) a j fo bs in
  (nth_error vs (N.to_nat j) = None -> r = (bs, OPanic)) /\
  (forall v, nth_error vs (N.to_nat j) = Some v ->
     exists pa pl v', validate (TFlex it il) pa pl = Ok tt /\ view (TFlex it il) pl = Ok v /\
       snd r = snd (flex_op pv (TFlex it il) pa fo pl) /\
       view (TFlex it il) (fst (flex_op pv (TFlex it il) pa fo pl)) = Ok v' /\
       blen (fst r) = blen bs /\ validate (TFlex (TFlex it il) l) a (fst r) = Ok tt /\
       view (TFlex (TFlex it il) l) (fst r) = Ok (VNode 0 (splice (N.to_nat j) v' vs))).
Proof. exact flex_edit_flex_ok. Qed.

(* the frame (C14): premise only that fo keeps the length of the slice it is given.  The result
   differs from bs only inside the payload [p, p+n) of item j; there it is the result of fo on the old
   payload, which is a valid item at its address pa *)
Theorem c12n_edit_flex_frame : forall pv it il l a,
  wf (TFlex (TFlex it il) l) = true -> narrow l = true ->
  forall j fo bs vs,
  (forall pa pl, blen (fst (flex_op pv (TFlex it il) pa fo pl)) = blen pl) ->
  validate (TFlex (TFlex it il) l) a bs = Ok tt -> view (TFlex (TFlex it il) l) bs = Ok (VNode 0 vs) ->
  let r := flex_edit_flex pv (TFlex (TFlex it il) l) a j fo bs in
  forall v, nth_error vs (N.to_nat j) = Some v ->
    exists p n pa, p + n <= blen bs /\ take p (fst r) = take p bs /\
      drop (p + n) (fst r) = drop (p + n) bs /\
      take n (drop p (fst r)) = fst (flex_op pv (TFlex it il) pa fo (take n (drop p bs))) /\
      validate (TFlex it il) pa (take n (drop p bs)) = Ok tt.
Proof. exact flex_edit_flex_frame. Qed.

(* the same with the premise asked for valid payloads only (the length is not kept by every operation
   on every slice: clear on a slice shorter than one offset slot writes a whole slot); in addition
   the old payload reads the old value of item j, the call reports what fo reports, and the slice
   keeps its length *)
Theorem c12n_edit_flex_frame_valid : forall pv it il l a,
  wf (TFlex (TFlex it il) l) = true -> narrow l = true ->
  forall j fo bs vs,
  (forall pa pl, validate (TFlex it il) pa pl = Ok tt ->
     blen (fst (flex_op pv (TFlex it il) pa fo pl)) = blen pl) ->
  validate (TFlex (TFlex it il) l) a bs = Ok tt -> view (TFlex (TFlex it il) l) bs = Ok (VNode 0 vs) ->
  let r := flex_edit_flex pv (TFlex (TFlex it il) l) a j fo bs in
  forall v, nth_error vs (N.to_nat j) = Some v ->
    exists p n pa, p + n <= blen bs /\ take p (fst r) = take p bs /\
      drop (p + n) (fst r) = drop (p + n) bs /\
      take n (drop p (fst r)) = fst (flex_op pv (TFlex it il) pa fo (take n (drop p bs))) /\
      validate (TFlex it il) pa (take n (drop p bs)) = Ok tt /\
      view (TFlex it il) (take n (drop p bs)) = Ok v /\
      snd r = snd (flex_op pv (TFlex it il) pa fo (take n (drop p bs))) /\ blen (fst r) = blen bs.
Proof. exact flex_edit_flex_frame_valid. Qed.

(* the frame needs no premise for pop / truncate / clear of the inner vector ... *)
Theorem c12n_edit_flex_frame_shrink : forall pv it il l a,
  wf (TFlex (TFlex it il) l) = true -> narrow l = true -> narrow il = true ->
  forall j fo bs vs, (fo = FPop \/ (exists k, fo = FTruncate k) \/ fo = FClear) ->
  validate (TFlex (TFlex it il) l) a bs = Ok tt -> view (TFlex (TFlex it il) l) bs = Ok (VNode 0 vs) ->
  let r := flex_edit_flex pv (TFlex (TFlex it il) l) a j fo bs in
  forall v, nth_error vs (N.to_nat j) = Some v ->
    exists p n pa, p + n <= blen bs /\ take p (fst r) = take p bs /\
      drop (p + n) (fst r) = drop (p + n) bs /\
      take n (drop p (fst r)) = fst (flex_op pv (TFlex it il) pa fo (take n (drop p bs))) /\
      validate (TFlex it il) pa (take n (drop p bs)) = Ok tt.
Proof. exact flex_edit_flex_frame_shrink. Qed.

(* ... nor for the push of a well-typed expression of a sized inner item type *)
Theorem c12n_edit_flex_frame_push_sized : forall pv it il l a,
  wf (TFlex (TFlex it il) l) = true -> narrow l = true -> narrow il = true ->
  forall j i bs vs, wf it = true -> sized it = true -> init_ok it i = true ->
  validate (TFlex (TFlex it il) l) a bs = Ok tt -> view (TFlex (TFlex it il) l) bs = Ok (VNode 0 vs) ->
  let r := flex_edit_flex pv (TFlex (TFlex it il) l) a j (FPush i) bs in
  forall v, nth_error vs (N.to_nat j) = Some v ->
    exists p n pa, p + n <= blen bs /\ take p (fst r) = take p bs /\
      drop (p + n) (fst r) = drop (p + n) bs /\
      take n (drop p (fst r)) = fst (flex_op pv (TFlex it il) pa (FPush i) (take n (drop p bs))) /\
      validate (TFlex it il) pa (take n (drop p bs)) = Ok tt.
Proof. exact flex_edit_flex_frame_push_sized. Qed.

(* every item of a valid image of the outer vector reads as a node of its own items *)
Theorem c12n_item_node : forall it il l a,
  wf (TFlex (TFlex it il) l) = true -> narrow l = true -> narrow il = true ->
  forall bs vs j v,
  validate (TFlex (TFlex it il) l) a bs = Ok tt -> view (TFlex (TFlex it il) l) bs = Ok (VNode 0 vs) ->
  nth_error vs (N.to_nat j) = Some v -> exists ws, v = VNode 0 ws.
Proof. exact (nested_item_node None). Qed.

(* pop() of inner vector j (no premise): refused exactly when it is empty, and then the slice is
   returned byte for byte; otherwise it completes; the slice keeps its length and is valid; inner
   vector j loses its last item, every other item of the outer vector is unchanged *)
Theorem c12n_edit_flex_pop : forall pv it il l a,
  wf (TFlex (TFlex it il) l) = true -> narrow l = true -> narrow il = true ->
  forall j bs vs ws,
  validate (TFlex (TFlex it il) l) a bs = Ok tt -> view (TFlex (TFlex it il) l) bs = Ok (VNode 0 vs) ->
  nth_error vs (N.to_nat j) = Some (VNode 0 ws) ->
  let r := flex_edit_flex pv (TFlex (TFlex it il) l) a j FPop bs in
  (ws = [] -> snd r = ORefused /\ fst r = bs) /\ (ws <> [] -> snd r = ODone) /\
  blen (fst r) = blen bs /\ validate (TFlex (TFlex it il) l) a (fst r) = Ok tt /\
  view (TFlex (TFlex it il) l) (fst r) = Ok (VNode 0 (splice (N.to_nat j) (VNode 0 (removelast ws)) vs)).
Proof. exact flex_edit_flex_pop. Qed.

(* truncate(k) of inner vector j: completes, same length, valid, inner vector j keeps its first k items *)
Theorem c12n_edit_flex_truncate : forall pv it il l a,
  wf (TFlex (TFlex it il) l) = true -> narrow l = true -> narrow il = true ->
  forall j k bs vs ws,
  validate (TFlex (TFlex it il) l) a bs = Ok tt -> view (TFlex (TFlex it il) l) bs = Ok (VNode 0 vs) ->
  nth_error vs (N.to_nat j) = Some (VNode 0 ws) ->
  let r := flex_edit_flex pv (TFlex (TFlex it il) l) a j (FTruncate k) bs in
  snd r = ODone /\ blen (fst r) = blen bs /\ validate (TFlex (TFlex it il) l) a (fst r) = Ok tt /\
  view (TFlex (TFlex it il) l) (fst r) = Ok (VNode 0 (splice (N.to_nat j) (VNode 0 (firstn (N.to_nat k) ws)) vs)).
Proof. exact flex_edit_flex_truncate. Qed.

(* clear() of inner vector j: completes, same length, valid, inner vector j is empty *)
Theorem c12n_edit_flex_clear : forall pv it il l a,
  wf (TFlex (TFlex it il) l) = true -> narrow l = true -> narrow il = true ->
  forall j bs vs ws,
  validate (TFlex (TFlex it il) l) a bs = Ok tt -> view (TFlex (TFlex it il) l) bs = Ok (VNode 0 vs) ->
  nth_error vs (N.to_nat j) = Some (VNode 0 ws) ->
  let r := flex_edit_flex pv (TFlex (TFlex it il) l) a j FClear bs in
  snd r = ODone /\ blen (fst r) = blen bs /\ validate (TFlex (TFlex it il) l) a (fst r) = Ok tt /\
  view (TFlex (TFlex it il) l) (fst r) = Ok (VNode 0 (splice (N.to_nat j) (VNode 0 []) vs)).
Proof. exact flex_edit_flex_clear. Qed.

(* the three together *)
Theorem c12n_edit_flex_shrink : forall pv it il l a,
  wf (TFlex (TFlex it il) l) = true -> narrow l = true -> narrow il = true ->
  forall j k bs vs ws,
  validate (TFlex (TFlex it il) l) a bs = Ok tt -> view (TFlex (TFlex it il) l) bs = Ok (VNode 0 vs) ->
  nth_error vs (N.to_nat j) = Some (VNode 0 ws) ->
  (let r := flex_edit_flex pv (TFlex (TFlex it il) l) a j FPop bs in
   (ws = [] -> snd r = ORefused /\ fst r = bs) /\ (ws <> [] -> snd r = ODone) /\
   blen (fst r) = blen bs /\ validate (TFlex (TFlex it il) l) a (fst r) = Ok tt /\
   view (TFlex (TFlex it il) l) (fst r) = Ok (VNode 0 (splice (N.to_nat j) (VNode 0 (removelast ws)) vs))) /\
  (let r := flex_edit_flex pv (TFlex (TFlex it il) l) a j (FTruncate k) bs in
   snd r = ODone /\ blen (fst r) = blen bs /\ validate (TFlex (TFlex it il) l) a (fst r) = Ok tt /\
   view (TFlex (TFlex it il) l) (fst r) = Ok (VNode 0 (splice (N.to_nat j) (VNode 0 (firstn (N.to_nat k) ws)) vs))) /\
  (let r := flex_edit_flex pv (TFlex (TFlex it il) l) a j FClear bs in
   snd r = ODone /\ blen (fst r) = blen bs /\ validate (TFlex (TFlex it il) l) a (fst r) = Ok tt /\
   view (TFlex (TFlex it il) l) (fst r) = Ok (VNode 0 (splice (N.to_nat j) (VNode 0 []) vs))).
Proof.
  intros pv it il l a Hw Hn Hni j k bs vs ws Hv Hview Hj.
  split; [exact (flex_edit_flex_pop pv it il l a Hw Hn Hni j bs vs ws Hv Hview Hj)|].
  split; [exact (flex_edit_flex_truncate pv it il l a Hw Hn Hni j k bs vs ws Hv Hview Hj)|
          exact (flex_edit_flex_clear pv it il l a Hw Hn Hni j bs vs ws Hv Hview Hj)].
Qed.

(* push(i) into inner vector j, sized inner item type, well-typed expression: the premise of
   c12n_edit_flex holds (from c12_push with c12_push_sized) ... *)
Theorem c12n_push_sized_premise : forall pv it il l,
  wf (TFlex (TFlex it il) l) = true -> narrow il = true ->
  forall i, wf it = true -> sized it = true -> init_ok it i = true ->
  forall pa pl, validate (TFlex it il) pa pl = Ok tt ->
    blen (fst (flex_op pv (TFlex it il) pa (FPush i) pl)) = blen pl /\
    validate (TFlex it il) pa (fst (flex_op pv (TFlex it il) pa (FPush i) pl)) = Ok tt.
Proof. exact push_sized_premise. Qed.

(* ... hence its conclusion: the outcome is that of the inner push (completed, or one of its errors),
   the slice keeps its length and stays valid, item j reads the inner vector after the push *)
Theorem c12n_edit_flex_push_sized : forall pv it il l a,
  wf (TFlex (TFlex it il) l) = true -> narrow l = true -> narrow il = true ->
  forall j i bs vs, wf it = true -> sized it = true -> init_ok it i = true ->
  validate (TFlex (TFlex it il) l) a bs = Ok tt -> view (TFlex (TFlex it il) l) bs = Ok (VNode 0 vs) ->
  let r := flex_edit_flex pv (TFlex (TFlex it il) l) a j (FPush i) bs in
  (nth_error vs (N.to_nat j) = None -> r = (bs, OPanic)) /\
  (forall v, nth_error vs (N.to_nat j) = Some v ->
     exists pa pl v', validate (TFlex it il) pa pl = Ok tt /\ view (TFlex it il) pl = Ok v /\
       snd r = snd (flex_op pv (TFlex it il) pa (FPush i) pl) /\
       view (TFlex it il) (fst (flex_op pv (TFlex it il) pa (FPush i) pl)) = Ok v' /\
       blen (fst r) = blen bs /\ validate (TFlex (TFlex it il) l) a (fst r) = Ok tt /\
       view (TFlex (TFlex it il) l) (fst r) = Ok (VNode 0 (splice (N.to_nat j) v' vs))).
Proof. exact flex_edit_flex_push_sized. Qed.

(* C13: a refused pop of an inner vector returns the slice byte for byte — for every type, address,
   index and slice, valid or not *)
Theorem c13n_edit_flex_refused : forall pv t a j bs,
  snd (flex_edit_flex pv t a j FPop bs) = ORefused -> fst (flex_edit_flex pv t a j FPop bs) = bs.
Proof. exact flex_edit_flex_refused. Qed.

(* non-vacuity: FlexVec<FlexVec<u8, u8>, u8> (OFFSET_SIZE 1, ALIGN 1) holding one inner vector with
   the items 1 and 2 and five spare bytes; FlexVec<FlexVec<u32, u8>, u8> (OFFSET_SIZE 4, ALIGN 4) at
   address 4 with two bytes behind the floored data *)
Example c12n_example :
  let l8 := {| isize := 1; ialign := 1; ibe := false |} in
  let u32 := {| isize := 4; ialign := 4; ibe := false |} in
  let u8 := TInt l8 in
  let t := TFlex (TFlex u8 l8) l8 in
  let t2 := TFlex (TFlex (TInt u32) l8) l8 in
  let imA := [255; 2;1; 255;2; 9;9;9;9;9] in
  let imB := [255; 2;1; 0;2; 9;9;9;9;9] in
  let imC := [4; 2;1; 0; 255; 0; 9;9;9;9] in
  let im2 := [255;0;0;0; 8;9;9;9; 1;0;0;0; 255;9;9;9; 2;0;0;0; 9;9;9;9; 9;9;9;9; 9;9;9;9; 7;7] in
  wf t = true /\ wf t2 = true /\ narrow l8 = true /\ sized u8 = true /\ init_ok u8 (IInt 7) = true /\
  flex_op None t 0 (FPush (IFlex [IInt 1; IInt 2])) [0; 9;9;9;9; 9;9;9;9;9] = (imA, ODone) /\
  validate t 0 imA = Ok tt /\ view t imA = Ok (VNode 0 [VNode 0 [VInt 1; VInt 2]]) /\ size_m t imA = Ok 5 /\
  (* pop of the inner vector: a zero into its second slot *)
  flex_edit_flex None t 0 0 FPop imA = (imB, ODone) /\
  validate t 0 imB = Ok tt /\ view t imB = Ok (VNode 0 [VNode 0 [VInt 1]]) /\ size_m t imB = Ok 4 /\
  (* a push into the outer vector then puts the new slot behind the inner terminator: the bytes of
     item 0 including its zero terminator are unchanged *)
  flex_op None t 0 (FPush IEmpty) imB = (imC, ODone) /\
  validate t 0 imC = Ok tt /\ view t imC = Ok (VNode 0 [VNode 0 [VInt 1]; VNode 0 []]) /\ size_m t imC = Ok 6 /\
  take 3 (drop 1 imC) = take 3 (drop 1 imB) /\
  (* a missing item: panic, the slice returned *)
  flex_edit_flex None t 0 1 FPop imA = (imA, OPanic) /\
  flex_edit_flex None t 0 2 FPop imC = (imC, OPanic) /\
  (* pop of an empty inner vector: refused, the slice returned *)
  flex_edit_flex None t 0 1 FPop imC = (imC, ORefused) /\
  (* the other inner operations *)
  flex_edit_flex None t 0 0 FClear imA = ([255; 0;1; 255;2; 9;9;9;9;9], ODone) /\
  flex_edit_flex None t 0 0 (FTruncate 1) imA = (imB, ODone) /\
  flex_edit_flex None t 0 0 (FTruncate 2) imA = (imA, ODone) /\
  flex_edit_flex None t 0 0 (FPush (IInt 7)) imA = ([255; 2;1; 2;2; 255;7; 9;9;9], ODone) /\
  view t [255; 2;1; 2;2; 255;7; 9;9;9] = Ok (VNode 0 [VNode 0 [VInt 1; VInt 2; VInt 7]]) /\
  (* a sealed inner vector (item 0 of imC ends at the next outer slot) has no room: the error of the
     inner push is reported and nothing changes; the last inner vector takes the item *)
  flex_edit_flex None t 0 0 (FPush (IInt 7)) imC = (imC, OErr InsufficientSize) /\
  flex_edit_flex None t 0 1 (FPush (IInt 7)) imC = ([4; 2;1; 0; 255; 255;7; 9;9;9], ODone) /\
  view t [4; 2;1; 0; 255; 255;7; 9;9;9] = Ok (VNode 0 [VNode 0 [VInt 1]; VNode 0 [VInt 7]]) /\
  (* alignment 4, address 4, two bytes behind the floored data stay *)
  validate t2 4 im2 = Ok tt /\ view t2 im2 = Ok (VNode 0 [VNode 0 [VInt 1; VInt 2]]) /\ size_m t2 im2 = Ok 20 /\
  flex_edit_flex None t2 4 0 FPop im2 =
    ([255;0;0;0; 8;9;9;9; 1;0;0;0; 0;9;9;9; 2;0;0;0; 9;9;9;9; 9;9;9;9; 9;9;9;9; 7;7], ODone) /\
  flex_edit_flex None t2 4 0 (FPush (IInt 5)) im2 =
    ([255;0;0;0; 8;9;9;9; 1;0;0;0; 8;9;9;9; 2;0;0;0; 255;9;9;9; 5;0;0;0; 9;9;9;9; 7;7], ODone) /\
  validate t2 4 [255;0;0;0; 8;9;9;9; 1;0;0;0; 8;9;9;9; 2;0;0;0; 255;9;9;9; 5;0;0;0; 9;9;9;9; 7;7] = Ok tt /\
  view t2 [255;0;0;0; 8;9;9;9; 1;0;0;0; 8;9;9;9; 2;0;0;0; 255;9;9;9; 5;0;0;0; 9;9;9;9; 7;7] =
    Ok (VNode 0 [VNode 0 [VInt 1; VInt 2; VInt 5]]).
Proof. vm_compute. repeat split; reflexivity. Qed.

Print Assumptions c12n_edit_flex.
Print Assumptions c12n_edit_flex_frame.
Print Assumptions c12n_edit_flex_frame_valid.
Print Assumptions c12n_edit_flex_frame_shrink.
Print Assumptions c12n_edit_flex_frame_push_sized.
Print Assumptions c12n_item_node.
Print Assumptions c12n_edit_flex_pop.
Print Assumptions c12n_edit_flex_truncate.
Print Assumptions c12n_edit_flex_clear.
Print Assumptions c12n_edit_flex_shrink.
Print Assumptions c12n_push_sized_premise.
Print Assumptions c12n_edit_flex_push_sized.
Print Assumptions c13n_edit_flex_refused.
