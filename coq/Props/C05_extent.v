(* C05 (reference extent) — size() of a valid value is the reference extent of its encoding: the end
   of the used data, found from the documented format with the reference C layout
   (Proofs/ExtentSpec.v, written independently of the size() code), rounded up to the alignment of
   the type.  Pinned statements only; proofs in Proofs/ExtentFacts.v. *)
From Coq Require Import NArith List Bool.
From Flatty.Model Require Import Base Ty Layout Validate View Emplace.
From Flatty.Proofs Require Import ViewFacts FormatSpec ExtentSpec EmplaceSpec EmplaceUnsizedFacts ExtentFacts.
Open Scope N_scope.

(* for every accepted definition, address and slice that validates, the reference extent of the
   slice is defined and size() returns exactly that number *)
Theorem c05_size_is_reference_extent : forall t a bs, wf t = true ->
  validate t a bs = Ok tt ->
  exists e, ref_extent t bs = Some e /\ size_m t bs = Ok e.
Proof. exact valid_size_ref_extent. Qed.

(* stronger, and without validity: on any slice on which size() returns a number at all, that number
   is the reference extent of the slice *)
Theorem c05_size_returns_reference_extent : forall t bs k, wf t = true ->
  size_m t bs = Ok k -> ref_extent t bs = Some k.
Proof. exact size_ref_extent. Qed.

(* the reference extent of a valid value lies within the slice, is a multiple of the alignment of
   the type and is at least MIN_SIZE *)
Theorem c05_reference_extent_within : forall t a bs, wf t = true ->
  validate t a bs = Ok tt ->
  exists e, ref_extent t bs = Some e /\ e <= blen bs /\ e mod align t = 0 /\ min_size t <= e.
Proof. exact valid_ref_extent_within. Qed.

(* for an emplaced value the reference extent of the image the emplacer leaves is the closed formula
   extent(content) of EmplaceSpec *)
Theorem c05_emplaced_reference_extent : forall t i, wf t = true -> narrow_ty t = true ->
  init_ok t i = true -> utf8_init i = true ->
  forall pv a buf buf',
    new_in_place pv t i a buf = (buf', Ok tt) -> ref_extent t buf' = Some (extent t i).
Proof. exact emplaced_ref_extent. Qed.

(* non-vacuity: FlexVec<FlatVec<u8, u8>, u8> with two items (offset 3, then the L::MAX marker): the
   used data ends after the second item (7), also with bytes behind it; the same chain cut by a 0
   slot ends after that slot (4); struct { a: u32, b: FlatVec<u8, u16> } with two elements uses 8
   bytes, with three elements 9 rounded up to 12; an enum { A, B(u16, FlatString<u8>) } emplaced as
   B(513, "hi") in a garbage buffer has the reference extent extent(content) = 8 *)
Example c05_extent_example :
  let u8 := TInt {| isize := 1; ialign := 1; ibe := false |} in
  let u32 := TInt {| isize := 4; ialign := 4; ibe := false |} in
  let l8 := {| isize := 1; ialign := 1; ibe := false |} in
  let l16 := {| isize := 2; ialign := 2; ibe := false |} in
  let tf := TFlex (TVec u8 l8) l8 in
  let mf := [3;1;7; 255;2;8;9] in
  let ts := TStruct false (FCons u32 (FCons (TVec u8 l16) FNil)) in
  let ms := [1;0;0;0; 2;0; 7;8] in
  let ms3 := [1;0;0;0; 3;0; 7;8; 9;0;0;0] in
  let te := TEnum false l8 0 (VCons FNil (VCons (FCons (TInt l16) (FCons (TStr l8) FNil)) VNil)) in
  let ie := IVar 1 [IInt 513; IStr [104; 105]] in
  let r := new_in_place None te ie 0 (repeat 170 12) in
  wf tf = true /\ validate tf 0 mf = Ok tt /\ ref_extent tf mf = Some 7 /\ size_m tf mf = Ok 7 /\
  validate tf 0 (mf ++ [5;5]) = Ok tt /\ ref_extent tf (mf ++ [5;5]) = Some 7 /\
  validate tf 0 [3;1;7;0;9;9] = Ok tt /\ ref_extent tf [3;1;7;0;9;9] = Some 4 /\ size_m tf [3;1;7;0;9;9] = Ok 4 /\
  wf ts = true /\ validate ts 0 ms = Ok tt /\ ref_extent ts ms = Some 8 /\ size_m ts ms = Ok 8 /\
  validate ts 0 (ms ++ [9;9;9;9;9]) = Ok tt /\ ref_extent ts (ms ++ [9;9;9;9;9]) = Some 8 /\
  validate ts 0 ms3 = Ok tt /\ ref_extent ts ms3 = Some 12 /\ size_m ts ms3 = Ok 12 /\
  ref_extent ts [1;0;0] = None /\
  wf te = true /\ snd r = Ok tt /\ extent te ie = 8 /\ ref_extent te (fst r) = Some 8.
Proof. vm_compute. repeat split; reflexivity. Qed.

Print Assumptions c05_size_is_reference_extent.
Print Assumptions c05_size_returns_reference_extent.
Print Assumptions c05_reference_extent_within.
Print Assumptions c05_emplaced_reference_extent.
