(* C14 (an inner FlexVec of a FlexVec that is the unsized tail of a struct / of an enum variant, grown or
   shrunk in place through the mapped value: x.tail.iter_mut().nth(j) then a FlexVec operation on the item) —
   Model/Ops.v nested_flex_edit_flex.  Editing the inner vector never changes a sibling field, a tag, or a
   byte outside the tail's slice, and the bytes of the WHOLE value validate afterwards.
   Pinned statements only; proofs in Proofs/FlexNestedTailFacts.v.

   Reading guide (see Props/C14_nested.v and Props/C12_nested.v).
   - tail_container t bs = Some (p, n, ct): following the last fields of the value mapped from bs one reaches
     the container ct = FlexVec<FlexVec<it, il>, l> whose field reference covers the bytes [p, p + n) of bs.
   - nested_flex_edit_flex pv t a j fo bs: flex_edit_flex (the operation fo of the inner vector run on the
     payload of item j of the outer vector) run on that sub-slice at its address a + p, spliced back.
     With j out of range flex_edit_flex returns the sub-slice and OPanic.
   - tail_depth, replace_tail, siblings: Proofs/NestedOpsFacts.v (Props/C14_nested.v reading guide).
   - Hypotheses: the definition is accepted (wf t), the whole slice validates at a, the offset type l of the
     outer vector is at most 8 bytes wide (narrow l); fo maps a valid payload of the item type to a valid
     payload of the same length (the premise of c12n_edit_flex) — discharged for pop / truncate / clear when
     the inner offset type is at most 8 bytes wide (narrow il). *)
From Coq Require Import NArith List Bool.
From Flatty.Model Require Import Base Ty Layout Validate View Emplace Ops.
From Flatty.Proofs Require Import NestedOpsFacts FlexNestedFacts FlexNestedTailFacts.
Import ListNotations.
Open Scope N_scope.

(* 1. An operation fo of inner vector j through the nested tail of a valid value (the shape of
   c14_nested_flex_op): the slice keeps its length and validates, no byte outside [p, p + n) changes, the tail
   stays where it is, the tail slice and the reported outcome are those of flex_edit_flex on a top-level
   FlexVec<FlexVec<it, il>, l> mapped from the sub-slice at address a + p (which validates there), and the
   accessors read the old value with exactly the tail replaced by what they read from the new tail slice. *)
Theorem c14_nested_edit_flex : forall pv t a j fo bs p n it il l,
  wf t = true -> validate t a bs = Ok tt ->
  tail_container t bs = Some (p, n, TFlex (TFlex it il) l) -> narrow l = true ->
  (forall pa pl, validate (TFlex it il) pa pl = Ok tt ->
     blen (fst (flex_op pv (TFlex it il) pa fo pl)) = blen pl /\
     validate (TFlex it il) pa (fst (flex_op pv (TFlex it il) pa fo pl)) = Ok tt) ->
  let ct := TFlex (TFlex it il) l in
  let sub := take n (drop p bs) in
  let r := nested_flex_edit_flex pv t a j fo bs in
  blen (fst r) = blen bs /\ validate t a (fst r) = Ok tt /\
  take p (fst r) = take p bs /\ drop (p + n) (fst r) = drop (p + n) bs /\
  validate ct (a + p) sub = Ok tt /\
  take n (drop p (fst r)) = fst (flex_edit_flex pv ct (a + p) j fo sub) /\
  snd r = snd (flex_edit_flex pv ct (a + p) j fo sub) /\
  tail_container t (fst r) = Some (p, n, ct) /\ tail_depth t (fst r) = tail_depth t bs /\
  exists v w', view t bs = Ok v /\ view ct (fst (flex_edit_flex pv ct (a + p) j fo sub)) = Ok w' /\
    view t (fst r) = Ok (replace_tail (tail_depth t bs) v w').
Proof. exact nested_flex_edit_flex_spelled. Qed.

(* ... the new tail slice has the length of the old one and is itself a valid image of the outer vector at
   a + p (the conjunct c14_nested_flex_op has in addition), and the state afterwards is related to the state
   before by nested_rel (so it composes with c14_nested_history) *)
Theorem c14_nested_edit_flex_tail_valid : forall pv t a j fo bs p n it il l,
  wf t = true -> validate t a bs = Ok tt ->
  tail_container t bs = Some (p, n, TFlex (TFlex it il) l) -> narrow l = true ->
  (forall pa pl, validate (TFlex it il) pa pl = Ok tt ->
     blen (fst (flex_op pv (TFlex it il) pa fo pl)) = blen pl /\
     validate (TFlex it il) pa (fst (flex_op pv (TFlex it il) pa fo pl)) = Ok tt) ->
  let ct := TFlex (TFlex it il) l in
  let sub := take n (drop p bs) in
  blen (fst (flex_edit_flex pv ct (a + p) j fo sub)) = n /\
  validate ct (a + p) (fst (flex_edit_flex pv ct (a + p) j fo sub)) = Ok tt.
Proof. exact nested_flex_edit_flex_tail_valid. Qed.

Theorem c14_nested_edit_flex_rel : forall pv t a j fo bs p n it il l,
  wf t = true -> validate t a bs = Ok tt ->
  tail_container t bs = Some (p, n, TFlex (TFlex it il) l) -> narrow l = true ->
  (forall pa pl, validate (TFlex it il) pa pl = Ok tt ->
     blen (fst (flex_op pv (TFlex it il) pa fo pl)) = blen pl /\
     validate (TFlex it il) pa (fst (flex_op pv (TFlex it il) pa fo pl)) = Ok tt) ->
  nested_rel t a p n (TFlex (TFlex it il) l) bs (fst (nested_flex_edit_flex pv t a j fo bs)).
Proof.
  intros pv t a j fo bs p n it il l Hw Hv Htc Hnar Hf.
  exact (proj2 (proj2 (proj2 (nested_flex_edit_flex_ok pv t a j fo bs p n it il l Hw Hv Htc Hnar Hf)))).
Qed.

(* 2. pop / truncate / clear of inner vector j: the same conclusion with no premise on the operation *)
Theorem c14_nested_edit_flex_shrink : forall pv t a j fo bs p n it il l,
  wf t = true -> validate t a bs = Ok tt ->
  tail_container t bs = Some (p, n, TFlex (TFlex it il) l) -> narrow l = true -> narrow il = true ->
  (fo = FPop \/ (exists k, fo = FTruncate k) \/ fo = FClear) ->
  let ct := TFlex (TFlex it il) l in
  let sub := take n (drop p bs) in
  let r := nested_flex_edit_flex pv t a j fo bs in
  blen (fst r) = blen bs /\ validate t a (fst r) = Ok tt /\
  take p (fst r) = take p bs /\ drop (p + n) (fst r) = drop (p + n) bs /\
  validate ct (a + p) sub = Ok tt /\
  take n (drop p (fst r)) = fst (flex_edit_flex pv ct (a + p) j fo sub) /\
  snd r = snd (flex_edit_flex pv ct (a + p) j fo sub) /\
  tail_container t (fst r) = Some (p, n, ct) /\ tail_depth t (fst r) = tail_depth t bs /\
  exists v w', view t bs = Ok v /\ view ct (fst (flex_edit_flex pv ct (a + p) j fo sub)) = Ok w' /\
    view t (fst r) = Ok (replace_tail (tail_depth t bs) v w').
Proof. exact nested_flex_edit_flex_shrink. Qed.

(* 3. The siblings: at every level of the path from the top of the value down to the tail, the tag and all
   fields but the last read after the edit exactly what they read before ... *)
Theorem c14_nested_edit_flex_siblings : forall pv t a j fo bs p n it il l v v',
  wf t = true -> validate t a bs = Ok tt ->
  tail_container t bs = Some (p, n, TFlex (TFlex it il) l) -> narrow l = true ->
  (forall pa pl, validate (TFlex it il) pa pl = Ok tt ->
     blen (fst (flex_op pv (TFlex it il) pa fo pl)) = blen pl /\
     validate (TFlex it il) pa (fst (flex_op pv (TFlex it il) pa fo pl)) = Ok tt) ->
  view t bs = Ok v -> view t (fst (nested_flex_edit_flex pv t a j fo bs)) = Ok v' ->
  siblings (tail_depth t bs) v' = siblings (tail_depth t bs) v.
Proof. exact nested_flex_edit_flex_siblings. Qed.

(* ... with no premise for pop / truncate / clear ... *)
Theorem c14_nested_edit_flex_siblings_shrink : forall pv t a j fo bs p n it il l v v',
  wf t = true -> validate t a bs = Ok tt ->
  tail_container t bs = Some (p, n, TFlex (TFlex it il) l) -> narrow l = true -> narrow il = true ->
  (fo = FPop \/ (exists k, fo = FTruncate k) \/ fo = FClear) ->
  view t bs = Ok v -> view t (fst (nested_flex_edit_flex pv t a j fo bs)) = Ok v' ->
  siblings (tail_depth t bs) v' = siblings (tail_depth t bs) v.
Proof. exact nested_flex_edit_flex_siblings_shrink. Qed.

(* ... and at the top of a struct / enum spelled out: the same tag, the same fields but the last *)
Theorem c14_nested_edit_flex_siblings_top : forall pv t a j fo bs p n it il l g vs g' vs',
  wf t = true -> validate t a bs = Ok tt ->
  tail_container t bs = Some (p, n, TFlex (TFlex it il) l) -> narrow l = true ->
  (forall pa pl, validate (TFlex it il) pa pl = Ok tt ->
     blen (fst (flex_op pv (TFlex it il) pa fo pl)) = blen pl /\
     validate (TFlex it il) pa (fst (flex_op pv (TFlex it il) pa fo pl)) = Ok tt) ->
  is_cont t = false ->
  view t bs = Ok (VNode g vs) -> view t (fst (nested_flex_edit_flex pv t a j fo bs)) = Ok (VNode g' vs') ->
  g' = g /\ removelast vs' = removelast vs.
Proof. exact nested_flex_edit_flex_top. Qed.

(* ---------- non-vacuity ---------- *)

Definition y_u8 := {| isize := 1; ialign := 1; ibe := false |}.
Definition y_u16 := {| isize := 2; ialign := 2; ibe := false |}.

(* #[flat(sized = false)] struct { a: u16, tail: FlexVec<FlexVec<u8, u8>, u8> } emplaced over 12 bytes of 9s
   with a = 513 and one inner vector [1, 2]: the tail covers [2, 12); pop of inner vector 0 through the mapped
   value writes the second slot of the inner vector only (byte 5), the u16 keeps its bytes, the whole slice
   validates and reads the struct with the inner vector [1]; item 1 does not exist: panic, slice unchanged;
   a push to the inner vector (a sized item: the premise holds, c12n_edit_flex_push_sized) also completes *)
Example c14_nested_edit_flex_example :
  let ct := TFlex (TFlex (TInt y_u8) y_u8) y_u8 in
  let t := TStruct false (FCons (TInt y_u16) (FCons ct FNil)) in
  let e := emplace None t (ISeq [IInt 513; IFlex [IFlex [IInt 1; IInt 2]]]) 0 [9;9;9;9;9;9;9;9;9;9;9;9] in
  let img := fst e in
  let r := nested_flex_edit_flex None t 0 0 FPop img in
  e = ([1;2; 255;2;1;255;2;9;9;9;9;9], Ok tt) /\
  wf t = true /\ validate t 0 img = Ok tt /\ narrow y_u8 = true /\
  tail_container t img = Some (2, 10, ct) /\ tail_depth t img = 1%nat /\
  view t img = Ok (VNode 0 [VInt 513; VNode 0 [VNode 0 [VInt 1; VInt 2]]]) /\
  r = ([1;2; 255;2;1;0;2;9;9;9;9;9], ODone) /\
  take 2 (fst r) = take 2 img /\ validate t 0 (fst r) = Ok tt /\
  view t (fst r) = Ok (VNode 0 [VInt 513; VNode 0 [VNode 0 [VInt 1]]]) /\
  siblings 1 (VNode 0 [VInt 513; VNode 0 [VNode 0 [VInt 1]]]) = [(0, [VInt 513])] /\
  nested_flex_edit_flex None t 0 1 FPop img = (img, OPanic) /\
  nested_flex_edit_flex None t 0 0 (FPush (IInt 7)) img = ([1;2; 255;2;1;2;2;255;7;9;9;9], ODone) /\
  view t (fst (nested_flex_edit_flex None t 0 0 (FPush (IInt 7)) img)) =
    Ok (VNode 0 [VInt 513; VNode 0 [VNode 0 [VInt 1; VInt 2; VInt 7]]]).
Proof. vm_compute. repeat split; reflexivity. Qed.

(* #[flat(sized = false)] enum { A, B(u16, FlexVec<FlexVec<u8, u8>, u8>) } holding B(5, [[1, 2]]) at address 2:
   the tail sits behind the tag and the u16; clear of inner vector 0 *)
Example c14_nested_edit_flex_enum_example :
  let ct := TFlex (TFlex (TInt y_u8) y_u8) y_u8 in
  let t := TEnum false y_u8 0 (VCons FNil (VCons (FCons (TInt y_u16) (FCons ct FNil)) VNil)) in
  let bs := [1;0; 5;0; 255;2;1;255;2;0; 7] in
  let r := nested_flex_edit_flex None t 2 0 FClear bs in
  wf t = true /\ validate t 2 bs = Ok tt /\
  tail_container t bs = Some (4, 6, ct) /\ tail_depth t bs = 1%nat /\
  view t bs = Ok (VNode 1 [VInt 5; VNode 0 [VNode 0 [VInt 1; VInt 2]]]) /\
  r = ([1;0; 5;0; 255;0;1;255;2;0; 7], ODone) /\ validate t 2 (fst r) = Ok tt /\
  view t (fst r) = Ok (VNode 1 [VInt 5; VNode 0 [VNode 0 []]]) /\
  (* the unit variant has no tail *)
  nested_flex_edit_flex None t 2 0 FClear [0;0;0;0;0] = ([0;0;0;0;0], OBad).
Proof. vm_compute. repeat split; reflexivity. Qed.

Print Assumptions c14_nested_edit_flex.
Print Assumptions c14_nested_edit_flex_tail_valid.
Print Assumptions c14_nested_edit_flex_rel.
Print Assumptions c14_nested_edit_flex_shrink.
Print Assumptions c14_nested_edit_flex_siblings.
Print Assumptions c14_nested_edit_flex_siblings_shrink.
Print Assumptions c14_nested_edit_flex_siblings_top.
