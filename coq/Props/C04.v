(* C04 — computed layout = the reference C layout (and, through the layout suite, the compiler's).
   This file holds only the pinned statements; proofs are in Proofs/LayoutFacts.v. *)
From Coq Require Import NArith List.
From Flatty.Model Require Import Base Ty Layout RefLayout Validate View.
From Flatty.Proofs Require Import ArithFacts LayoutFacts ViewFacts.
Open Scope N_scope.

(* ALIGN is the C alignment, for every descriptor *)
Theorem c04_align : forall t, align t = c_align t.
Proof. exact (proj1 align_c_align_mut). Qed.

(* SIZE of a sized type is the C size: repr(C) struct, repr(C, tag) enum = tag + union *)
Theorem c04_size : forall t, wf t = true -> sized t = true -> ssize t = c_size t.
Proof. exact ssize_c_size. Qed.

(* the positions the position iterator visits are the C offsets of the declared field list *)
Theorem c04_positions : forall fs, wfF fs -> forall off i,
  lib_pos fs (ceil_mul off (head_align fs)) i = c_offset fs off i.
Proof. exact lib_pos_c_offset. Qed.

(* max(L::SIZE, T::ALIGN) is the C offset of the data of struct { len: L, data: [T] } *)
Theorem c04_vec_data_offset : forall t l, wf (TVec t l) = true -> vec_data_offset t l = c_vec_data_offset t l.
Proof. exact vec_data_offset_c. Qed.

(* DATA_OFFSET is the C offset of the payload union *)
Theorem c04_enum_data_offset : forall s tag d vs,
  wf (TEnum s tag d vs) = true -> data_offset tag vs = c_union_offset tag vs.
Proof. exact data_offset_c. Qed.

(* alignments are powers of two up to 16 *)
Theorem c04_align_pow2 : forall t, wf t = true -> P16 (align t).
Proof. exact align_P16. Qed.

(* a mapped unsized value never claims more bytes than the slice it was mapped from: the length of
   as_bytes() (= size_of_val of the reference ptr_from_bytes builds) of a value obtained by from_bytes
   is defined, at most the length of the slice, at least size(), for every buffer length, multiple
   of the alignment or not *)
Theorem c04_view_within : forall t a bs, wf t = true -> validate t a bs = Ok tt ->
  exists n k, bytes_len t (blen bs) = Ok n /\ size_m t bs = Ok k /\ n <= blen bs /\ k <= n.
Proof.
  intros t a bs Hw Hv. destruct (as_bytes_roundtrip t a bs Hw Hv) as (n & k & H1 & H2 & H3 & H4 & _).
  exists n, k. auto.
Qed.

(* non-vacuity: a concrete definition meets the hypotheses and has padding in it *)
Definition ex_u8 := TInt {| isize := 1; ialign := 1; ibe := false |}.
Definition ex_u32 := TInt {| isize := 4; ialign := 4; ibe := false |}.
Definition ex_u64 := TInt {| isize := 8; ialign := 8; ibe := false |}.
Example c04_example :
  let t := TEnum true {| isize := 1; ialign := 1; ibe := false |} 0
             (VCons FNil (VCons (FCons ex_u8 (FCons ex_u64 (FCons ex_u8 FNil))) VNil)) in
  wf t = true /\ sized t = true /\ ssize t = 32 /\ c_size t = 32 /\ align t = 8
  /\ c_offset (FCons ex_u8 (FCons ex_u64 (FCons ex_u8 FNil))) 0 2 = Some 16.
Proof. vm_compute. repeat split; reflexivity. Qed.

Print Assumptions c04_align.
Print Assumptions c04_size.
Print Assumptions c04_positions.
Print Assumptions c04_vec_data_offset.
Print Assumptions c04_enum_data_offset.
Print Assumptions c04_align_pow2.
Print Assumptions c04_view_within.
