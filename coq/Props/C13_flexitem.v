(* C13 (an item of a FlexVec that is itself a FlexVec) — a refused operation on the inner vector changes nothing
   of the outer one.  Pinned statements only; proofs in Proofs/FlexNestedFacts.v. *)
From Coq Require Import NArith List Bool.
From Flatty.Model Require Import Base Ty Layout Validate View Emplace Ops.
From Flatty.Proofs Require Import ChainFacts ViewFacts EmplaceSpec FlexOpsFacts FlexNestedFacts.
Open Scope N_scope.

(* pop() refused on inner vector j (it is empty): the whole slice is returned byte for byte — for every type,
   address and slice *)
Theorem c13_flex_item_pop_refused : forall pv t a j bs,
  snd (flex_edit_flex pv t a j FPop bs) = ORefused -> fst (flex_edit_flex pv t a j FPop bs) = bs.
Proof. exact flex_edit_flex_refused. Qed.

(* ... and on a valid image it is refused exactly when inner vector j is empty; otherwise it completes, the slice
   keeps its length and stays valid, inner vector j loses its last item and every other item is unchanged *)
Theorem c13_flex_item_pop : forall pv it il l a,
  wf (TFlex (TFlex it il) l) = true -> narrow l = true -> narrow il = true ->
  forall j bs vs ws,
  validate (TFlex (TFlex it il) l) a bs = Ok tt -> view (TFlex (TFlex it il) l) bs = Ok (VNode 0 vs) ->
  nth_error vs (N.to_nat j) = Some (VNode 0 ws) ->
  let r := flex_edit_flex pv (TFlex (TFlex it il) l) a j FPop bs in
  (ws = [] -> snd r = ORefused /\ fst r = bs) /\ (ws <> [] -> snd r = ODone) /\
  blen (fst r) = blen bs /\ validate (TFlex (TFlex it il) l) a (fst r) = Ok tt /\
  view (TFlex (TFlex it il) l) (fst r) = Ok (VNode 0 (splice (N.to_nat j) (VNode 0 (removelast ws)) vs)).
Proof. exact flex_edit_flex_pop. Qed.

(* non-vacuity: the outer vector holds one empty inner vector *)
Example c13_flex_item_example :
  let l8 := {| isize := 1; ialign := 1; ibe := false |} in
  let t := TFlex (TFlex (TInt l8) l8) l8 in
  let im := [255; 0; 9; 9] in
  validate t 0 im = Ok tt /\ flex_edit_flex None t 0 0 FPop im = (im, ORefused).
Proof. vm_compute. repeat split; reflexivity. Qed.

Print Assumptions c13_flex_item_pop_refused.
Print Assumptions c13_flex_item_pop.

(* a push refused by inner vector j (no room, offset not representable): the outer vector still reads the same items
   with the same contents (capacities stripped) — together with c12n_history_valid the image stays valid and keeps
   its length.  For every sized inner item type and every well-typed expression. *)
From Flatty.Proofs Require Import FlexAllFacts FlexNestedHistFacts FlexNestedSpecFacts FlexNestedRefusedFacts.
Theorem c13_flex_item_push_refused : forall pv it il l a,
  wf (TFlex (TFlex it il) l) = true -> narrow_ty (TFlex (TFlex it il) l) = true ->
  wf it = true -> sized it = true ->
  forall j i bs vs kd, init_ok it i = true ->
  validate (TFlex (TFlex it il) l) a bs = Ok tt -> view (TFlex (TFlex it il) l) bs = Ok (VNode 0 vs) ->
  snd (flex_edit_flex pv (TFlex (TFlex it il) l) a j (FPush i) bs) = OErr kd ->
  exists vs', view (TFlex (TFlex it il) l) (fst (flex_edit_flex pv (TFlex (TFlex it il) l) a j (FPush i) bs)) = Ok (VNode 0 vs') /\
    map strip vs' = map strip vs.
Proof. exact nested_inner_push_refused. Qed.

(* non-vacuity: an inner vector sealed by the next item has no room; the push is refused and nothing changes *)
Example c13_flex_item_push_refused_example :
  let l8 := {| isize := 1; ialign := 1; ibe := false |} in
  let t := TFlex (TFlex (TInt l8) l8) l8 in
  let im := [3; 255; 1; 255; 0; 9; 9] in
  validate t 0 im = Ok tt /\
  snd (flex_edit_flex None t 0 0 (FPush (IInt 7)) im) = OErr InsufficientSize /\
  fst (flex_edit_flex None t 0 0 (FPush (IInt 7)) im) = im.
Proof. vm_compute. repeat split; reflexivity. Qed.

Print Assumptions c13_flex_item_push_refused.
