(* C08 (kernel) — the async Sender / Receiver (io/src/async_/{send,recv}.rs) allocate the same buffer as the model and move its window by the same arithmetic: the capacity formula of the io() constructors and the window arithmetic of
   io/src/common/io.rs Buffer, as translated from /repo's current source into Generated/Kernel.v by
   tools/translate.py on every run of ./check, are what Model/Io.v uses.  Pinned statements only; proofs in
   Proofs/KernelIoFacts.v (the same lemmas as Props/C07_kernel.v; restated here so that a change of these
   formulas breaks a proof obligation of C08's own check). *)
From Coq Require Import NArith List Bool.
From Flatty.Model Require Import Base Io.
From Flatty.Generated Require Import Kernel.
From Flatty.Proofs Require Import KernelIoFacts.
Open Scope N_scope.

Theorem c08_kernel_capacity : forall MIN mml,
  io_capacity MIN mml = g_io_capacity_recv MIN mml /\ io_capacity MIN mml = g_io_capacity_send MIN mml /\
  io_capacity MIN mml = g_io_capacity_arecv MIN mml /\ io_capacity MIN mml = g_io_capacity_asend MIN mml.
Proof. exact k_io_capacity. Qed.

Theorem c08_kernel_window : forall b count,
  skip count b = with_window b (g_buf_skip (cap b) (st b) (en b) count) /\
  advance count b = with_window b (g_buf_advance (cap b) (st b) (en b) count) /\
  Ok (clear b) = with_window b (g_buf_clear (cap b) (st b) (en b)) /\
  vacant_len b = g_buf_vacant_len (cap b) (st b) (en b) /\
  occupied b = take (g_buf_occupied_len (cap b) (st b) (en b)) (drop (g_buf_preceding_len (cap b) (st b) (en b)) (data b)).
Proof.
  intros b count. split; [exact (k_buf_skip count b)|]. split; [exact (k_buf_advance count b)|].
  split; [exact (k_buf_clear b)|]. split; [exact (k_buf_vacant_len b) | exact (k_buf_occupied b)].
Qed.

Theorem c08_kernel_make_contiguous : forall b,
  Ok (make_contiguous b) =
  with_window {| data := take g_buf_make_contiguous_copies_window_to (data b) ++ occupied b
                         ++ drop (g_buf_make_contiguous_copies_window_to + blen (occupied b)) (data b);
                 st := st b; en := en b |}
              (g_buf_make_contiguous (cap b) (st b) (en b)).
Proof. exact k_buf_make_contiguous. Qed.

Example c08_kernel_example :
  g_io_capacity_arecv 6 4 = 12 /\ g_io_capacity_asend 6 9 = 18 /\ g_buf_skip 8 3 7 5 = None /\
  g_buf_make_contiguous 8 3 7 = Some (0, 4).
Proof. vm_compute. repeat split; reflexivity. Qed.

Print Assumptions c08_kernel_capacity.
Print Assumptions c08_kernel_window.
Print Assumptions c08_kernel_make_contiguous.
