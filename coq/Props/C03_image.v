(* C03 (image) — a successful emplacement leaves exactly the reference image (Proofs/ImgSpec.v: the
   documented encoding laid out with the reference C layout of Model/RefLayout.v; Some b = a byte the
   encoding determines, None = padding) of the specified content in the first extent(content) bytes.
   Pinned statements only; proofs in Proofs/ImgFacts.v.
   Assumed throughout: wf, narrow_ty (no length / offset / tag type wider than 8 bytes), the expression is
   well typed (init_ok) with UTF-8 string literals (utf8_init). *)
From Coq Require Import NArith List Bool.
From Flatty.Model Require Import Base Ty Layout Validate View Emplace.
From Flatty.Proofs Require Import EmplaceSpec EmplaceUnsizedFacts ImgSpec ImgFacts.
Import ListNotations.
Open Scope N_scope.

(* the byte-exact image: for every type and every well-typed emplacer expression, a successful
   new_in_place leaves exactly the reference image of the content in the first extent(content) bytes —
   every determined byte is the reference byte, whatever the padding policy; with padding bytes left
   alone (pv = None) the whole buffer is the old buffer overlaid with the reference image *)
Theorem c03_image_is_reference_image : forall t i, wf t = true -> narrow_ty t = true ->
  init_ok t i = true -> utf8_init i = true ->
  forall pv a buf buf', new_in_place pv t i a buf = (buf', Ok tt) ->
    exists m, img t i = Some m /\ mlen m = extent t i /\
      (forall j x, nth_error m j = Some (Some x) -> nth_error buf' j = Some x) /\
      (pv = None -> buf' = overlay None m buf).
Proof. exact image_is_reference_image. Qed.

(* sized case on the masked image itself: the model's ptr.write image IS the reference image *)
Theorem c03_sized_image_is_reference_image : forall t i m, wf t = true -> sized t = true ->
  enc_sized t i = Some m -> img t i = Some m.
Proof. exact sized_image_is_reference_image. Qed.

(* img is defined exactly for well-typed expressions *)
Theorem c03_img_defined : forall t i, wf t = true ->
  (init_ok t i = true <-> exists m, img t i = Some m).
Proof. exact img_defined. Qed.

(* two emplacements of the same content agree on every determined byte, whatever the buffers held
   before, whatever the padding policy *)
Theorem c03_determined_bytes_independent : forall t i, wf t = true -> narrow_ty t = true ->
  init_ok t i = true -> utf8_init i = true ->
  forall pv1 pv2 a1 a2 buf1 buf2 b1 b2 m j x,
    new_in_place pv1 t i a1 buf1 = (b1, Ok tt) -> new_in_place pv2 t i a2 buf2 = (b2, Ok tt) ->
    img t i = Some m -> nth_error m j = Some (Some x) ->
    nth_error b1 j = Some x /\ nth_error b2 j = Some x.
Proof. exact determined_bytes_independent. Qed.

(* non-vacuity: (1) the unsized struct { u8, u32, FlexVec<FlatVec<u32, u8>, u8> } with three items (one
   element, two elements, empty) emplaced into a 48-byte buffer of 170s: the reference image is 44 bytes
   (= extent), the result is the old buffer overlaid with it (padding keeps 170), the 4 bytes behind it
   are untouched;  (2) FlatVec<{ u8, u32, u16 }, u8> with one element under the marking policy
   (pv = Some 256): the padding inside the sized element (ptr.write) is marked, the padding between
   the length and the data (never written) keeps its old content, the determined bytes are the
   reference bytes *)
Example c03_image_example :
  let u8 := {| isize := 1; ialign := 1; ibe := false |} in
  let u16 := {| isize := 2; ialign := 2; ibe := false |} in
  let u32 := {| isize := 4; ialign := 4; ibe := false |} in
  let t := TStruct false (FCons (TInt u8) (FCons (TInt u32) (FCons (TFlex (TVec (TInt u32) u8) u8) FNil))) in
  let i := ISeq [IInt 1; IInt 2; IFlex [IVecArr [IInt 5]; IVecIter [IInt 6; IInt 7]; IEmpty]] in
  let p := TStruct true (FCons (TInt u8) (FCons (TInt u32) (FCons (TInt u16) FNil))) in
  let tv := TVec p u8 in
  let iv := IVecArr [ISeq [IInt 7; IInt 1; IInt 3]] in
  wf t = true /\ narrow_ty t = true /\ init_ok t i = true /\ utf8_init i = true /\ extent t i = 44 /\
  img t i = Some [Some 1; None; None; None;  Some 2; Some 0; Some 0; Some 0;
                  Some 12; None; None; None;  Some 1; None; None; None;  Some 5; Some 0; Some 0; Some 0;
                  Some 16; None; None; None;  Some 2; None; None; None;  Some 6; Some 0; Some 0; Some 0;
                                                                         Some 7; Some 0; Some 0; Some 0;
                  Some 255; None; None; None; Some 0; None; None; None] /\
  new_in_place None t i 0 (repeat 170 48) =
    ([1; 170; 170; 170;  2; 0; 0; 0;
      12; 170; 170; 170;  1; 170; 170; 170;  5; 0; 0; 0;
      16; 170; 170; 170;  2; 170; 170; 170;  6; 0; 0; 0;  7; 0; 0; 0;
      255; 170; 170; 170;  0; 170; 170; 170;
      170; 170; 170; 170], Ok tt) /\
  wf tv = true /\ narrow_ty tv = true /\ init_ok tv iv = true /\ utf8_init iv = true /\ extent tv iv = 16 /\
  img tv iv = Some [Some 1; None; None; None;
                    Some 7; None; None; None;  Some 1; Some 0; Some 0; Some 0;  Some 3; Some 0; None; None] /\
  new_in_place (Some 256) tv iv 4 (repeat 170 20) =
    ([1; 170; 170; 170;  7; 256; 256; 256;  1; 0; 0; 0;  3; 0; 256; 256;  170; 170; 170; 170], Ok tt).
Proof. vm_compute. repeat split; reflexivity. Qed.

Print Assumptions c03_image_is_reference_image.
Print Assumptions c03_sized_image_is_reference_image.
Print Assumptions c03_img_defined.
Print Assumptions c03_determined_bytes_independent.
