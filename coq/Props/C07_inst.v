(* C07 (instantiated) — the sequence theorem of Props/C07_recv.v and the stream theorem of
   Props/C07_send.v for every real message type: a descriptor t with wf t, narrow_ty t and
   0 < min_size t, validate := validate t, size() := size_m t, alignment := align t.  No abstract
   premise about the message type is left on the receive side.
   Pinned statements only; proofs in Proofs/IoInstFacts.v.
   Lists of N stand for memory only when every element is < 256 (bytes_ok); validate t may crash on
   other lists (c07_inst_total_needs_bytes_ok), so messages are required to be byte strings. *)
From Coq Require Import NArith List Bool.
From Flatty.Model Require Import Base Ty Layout Validate View Emplace Io.
From Flatty.Proofs Require Import EmplaceSpec IoRecvFacts IoSendFacts IoInstFacts.
Import ListNotations.
Open Scope N_scope.

(* ---- the three abstract hypotheses, for validate t / size_m t ---- *)

(* validation of a byte string never crashes (C01) *)
Theorem c07_inst_total : forall t, wf t = true -> narrow_ty t = true ->
  forall a bs, bytes_ok bs = true -> is_crash (validate t a bs) = false.
Proof. exact flat_total. Qed.

(* ... on a list with an element >= 256 it may: FlatVec<u8, u8>, first element 2^64 *)
Theorem c07_inst_total_needs_bytes_ok :
  let t := TVec (TInt {| isize := 1; ialign := 1; ibe := false |}) {| isize := 1; ialign := 1; ibe := false |} in
  wf t = true /\ narrow_ty t = true /\ min_size t = 1 /\
  validate t 0 [18446744073709551616; 0] = Crash PanicUnwrap.
Proof. exact flat_total_needs_bytes_ok. Qed.

(* a valid value has a positive size within its bytes (C05) *)
Theorem c07_inst_sized : forall t, wf t = true -> 0 < min_size t ->
  forall a bs, validate t a bs = Ok tt -> exists n, size_m t bs = Ok n /\ 0 < n /\ n <= blen bs.
Proof. exact flat_sized. Qed.

(* a window too short at one address is too short at address 0 *)
Theorem c07_inst_addr : forall t, wf t = true ->
  forall a bs p, validate t a bs = Err InsufficientSize p ->
  exists p', validate t 0 bs = Err InsufficientSize p'.
Proof. exact flat_addr. Qed.

(* ---- canonical messages ---- *)

(* a message of type t as it travels: a byte string that validates and is exactly size() long *)
Theorem c07_inst_flat_msg_def : forall t m,
  flat_msg t m <-> (bytes_ok m = true /\ validate t 0 m = Ok tt /\ size_m t m = Ok (blen m)).
Proof. intros. unfold flat_msg. tauto. Qed.

(* such a message meets the framing contract `canon` of Props/C07_recv.v for validate t, size_m t
   and align t: not empty, a multiple of the alignment long, every proper prefix InsufficientSize
   and m followed by anything valid with size() = |m|, at every aligned address *)
Theorem c07_inst_canon : forall t m, wf t = true -> narrow_ty t = true -> 0 < min_size t ->
  bytes_ok m = true -> validate t 0 m = Ok tt -> size_m t m = Ok (blen m) ->
  canon (validate t) (size_m t) (align t) m.
Proof. exact flat_canon. Qed.

(* the first size() bytes of any valid byte string (at an aligned address) are such a message *)
Theorem c07_inst_msg_of_valid : forall t a bs k, wf t = true -> bytes_ok bs = true ->
  aligned a (align t) = true -> validate t a bs = Ok tt -> size_m t bs = Ok k ->
  flat_msg t (take k bs).
Proof. exact flat_msg_of_valid. Qed.

(* ---- C07, receive side ---- *)

(* messages ms of type t, none longer than the buffer capacity c; the stream is their concatenation;
   ANY read script of RD k with k >= 1; watchdog limit at least stream length + number of calls:
   (length ms + extra) recv() calls, each followed by the drop of its guard, yield exactly one guard
   per message, in order, each showing the message at the front of its window, then Closed `extra`
   times; never a panic, a hang, OutOfMemory or a parse error *)
Theorem c07_inst_recv_sequence : forall t, wf t = true -> narrow_ty t = true -> 0 < min_size t ->
  forall (ms : list bytes) (extra : nat) (limit c fill : N) (sc : list rdir),
  Forall (flat_msg t) ms -> (forall m, In m ms -> blen m <= c) ->
  (ms <> [] \/ 0 < c) -> Forall okd sc ->
  blen (concat ms) + N.of_nat (length ms + extra) <= limit ->
  exists occs,
    fst (recv_many (validate t) (size_m t) (length ms + extra) limit (new_buffer c fill)
           {| stream := concat ms; rscript := sc; rcalls := 0 |})
      = map RMsg occs ++ repeat RClosed extra /\
    Forall2 (fun occ m => take (blen m) occ = m) occs ms.
Proof. exact flat_recv_sequence. Qed.

(* ---- C07, send side, under the emplacement premise ---- *)

(* the emplacement fact the send side uses, an explicit premise until the emplacement theorem
   discharges it: a well-typed, representable initialiser emplaced at an aligned address into a
   buffer with room for its extent succeeds, keeps the buffer length and leaves a value whose
   size() is defined, positive and within the buffer *)
Theorem c07_inst_emplace_spec_def : forall t,
  emplace_spec t <->
  (forall i a buf, init_ok t i = true -> representable t i = true ->
     aligned a (align t) = true -> extent t i <= blen buf ->
     exists buf' n, emplace None t i a buf = (buf', Ok tt) /\ blen buf' = blen buf /\
                    size_m t buf' = Ok n /\ 0 < n /\ n <= blen buf).
Proof. intros. unfold emplace_spec. tauto. Qed.

(* it follows from "emplace succeeds and its result validates" *)
Theorem c07_inst_emplace_spec_of_valid : forall t, wf t = true -> 0 < min_size t ->
  (forall i a buf, init_ok t i = true -> representable t i = true ->
     aligned a (align t) = true -> extent t i <= blen buf ->
     exists buf', emplace None t i a buf = (buf', Ok tt) /\ blen buf' = blen buf /\
                  validate t a buf' = Ok tt) ->
  emplace_spec t.
Proof. exact emplace_spec_of_valid. Qed.

Theorem c07_inst_defs : forall t CAP i a buf,
  (init_fits t CAP i <-> (init_ok t i = true /\ representable t i = true /\ extent t i <= CAP)) /\
  flat_emplace t i a buf = emplace None t i a buf.
Proof. intros. unfold init_fits, flat_emplace. split; [tauto|reflexivity]. Qed.

(* the premise emplace_good of Props/C07_send.v for the emplacer of a descriptor *)
Theorem c07_inst_emplace_good : forall t CAP i, emplace_spec t -> init_fits t CAP i ->
  emplace_good (size_m t) init (flat_emplace t) CAP i.
Proof. exact flat_emplace_good. Qed.

(* accept-only pipe, whatever the chunk sizes: every send returns SOk and the sink receives the
   concatenation of the messages' first size() bytes, in order *)
Theorem c07_inst_send_many_stream : forall t CAP limit is sd k outs k', emplace_spec t ->
  sd_ready CAP sd -> Forall (init_fits t CAP) is -> poisoned sd = false ->
  Forall accepts (wscript k) ->
  wcalls k + blen (concat (msgs (size_m t) init (flat_emplace t) is (data (sbuf sd)))) <= limit ->
  send_many (size_m t) init (flat_emplace t) limit is sd k = (outs, k') ->
  outs = map (fun _ => SOk) is
  /\ sunk k' = sunk k ++ concat (msgs (size_m t) init (flat_emplace t) is (data (sbuf sd)))
  /\ Forall accepts (wscript k').
Proof. exact flat_send_many_stream. Qed.

(* ---- non-vacuity: struct { a: u32, b: FlatVec<u8, u16> } ---- *)

Definition ex_u8 := TInt {| isize := 1; ialign := 1; ibe := false |}.
Definition ex_u32 := TInt {| isize := 4; ialign := 4; ibe := false |}.
Definition ex_l16 := {| isize := 2; ialign := 2; ibe := false |}.
Definition ex_t := TStruct false (FCons ex_u32 (FCons (TVec ex_u8 ex_l16) FNil)).
Definition ex_m1 := [1;0;0;0; 2;0; 7;8].
Definition ex_m2 := [9;0;0;0; 3;0; 1;2;3;0;0;0].

(* the type meets the side conditions, the two messages are messages of the type, and under the
   chunking 3,6,2,20 a buffer of capacity 12 yields them in order, then Closed (the first guard
   also shows one byte of the next message behind its own 8) *)
Example c07_inst_example :
  wf ex_t = true /\ narrow_ty ex_t = true /\ min_size ex_t = 8 /\ align ex_t = 4
  /\ Forall (flat_msg ex_t) [ex_m1; ex_m2]
  /\ fst (recv_many (validate ex_t) (size_m ex_t) 4 100 (new_buffer 12 0)
            {| stream := ex_m1 ++ ex_m2; rscript := [RD 3; RD 6; RD 2; RD 20]; rcalls := 0 |})
     = [RMsg [1;0;0;0; 2;0; 7;8; 9]; RMsg [9;0;0;0; 3;0; 1;2;3;0;0;0]; RClosed; RClosed].
Proof.
  split; [reflexivity|]. split; [reflexivity|]. split; [reflexivity|]. split; [reflexivity|].
  split; [|vm_compute; reflexivity].
  repeat (constructor; [unfold flat_msg; vm_compute; repeat split; reflexivity|]). constructor.
Qed.

(* send side: the two initialisers fit a 12-byte buffer, emplacing them behaves as emplace_spec
   says, and through a pipe that takes 3, 1, then everything the sink receives the two messages *)
Definition ex_i1 := ISeq [IInt 1; IVecArr [IInt 7; IInt 8]].
Definition ex_i2 := ISeq [IInt 9; IVecArr [IInt 1; IInt 2; IInt 3]].
Example c07_inst_send_example :
  init_fits ex_t 12 ex_i1 /\ init_fits ex_t 12 ex_i2
  /\ flat_emplace ex_t ex_i1 0 (repeat 0 12) = ([1;0;0;0; 2;0; 7;8; 0;0;0;0], Ok tt)
  /\ size_m ex_t [1;0;0;0; 2;0; 7;8; 0;0;0;0] = Ok 8
  /\ send_many (size_m ex_t) init (flat_emplace ex_t) 100 [ex_i1; ex_i2]
       {| sbuf := new_buffer 12 0; poisoned := false |}
       {| sunk := []; wscript := [WA 3; WA 1]; fscript := []; wcalls := 0 |}
     = ([SOk; SOk],
        {| sunk := ex_m1 ++ ex_m2; wscript := []; fscript := []; wcalls := 4 |}).
Proof.
  split; [unfold init_fits; vm_compute; repeat split; solve [reflexivity|discriminate]|].
  split; [unfold init_fits; vm_compute; repeat split; solve [reflexivity|discriminate]|].
  vm_compute. repeat split; reflexivity.
Qed.

Print Assumptions c07_inst_total.
Print Assumptions c07_inst_total_needs_bytes_ok.
Print Assumptions c07_inst_sized.
Print Assumptions c07_inst_addr.
Print Assumptions c07_inst_flat_msg_def.
Print Assumptions c07_inst_canon.
Print Assumptions c07_inst_msg_of_valid.
Print Assumptions c07_inst_recv_sequence.
Print Assumptions c07_inst_emplace_spec_def.
Print Assumptions c07_inst_emplace_spec_of_valid.
Print Assumptions c07_inst_defs.
Print Assumptions c07_inst_emplace_good.
Print Assumptions c07_inst_send_many_stream.
Print Assumptions c07_inst_example.
Print Assumptions c07_inst_send_example.
