(* C02 — the view a reference gives of an accepted slice is consistent: every read of the
   accessors is inside the slice, every container reports len <= capacity, and as_bytes() of
   the reference is again an accepted slice with the same content.
   Pinned statements only; proofs in Proofs/ChainFacts.v, Proofs/ViewFacts.v. *)
From Coq Require Import NArith List Bool.
From Flatty.Model Require Import Base Ty Layout Validate View.
From Flatty.Proofs Require Import ValidateFacts FramingFacts ChainFacts ViewFacts.
Open Scope N_scope.

(* for every accepted definition, address and slice that validates: the deep read through the
   accessors returns (view = Ok: in the model every read outside the slice is a Crash), every
   FlatVec / FlatString in it reports len <= capacity, and size() is within the slice *)
Theorem c02_view_consistent : forall t a bs, wf t = true -> validate t a bs = Ok tt ->
  exists k v, size_m t bs = Ok k /\ k <= blen bs /\ k mod align t = 0 /\ min_size t <= k /\
              view t bs = Ok v /\ caps_ok v = true.
Proof. exact valid_size_view. Qed.

(* as_bytes() of the reference mapped from a valid slice has a defined length n with
   size() <= n <= slice length; these n bytes validate at the same address and give the same
   size() and the same content (capacities aside) *)
Theorem c02_as_bytes_roundtrip : forall t a bs, wf t = true -> validate t a bs = Ok tt ->
  exists n k, bytes_len t (blen bs) = Ok n /\ size_m t bs = Ok k /\ n <= blen bs /\ k <= n /\
    validate t a (take n bs) = Ok tt /\ size_m t (take n bs) = Ok k /\
    exists v v', view t bs = Ok v /\ view t (take n bs) = Ok v' /\ strip v' = strip v.
Proof. exact as_bytes_roundtrip. Qed.

(* non-vacuity: struct { a: u32, b: FlatVec<u8, u16> } in a 13-byte slice (as_bytes() is 12
   bytes, size() is 8), and a FlexVec<FlatVec<u8, u8>, u8> with two items *)
Example c02_example :
  let u8 := TInt {| isize := 1; ialign := 1; ibe := false |} in
  let u32 := TInt {| isize := 4; ialign := 4; ibe := false |} in
  let l8 := {| isize := 1; ialign := 1; ibe := false |} in
  let l16 := {| isize := 2; ialign := 2; ibe := false |} in
  let ts := TStruct false (FCons u32 (FCons (TVec u8 l16) FNil)) in
  let ms := [1;0;0;0; 2;0; 7;8; 9;9;9;9;9] in
  let tf := TFlex (TVec u8 l8) l8 in
  let mf := [3;1;7; 255;2;8;9; 5;5] in
  wf ts = true /\ validate ts 0 ms = Ok tt /\ size_m ts ms = Ok 8 /\ bytes_len ts (blen ms) = Ok 12 /\
  view ts ms = Ok (VNode 0 [VInt 1; VCont 6 [VInt 7; VInt 8]]) /\
  validate ts 0 (take 12 ms) = Ok tt /\ view ts (take 12 ms) = Ok (VNode 0 [VInt 1; VCont 6 [VInt 7; VInt 8]]) /\
  wf tf = true /\ validate tf 0 mf = Ok tt /\ size_m tf mf = Ok 7 /\ bytes_len tf (blen mf) = Ok 9 /\
  view tf mf = Ok (VNode 0 [VCont 1 [VInt 7]; VCont 4 [VInt 8; VInt 9]]).
Proof. vm_compute. repeat split; reflexivity. Qed.

Print Assumptions c02_view_consistent.
Print Assumptions c02_as_bytes_roundtrip.
