(* C13 (FlexVec::push, every item type) — a push that is rejected leaves the vector as it was: the
   same validity, contents, len(), size() and slice length, and byte for byte the same first size()
   bytes.  The premises on the item emplacer that the theorems of Props/C13_flex.v carry are
   discharged from the emplacement theorems (Proofs/EmplaceUnsizedFacts.v) for every accepted item
   type.  Pinned statements only; proofs in Proofs/FlexAllFacts.v and Proofs/FlexOpsFacts.v.
   Hypotheses left: wf, narrow_ty (no length / offset / tag type wider than 8 bytes), the pushed
   expression well typed (init_ok) with UTF-8 string literals (utf8_init), a valid image. *)
From Coq Require Import NArith List Bool.
From Flatty.Model Require Import Base Ty Layout Validate View Emplace Ops.
From Flatty.Proofs Require Import EmplaceSpec FlexOpsFacts EmplaceUnsizedFacts FlexAllFacts.
Import ListNotations.
Open Scope N_scope.

(* a push on a valid image reports completion or a flatty error, never a panic *)
Theorem c13_flex_push_outcomes_all : forall pv et l a,
  wf (TFlex et l) = true -> narrow_ty (TFlex et l) = true ->
  forall i bs, init_ok et i = true -> utf8_init i = true -> validate (TFlex et l) a bs = Ok tt ->
  snd (flex_op pv (TFlex et l) a (FPush i) bs) = ODone \/
  exists kd, snd (flex_op pv (TFlex et l) a (FPush i) bs) = OErr kd.
Proof. exact flex_push_outcomes_all. Qed.

(* the rejected push: slice length, validity, size(), the first size() bytes, the contents and
   len() are those of the state before the call *)
Theorem c13_flex_push_rejected_all : forall pv et l a,
  wf (TFlex et l) = true -> narrow_ty (TFlex et l) = true ->
  forall i bs vs k kd, init_ok et i = true -> utf8_init i = true ->
  validate (TFlex et l) a bs = Ok tt -> view (TFlex et l) bs = Ok (VNode 0 vs) ->
  size_m (TFlex et l) bs = Ok k ->
  snd (flex_op pv (TFlex et l) a (FPush i) bs) = OErr kd ->
  let bs' := fst (flex_op pv (TFlex et l) a (FPush i) bs) in
  blen bs' = blen bs /\ validate (TFlex et l) a bs' = Ok tt /\ size_m (TFlex et l) bs' = Ok k /\
  take k bs' = take k bs /\
  exists vs', view (TFlex et l) bs' = Ok (VNode 0 vs') /\ map strip vs' = map strip vs /\
              length vs' = length vs.
Proof. exact flex_push_rejected_all. Qed.

(* after a rejected push every later history of pop / truncate / clear reports what it would have
   reported had the push not been attempted, and ends in a state of the same slice length,
   validity, size() and contents *)
Theorem c13_flex_then_same_all : forall pv et l a,
  wf (TFlex et l) = true -> narrow_ty (TFlex et l) = true ->
  forall i bs kd ops, init_ok et i = true -> utf8_init i = true ->
  validate (TFlex et l) a bs = Ok tt -> snd (flex_op pv (TFlex et l) a (FPush i) bs) = OErr kd ->
  Forall shrink_op ops ->
  let bs' := fst (flex_op pv (TFlex et l) a (FPush i) bs) in
  let r := flex_run pv et l a ops bs in
  let r' := flex_run pv et l a ops bs' in
  snd r' = snd r /\ blen (fst r') = blen (fst r) /\
  validate (TFlex et l) a (fst r) = Ok tt /\ validate (TFlex et l) a (fst r') = Ok tt /\
  size_m (TFlex et l) (fst r') = size_m (TFlex et l) (fst r) /\
  exists vs1 vs2, view (TFlex et l) (fst r) = Ok (VNode 0 vs1) /\
    view (TFlex et l) (fst r') = Ok (VNode 0 vs2) /\ map strip vs2 = map strip vs1.
Proof. exact flex_push_rejected_then_same_all. Qed.

(* non-vacuity: an unsized item type.  FlexVec<FlexVec<u8, u8>, u8> holding [[5, 6], []] in 12
   bytes; flex::push(flex::FromIterator of five items): the slot fits, the item emplacer stores two
   elements behind size() = 7 and then fails; everything observable is as before *)
Example c13_flex_all_example :
  let l8 := {| isize := 1; ialign := 1; ibe := false |} in
  let tf := TFlex (TInt l8) l8 in
  let t := TFlex tf l8 in
  let im := [5;2;5;255;6; 255;0; 9;9;9;9;9] in
  let i := IFlex [IInt 1; IInt 1; IInt 1; IInt 1; IInt 1] in
  let bs' := [5;2;5;255;6; 255;0; 9;2;1;255;1] in
  wf t = true /\ narrow_ty t = true /\ init_ok tf i = true /\ utf8_init i = true /\
  validate t 0 im = Ok tt /\ size_m t im = Ok 7 /\
  flex_op None t 0 (FPush i) im = (bs', OErr InsufficientSize) /\
  validate t 0 bs' = Ok tt /\ size_m t bs' = Ok 7 /\ take 7 bs' = take 7 im /\
  view t im = Ok (VNode 0 [VNode 0 [VInt 5; VInt 6]; VNode 0 []]) /\ view t bs' = view t im /\
  snd (flex_run None tf l8 0 [FPop; FPop; FPop] bs') = snd (flex_run None tf l8 0 [FPop; FPop; FPop] im).
Proof. vm_compute. repeat split; reflexivity. Qed.

Print Assumptions c13_flex_push_outcomes_all.
Print Assumptions c13_flex_push_rejected_all.
Print Assumptions c13_flex_then_same_all.
