(* C14 (nested containers) — a container nested as the unsized tail of a struct / of an enum
   variant, mutated through the mapped value (x.tail.push(..)): editing the tail never changes a
   sibling field, a tag, or a byte outside the tail's slice, and the bytes of the WHOLE value
   validate after every step (C05 / C11 / C12 one level up).
   Pinned statements only; proofs in Proofs/NestedOpsFacts.v.

   Reading guide.
   - tail_container t bs = Some (p, n, ct) (Model/Ops.v): following the last fields of the value
     mapped from bs one reaches a container of type ct (FlatVec / FlatString / FlexVec) whose field
     reference covers the bytes [p, p + n) of bs.  For a top-level container it is (0, blen bs, t).
   - bsplice p n s bs = take p bs ++ s ++ drop (p + n) bs: bs with those n bytes replaced by s.
   - nested_vec_op / nested_flex_op (Model/Ops.v): the container operation run on that sub-slice,
     spliced back; a = address of the first byte of bs, so the tail sits at address a + p.
   - tail_depth t bs: the number of struct / enum levels above the container (it depends on bs
     through the stored enum tags only).  replace_tail d v w: the value v with the value d levels
     down the path of LAST children replaced by w; tail_val d v: the value found there;
     siblings d v: level by level along that path, the tag and all children but the last.
     (The depth is explicit because what a FlexVec reads is itself a node: a depth-free descent
     through last children would continue into the items of the vector.)
   - nested_rel t a p n ct bs b (Proofs/NestedOpsFacts.v): b has the length of bs, validates as t at
     a, equals bs outside [p, p + n), has its tail at the same place (same type, same depth), that
     tail validates as ct at a + p, and what the accessors read from b is what they read from bs
     with the tail's value replaced by what they read from the new tail slice.
   - item_vop_ok ct vo (Proofs/VecTypedFacts.v): for a FlatString the pushed text is UTF-8 / the
     pushed char is a scalar value (a Rust &str / char always is); no condition otherwise.
   - flex_nop_ok ct fo: for ct = FlexVec<et, l>: l at most 8 bytes wide; fo is push / pop /
     truncate / clear; a pushed expression is well typed for et, its string literals are UTF-8, and
     et has no length type wider than 8 bytes (the premises of C12, Props/C12_all.v). *)
From Coq Require Import NArith List Bool.
From Flatty.Model Require Import Base Ty Layout Validate View Emplace Ops.
From Flatty.Proofs Require Import VecTypedFacts NestedOpsFacts.
Open Scope N_scope.

(* 1. The sub-slice tail_container names lies inside bs, is an accepted container type whose
   alignment divides into the position (p mod align ct = 0, align ct <= align t), has at least the
   container's minimum size and validates at its address; the value d levels down the last-child
   path of what the accessors read from bs is what they read from that sub-slice.
   REPLACEMENT: with any slice s of the same length that validates as ct at the same address in its
   place, the whole slice validates as t, tail_container finds the same place, and the accessors
   read the old value with exactly the tail replaced. *)
Theorem c14_nested_tail_slice : forall t a bs p n ct, wf t = true -> min_size t <= blen bs ->
  validate_u t a bs = Ok tt -> tail_container t bs = Some (p, n, ct) ->
  (p + n <= blen bs /\ is_cont ct = true /\ wf ct = true /\ align ct <= align t /\ min_size ct <= n /\
   validate_u ct (a + p) (take n (drop p bs)) = Ok tt) /\
  p mod align ct = 0 /\
  (forall v w, view t bs = Ok v -> view ct (take n (drop p bs)) = Ok w ->
     tail_val (tail_depth t bs) v = Some w) /\
  forall s, blen s = n -> validate_u ct (a + p) s = Ok tt ->
    validate_u t a (bsplice p n s bs) = Ok tt /\
    tail_container t (bsplice p n s bs) = Some (p, n, ct) /\
    tail_depth t (bsplice p n s bs) = tail_depth t bs /\
    forall v w', view t bs = Ok v -> view ct s = Ok w' ->
      view t (bsplice p n s bs) = Ok (replace_tail (tail_depth t bs) v w').
Proof. exact tail_container_spec. Qed.

(* ... the same for field lists (data = the bytes from position pos of the field list on) and for
   the variants of an unsized enum (data = the floored bytes behind DATA_OFFSET) *)
Theorem c14_nested_tail_slice_all_levels :
  (forall t, wf t = true -> Tspec t) /\
  (forall fs, LayoutFacts.wfF fs -> Fspec fs) /\
  (forall vs, wf_variants false vs = true -> Vspec vs).
Proof. exact tail_container_spec_mut. Qed.

(* replacing the tail changes no sibling: at every level of the path the tag and all children but
   the last are the same; one level spelled out *)
Theorem c14_replace_tail_siblings : forall d v w, siblings d (replace_tail d v w) = siblings d v.
Proof. exact siblings_replace_tail. Qed.

Theorem c14_replace_tail_top : forall d g vs w g' vs',
  replace_tail (S d) (VNode g vs) w = VNode g' vs' -> g' = g /\ removelast vs' = removelast vs.
Proof. exact replace_tail_node. Qed.

(* 2. A FlatVec / FlatString operation (any operation; on another container type the model
   returns OBad and the slice) through the nested tail of a valid value: the slice keeps its
   length and validates, no byte outside [p, p + n) changes, the tail stays where it is, the tail
   slice and the reported outcome are those of the operation on a top-level container mapped from
   the sub-slice at address a + p (which validates there, alignment included, so C11 applies to
   it), and the accessors read the old value with exactly the tail replaced. *)
Theorem c14_nested_vec_op : forall pv t a vo bs p n ct, wf t = true -> validate t a bs = Ok tt ->
  tail_container t bs = Some (p, n, ct) -> item_vop_ok ct vo ->
  let sub := take n (drop p bs) in
  let r := nested_vec_op pv t vo bs in
  blen (fst r) = blen bs /\ validate t a (fst r) = Ok tt /\
  take p (fst r) = take p bs /\ drop (p + n) (fst r) = drop (p + n) bs /\
  validate ct (a + p) sub = Ok tt /\
  take n (drop p (fst r)) = fst (vec_op pv ct vo sub) /\ snd r = snd (vec_op pv ct vo sub) /\
  tail_container t (fst r) = Some (p, n, ct) /\ tail_depth t (fst r) = tail_depth t bs /\
  validate ct (a + p) (fst (vec_op pv ct vo sub)) = Ok tt /\
  exists v w', view t bs = Ok v /\ view ct (fst (vec_op pv ct vo sub)) = Ok w' /\
    view t (fst r) = Ok (replace_tail (tail_depth t bs) v w').
Proof.
  intros pv t a vo bs p n ct Hw Hv Htc Hop sub r.
  destruct (nested_vec_op_ok pv t a vo bs p n ct Hw Hv Htc Hop) as (A & B & C & (D1 & D2 & D3 & D4 & D5 & D6 & D7 & D8)).
  fold sub r in A, B, C, D1, D2, D3, D4, D5, D6, D7, D8. rewrite C in D7, D8. repeat (split; [assumption|]). exact D8.
Qed.

(* ... for a nested FlatVec with the list specification of C11: the element list of the tail is
   replaced by the result of the list operation with refusal at the capacity, the call reports the
   list operation's outcome, everything else reads the same *)
Theorem c14_nested_vec_op_typed : forall pv t a vo bs p n et l, wf t = true -> validate t a bs = Ok tt ->
  tail_container t bs = Some (p, n, TVec et l) ->
  let cap := c_cap (geom_vec et l n) in
  let r := nested_vec_op pv t vo bs in
  exists v vs vs', view t bs = Ok v /\ tail_val (tail_depth t bs) v = Some (VCont cap vs) /\
    view t (fst r) = Ok (replace_tail (tail_depth t bs) v (VCont cap vs')) /\
    (map strip vs', snd r) = tspec_step et cap (map strip vs) vo.
Proof. exact nested_vec_op_typed. Qed.

(* 3. FlexVec push / pop / truncate / clear through the nested tail of a valid value: the same *)
Theorem c14_nested_flex_op : forall pv t a fo bs p n ct, wf t = true -> validate t a bs = Ok tt ->
  tail_container t bs = Some (p, n, ct) -> flex_nop_ok ct fo ->
  let sub := take n (drop p bs) in
  let r := nested_flex_op pv t a fo bs in
  blen (fst r) = blen bs /\ validate t a (fst r) = Ok tt /\
  take p (fst r) = take p bs /\ drop (p + n) (fst r) = drop (p + n) bs /\
  validate ct (a + p) sub = Ok tt /\
  take n (drop p (fst r)) = fst (flex_op pv ct (a + p) fo sub) /\ snd r = snd (flex_op pv ct (a + p) fo sub) /\
  tail_container t (fst r) = Some (p, n, ct) /\ tail_depth t (fst r) = tail_depth t bs /\
  validate ct (a + p) (fst (flex_op pv ct (a + p) fo sub)) = Ok tt /\
  exists v w', view t bs = Ok v /\ view ct (fst (flex_op pv ct (a + p) fo sub)) = Ok w' /\
    view t (fst r) = Ok (replace_tail (tail_depth t bs) v w').
Proof.
  intros pv t a fo bs p n ct Hw Hv Htc Hop sub r.
  destruct (nested_flex_op_ok pv t a fo bs p n ct Hw Hv Htc Hop) as (A & B & C & (D1 & D2 & D3 & D4 & D5 & D6 & D7 & D8)).
  fold sub r in A, B, C, D1, D2, D3, D4, D5, D6, D7, D8. rewrite C in D7, D8. repeat (split; [assumption|]). exact D8.
Qed.

(* 4. Every finite history of such operations from a valid value: the final state and every state
   passed through is related to the initial one by nested_rel (valid, same length, same bytes
   outside the tail's slice, tail at the same place, the accessors read the initial value with the
   tail replaced); the tail slice and the reported outcomes are those of the same history run on a
   top-level container mapped from the initial sub-slice at address a + p. *)
Theorem c14_nested_history : forall pv t a ops bs p n ct, wf t = true -> validate t a bs = Ok tt ->
  tail_container t bs = Some (p, n, ct) -> Forall (nop_ok ct) ops ->
  let r := nested_run pv t a ops bs in
  nested_rel t a p n ct bs (fst r) /\
  Forall (nested_rel t a p n ct bs) (nested_trace pv t a ops bs) /\
  take n (drop p (fst r)) = fst (cont_run pv ct (a + p) ops (take n (drop p bs))) /\
  snd r = snd (cont_run pv ct (a + p) ops (take n (drop p bs))).
Proof. exact nested_history_ok. Qed.

(* what nested_rel is, spelled out *)
Theorem c14_nested_rel_def : forall t a p n ct bs b, nested_rel t a p n ct bs b <->
  blen b = blen bs /\ validate t a b = Ok tt /\
  take p b = take p bs /\ drop (p + n) b = drop (p + n) bs /\
  tail_container t b = Some (p, n, ct) /\ tail_depth t b = tail_depth t bs /\
  validate ct (a + p) (take n (drop p b)) = Ok tt /\
  exists v w', view t bs = Ok v /\ view ct (take n (drop p b)) = Ok w' /\
    view t b = Ok (replace_tail (tail_depth t bs) v w').
Proof. intros. unfold nested_rel. tauto. Qed.

(* ... and what it says about siblings: along the whole path, and at the top of a struct / enum *)
Theorem c14_nested_siblings : forall t a p n ct bs b v v', nested_rel t a p n ct bs b ->
  view t bs = Ok v -> view t b = Ok v' ->
  siblings (tail_depth t bs) v' = siblings (tail_depth t bs) v.
Proof. exact nested_rel_siblings. Qed.

Theorem c14_nested_siblings_top : forall t a p n ct bs b g vs g' vs', is_cont t = false ->
  nested_rel t a p n ct bs b ->
  view t bs = Ok (VNode g vs) -> view t b = Ok (VNode g' vs') ->
  g' = g /\ removelast vs' = removelast vs.
Proof. exact nested_rel_top. Qed.

(* ---------- non-vacuity ---------- *)

Definition x_u8 := {| isize := 1; ialign := 1; ibe := false |}.
Definition x_u16 := {| isize := 2; ialign := 2; ibe := false |}.
Definition x_u32 := {| isize := 4; ialign := 4; ibe := false |}.

(* #[flat(sized = false)] struct { a: u8, b: u32, tail: FlatVec<u8, u8> } over 15 bytes at address 8:
   the tail covers [8, 12) of the 12 floored bytes; push(7) through the mapped value *)
Example c14_nested_struct_vec :
  let t := TStruct false (FCons (TInt x_u8) (FCons (TInt x_u32) (FCons (TVec (TInt x_u8) x_u8) FNil))) in
  let bs := [7;0;0;0; 1;2;3;4; 2;10;11;0; 0;0;0] in
  wf t = true /\ validate t 8 bs = Ok tt /\
  tail_container t bs = Some (8, 4, TVec (TInt x_u8) x_u8) /\ tail_depth t bs = 1%nat /\
  item_vop_ok (TVec (TInt x_u8) x_u8) (VPush (IInt 7)) /\
  view t bs = Ok (VNode 0 [VInt 7; VInt 67305985; VCont 3 [VInt 10; VInt 11]]) /\
  nested_vec_op None t (VPush (IInt 7)) bs = ([7;0;0;0; 1;2;3;4; 3;10;11;7; 0;0;0], ODone) /\
  view t (fst (nested_vec_op None t (VPush (IInt 7)) bs)) =
    Ok (VNode 0 [VInt 7; VInt 67305985; VCont 3 [VInt 10; VInt 11; VInt 7]]).
Proof. vm_compute. repeat split; reflexivity. Qed.

(* #[flat(sized = false)] enum { A, B(u16, FlatString<u8>) } holding B at address 2: the tail sits
   behind the tag and the u16; push('A') *)
Example c14_nested_enum_str :
  let t := TEnum false x_u8 0 (VCons FNil (VCons (FCons (TInt x_u16) (FCons (TStr x_u8) FNil)) VNil)) in
  let bs := [1;0; 5;0; 2;104;105;0; 0;0;0] in
  wf t = true /\ validate t 2 bs = Ok tt /\
  tail_container t bs = Some (4, 6, TStr x_u8) /\ tail_depth t bs = 1%nat /\
  view t bs = Ok (VNode 1 [VInt 5; VCont 5 [VInt 104; VInt 105]]) /\
  nested_vec_op None t (SPushChar 65) bs = ([1;0; 5;0; 3;104;105;65; 0;0;0], ODone) /\
  view t (fst (nested_vec_op None t (SPushChar 65) bs)) =
    Ok (VNode 1 [VInt 5; VCont 5 [VInt 104; VInt 105; VInt 65]]) /\
  (* the unit variant has no tail *)
  tail_container t [0;0;0;0;0] = None.
Proof. vm_compute. repeat split; reflexivity. Qed.

(* a struct whose tail is a struct whose tail is a FlexVec<u16, u8>: a history of two pushes and a
   pop through the outer value *)
Example c14_nested_struct_struct_flex :
  let ct := TFlex (TInt x_u16) x_u8 in
  let t := TStruct false (FCons (TInt x_u16) (FCons (TStruct false (FCons (TInt x_u8) (FCons ct FNil))) FNil)) in
  let bs := [9;0; 3;0; 0;0;0;0;0;0; 0;0;0;0;0] in
  let ops := [NFlex (FPush (IInt 513)); NFlex (FPush (IInt 1027)); NFlex FPop] in
  wf t = true /\ validate t 0 bs = Ok tt /\
  tail_container t bs = Some (4, 10, ct) /\ tail_depth t bs = 2%nat /\
  (flex_nop_ok ct (FPush (IInt 513)) /\ flex_nop_ok ct (FPush (IInt 1027)) /\ flex_nop_ok ct FPop) /\
  view t bs = Ok (VNode 0 [VInt 9; VNode 0 [VInt 3; VNode 0 []]]) /\
  snd (nested_run None t 0 ops bs) = [ODone; ODone; ODone] /\
  view t (fst (nested_run None t 0 (firstn 2 ops) bs)) =
    Ok (VNode 0 [VInt 9; VNode 0 [VInt 3; VNode 0 [VInt 513; VInt 1027]]]) /\
  view t (fst (nested_run None t 0 ops bs)) = Ok (VNode 0 [VInt 9; VNode 0 [VInt 3; VNode 0 [VInt 513]]]) /\
  validate t 0 (fst (nested_run None t 0 ops bs)) = Ok tt.
Proof. vm_compute. repeat split; reflexivity. Qed.

Print Assumptions c14_nested_tail_slice.
Print Assumptions c14_nested_tail_slice_all_levels.
Print Assumptions c14_replace_tail_siblings.
Print Assumptions c14_replace_tail_top.
Print Assumptions c14_nested_vec_op.
Print Assumptions c14_nested_vec_op_typed.
Print Assumptions c14_nested_flex_op.
Print Assumptions c14_nested_history.
Print Assumptions c14_nested_rel_def.
Print Assumptions c14_nested_siblings.
Print Assumptions c14_nested_siblings_top.
