(* C01 — validation is total: Ok or Err, never a panic, an out-of-bounds access or an unbounded loop.
   Pinned statements only; proofs in Proofs/ValidateFacts.v. *)
From Coq Require Import NArith List Bool.
From Flatty.Model Require Import Base Ty Layout Validate.
From Flatty.Proofs Require Import ValidateFacts.
Open Scope N_scope.

(* every descriptor the macro accepts whose length / tag types fit usize, every address, every byte
   string of every length: validate returns Ok or Err.  Crash covers every panic of the Rust
   (split, unwrap, arithmetic, division), every unchecked read outside the slice, and exhaustion of
   the FlexVec walk's fuel (= the loop runs more than |slice|+1 times). *)
Theorem c01_validate_total : forall t a bs,
  wf t = true -> narrow_ty t = true -> bytes_ok bs = true ->
  validate t a bs = Ok tt \/ exists k p, validate t a bs = Err k p.
Proof. exact validate_total. Qed.

(* the unchecked part alone is total once the gate (alignment, minimum size) has been passed *)
Theorem c01_unchecked_total : forall t, wf t = true -> narrow_ty t = true -> forall a bs,
  bytes_ok bs = true -> min_size t <= blen bs -> nocrash (validate_u t a bs).
Proof. exact (proj1 validate_nocrash_mut). Qed.

(* the FlexVec chain walk terminates within its fuel whatever the offsets say *)
Theorem c01_walk_terminates : forall A l os al (item : A -> N -> N -> bytes -> res A),
  narrow l = true -> 0 < os -> isize l <= os ->
  (forall acc pos pa payload, bytes_ok payload = true -> nocrash (item acc pos pa payload)) ->
  forall acc a data pos, bytes_ok data = true ->
    nocrash (flex_fold l os al item (flex_fuel data) acc a data pos).
Proof.
  intros A l os al item Hn Hos Hl Hi acc a data pos Hb.
  apply (flex_fold_nocrash l os al item Hn Hos Hl Hi); [exact Hb|]. unfold flex_fuel. apply PeanoNat.Nat.lt_succ_diag_r.
Qed.

(* known finding (D15): with a length type wider than usize the stored length is converted with
   to_usize().unwrap(), which panics on a large value — the hypothesis narrow_ty cannot be dropped *)
Definition ex_u8 := TInt {| isize := 1; ialign := 1; ibe := false |}.
Definition ex_u128 := {| isize := 16; ialign := 16; ibe := false |}.
Theorem c01_refuted_wide_len :
  exists t a bs, wf t = true /\ bytes_ok bs = true /\ validate t a bs = Crash PanicUnwrap.
Proof.
  exists (TVec ex_u8 ex_u128), 0, (repeat 255 16). vm_compute. repeat split; reflexivity.
Qed.

(* non-vacuity: a nested unsized definition meets the hypotheses; a hostile offset chain is an error *)
Example c01_example :
  let l8 := {| isize := 1; ialign := 1; ibe := false |} in
  let t := TFlex (TVec ex_u8 l8) l8 in
  wf t = true /\ narrow_ty t = true /\ validate t 0 [5; 0] = Err InsufficientSize 0
  /\ validate t 0 [3; 1; 7; 0] = Ok tt.
Proof. vm_compute. repeat split; reflexivity. Qed.

Print Assumptions c01_validate_total.
Print Assumptions c01_unchecked_total.
Print Assumptions c01_walk_terminates.
Print Assumptions c01_refuted_wide_len.
