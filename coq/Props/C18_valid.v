(* C18 (validity after a failed assignment) — a FAILED assign_in_place on a valid value leaves a
   valid value, for the class of (type, emplacer expression) pairs  fv_ok false t i = true.
   Pinned statements only; proofs in Proofs/AssignValidFacts.v (the library's emplacers) and
   Proofs/AssignSpineFacts.v (the generated initialisers, the mutual induction).

   The class (c18_fv_ok_def).  The emplacer that fails can only be the one of the last field,
   recursively; fv_ok follows that spine down to an emplacer of the library:
   - every sized type, the Empty / Default emplacers: they never fail;
   - FromArray (flat_vec!), FromStr: the capacity is checked before anything is written, a failure
     leaves the old bytes (Props/C18.v) — good on a valid target (fresh = false) only;
   - vec::FromIterator: a failure leaves a valid prefix of the requested content
     (c18_vec_iter_failed_is_prefix); flex::FromIterator: the items completed so far with the chain
     terminated (the fix c9eb3c8) — both valid whatever the bytes held before (fresh = true);
   - generated struct initialiser: as its last field's emplacer (the earlier fields are sized, their
     emplacers cannot fail; they HAVE been overwritten: valid, not unchanged);
   - generated enum initialiser: the tag is rewritten before the fields are emplaced, so the last
     field of the chosen variant must be good on ANY bytes (fresh = true), and the enum itself only
     on a valid target (when the variant does not fit, nothing is written).
   Outside the class is exactly the known finding class late_field_refusal: an enum variant whose
   last field is emplaced by FromArray / FromStr or is itself an unsized enum (c18_refuted_late_refusal
   in Props/C18.v: the failed assignment leaves an invalid value; fv_ok is false there, see the
   example below).
   Hypotheses: wf, narrow_ty (no length / offset / tag type wider than 8 bytes), the expression is
   well typed (init_ok) with UTF-8 string literals (utf8_init), the target validates. *)
From Coq Require Import NArith List Bool.
From Flatty.Model Require Import Base Ty Layout Validate View Emplace.
From Flatty.Proofs Require Import EmplaceSpec AssignFacts EmplaceUnsizedFacts AssignValidFacts AssignSpineFacts.
Import ListNotations.
Open Scope N_scope.

(* the class, equation by equation *)
Theorem c18_fv_ok_def : forall fresh,
  (forall et l i, fv_ok fresh (TVec et l) i = match i with IVecArr _ => negb fresh | _ => true end) /\
  (forall l i, fv_ok fresh (TStr l) i = match i with IStr _ => negb fresh | _ => true end) /\
  (forall et l i, fv_ok fresh (TFlex et l) i = true) /\
  (forall t i, sized t = true -> fv_ok fresh t i = true) /\
  (forall fs i, fv_ok fresh (TStruct false fs) i =
     match field_inits i (flen fs) with Some is => fv_last fresh fs is | None => true end) /\
  (forall tag d vs i, fv_ok fresh (TEnum false tag d vs) i =
     match i with IVar k is => negb fresh && fv_variant vs (N.to_nat k) is | _ => true end) /\
  (forall t i is, fv_last fresh (FCons t FNil) (i :: is) = fv_ok fresh t i) /\
  (forall t t' r i is, fv_last fresh (FCons t (FCons t' r)) (i :: is) = fv_last fresh (FCons t' r) is) /\
  (forall fs r is, fv_variant (VCons fs r) O is = fv_last true fs is) /\
  (forall fs r k is, fv_variant (VCons fs r) (S k) is = fv_variant r k is).
Proof.
  intros fresh. repeat split; try reflexivity.
  intros t i Hs. destruct t as [|it| |tag n d|t n|et l|l|et l|s fs|s tag d vs]; try reflexivity; try discriminate Hs;
    cbn [sized] in Hs; subst s; reflexivity.
Qed.

(* every type whose emplacers are the library's own — sized types and the three containers, any item
   type — is in the class with every expression *)
Theorem c18_library_in_class : forall t i,
  match t with TStruct false _ | TEnum false _ _ _ => False | _ => True end -> fv_ok false t i = true.
Proof.
  intros t i H. apply fv_ok_false_library. destruct t as [|it| |tag n d|t n|et l|l|et l|s fs|s tag d vs]; try reflexivity;
    destruct s; try reflexivity; contradiction.
Qed.

(* the pinned statement: after a failed assign_in_place the slice has its old length and validates *)
Theorem c18_failed_assign_valid : forall t i, wf t = true -> narrow_ty t = true ->
  init_ok t i = true -> utf8_init i = true -> fv_ok false t i = true ->
  forall pv a bs k p, validate t a bs = Ok tt ->
    snd (assign_in_place pv t i a bs) = Err k p ->
    blen (fst (assign_in_place pv t i a bs)) = blen bs /\
    validate t a (fst (assign_in_place pv t i a bs)) = Ok tt.
Proof. exact assign_failed_valid_spine. Qed.

(* hence, with C03 / C15 for the successful case: whatever assign_in_place returns, the target is
   valid afterwards (it never crashes: assign_in_place_ok) *)
Theorem c18_assign_always_valid : forall t i, wf t = true -> narrow_ty t = true ->
  init_ok t i = true -> utf8_init i = true -> fv_ok false t i = true ->
  forall pv a bs, validate t a bs = Ok tt ->
    blen (fst (assign_in_place pv t i a bs)) = blen bs /\
    validate t a (fst (assign_in_place pv t i a bs)) = Ok tt.
Proof. exact assign_always_valid_spine. Qed.

(* one level down, for the emplacer itself on an aligned slice of at least MIN_SIZE bytes: a failure
   leaves a valid value — on a slice that held a valid value (fresh = false), on any slice
   (fresh = true) *)
Theorem c18_failed_emplace_valid : forall t i fresh, wf t = true -> narrow_ty t = true ->
  init_ok t i = true -> utf8_init i = true -> fv_ok fresh t i = true ->
  forall pv a buf k p, aligned a (align t) = true -> min_size t <= blen buf ->
    (fresh = false -> validate_u t a buf = Ok tt) ->
    snd (emplace_u pv t i a buf) = Err k p ->
    validate_u t a (fst (emplace_u pv t i a buf)) = Ok tt.
Proof. exact emplace_u_failed_valid_spine. Qed.

(* vec::FromIterator that fails has left exactly what the (successful) emplacement of a prefix of the
   requested items leaves *)
Theorem c18_vec_iter_failed_is_prefix : forall pv et l is a buf b' k p,
  emplace_u pv (TVec et l) (IVecIter is) a buf = (b', Err k p) ->
  exists c, emplace_u pv (TVec et l) (IVecIter (firstn c is)) a buf = (b', Ok tt).
Proof. exact vec_iter_fail_prefix. Qed.

(* flex::FromIterator that fails leaves a valid FlexVec — whatever the buffer held before, whatever
   the item type, wherever an item emplacer gave up *)
Theorem c18_flex_iter_failed_valid : forall et l, wf (TFlex et l) = true -> narrow_ty (TFlex et l) = true ->
  forall is, init_ok (TFlex et l) (IFlex is) = true -> utf8_init (IFlex is) = true ->
  forall pv a buf k p, aligned a (align (TFlex et l)) = true -> min_size (TFlex et l) <= blen buf ->
    snd (emplace_u pv (TFlex et l) (IFlex is) a buf) = Err k p ->
    validate_u (TFlex et l) a (fst (emplace_u pv (TFlex et l) (IFlex is) a buf)) = Ok tt.
Proof. exact flex_iter_fail_valid. Qed.

(* the Default emplacer of any type never fails where there is room for MIN_SIZE *)
Theorem c18_default_never_fails : forall t, wf t = true -> narrow_ty t = true -> init_ok t IDefault = true ->
  forall pv a buf k p, aligned a (align t) = true -> min_size t <= blen buf ->
    snd (emplace_u pv t IDefault a buf) = Err k p -> False.
Proof. exact default_not_err. Qed.

(* non-vacuity.
   (1) FlexVec<FlatVec<u8, u8>, u8> holding [[7]] in 12 bytes, assigning [flat_vec![1, 2],
       FromIterator of eight 3s]: the first item is completed, the second stores six elements and
       fails; the target holds [[1, 2]] and validates.
   (2) enum { V0(FlatVec<u8, u8>), #[default] V1 } holding V1 in 8 bytes with a stale byte behind the
       tag (the state of c18_refuted_late_refusal).  Assigning V0(FromIterator of 8 items) is in the
       class: the tag is rewritten, six items are stored, the call fails and the target validates as
       V0 of those six.  Assigning V0(flat_vec![8 items]) is NOT in the class (fv_ok = false): that is
       the known finding.
   (3) struct { a: u8, e: struct { b: u8, f: FlexVec<FlatString<u8>, u8> } }: the failing emplacer is
       two levels down the spine; a and b have been overwritten, f holds the one completed item. *)
Example c18_valid_example :
  let u8i := {| isize := 1; ialign := 1; ibe := false |} in
  let u8 := TInt u8i in
  let tv := TVec u8 u8i in
  let t := TFlex tv u8i in
  let cur := [255; 1; 7; 9; 9; 9; 9; 9; 9; 9; 5; 5] in
  let i1 := IFlex [IVecArr [IInt 1; IInt 2];
                   IVecIter [IInt 3; IInt 3; IInt 3; IInt 3; IInt 3; IInt 3; IInt 3; IInt 3]] in
  let te := TEnum false u8i 1 (VCons (FCons tv FNil) (VCons FNil VNil)) in
  let ecur := [1; 200; 0; 0; 0; 0; 0; 0] in
  let eight := [IInt 1; IInt 2; IInt 3; IInt 4; IInt 5; IInt 6; IInt 7; IInt 8] in
  let tn := TStruct false (FCons u8 (FCons (TStruct false (FCons u8 (FCons (TFlex (TStr u8i) u8i) FNil))) FNil)) in
  let ncur := [1; 2; 255; 1; 65; 9; 9; 9; 9; 9] in
  let in2 := ISeq [IInt 3; ISeq [IInt 4; IFlex [IStr [66; 67]; IStr [68; 69; 70; 71; 72; 73]]]] in
  (wf t = true /\ narrow_ty t = true /\ init_ok t i1 = true /\ utf8_init i1 = true /\ fv_ok false t i1 = true /\
   validate t 0 cur = Ok tt /\
   assign_in_place None t i1 0 cur = ([255; 2; 1; 2; 9; 6; 3; 3; 3; 3; 3; 3], Err InsufficientSize 0) /\
   validate t 0 [255; 2; 1; 2; 9; 6; 3; 3; 3; 3; 3; 3] = Ok tt /\
   view t [255; 2; 1; 2; 9; 6; 3; 3; 3; 3; 3; 3] = Ok (VNode 0 [VCont 10 [VInt 1; VInt 2]])) /\
  (wf te = true /\ narrow_ty te = true /\ validate te 0 ecur = Ok tt /\
   init_ok te (IVar 0 [IVecIter eight]) = true /\ fv_ok false te (IVar 0 [IVecIter eight]) = true /\
   assign_in_place None te (IVar 0 [IVecIter eight]) 0 ecur = ([0; 6; 1; 2; 3; 4; 5; 6], Err InsufficientSize 0) /\
   validate te 0 [0; 6; 1; 2; 3; 4; 5; 6] = Ok tt /\
   init_ok te (IVar 0 [IVecArr eight]) = true /\ fv_ok false te (IVar 0 [IVecArr eight]) = false /\
   assign_in_place None te (IVar 0 [IVecArr eight]) 0 ecur = ([0; 200; 0; 0; 0; 0; 0; 0], Err InsufficientSize 0) /\
   validate te 0 [0; 200; 0; 0; 0; 0; 0; 0] = Err InsufficientSize 2) /\
  (wf tn = true /\ narrow_ty tn = true /\ validate tn 0 ncur = Ok tt /\
   init_ok tn in2 = true /\ utf8_init in2 = true /\ fv_ok false tn in2 = true /\
   assign_in_place None tn in2 0 ncur = ([3; 4; 255; 2; 66; 67; 9; 9; 9; 9], Err InsufficientSize 0) /\
   validate tn 0 [3; 4; 255; 2; 66; 67; 9; 9; 9; 9] = Ok tt /\
   view tn [3; 4; 255; 2; 66; 67; 9; 9; 9; 9]
     = Ok (VNode 0 [VInt 3; VNode 0 [VInt 4; VNode 0 [VCont 6 [VInt 66; VInt 67]]]])).
Proof. vm_compute. repeat split; reflexivity. Qed.

Print Assumptions c18_fv_ok_def.
Print Assumptions c18_library_in_class.
Print Assumptions c18_failed_assign_valid.
Print Assumptions c18_assign_always_valid.
Print Assumptions c18_failed_emplace_valid.
Print Assumptions c18_vec_iter_failed_is_prefix.
Print Assumptions c18_flex_iter_failed_valid.
Print Assumptions c18_default_never_fails.
