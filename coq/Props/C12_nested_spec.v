(* C12 (nested, contents of histories) — every finite history on a FlexVec of FlexVecs (operations of
   the outer vector interleaved with in-place edits of inner vectors, Props/C12_nested_hist.v) refines
   the list-of-lists model: the contents read at the end are what the model computes from the
   contents at the start and the outcomes reported step by step.
   Pinned statements only; proofs in Proofs/FlexNestedSpecFacts.v, by induction over the history from
   the single-step content theorems (flex_op_step_g of Proofs/FlexOpsFacts.v at the outer and at the
   inner type, flex_edit_flex_ok of Proofs/FlexNestedFacts.v).

   Reading guide.
   - t = TFlex (TFlex it il) l, fop2 / flex2_step / flex2_run / step_ok as in Props/C12_nested_hist.v.
   - The contents of an image are map strip vs where view t bs = Ok (VNode 0 vs): one value
     VNode 0 ws per inner vector, ws its items (strip, Model/View.v, removes the capacities nested
     FlatVec / FlatString values report; for the sized inner items here it changes nothing).
   - spec2_step it il xs o out = the step of the model on the contents xs for the step o whose
     reported outcome is out.  Outer fo: the list model of the outer vector (flex_spec_step at the
     item type TFlex it il, Props/C12.v: pop = removelast, truncate n = firstn n, clear = [], push i
     appends spec_value (TFlex it il) i exactly when the outcome is ODone).  Inner j fo: inner vector j
     is replaced by the same list model at the item type it applied to its items; when there is no
     inner vector j nothing changes.
   - spec2_run folds spec2_step over the history and the list of reported outcomes. *)
From Coq Require Import NArith List Bool.
From Flatty.Model Require Import Base Ty Layout Validate View Emplace Ops.
From Flatty.Proofs Require Import ChainFacts ViewFacts EmplaceSpec FlexOpsFacts EmplaceUnsizedFacts FlexAllFacts FlexNestedFacts
  FlexNestedHistFacts FlexNestedSpecFacts.
Import ListNotations.
Open Scope N_scope.

(* the definitions, spelled out *)
Theorem c12n_spec2_step_def : forall it il xs o out,
  spec2_step it il xs o out =
  match o with
  | Outer fo => flex_spec_step (TFlex it il) xs fo out
  | Inner j fo =>
      match nth_error xs (N.to_nat j) with
      | Some (VNode g ws) => splice (N.to_nat j) (VNode g (flex_spec_step it ws fo out)) xs
      | _ => xs
      end
  end.
Proof. reflexivity. Qed.

Theorem c12n_spec2_run_def : forall it il xs,
  (forall outs, spec2_run it il [] outs xs = xs) /\
  (forall ops, spec2_run it il ops [] xs = xs) /\
  forall o ops out outs, spec2_run it il (o :: ops) (out :: outs) xs =
    spec2_run it il ops outs (spec2_step it il xs o out).
Proof.
  intros it il xs. split; [reflexivity|]. split; [|reflexivity].
  intros ops. destruct ops; reflexivity.
Qed.

(* the list model of one vector (Proofs/FlexOpsFacts.v), spelled out *)
Theorem c12n_flex_spec_step_def : forall et xs op o,
  flex_spec_step et xs op o =
  match op with
  | FPop => removelast xs
  | FTruncate n => firstn (N.to_nat n) xs
  | FClear => []
  | FPush i => match o, spec_value et i with ODone, Some v => xs ++ [v] | _, _ => xs end
  | _ => xs
  end.
Proof. reflexivity. Qed.

(* 1. every history of covered steps from a valid image: the image at the end has a view, and its
   contents are the run of the list-of-lists model from the contents at the start, fed with the
   outcomes the implementation reported (hypotheses: those of c12n_history_valid, and vs names the
   items at the start) *)
Theorem c12n_history_contents : forall pv it il l a,
  wf (TFlex (TFlex it il) l) = true -> narrow_ty (TFlex (TFlex it il) l) = true ->
  wf it = true -> sized it = true ->
  forall ops bs vs, Forall (step_ok it il) ops ->
  validate (TFlex (TFlex it il) l) a bs = Ok tt -> view (TFlex (TFlex it il) l) bs = Ok (VNode 0 vs) ->
  exists vs', view (TFlex (TFlex it il) l) (fst (flex2_run pv it il l a ops bs)) = Ok (VNode 0 vs') /\
    map strip vs' = spec2_run it il ops (snd (flex2_run pv it il l a ops bs)) (map strip vs).
Proof. exact nested_history_contents. Qed.

(* 2. one step (the induction step): after a covered step on a valid image the contents are the step
   of the model on the contents before, with the reported outcome *)
Theorem c12n_step_contents : forall pv it il l a,
  wf (TFlex (TFlex it il) l) = true -> narrow_ty (TFlex (TFlex it il) l) = true ->
  wf it = true -> sized it = true ->
  forall o bs vs, step_ok it il o ->
  validate (TFlex (TFlex it il) l) a bs = Ok tt -> view (TFlex (TFlex it il) l) bs = Ok (VNode 0 vs) ->
  let r := flex2_step pv it il l a o bs in
  exists vs', view (TFlex (TFlex it il) l) (fst r) = Ok (VNode 0 vs') /\
    map strip vs' = spec2_step it il (map strip vs) o (snd r).
Proof. exact nested_step_contents. Qed.

(* 3. an inner edit alone (only the two offset types have to be narrow): push of a well-typed
   expression / pop / truncate / clear on inner vector j; in range the item becomes the step of the
   inner list model, out of range nothing changes *)
Theorem c12n_inner_step_contents : forall pv it il l a,
  wf (TFlex (TFlex it il) l) = true -> narrow l = true -> narrow il = true ->
  wf it = true -> sized it = true ->
  forall j fo bs vs, inner_ok it fo ->
  validate (TFlex (TFlex it il) l) a bs = Ok tt -> view (TFlex (TFlex it il) l) bs = Ok (VNode 0 vs) ->
  let r := flex_edit_flex pv (TFlex (TFlex it il) l) a j fo bs in
  exists vs', view (TFlex (TFlex it il) l) (fst r) = Ok (VNode 0 vs') /\
    map strip vs' = spec2_step it il (map strip vs) (Inner j fo) (snd r).
Proof. exact nested_inner_step_contents. Qed.

(* non-vacuity: the nine-step history of c12n_history_example (FlexVec<FlexVec<u8, u8>, u8>, the empty
   vector with 16 spare bytes).  The model, run on the empty list with the outcomes the
   implementation reports, gives after every prefix of the history the stripped view of the image
   after that prefix; at the end [VNode 0 [VInt 1]] (step 8, the refused inner push, and step 9,
   the edit of an item that does not exist, change nothing) *)
Example c12n_contents_example :
  let l8 := {| isize := 1; ialign := 1; ibe := false |} in
  let u8 := TInt l8 in
  let t := TFlex (TFlex u8 l8) l8 in
  let im0 := [0; 9;9;9;9; 9;9;9;9; 9;9;9;9; 9;9;9;9] in
  let ops := [Outer (FPush IEmpty); Inner 0 (FPush (IInt 1)); Inner 0 (FPush (IInt 2)); Inner 0 FPop;
              Outer (FPush IEmpty); Inner 1 (FPush (IInt 7)); Outer FPop; Inner 0 (FPush (IInt 3));
              Inner 5 FPop] in
  let run k := flex2_run None u8 l8 l8 0 (firstn k ops) im0 in
  let model k := spec2_run u8 l8 (firstn k ops) (snd (run k)) [] in
  let stripped k := match view t (fst (run k)) with Ok (VNode 0 vs) => Some (map strip vs) | _ => None end in
  wf t = true /\ narrow_ty t = true /\ wf u8 = true /\ sized u8 = true /\ validate t 0 im0 = Ok tt /\
  Forall (step_ok u8 l8) ops /\ view t im0 = Ok (VNode 0 []) /\
  snd (run 9%nat) = [ODone; ODone; ODone; ODone; ODone; ODone; ODone; OErr InsufficientSize; OPanic] /\
  model 1%nat = [VNode 0 []] /\ stripped 1%nat = Some (model 1%nat) /\
  model 2%nat = [VNode 0 [VInt 1]] /\ stripped 2%nat = Some (model 2%nat) /\
  model 3%nat = [VNode 0 [VInt 1; VInt 2]] /\ stripped 3%nat = Some (model 3%nat) /\
  model 4%nat = [VNode 0 [VInt 1]] /\ stripped 4%nat = Some (model 4%nat) /\
  model 5%nat = [VNode 0 [VInt 1]; VNode 0 []] /\ stripped 5%nat = Some (model 5%nat) /\
  model 6%nat = [VNode 0 [VInt 1]; VNode 0 [VInt 7]] /\ stripped 6%nat = Some (model 6%nat) /\
  model 7%nat = [VNode 0 [VInt 1]] /\ stripped 7%nat = Some (model 7%nat) /\
  model 8%nat = [VNode 0 [VInt 1]] /\ stripped 8%nat = Some (model 8%nat) /\
  model 9%nat = [VNode 0 [VInt 1]] /\ stripped 9%nat = Some (model 9%nat) /\
  spec2_run u8 l8 ops (snd (flex2_run None u8 l8 l8 0 ops im0)) [] = [VNode 0 [VInt 1]] /\
  view t (fst (flex2_run None u8 l8 l8 0 ops im0)) = Ok (VNode 0 [VNode 0 [VInt 1]]) /\
  map strip [VNode 0 [VInt 1]] = [VNode 0 [VInt 1]] /\
  (* the outcome matters: had step 8 reported ODone the model would have appended 3 *)
  spec2_run u8 l8 ops [ODone; ODone; ODone; ODone; ODone; ODone; ODone; ODone; OPanic] [] =
    [VNode 0 [VInt 1; VInt 3]].
Proof. vm_compute. repeat split; try reflexivity; repeat constructor. Qed.

Print Assumptions c12n_spec2_step_def.
Print Assumptions c12n_spec2_run_def.
Print Assumptions c12n_flex_spec_step_def.
Print Assumptions c12n_history_contents.
Print Assumptions c12n_step_contents.
Print Assumptions c12n_inner_step_contents.
Print Assumptions c12n_contents_example.
