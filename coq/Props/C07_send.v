(* C07 (send side) — partial writes are transparent: with a pipe that accepts at least one byte per
   call, whatever the chunk sizes, the sink receives exactly the concatenation of the messages'
   first size() bytes, in order, and every send returns SOk.
   Pinned statements only; proofs in Proofs/IoSendFacts.v (vocabulary: see Props/C09_send.v;
   accepts w = "w is WA n with 1 <= n"; an exhausted script accepts everything offered). *)
From Coq Require Import NArith List Bool Lia.
From Flatty.Model Require Import Base Io.
From Flatty.Proofs Require Import IoSendFacts.
Import ListNotations.
Open Scope N_scope.

(* one write phase: accept-only script, enough fuel and calls: SOk, the whole rest was handed over *)
Theorem c07_write_loop_all_accept : forall fuel limit count sd pos k evs sd' k' pos' evs' o,
  write_loop fuel limit pos count sd k evs = (sd', k', pos', evs', o) ->
  Forall accepts (wscript k) ->
  count <= blen (occupied (sbuf sd)) -> pos <= count ->
  (N.to_nat (count - pos) < fuel)%nat -> wcalls k + (count - pos) <= limit ->
  o = SOk /\ pos' = count /\ sd' = sd /\ Forall accepts (wscript k').
Proof. exact write_loop_all_accept. Qed.

(* one message *)
Theorem c07_send_one_accept : forall size_f I emplace_f CAP limit (i : I) sd k sd1 k1 o,
  sd_ready CAP sd -> emplace_good size_f I emplace_f CAP i -> poisoned sd = false ->
  Forall accepts (wscript k) ->
  wcalls k + blen (msg_bytes size_f I emplace_f i (data (sbuf sd))) <= limit ->
  send_one size_f I emplace_f limit i sd k = (sd1, k1, o) ->
  o = SOk /\ sunk k1 = sunk k ++ msg_bytes size_f I emplace_f i (data (sbuf sd))
  /\ sd_ready CAP sd1 /\ poisoned sd1 = false
  /\ data (sbuf sd1) = msg_buf I emplace_f i (data (sbuf sd))
  /\ Forall accepts (wscript k1)
  /\ wcalls k1 <= wcalls k + blen (msg_bytes size_f I emplace_f i (data (sbuf sd))).
Proof. exact send_one_accept. Qed.

(* any list of messages; the watchdog allows one call per byte of the whole stream *)
Theorem c07_send_many_stream : forall size_f I emplace_f CAP limit (is : list I) sd k outs k',
  sd_ready CAP sd -> Forall (emplace_good size_f I emplace_f CAP) is -> poisoned sd = false ->
  Forall accepts (wscript k) ->
  wcalls k + blen (concat (msgs size_f I emplace_f is (data (sbuf sd)))) <= limit ->
  send_many size_f I emplace_f limit is sd k = (outs, k') ->
  outs = map (fun _ => SOk) is
  /\ sunk k' = sunk k ++ concat (msgs size_f I emplace_f is (data (sbuf sd)))
  /\ Forall accepts (wscript k').
Proof. exact send_many_stream. Qed.

(* non-vacuity: three toy messages through a pipe that takes 1, 2, 9, 1, then everything *)
Definition ex_sd := {| sbuf := new_buffer 6 0; poisoned := false |}.
Definition ex_k ws := {| sunk := [77]; wscript := ws; fscript := []; wcalls := 0 |}.
Example c07_example_hyps :
  sd_ready 6 ex_sd /\ Forall (emplace_good toy_size bytes toy_emplace 6) [[1;2;3]; [4]; [5;6]]
  /\ Forall accepts (wscript (ex_k [WA 1; WA 2; WA 9; WA 1])).
Proof.
  split; [unfold sd_ready; cbn; repeat split; lia|].
  split; [repeat constructor; apply toy_good; unfold blen; cbn [length]; lia|].
  cbn [ex_k wscript]. repeat constructor; eexists; (split; [reflexivity|lia]).
Qed.
Example c07_example :
  send_many toy_size bytes toy_emplace 9 [[1;2;3]; [4]; [5;6]] ex_sd (ex_k [WA 1; WA 2; WA 9; WA 1])
  = ([SOk; SOk; SOk],
     {| sunk := [77; 3;1;2;3; 1;4; 2;5;6]; wscript := []; fscript := []; wcalls := 6 |}).
Proof. vm_compute. reflexivity. Qed.

Print Assumptions c07_write_loop_all_accept.
Print Assumptions c07_send_one_accept.
Print Assumptions c07_send_many_stream.
Print Assumptions c07_example_hyps.
