(* C08 (wake-up discipline) — a task is re-polled only after its waker was woken, and the waker is
   registered by whoever answered Pending last: the pipe.  So the library's futures may answer
   Pending ONLY when the pipe they polled in that same call answered Pending, as the LAST pipe
   interaction of the call; otherwise nobody ever wakes the task (a lost wake-up; the harness checks
   the same on the real code, key wake=lost).  Pinned statements only; proofs in
   Proofs/IoWakeFacts.v.

   Vocabulary (c08_wake_defs below pins the definitions):
     recv_loop         one poll of the recv() future (Model/Io.v)
     send_poll         one poll of the WriteAll future: the poisoned check, write_loop from the
                       current position and, once the whole message was handed over, the flush;
                       c08_wake_send_poll_is_turn: it is the body of one turn of asend_poll
     pend_count l      the number of Pending answers (EvWP, EvFP) in the event list l
     is_evw            the event is an accepted write (EvW n)
     sys_hyps, sys_inv, mu, fuel_ok   as in Props/C08_sys.v *)
From Coq Require Import NArith List Bool Lia.
From Flatty.Model Require Import Base Io.
From Flatty.Proofs Require Import IoRecvFacts IoSendFacts IoSysFacts IoWakeFacts.
From Flatty.Props Require Import C08_sys.
Import ListNotations.
Open Scope N_scope.

Theorem c08_wake_defs : forall limit pos count sd k evs (l : list wev) (e : wev),
  send_poll limit pos count sd k evs =
    (if poisoned sd then (sd, k, pos, evs, SPanic)
     else
       match write_loop (S (N.to_nat count)) limit pos count sd k evs with
       | (sd1, k1, pos1, evs1, SOk) =>
           match (match fscript k1 with [] => FO | d :: _ => d end) with
           | FO => ({| sbuf := clear (sbuf sd1); poisoned := poisoned sd1 |},
                    {| sunk := sunk k1; wscript := wscript k1; fscript := tl (fscript k1); wcalls := wcalls k1 |},
                    pos1, EvFO :: evs1, SOk)
           | FE e0 => (sd1, {| sunk := sunk k1; wscript := wscript k1; fscript := tl (fscript k1); wcalls := wcalls k1 |},
                       pos1, EvFE :: evs1, SIo e0)
           | FP => (sd1, {| sunk := sunk k1; wscript := wscript k1; fscript := tl (fscript k1); wcalls := wcalls k1 |},
                    pos1, EvFP :: evs1, SPending)
           end
       | r => r
       end) /\
  pend_count l = length (filter (fun x => match x with EvWP | EvFP => true | _ => false end) l) /\
  is_evw e = match e with EvW _ => true | _ => false end.
Proof. intros. repeat split. Qed.

(* send_poll is the turn of asend_poll: after the harness's poll budget check, a Pending poll is
   followed by the next poll from the state it left, any other outcome completes the future; every
   poll is counted once *)
Theorem c08_wake_send_poll_is_turn : forall fuel limit polls pos count sd k evs,
  asend_poll (S fuel) limit polls pos count sd k evs =
  if limit <=? polls then (sd, k, polls, evs, SHang)
  else
    match send_poll limit pos count sd k evs with
    | (sd1, k1, pos1, evs1, SPending) => asend_poll fuel limit (polls + 1) pos1 count sd1 k1 evs1
    | (sd1, k1, _, evs1, o) => (sd1, k1, polls + 1, evs1, o)
    end.
Proof. exact asend_poll_turn. Qed.

(* ------------------------------------------------------------------ 1. recv *)

(* For every validation function, fuel, watchdog limit, resume flag, buffer and source: a poll of
   the recv() future that answers Pending consumed the script directives pre — none of them a
   Pending — and then an RP, as its LAST pipe call; the call counter advanced by exactly these
   calls. *)
Theorem c08_wake_recv : forall v fuel limit sv b s b' s',
  recv_loop v fuel limit sv b s = (b', s', RPending) ->
  exists pre, rscript s = pre ++ RP :: rscript s' /\ Forall (fun d => d <> RP) pre /\
              rcalls s' = rcalls s + N.of_nat (length pre) + 1.
Proof. exact recv_loop_wake. Qed.

(* the same, sharper: every directive consumed before the RP was a delivery (RD), and the watchdog
   limit was not exceeded *)
Theorem c08_wake_recv_rd : forall v fuel limit sv b s b' s',
  recv_loop v fuel limit sv b s = (b', s', RPending) ->
  exists pre, rscript s = pre ++ RP :: rscript s' /\ Forall (fun d => exists k, d = RD k) pre /\
              rcalls s' = rcalls s + N.of_nat (length pre) + 1 /\ rcalls s' <= limit.
Proof. exact recv_loop_wake_rd. Qed.

(* a pipe that never answers Pending: the poll never answers Pending *)
Theorem c08_wake_recv_no_rp : forall v fuel limit sv b s b' s' o,
  ~ In RP (rscript s) -> recv_loop v fuel limit sv b s = (b', s', o) -> o <> RPending.
Proof. exact recv_loop_no_rp_no_pending. Qed.

(* ------------------------------------------------------------------ 2. send *)

(* A poll of the WriteAll future that answers Pending.  wr: the other events of this poll, all
   accepted writes, all older than the Pending answer, which is the newest event.  Either the
   pipe's write answered Pending: the write script lost the accepting directives pre and then that
   WP as the last directive consumed, the flush script is untouched, bytes are left to write; or
   the whole message had been handed over and the pipe's flush answered Pending: the flush script
   lost exactly that FP.  The sink gained exactly the bytes of the accepted writes wr — no byte was
   handed over after the Pending answer — the sender is unchanged and the write-call counter
   advanced by exactly the write calls made. *)
Theorem c08_wake_send : forall limit pos count sd k evs sd' k' pos' evs',
  send_poll limit pos count sd k evs = (sd', k', pos', evs', SPending) ->
  exists wr pre,
    forallb is_evw wr = true /\
    pos' = pos + ev_bytes wr /\
    sunk k' = sunk k ++ take (ev_bytes wr) (drop pos (occupied (sbuf sd))) /\
    sd' = sd /\
    Forall (fun d => d <> WP) pre /\
    ((evs' = EvWP :: wr ++ evs /\
      wscript k = pre ++ WP :: wscript k' /\ length pre = length wr /\ fscript k' = fscript k /\
      wcalls k' = wcalls k + N.of_nat (length wr) + 1 /\ pos' < count)
     \/
     (evs' = EvFP :: wr ++ evs /\
      wscript k = pre ++ wscript k' /\ (length pre <= length wr)%nat /\ fscript k = FP :: fscript k' /\
      wcalls k' = wcalls k + N.of_nat (length wr) /\ count <= pos')).
Proof. exact send_poll_wake. Qed.

(* every poll: exactly one Pending answer among its events when it answers Pending, none otherwise *)
Theorem c08_wake_send_events : forall limit pos count sd k evs sd' k' pos' evs' o,
  send_poll limit pos count sd k evs = (sd', k', pos', evs', o) ->
  exists new, evs' = new ++ evs /\
    pend_count new = (match o with SPending => 1 | _ => 0 end)%nat.
Proof. exact send_poll_events. Qed.

(* a pipe that never answers Pending (no WP, no FP in the scripts): the poll never answers Pending *)
Theorem c08_wake_send_no_pending : forall limit pos count sd k evs sd' k' pos' evs' o,
  ~ In WP (wscript k) -> ~ In FP (fscript k) ->
  send_poll limit pos count sd k evs = (sd', k', pos', evs', o) -> o <> SPending.
Proof. exact send_poll_no_pending. Qed.

(* The WriteAll future polled to completion, every script: the polls counted are the Pending
   answers of the pipe among the new events plus the one completing poll (fewer only when the run
   is cut by the watchdog, SHang). *)
Theorem c08_wake_send_poll_count : forall fuel limit polls pos count sd k evs sd' k' polls' evs' o,
  asend_poll fuel limit polls pos count sd k evs = (sd', k', polls', evs', o) ->
  o <> SPending /\
  exists new, evs' = new ++ evs /\
    polls' <= polls + N.of_nat (pend_count new) + 1 /\
    (o <> SHang -> polls' = polls + N.of_nat (pend_count new) + 1).
Proof. exact asend_poll_count. Qed.

(* no WP and no FP in the scripts: the WriteAll future is completed by its first poll — exactly one
   poll is counted *)
Theorem c08_wake_send_one_poll : forall fuel limit polls pos count sd k evs sd' k' polls' evs' o,
  ~ In WP (wscript k) -> ~ In FP (fscript k) -> polls < limit ->
  asend_poll (S fuel) limit polls pos count sd k evs = (sd', k', polls', evs', o) ->
  polls' = polls + 1 /\ o <> SPending /\
  exists pos', send_poll limit pos count sd k evs = (sd', k', pos', evs', o).
Proof. exact asend_poll_no_pending_one_poll. Qed.

(* one whole async message (alloc().await, emplacement, WriteAll) on such a pipe: at most two polls,
   exactly two whenever the pipe answered (SOk or an io error); no Pending event; the scripts still
   hold no Pending directive afterwards *)
Theorem c08_wake_send_message : forall sz I (e : I -> N -> bytes -> bytes * res unit)
    fuel limit polls i sd k sd' k' polls' evs' o,
  ~ In WP (wscript k) -> ~ In FP (fscript k) ->
  asend_one sz I e fuel limit polls i sd k = (sd', k', polls', evs', o) ->
  o <> SPending /\ polls' <= polls + 2 /\
  ((o = SOk \/ exists e0, o = SIo e0) -> polls' = polls + 2) /\
  pend_count evs' = 0%nat /\
  ~ In WP (wscript k') /\ ~ In FP (fscript k').
Proof. exact asend_one_no_pending. Qed.

(* a list of messages on such a pipe: two polls per message whenever every message got an answer
   from the pipe *)
Theorem c08_wake_send_messages : forall sz I (e : I -> N -> bytes -> bytes * res unit)
    fuel limit is polls sd k outs k' polls',
  ~ In WP (wscript k) -> ~ In FP (fscript k) ->
  asend_many sz I e fuel limit polls is sd k = (outs, k', polls') ->
  polls' <= polls + 2 * N.of_nat (length is) /\
  Forall (fun oe => fst oe <> SPending /\ pend_count (snd oe) = 0%nat) outs /\
  (Forall (fun oe => fst oe = SOk \/ exists e0, fst oe = SIo e0) outs -> length outs = length is ->
   polls' = polls + 2 * N.of_nat (length is)).
Proof. exact asend_many_no_pending. Qed.

(* ------------------------------------------------------------------ 3. the composed system *)

(* One poll of the sending task — any message type, fuel and state, no invariant.  If it leaves the
   task unfinished, the task is suspended inside the write of a message (bytes left, sender not
   poisoned) and either the poll was given the spurious flag and did not touch the ring, or the
   ring it leaves (the ring at its last write attempt; nothing happens after it) has no free byte. *)
Theorem c08_wake_sys_send_poll : forall sz I (e : I -> N -> bytes -> bytes * res unit)
    fuel spur t sd r t' sd' r',
  sys_poll_send sz I e fuel spur t sd r = (t', sd', r') ->
  sender_done I t' = false ->
  (exists rest pos count, t' = TWriting I rest pos count /\ pos < count) /\
  poisoned sd' = false /\ rcap r' = rcap r /\ closed r' = closed r /\
  ((spur = true /\ r' = r) \/ rcap r' <= blen (rbytes r')).
Proof. exact sys_poll_send_wake. Qed.

(* One poll of the receiving task — any message type, fuel and state, no invariant.  If it leaves
   the task unfinished, the task is registered as suspended in its read and either the poll was
   given the spurious flag and did not touch the ring, or the ring it leaves (the ring at its last
   read attempt) is empty and not closed. *)
Theorem c08_wake_sys_recv_poll : forall v sz fuel spur pend b r del b' pend' r' del',
  sys_poll_recv v sz fuel spur pend b r del = (None, b', pend', r', del') ->
  pend' = true /\ rcap r' = rcap r /\ closed r' = closed r /\
  ((spur = true /\ r' = r) \/ (rbytes r' = [] /\ closed r' = false)).
Proof. intros v sz. exact (sys_poll_recv_wake sz v). Qed.

(* In the system (invariant of Props/C08_sys.v): a poll that leaves the sender unfinished leaves it
   suspended inside a write; either the poll was spurious and the ring content is unchanged, or the
   ring is FULL.  Then the receiver is not finished, and with a ring of capacity >= 1 the
   receiver's next non-spurious poll strictly decreases the variant and empties the ring: the
   sender waits on a condition that a poll of the other task changes, never spontaneously. *)
Theorem c08_wake_sys_send : forall A v sz I e is0 CAPs CAPr c fill_s fuel spur y,
  sys_hyps A v sz I e is0 CAPs CAPr fill_s ->
  fuel_ok sz I e is0 CAPs CAPr fill_s fuel ->
  sys_inv A sz I e is0 CAPs CAPr c fill_s y ->
  sender_done I (y_send I y) = false ->
  let y' := sys_step v sz I e fuel true spur y in
  sender_done I (y_send I y') = false ->
  (exists rest pos count, y_send I y' = TWriting I rest pos count /\ pos < count) /\
  ((spur = true /\ rbytes (y_ring I y') = rbytes (y_ring I y)) \/
   (blen (rbytes (y_ring I y')) = c /\ rcap (y_ring I y') = c /\
    y_recv I y' = None /\
    (1 <= c ->
     let y'' := sys_step v sz I e fuel false false y' in
     mu sz I e is0 CAPs fill_s y'' < mu sz I e is0 CAPs fill_s y' /\
     rbytes (y_ring I y'') = []))).
Proof.
  intros A v sz I e is0 CAPs CAPr c fill_s fuel spur y (H1 & H2 & H3 & H4 & H5 & H6 & H7).
  cbv zeta. apply (sys_send_suspended A v); assumption.
Qed.

(* In the system: a poll that leaves the receiver unfinished leaves it registered as suspended in
   its read; either the poll was spurious and the ring is unchanged, or the ring is EMPTY and NOT
   CLOSED.  Then the sender is not finished, and with a ring of capacity >= 1 the sender's next
   non-spurious poll strictly decreases the variant and leaves the ring non-empty or closed. *)
Theorem c08_wake_sys_recv : forall A v sz I e is0 CAPs CAPr c fill_s fuel spur y,
  sys_hyps A v sz I e is0 CAPs CAPr fill_s ->
  fuel_ok sz I e is0 CAPs CAPr fill_s fuel ->
  sys_inv A sz I e is0 CAPs CAPr c fill_s y ->
  y_recv I y = None ->
  let y' := sys_step v sz I e fuel false spur y in
  y_recv I y' = None ->
  y_rpending I y' = true /\
  ((spur = true /\ y_ring I y' = y_ring I y) \/
   (rbytes (y_ring I y') = [] /\ closed (y_ring I y') = false /\
    sender_done I (y_send I y') = false /\
    (1 <= c ->
     let y'' := sys_step v sz I e fuel true false y' in
     mu sz I e is0 CAPs fill_s y'' < mu sz I e is0 CAPs fill_s y' /\
     (rbytes (y_ring I y'') <> [] \/ closed (y_ring I y'') = true)))).
Proof.
  intros A v sz I e is0 CAPs CAPr c fill_s fuel spur y (H1 & H2 & H3 & H4 & H5 & H6 & H7).
  cbv zeta. apply (sys_recv_suspended A v); assumption.
Qed.

(* ------------------------------------------------------------------ non-vacuity *)

(* recv: an RP in the middle of the script; the poll consumed pre = [RD 1; RD 2] and then the RP
   (three calls), the directive RD 9 is left for the resumed future *)
Example c08_wake_recv_example :
  recv_loop toy_validate 20 100 false (new_buffer 8 0)
    {| stream := [5; 1; 2; 3; 4; 2; 7]; rscript := [RD 1; RD 2; RP; RD 9]; rcalls := 0 |}
  = ({| data := [5; 1; 2; 0; 0; 0; 0; 0]; st := 0; en := 3 |},
     {| stream := [3; 4; 2; 7]; rscript := [RD 9]; rcalls := 3 |}, RPending)
  /\ [RD 1; RD 2; RP; RD 9] = [RD 1; RD 2] ++ RP :: [RD 9].
Proof. vm_compute. split; reflexivity. Qed.

(* send: the message [4;1;2;3] on a pipe whose third write and first flush answer Pending.  First
   poll: two accepted writes, then WP (newest event EvWP; three bytes in the sink).  Second poll:
   the last byte, then the flush answers Pending (newest event EvFP).  Third poll: flushed.  Three
   polls = two Pending answers + 1; without the WP and the FP: one poll. *)
Definition ex_wake_sd : sender :=
  {| sbuf := {| data := [4; 1; 2; 3; 0; 0; 0; 0]; st := 0; en := 8 |}; poisoned := false |}.
Definition ex_wake_k : sink :=
  {| sunk := [9]; wscript := [WA 1; WA 2; WP; WA 7]; fscript := [FP; FO]; wcalls := 0 |}.
Definition ex_wake_k1 : sink :=
  {| sunk := [9; 4; 1; 2]; wscript := [WA 7]; fscript := [FP; FO]; wcalls := 3 |}.
Definition ex_wake_k2 : sink :=
  {| sunk := [9; 4; 1; 2; 3]; wscript := []; fscript := [FO]; wcalls := 4 |}.
Example c08_wake_send_example :
  send_poll 100 0 4 ex_wake_sd ex_wake_k [] = (ex_wake_sd, ex_wake_k1, 3, [EvWP; EvW 2; EvW 1], SPending)
  /\ send_poll 100 3 4 ex_wake_sd ex_wake_k1 [EvWP; EvW 2; EvW 1]
     = (ex_wake_sd, ex_wake_k2, 4, [EvFP; EvW 1; EvWP; EvW 2; EvW 1], SPending)
  /\ (let r := asend_poll 10 100 0 0 4 ex_wake_sd ex_wake_k [] in
      (snd (fst (fst r)), snd (fst r), snd r)) = (3, [EvFO; EvFP; EvW 1; EvWP; EvW 2; EvW 1], SOk)
  /\ (let r := asend_poll 10 100 0 0 4 ex_wake_sd
                 {| sunk := [9]; wscript := [WA 1; WA 2; WA 7]; fscript := [FO]; wcalls := 0 |} [] in
      (snd (fst (fst r)), snd (fst r), snd r)) = (1, [EvFO; EvW 1; EvW 2; EvW 1], SOk).
Proof. vm_compute. repeat split; reflexivity. Qed.

(* system (the toy run of Props/C08_sys.v, ring of capacity 1): the first poll of the sender pushes
   one byte and suspends on the full ring; the receiver's poll takes it, finds the window too short
   and suspends on the empty open ring; the sender's next poll pushes the next byte.  The variant
   goes 18, 17, 16, 15. *)
Definition ex_wake_y1 := sys_step toy_validate ex_tsz bytes sys_toy_emplace 40 true false (sys_init bytes ex_is 8 4 1 7 0).
Definition ex_wake_y2 := sys_step toy_validate ex_tsz bytes sys_toy_emplace 40 false false ex_wake_y1.
Definition ex_wake_y3 := sys_step toy_validate ex_tsz bytes sys_toy_emplace 40 true false ex_wake_y2.
Example c08_wake_sys_example :
  (y_send bytes ex_wake_y1, y_ring bytes ex_wake_y1, y_recv bytes ex_wake_y1)
  = (TWriting bytes [[]; [9; 9]] 1 4, {| rbytes := [4]; rcap := 1; closed := false |}, None)
  /\ (y_recv bytes ex_wake_y2, y_rpending bytes ex_wake_y2, y_ring bytes ex_wake_y2)
     = (None, true, {| rbytes := []; rcap := 1; closed := false |})
  /\ (y_send bytes ex_wake_y3, y_ring bytes ex_wake_y3)
     = (TWriting bytes [[]; [9; 9]] 2 4, {| rbytes := [1]; rcap := 1; closed := false |})
  /\ map (mu ex_tsz bytes sys_toy_emplace ex_is 8 7)
       [sys_init bytes ex_is 8 4 1 7 0; ex_wake_y1; ex_wake_y2; ex_wake_y3] = [18; 17; 16; 15].
Proof. vm_compute. repeat split; reflexivity. Qed.

Print Assumptions c08_wake_defs.
Print Assumptions c08_wake_send_poll_is_turn.
Print Assumptions c08_wake_recv.
Print Assumptions c08_wake_recv_rd.
Print Assumptions c08_wake_recv_no_rp.
Print Assumptions c08_wake_send.
Print Assumptions c08_wake_send_events.
Print Assumptions c08_wake_send_no_pending.
Print Assumptions c08_wake_send_poll_count.
Print Assumptions c08_wake_send_one_poll.
Print Assumptions c08_wake_send_message.
Print Assumptions c08_wake_send_messages.
Print Assumptions c08_wake_sys_send_poll.
Print Assumptions c08_wake_sys_recv_poll.
Print Assumptions c08_wake_sys_send.
Print Assumptions c08_wake_sys_recv.
