(* C12 — FlexVec on its byte image is a list: on a valid image every in-place operation
   (push, pop, truncate, clear, editing one item) yields a valid image of the same length whose
   item list is the list operation applied to the old item list, and so does every finite history.
   Pinned statements only; proofs in Proofs/FlexOpsFacts.v.

   Reading guide.
   - The image bs of a FlexVec<et, l> mapped at address a is valid: validate (TFlex et l) a bs = Ok tt
     (this includes the alignment of a).  wf (TFlex et l) = the library accepts the definition;
     narrow l = the offset type is at most 8 bytes wide.
   - What is observed: view (TFlex et l) bs = Ok (VNode 0 vs), vs the values of the items in order
     (a FlatVec / FlatString inside an item reports its capacity; strip removes capacities);
     len() is the length of vs; size() is size_m.
   - flex_op pv t a op bs = (slice afterwards, what the call reported).
   - The item emplacer of push and the item-level operation of an edit are premises: what is needed
     of them is exactly what the emplacement theorems (C03 / C15) and the FlatVec theorems (C11)
     state for the item type; c12_push_sized discharges the premises for every sized item type. *)
From Coq Require Import NArith List Bool.
From Flatty.Model Require Import Base Ty Layout Validate View Emplace Ops.
From Flatty.Proofs Require Import ChainFacts ViewFacts EmplaceSpec FlexOpsFacts.
Open Scope N_scope.

(* the iterator of the operations (flex_chain) lists (slot position, payload length) of exactly the
   items of the chain validation walked, in order, and ends where that chain ends *)
Theorem c12_chain : forall t l a bs, wf (TFlex t l) = true -> validate (TFlex t l) a bs = Ok tt ->
  exists items e,
    chain l (flex_offset_size t l) (align (TFlex t l)) (flex_max l) a (flex_data t l bs) 0 items e /\
    Forall (item_ok t) items /\
    flex_chain l (flex_offset_size t l) (align (TFlex t l)) (flex_data t l bs) = Ok (map item_pl items, e).
Proof. exact flex_chain_valid. Qed.

(* clear(): completes, the slice keeps its length, the result is valid and empty, size() is the
   bare offset slot, and the only write is a zero into the first slot *)
Theorem c12_clear : forall pv et l a, wf (TFlex et l) = true -> narrow l = true ->
  forall bs, validate (TFlex et l) a bs = Ok tt ->
  let r := flex_op pv (TFlex et l) a FClear bs in
  snd r = ODone /\ blen (fst r) = blen bs /\ validate (TFlex et l) a (fst r) = Ok tt /\
  view (TFlex et l) (fst r) = Ok (VNode 0 []) /\ size_m (TFlex et l) (fst r) = Ok (flex_offset_size et l) /\
  fst r = write_int_at l 0 0 bs.
Proof. exact flex_clear_ok. Qed.

(* truncate(k): completes, the slice keeps its length, the result is valid and holds the first k
   items unchanged; with k >= len nothing is written; otherwise the only write is a zero into one
   slot at p, and the new size() is p + OFFSET_SIZE: every byte of the retained items (all of them
   lie before p) is untouched *)
Theorem c12_truncate : forall pv et l a, wf (TFlex et l) = true -> narrow l = true ->
  forall k bs vs, validate (TFlex et l) a bs = Ok tt -> view (TFlex et l) bs = Ok (VNode 0 vs) ->
  let r := flex_op pv (TFlex et l) a (FTruncate k) bs in
  snd r = ODone /\ blen (fst r) = blen bs /\ validate (TFlex et l) a (fst r) = Ok tt /\
  view (TFlex et l) (fst r) = Ok (VNode 0 (firstn (N.to_nat k) vs)) /\
  (N.of_nat (length vs) <= k -> fst r = bs) /\
  (fst r = bs \/
   exists p, p + isize l <= blen bs /\ fst r = write_int_at l p 0 bs /\
             size_m (TFlex et l) (fst r) = Ok (p + flex_offset_size et l)).
Proof. exact flex_truncate_ok. Qed.

(* pop(): refused exactly on the empty vector, and then the slice is returned byte for byte;
   otherwise it completes and the last item is removed (the same single write as truncate) *)
Theorem c12_pop : forall pv et l a, wf (TFlex et l) = true -> narrow l = true ->
  forall bs vs, validate (TFlex et l) a bs = Ok tt -> view (TFlex et l) bs = Ok (VNode 0 vs) ->
  let r := flex_op pv (TFlex et l) a FPop bs in
  (vs = [] -> snd r = ORefused /\ fst r = bs) /\ (vs <> [] -> snd r = ODone) /\
  blen (fst r) = blen bs /\ validate (TFlex et l) a (fst r) = Ok tt /\
  view (TFlex et l) (fst r) = Ok (VNode 0 (removelast vs)) /\
  (fst r = bs \/
   exists p, p + isize l <= blen bs /\ fst r = write_int_at l p 0 bs /\
             size_m (TFlex et l) (fst r) = Ok (p + flex_offset_size et l)).
Proof. exact flex_pop_ok. Qed.

(* push(i) of a well-typed emplacer expression.  Premises on the item emplacer: success means a
   valid item with the specified content in a buffer of the same length; a failure keeps the
   length; it never crashes.  Then the call never panics and either
   - succeeds: the slice keeps its length and is valid; its items are the old ones followed by the
     new one; the old values are unchanged except that the previous last item, whose room now ends
     at the new slot, may report a smaller capacity (removelast equal, contents equal); of the
     first size() bytes only the slot the old chain ended in (at p) is rewritten; or
   - reports an error kd (no room for a slot, offset not representable: InsufficientSize with the
     slice returned byte for byte; or the error of the item emplacer): the slice keeps its length,
     is valid, has the same size(), the same first size() bytes and the same contents. *)
Theorem c12_push : forall pv et l a, wf (TFlex et l) = true -> narrow l = true ->
  (forall i pa payload payload', init_ok et i = true ->
     emplace pv et i pa payload = (payload', Ok tt) ->
     blen payload' = blen payload /\ validate et pa payload' = Ok tt /\
     (exists v, view et payload' = Ok v /\ spec_value et i = Some (strip v))) ->
  (forall i pa payload, init_ok et i = true ->
     is_crash (snd (emplace pv et i pa payload)) = false ->
     blen (fst (emplace pv et i pa payload)) = blen payload) ->
  (forall i pa payload, init_ok et i = true ->
     is_crash (snd (emplace pv et i pa payload)) = false) ->
  forall i bs vs k, init_ok et i = true ->
  validate (TFlex et l) a bs = Ok tt -> view (TFlex et l) bs = Ok (VNode 0 vs) ->
  size_m (TFlex et l) bs = Ok k ->
  let r := flex_op pv (TFlex et l) a (FPush i) bs in
  blen (fst r) = blen bs /\ validate (TFlex et l) a (fst r) = Ok tt /\
  ((snd r = ODone /\
    exists vs' v, view (TFlex et l) (fst r) = Ok (VNode 0 (vs' ++ [v])) /\
      map strip vs' = map strip vs /\ removelast vs' = removelast vs /\
      spec_value et i = Some (strip v) /\
      exists p, p + isize l <= k /\ take p (fst r) = take p bs /\
        take (k - (p + isize l)) (drop (p + isize l) (fst r)) =
        take (k - (p + isize l)) (drop (p + isize l) bs))
   \/
   (exists kd, snd r = OErr kd /\
      ((kd = InsufficientSize /\ fst r = bs) \/
       exists pa payload p, snd (emplace pv et i pa payload) = Err kd p) /\
      take k (fst r) = take k bs /\ size_m (TFlex et l) (fst r) = Ok k /\
      exists vs', view (TFlex et l) (fst r) = Ok (VNode 0 vs') /\ map strip vs' = map strip vs)).
Proof. exact flex_push_ok. Qed.

(* the three premises of c12_push hold for every accepted sized item type *)
Theorem c12_push_sized : forall pv et, wf et = true -> sized et = true ->
  (forall i pa payload payload', init_ok et i = true ->
     emplace pv et i pa payload = (payload', Ok tt) ->
     blen payload' = blen payload /\ validate et pa payload' = Ok tt /\
     (exists v, view et payload' = Ok v /\ spec_value et i = Some (strip v))) /\
  (forall i pa payload, init_ok et i = true ->
     is_crash (snd (emplace pv et i pa payload)) = false ->
     blen (fst (emplace pv et i pa payload)) = blen payload) /\
  (forall i pa payload, init_ok et i = true ->
     is_crash (snd (emplace pv et i pa payload)) = false).
Proof.
  intros pv et Hw Hs. split; [exact (sized_item_ok pv et Hw Hs)|].
  split; [exact (sized_item_len pv et Hw Hs)|exact (sized_item_nocrash pv et Hw Hs)].
Qed.

(* every finite history of push / pop / truncate / clear (simple_op: these four, the pushed
   expressions well typed) from a valid image: the slice keeps its length, stays valid, its
   contents are those the list model computes from the reported outcomes (flex_spec_run: pop =
   removelast, truncate k = firstn k, clear = [], a push appends the specified content exactly when
   it reported success), and the reported outcomes are those the list model allows
   (flex_spec_outs: pop is refused exactly on the empty list, truncate and clear complete, a push
   completes or reports an error) *)
Theorem c12_history : forall pv et l a, wf (TFlex et l) = true -> narrow l = true ->
  (forall i pa payload payload', init_ok et i = true ->
     emplace pv et i pa payload = (payload', Ok tt) ->
     blen payload' = blen payload /\ validate et pa payload' = Ok tt /\
     (exists v, view et payload' = Ok v /\ spec_value et i = Some (strip v))) ->
  (forall i pa payload, init_ok et i = true ->
     is_crash (snd (emplace pv et i pa payload)) = false ->
     blen (fst (emplace pv et i pa payload)) = blen payload) ->
  (forall i pa payload, init_ok et i = true ->
     is_crash (snd (emplace pv et i pa payload)) = false) ->
  forall ops bs vs, Forall (simple_op et) ops ->
  validate (TFlex et l) a bs = Ok tt -> view (TFlex et l) bs = Ok (VNode 0 vs) ->
  let r := flex_run pv et l a ops bs in
  blen (fst r) = blen bs /\ validate (TFlex et l) a (fst r) = Ok tt /\
  exists vs', view (TFlex et l) (fst r) = Ok (VNode 0 vs') /\
    map strip vs' = flex_spec_run et ops (snd r) (map strip vs) /\
    flex_spec_outs et ops (snd r) (map strip vs).
Proof. exact flex_op_history. Qed.

(* iter_mut().nth(j) followed by a FlatVec / FlatString operation vo on the item.  Premise: vo maps
   a valid item payload to a valid payload of the same length.  With j out of range the call
   panics and the slice is returned; otherwise the outcome is that of vo on the payload of item j,
   the slice keeps its length and is valid, item j reads the value of the new payload and every
   other item is unchanged (splice j v' vs = vs with element j replaced by v') *)
Theorem c12_edit_vec : forall pv et l a, wf (TFlex et l) = true -> narrow l = true ->
  forall j vo bs vs,
  (forall pa pl, validate et pa pl = Ok tt ->
     blen (fst (vec_op pv et vo pl)) = blen pl /\ validate et pa (fst (vec_op pv et vo pl)) = Ok tt) ->
  validate (TFlex et l) a bs = Ok tt -> view (TFlex et l) bs = Ok (VNode 0 vs) ->
  let r := flex_op pv (TFlex et l) a (FEditVec j vo) bs in
  (nth_error vs (N.to_nat j) = None -> r = (bs, OPanic)) /\
  (forall v, nth_error vs (N.to_nat j) = Some v ->
     exists pa pl v', validate et pa pl = Ok tt /\ view et pl = Ok v /\
       snd r = snd (vec_op pv et vo pl) /\ view et (fst (vec_op pv et vo pl)) = Ok v' /\
       blen (fst r) = blen bs /\ validate (TFlex et l) a (fst r) = Ok tt /\
       view (TFlex et l) (fst r) = Ok (VNode 0 (splice (N.to_nat j) v' vs))).
Proof. exact flex_edit_vec_ok. Qed.

(* iter_mut().nth(j) followed by assign_in_place(x) on the item; same premise and conclusion, the
   outcome is that of the assignment (assign_out: Ok -> ODone, Err k -> OErr k) *)
Theorem c12_edit_assign : forall pv et l a, wf (TFlex et l) = true -> narrow l = true ->
  forall j x bs vs,
  (forall pa pl, validate et pa pl = Ok tt ->
     blen (fst (assign_in_place pv et x pa pl)) = blen pl /\
     validate et pa (fst (assign_in_place pv et x pa pl)) = Ok tt) ->
  validate (TFlex et l) a bs = Ok tt -> view (TFlex et l) bs = Ok (VNode 0 vs) ->
  let r := flex_op pv (TFlex et l) a (FEditAssign j x) bs in
  (nth_error vs (N.to_nat j) = None -> r = (bs, OPanic)) /\
  (forall v, nth_error vs (N.to_nat j) = Some v ->
     exists pa pl v', validate et pa pl = Ok tt /\ view et pl = Ok v /\
       snd r = assign_out (assign_in_place pv et x pa pl) /\
       view et (fst (assign_in_place pv et x pa pl)) = Ok v' /\
       blen (fst r) = blen bs /\ validate (TFlex et l) a (fst r) = Ok tt /\
       view (TFlex et l) (fst r) = Ok (VNode 0 (splice (N.to_nat j) v' vs))).
Proof. exact flex_edit_assign_ok. Qed.

(* the replaced list: element j is the new one, every other element is the old one *)
Theorem c12_splice : forall (A : Type) j (x : A) xs k, (j < length xs)%nat ->
  nth_error (splice j x xs) k = if Nat.eqb k j then Some x else nth_error xs k.
Proof. intros A. exact nth_error_splice. Qed.

(* non-vacuity: FlexVec<FlatVec<u8, u8>, u8> (OFFSET_SIZE 1, ALIGN 1) with the items [7], [8, 9]
   and three spare bytes; FlexVec<u32, u8> (OFFSET_SIZE 4, ALIGN 4) at address 4 with one item and
   two bytes behind the floored data *)
Example c12_example :
  let l8 := {| isize := 1; ialign := 1; ibe := false |} in
  let u32 := {| isize := 4; ialign := 4; ibe := false |} in
  let tv := TVec (TInt l8) l8 in
  let t1 := TFlex tv l8 in
  let t2 := TFlex (TInt u32) l8 in
  let im1 := [3;1;7; 255;2;8;9;0;0;0] in
  let im2 := [255;0;0;0; 1;0;0;0; 0;0;0;0; 0;0;0;0; 9;9] in
  wf t1 = true /\ wf t2 = true /\ narrow l8 = true /\
  validate t1 0 im1 = Ok tt /\ size_m t1 im1 = Ok 7 /\
  view t1 im1 = Ok (VNode 0 [VCont 1 [VInt 7]; VCont 5 [VInt 8; VInt 9]]) /\
  flex_chain l8 1 1 im1 = Ok ([(0, 2); (3, 6)], EndLast 3) /\
  flex_op None t1 0 FClear im1 = ([0;1;7; 255;2;8;9;0;0;0], ODone) /\
  flex_op None t1 0 (FTruncate 1) im1 = ([3;1;7; 0;2;8;9;0;0;0], ODone) /\
  flex_op None t1 0 (FTruncate 2) im1 = (im1, ODone) /\
  flex_op None t1 0 FPop im1 = ([3;1;7; 0;2;8;9;0;0;0], ODone) /\
  flex_op None t1 0 FPop [0;0;0;0] = ([0;0;0;0], ORefused) /\
  (* push: the last item is sealed with offset 4 and shrinks to capacity 2 *)
  flex_op None t1 0 (FPush (IVecArr [IInt 4])) im1 = ([3;1;7; 4;2;8;9; 255;1;4], ODone) /\
  view t1 [3;1;7; 4;2;8;9; 255;1;4] =
    Ok (VNode 0 [VCont 1 [VInt 7]; VCont 2 [VInt 8; VInt 9]; VCont 1 [VInt 4]]) /\
  spec_value tv (IVecArr [IInt 4]) = Some (VCont 0 [VInt 4]) /\
  (* push refused: the slot fits, the payload does not (error of the item emplacer) *)
  flex_op None t1 0 (FPush (IVecArr [IInt 4; IInt 4; IInt 4; IInt 4])) im1 = (im1, OErr InsufficientSize) /\
  (* push refused: no room for a slot *)
  flex_op None t1 0 (FPush IEmpty) [255;2;8;9] = ([255;2;8;9], OErr InsufficientSize) /\
  (* push refused: the offset 255 of the sealed item is not representable below u8::MAX;
     with one element less in the last item (offset 254) the same push succeeds *)
  snd (flex_op None t1 0 (FPush IEmpty) ([255; 253] ++ repeat 7 253 ++ [0;0;0;0;0;0])) = OErr InsufficientSize /\
  snd (flex_op None t1 0 (FPush IEmpty) ([255; 252] ++ repeat 7 252 ++ [0;0;0;0;0;0;0])) = ODone /\
  (* a history, and the list model run on the reported outcomes *)
  flex_run None tv l8 0 [FPush (IVecArr [IInt 4]); FPush (IVecArr [IInt 5]); FPop; FTruncate 1; FPush IEmpty] im1 =
    ([3;1;7; 255;0;8;9;0;1;4], [ODone; OErr InsufficientSize; ODone; ODone; ODone]) /\
  view t1 [3;1;7; 255;0;8;9;0;1;4] = Ok (VNode 0 [VCont 1 [VInt 7]; VCont 5 []]) /\
  flex_spec_run tv [FPush (IVecArr [IInt 4]); FPush (IVecArr [IInt 5]); FPop; FTruncate 1; FPush IEmpty]
    [ODone; OErr InsufficientSize; ODone; ODone; ODone] [VCont 0 [VInt 7]; VCont 0 [VInt 8; VInt 9]] =
    [VCont 0 [VInt 7]; VCont 0 []] /\
  (* edits *)
  flex_op None t1 0 (FEditVec 1 (VPush (IInt 5))) im1 = ([3;1;7; 255;3;8;9;5;0;0], ODone) /\
  flex_op None t1 0 (FEditVec 0 (VPush (IInt 5))) im1 = (im1, ORefused) /\
  flex_op None t1 0 (FEditVec 2 (VPush (IInt 5))) im1 = (im1, OPanic) /\
  flex_op None t1 0 (FEditAssign 1 (IVecArr [IInt 1; IInt 2; IInt 3])) im1 = ([3;1;7; 255;3;1;2;3;0;0], ODone) /\
  (* alignment 4, address 4, two bytes behind the floored data stay *)
  validate t2 4 im2 = Ok tt /\ view t2 im2 = Ok (VNode 0 [VInt 1]) /\ size_m t2 im2 = Ok 8 /\
  flex_op None t2 4 (FPush (IInt 5)) im2 = ([8;0;0;0; 1;0;0;0; 255;0;0;0; 5;0;0;0; 9;9], ODone) /\
  flex_op None t2 4 (FPush (IInt 5)) (firstn 14 im2) = (firstn 14 im2, OErr InsufficientSize) /\
  flex_op None t2 4 (FEditAssign 0 (IInt 77)) im2 = ([255;0;0;0; 77;0;0;0; 0;0;0;0; 0;0;0;0; 9;9], ODone).
Proof. vm_compute. repeat split; reflexivity. Qed.

Print Assumptions c12_chain.
Print Assumptions c12_clear.
Print Assumptions c12_truncate.
Print Assumptions c12_pop.
Print Assumptions c12_push.
Print Assumptions c12_push_sized.
Print Assumptions c12_history.
Print Assumptions c12_edit_vec.
Print Assumptions c12_edit_assign.
Print Assumptions c12_splice.
