(* C19 (text) — the index the str validation reports (Utf8Error::valid_up_to, which FlatString adds
   to DATA_OFFSET: ErrPosSpec / c19_pos_offending) is EXACT.  Pinned statements only; proofs in
   Proofs/Utf8PosFacts.v.

   Reading guide.
   - utf8_err bs = Some i: core::str::from_utf8 as modelled in Model/Utf8.v rejects bs and reports i
     (verdict and index compared with the library on every FlatString image of the types suite).
   - take j bs = the first j bytes.  text_of cs / scalar: see Props/C02_utf8.v. *)
From Coq Require Import NArith List Bool.
From Flatty.Model Require Import Base Ty Layout Utf8 Validate View Emplace Ops.
From Flatty.Proofs Require Import EmplaceSpec VecOpsFacts VecTypedFacts Utf8DecFacts Utf8AcceptFacts Utf8PosFacts.
Import ListNotations.
Open Scope N_scope.

(* the reported index is inside the string, everything before it is well formed, and every longer
   prefix is rejected at the very same index: byte i starts the first sequence that is wrong (or
   cut short) — not an earlier byte, not a later one *)
Theorem c19_utf8_valid_up_to : forall bs i, utf8_err bs = Some i ->
  i < blen bs /\ utf8_err (take i bs) = None /\
  forall j, i < j -> utf8_err (take j bs) = Some i.
Proof. exact utf8_valid_up_to. Qed.

(* what stands before the reported byte is the text of a sequence of Unicode scalar values *)
Theorem c19_utf8_prefix_is_text : forall bs i, utf8_err bs = Some i ->
  exists cs, Forall scalar cs /\ text_of cs = take i bs.
Proof. exact utf8_valid_prefix_is_text. Qed.

Example c19_utf8_examples :
  utf8_err [104; 195;169; 226;130; 65] = Some 3 /\
  utf8_err (take 3 [104; 195;169; 226;130; 65]) = None /\
  utf8_err (take 4 [104; 195;169; 226;130; 65]) = Some 3 /\
  utf8_err (take 5 [104; 195;169; 226;130; 65]) = Some 3 /\
  utf8_err [65; 66; 240; 159; 152] = Some 2 /\ utf8_err [237; 160; 128] = Some 0.
Proof. vm_compute. repeat split; reflexivity. Qed.

Print Assumptions c19_utf8_valid_up_to.
Print Assumptions c19_utf8_prefix_is_text.
