(* C07 (kernel; also the basis of C08-C10) — the window arithmetic of the IO buffer model IS that of
   io/src/common/io.rs Buffer (skip, advance, clear, make_contiguous, vacant_len, occupied), and the
   buffer capacity is the formula of the four io() constructors, as translated from /repo's current
   source into Generated/Kernel.v by tools/translate.py on every run of ./check.
   Pinned statements only; proofs in Proofs/KernelIoFacts.v. *)
From Coq Require Import NArith List Bool.
From Flatty.Model Require Import Base Io.
From Flatty.Generated Require Import Kernel.
From Flatty.Proofs Require Import KernelIoFacts.
Open Scope N_scope.

(* Receiver::io / Sender::io, blocking and async: 2 * max(max_msg_len, MIN_SIZE) *)
Theorem c07_kernel_capacity : forall MIN mml,
  io_capacity MIN mml = g_io_capacity_recv MIN mml /\ io_capacity MIN mml = g_io_capacity_send MIN mml /\
  io_capacity MIN mml = g_io_capacity_arecv MIN mml /\ io_capacity MIN mml = g_io_capacity_asend MIN mml.
Proof. exact k_io_capacity. Qed.

(* the window after skip / advance / clear / make_contiguous (None = an assert! of the source fails, the
   model's PanicAssert), the vacant length and the occupied slice *)
Theorem c07_kernel_window : forall b count,
  skip count b = with_window b (g_buf_skip (cap b) (st b) (en b) count) /\
  advance count b = with_window b (g_buf_advance (cap b) (st b) (en b) count) /\
  Ok (clear b) = with_window b (g_buf_clear (cap b) (st b) (en b)) /\
  vacant_len b = g_buf_vacant_len (cap b) (st b) (en b) /\
  occupied b = take (g_buf_occupied_len (cap b) (st b) (en b)) (drop (g_buf_preceding_len (cap b) (st b) (en b)) (data b)).
Proof.
  intros b count. split; [exact (k_buf_skip count b)|]. split; [exact (k_buf_advance count b)|].
  split; [exact (k_buf_clear b)|]. split; [exact (k_buf_vacant_len b) | exact (k_buf_occupied b)].
Qed.

Theorem c07_kernel_make_contiguous : forall b,
  Ok (make_contiguous b) =
  with_window {| data := take g_buf_make_contiguous_copies_window_to (data b) ++ occupied b
                         ++ drop (g_buf_make_contiguous_copies_window_to + blen (occupied b)) (data b);
                 st := st b; en := en b |}
              (g_buf_make_contiguous (cap b) (st b) (en b)).
Proof. exact k_buf_make_contiguous. Qed.

(* non-vacuity: a window 3..7 of an 8-byte buffer: skip 4 empties and rewinds it, skip 5 trips the assert,
   advance 1 fills the buffer, compaction moves it to 0..4 *)
Example c07_kernel_example :
  g_buf_skip 8 3 7 4 = Some (0, 0) /\ g_buf_skip 8 3 7 2 = Some (5, 7) /\ g_buf_skip 8 3 7 5 = None /\
  g_buf_advance 8 3 7 1 = Some (3, 8) /\ g_buf_advance 8 3 7 2 = None /\
  g_buf_make_contiguous 8 3 7 = Some (0, 4) /\ g_io_capacity_recv 6 4 = 12 /\ g_io_capacity_asend 6 9 = 18.
Proof. vm_compute. repeat split; reflexivity. Qed.

Print Assumptions c07_kernel_capacity.
Print Assumptions c07_kernel_window.
Print Assumptions c07_kernel_make_contiguous.
