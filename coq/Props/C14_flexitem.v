(* C14 (an item of a FlexVec that is itself a FlexVec, grown or shrunk in place) — the frame of
   iter_mut().nth(j) followed by a FlexVec operation on the item (Model/Ops.v flex_edit_flex): only bytes
   inside the payload of item j can change.  Pinned statements only; proofs in Proofs/FlexNestedFacts.v
   (the same lemmas as Props/C12_nested.v, restated here because they are what C14 claims).

   Together with c12_push (Props/C12.v: a push into the outer vector rewrites, of the first size() bytes, only the
   slot its chain ended in) this covers the history "shrink an inner vector in place, then push to the outer one":
   the shrunk item — including the zero terminator its pop / truncate left behind its items — keeps its bytes
   (non-vacuity example below; the extent of a zero-terminated inner vector includes that terminator, C05). *)
From Coq Require Import NArith List Bool.
From Flatty.Model Require Import Base Ty Layout Validate View Emplace Ops.
From Flatty.Proofs Require Import ChainFacts ViewFacts EmplaceSpec FlexOpsFacts FlexNestedFacts.
Open Scope N_scope.

(* any inner operation that keeps the length of a valid payload: the result differs from bs only inside the
   payload [p, p+n) of item j, where it is the inner operation's result on the old payload; the slice keeps
   its length and the call reports what the inner operation reports *)
Theorem c14_flex_item_frame : forall pv it il l a,
  wf (TFlex (TFlex it il) l) = true -> narrow l = true ->
  forall j fo bs vs,
  (forall pa pl, validate (TFlex it il) pa pl = Ok tt ->
     blen (fst (flex_op pv (TFlex it il) pa fo pl)) = blen pl) ->
  validate (TFlex (TFlex it il) l) a bs = Ok tt -> view (TFlex (TFlex it il) l) bs = Ok (VNode 0 vs) ->
  let r := flex_edit_flex pv (TFlex (TFlex it il) l) a j fo bs in
  forall v, nth_error vs (N.to_nat j) = Some v ->
    exists p n pa, p + n <= blen bs /\ take p (fst r) = take p bs /\
      drop (p + n) (fst r) = drop (p + n) bs /\
      take n (drop p (fst r)) = fst (flex_op pv (TFlex it il) pa fo (take n (drop p bs))) /\
      validate (TFlex it il) pa (take n (drop p bs)) = Ok tt /\
      view (TFlex it il) (take n (drop p bs)) = Ok v /\
      snd r = snd (flex_op pv (TFlex it il) pa fo (take n (drop p bs))) /\ blen (fst r) = blen bs.
Proof. exact flex_edit_flex_frame_valid. Qed.

(* no premise for pop / truncate / clear of the inner vector *)
Theorem c14_flex_item_frame_shrink : forall pv it il l a,
  wf (TFlex (TFlex it il) l) = true -> narrow l = true -> narrow il = true ->
  forall j fo bs vs, (fo = FPop \/ (exists k, fo = FTruncate k) \/ fo = FClear) ->
  validate (TFlex (TFlex it il) l) a bs = Ok tt -> view (TFlex (TFlex it il) l) bs = Ok (VNode 0 vs) ->
  let r := flex_edit_flex pv (TFlex (TFlex it il) l) a j fo bs in
  forall v, nth_error vs (N.to_nat j) = Some v ->
    exists p n pa, p + n <= blen bs /\ take p (fst r) = take p bs /\
      drop (p + n) (fst r) = drop (p + n) bs /\
      take n (drop p (fst r)) = fst (flex_op pv (TFlex it il) pa fo (take n (drop p bs))) /\
      validate (TFlex it il) pa (take n (drop p bs)) = Ok tt.
Proof. exact flex_edit_flex_frame_shrink. Qed.

(* nor for the push of a well-typed expression of a sized inner item type *)
Theorem c14_flex_item_frame_push_sized : forall pv it il l a,
  wf (TFlex (TFlex it il) l) = true -> narrow l = true -> narrow il = true ->
  forall j i bs vs, wf it = true -> sized it = true -> init_ok it i = true ->
  validate (TFlex (TFlex it il) l) a bs = Ok tt -> view (TFlex (TFlex it il) l) bs = Ok (VNode 0 vs) ->
  let r := flex_edit_flex pv (TFlex (TFlex it il) l) a j (FPush i) bs in
  forall v, nth_error vs (N.to_nat j) = Some v ->
    exists p n pa, p + n <= blen bs /\ take p (fst r) = take p bs /\
      drop (p + n) (fst r) = drop (p + n) bs /\
      take n (drop p (fst r)) = fst (flex_op pv (TFlex it il) pa (FPush i) (take n (drop p bs))) /\
      validate (TFlex it il) pa (take n (drop p bs)) = Ok tt.
Proof. exact flex_edit_flex_frame_push_sized. Qed.

(* non-vacuity: FlexVec<FlexVec<u8, u8>, u8> holding one inner vector [1, 2]; pop of the inner vector writes its
   second slot only; the following push to the outer vector puts the new slot BEHIND the inner terminator:
   bytes 1..3 (slot, item, terminator of the inner vector) are what they were *)
Example c14_flex_item_example :
  let l8 := {| isize := 1; ialign := 1; ibe := false |} in
  let t := TFlex (TFlex (TInt l8) l8) l8 in
  let imA := [255; 2; 1; 255; 2; 9; 9; 9; 9; 9] in
  let imB := fst (flex_edit_flex None t 0 0 FPop imA) in
  let imC := fst (flex_op None t 0 (FPush IEmpty) imB) in
  validate t 0 imA = Ok tt /\ imB = [255; 2; 1; 0; 2; 9; 9; 9; 9; 9] /\ validate t 0 imB = Ok tt /\
  imC = [4; 2; 1; 0; 255; 0; 9; 9; 9; 9] /\ validate t 0 imC = Ok tt /\
  take 3 (drop 1 imC) = take 3 (drop 1 imB).
Proof. vm_compute. repeat split; reflexivity. Qed.

Print Assumptions c14_flex_item_frame.
Print Assumptions c14_flex_item_frame_shrink.
Print Assumptions c14_flex_item_frame_push_sized.
