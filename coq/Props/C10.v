(* C10 — the receiver fed arbitrary bytes: no panic, no hang, nothing invented, nothing lost; a
   delivered message validates and its drop consumes exactly size() received bytes; malformed input
   is a parse error; OutOfMemory only when the window is the whole buffer.
   Pinned statements only; proofs in Proofs/IoRecvFacts.v.
   The message type is abstract (validate, size); what is assumed about it is C01 and C05. *)
From Coq Require Import NArith List Bool.
From Flatty.Model Require Import Base Io.
From Flatty.Proofs Require Import IoRecvFacts.
Open Scope N_scope.

(* C01: validation never crashes *)
Definition total_v (v : N -> bytes -> res unit) : Prop := forall a bs, is_crash (v a bs) = false.
(* C05: a validated value has a positive size within its bytes *)
Definition sized_v (v : N -> bytes -> res unit) (sz : bytes -> res N) : Prop :=
  forall a bs, v a bs = Ok tt -> exists n, sz bs = Ok n /\ 0 < n /\ n <= blen bs.

(* for every stream, script, watchdog limit, loop fuel, resume flag and every buffer with
   start <= end <= capacity: the buffer returned by recv() is again such a buffer and the outcome is
   never a panic (no assertion of skip / advance, no crash of validate) *)
Theorem c10_recv_wfb : forall v sz, total_v v -> sized_v v sz ->
  forall fuel limit sv b s b' s' o, wfb b ->
  recv_loop v fuel limit sv b s = (b', s', o) -> wfb b' /\ o <> RPanic.
Proof. exact recv_loop_wfb. Qed.

(* with more loop fuel than stream bytes and a watchdog limit above calls-so-far + stream length + 1
   the loop never reports Hang; it makes at most (stream length + 1) pipe calls: every call that
   does not end the loop consumes a byte *)
Theorem c10_recv_no_hang : forall v sz, total_v v -> sized_v v sz ->
  forall fuel limit sv b s b' s' o, wfb b ->
  recv_loop v fuel limit sv b s = (b', s', o) ->
  (length (stream s) < fuel)%nat -> rcalls s + blen (stream s) + 1 <= limit ->
  o <> RHang /\ rcalls s' - rcalls s <= blen (stream s) + 1.
Proof. exact recv_loop_no_hang. Qed.

(* the call bound holds whatever fuel and limit are *)
Theorem c10_recv_calls : forall v sz, total_v v -> sized_v v sz ->
  forall fuel limit sv b s b' s' o, wfb b ->
  recv_loop v fuel limit sv b s = (b', s', o) ->
  rcalls s <= rcalls s' /\ rcalls s' - rcalls s <= blen (stream s) + 1.
Proof. exact recv_loop_calls. Qed.

(* the fuel recv_many / arecv_many actually pass is enough *)
Theorem c10_recv_fuel : forall b s, (length (stream s) + 1 < recv_fuel b s)%nat.
Proof. exact recv_fuel_enough. Qed.

(* the window afterwards is the old window followed by exactly the bytes taken off the stream *)
Theorem c10_recv_received_only : forall v sz, total_v v -> sized_v v sz ->
  forall fuel limit sv b s b' s' o, wfb b ->
  recv_loop v fuel limit sv b s = (b', s', o) ->
  exists j, j <= blen (stream s) /\ stream s' = drop j (stream s) /\
            occupied b' = occupied b ++ take j (stream s).
Proof. exact recv_loop_received_only. Qed.

(* a delivered guard shows the window, the window validates at its address, dropping the guard
   does not trip skip's assertion and removes exactly size() bytes from the front of the window *)
Theorem c10_recv_msg_valid : forall v sz, total_v v -> sized_v v sz ->
  forall fuel limit sv b s b' s' occ, wfb b ->
  recv_loop v fuel limit sv b s = (b', s', RMsg occ) ->
  occ = occupied b' /\ v (st b') occ = Ok tt /\
  exists n b'', sz occ = Ok n /\ 0 < n /\ n <= blen occ /\
    drop_guard sz b' = Ok b'' /\ wfb b'' /\ occupied b'' = drop n (occupied b').
Proof. exact recv_loop_msg_valid. Qed.

(* a window that validates to an error other than InsufficientSize is reported as that parse error
   at once: no pipe call, buffer and source untouched (no assumption on validate needed) *)
Theorem c10_recv_malformed_is_parse : forall (v : N -> bytes -> res unit) fuel limit b s k p,
  (0 < fuel)%nat -> v (st b) (occupied b) = Err k p -> k <> InsufficientSize ->
  recv_loop v fuel limit false b s = (b, s, RParse k p).
Proof.
  intros v fuel limit b s k p Hf. destruct fuel as [|fuel]; [inversion Hf|].
  apply recv_loop_malformed_is_parse.
Qed.

(* unless the script itself injects it, Err(OutOfMemory) means the window is the whole buffer *)
Theorem c10_recv_oom : forall v sz, total_v v -> sized_v v sz ->
  forall fuel limit sv b s b' s', wfb b -> ~ In (RE OutOfMemory) (rscript s) ->
  recv_loop v fuel limit sv b s = (b', s', RRead OutOfMemory) ->
  st b' = 0 /\ en b' = cap b' /\ blen (occupied b') = cap b.
Proof. exact recv_loop_oom. Qed.

(* the side condition of c10_recv_oom cannot be dropped: the pipe may return that error kind *)
Theorem c10_refuted_oom_without_script_condition :
  exists b s b' s', wfb b /\
    recv_loop toy_validate 10 100 false b s = (b', s', RRead OutOfMemory) /\ en b' <> cap b'.
Proof.
  exists (new_buffer 4 0), {| stream := [3; 1; 2]; rscript := [RE OutOfMemory]; rcalls := 0 |}.
  eexists. eexists. split; [apply wfb_new|]. split; [vm_compute; reflexivity|]. vm_compute. discriminate.
Qed.

(* non-vacuity: the toy length-prefixed format meets the assumptions; hostile input (length byte 0)
   is a parse error without a pipe call once it is in the window; a message longer than the buffer
   ends in OutOfMemory with the window the whole buffer; a truncated stream ends in Closed *)
Example c10_example :
  recv_loop toy_validate 9 100 false {| data := [0; 7; 7; 7]; st := 0; en := 2 |}
      {| stream := [5]; rscript := []; rcalls := 0 |}
    = ({| data := [0; 7; 7; 7]; st := 0; en := 2 |}, {| stream := [5]; rscript := []; rcalls := 0 |},
       RParse InvalidData 0)
  /\ recv_loop toy_validate 9 100 false (new_buffer 2 0) {| stream := [3; 1; 2]; rscript := []; rcalls := 0 |}
    = ({| data := [3; 1]; st := 0; en := 2 |}, {| stream := [2]; rscript := []; rcalls := 1 |},
       RRead OutOfMemory)
  /\ fst (recv_many toy_validate toy_size 2 100 (new_buffer 4 0)
            {| stream := [3; 1]; rscript := [RD 1]; rcalls := 0 |}) = [RClosed; RClosed].
Proof. vm_compute. repeat split; reflexivity. Qed.

Example c10_toy_assumptions : total_v toy_validate /\ sized_v toy_validate toy_size.
Proof. split; [exact toy_total|exact toy_sized]. Qed.

Print Assumptions c10_recv_wfb.
Print Assumptions c10_recv_no_hang.
Print Assumptions c10_recv_calls.
Print Assumptions c10_recv_fuel.
Print Assumptions c10_recv_received_only.
Print Assumptions c10_recv_msg_valid.
Print Assumptions c10_recv_malformed_is_parse.
Print Assumptions c10_recv_oom.
Print Assumptions c10_refuted_oom_without_script_condition.
