(* C09 (receive part) — a read fault or a Pending poll loses no received byte, and retrying after
   faults delivers what a fault-free pipe would have delivered.
   Pinned statements only; proofs in Proofs/IoRecvFacts.v. *)
From Coq Require Import NArith List Bool.
From Flatty.Model Require Import Base Io.
From Flatty.Proofs Require Import IoRecvFacts.
Open Scope N_scope.

Definition total_v (v : N -> bytes -> res unit) : Prop := forall a bs, is_crash (v a bs) = false.
Definition sized_v (v : N -> bytes -> res unit) (sz : bytes -> res N) : Prop :=
  forall a bs, v a bs = Ok tt -> exists n, sz bs = Ok n /\ 0 < n /\ n <= blen bs.
(* the same short window is still short when re-validated at address 0 (after compaction) *)
Definition addr_v (v : N -> bytes -> res unit) : Prop :=
  forall a bs p, v a bs = Err InsufficientSize p -> exists p', v 0 bs = Err InsufficientSize p'.

(* when recv() ends in a read error or Pending, the buffer is still well formed and holds the old
   window followed by exactly the bytes taken off the stream before the fault *)
Theorem c09_recv_fault_keeps_window : forall v sz, total_v v -> sized_v v sz ->
  forall fuel limit sv b s b' s' o, wfb b ->
  recv_loop v fuel limit sv b s = (b', s', o) ->
  (exists e, o = RRead e) \/ o = RPending ->
  wfb b' /\ occupied b' ++ stream s' = occupied b ++ stream s /\
  exists j, j <= blen (stream s) /\ stream s' = drop j (stream s) /\
            occupied b' = occupied b ++ take j (stream s).
Proof. exact recv_loop_fault_keeps_window. Qed.

(* in fact for every outcome: window followed by stream is the same byte string before and after *)
Theorem c09_recv_conserves : forall v sz, total_v v -> sized_v v sz ->
  forall fuel limit sv b s b' s' o, wfb b ->
  recv_loop v fuel limit sv b s = (b', s', o) ->
  occupied b' ++ stream s' = occupied b ++ stream s.
Proof. exact recv_loop_conserves. Qed.

Theorem c09_recv_defs : forall sc l,
  nre sc = filter (fun d => match d with RE _ => false | _ => true end) sc /\
  countRE sc = length (filter (fun d => match d with RE _ => true | _ => false end) sc) /\
  nrr l = filter (fun o => match o with RRead _ => false | _ => true end) l.
Proof.
  intros sc l. split; [|split; reflexivity]. unfold nre. apply filter_ext. intros [k| |e|]; reflexivity.
Qed.

(* retry: take the outcomes of n recv() calls on the script without its RE entries and delete the
   read errors (only OutOfMemory can be among them); the same list is produced, in the same order,
   by n + (number of RE entries) calls on the script with them, after deleting the read errors:
   every fault costs one call and nothing else *)
Theorem c09_recv_retry : forall v sz, total_v v -> sized_v v sz -> addr_v v ->
  forall n limit limit' b s, wfb b ->
  rcalls s + blen (stream s) + N.of_nat (n + countRE (rscript s)) <= limit ->
  rcalls s + blen (stream s) + N.of_nat n <= limit' ->
  exists tail,
    nrr (fst (recv_many v sz (n + countRE (rscript s)) limit b s))
    = nrr (fst (recv_many v sz n limit' b
                  {| stream := stream s; rscript := nre (rscript s); rcalls := rcalls s |})) ++ tail.
Proof. exact recv_retry. Qed.

(* the address assumption of c09_recv_retry cannot be dropped: a validate that answers differently at
   address 0 turns the retry after a compaction into a parse error, while the fault-free run
   delivers the second message *)
Definition addr_dependent_validate (a : N) (bs : bytes) : res unit :=
  if (a =? 0) && (blen bs =? 2) then Err InvalidData 0 else toy_validate a bs.
Theorem c09_recv_refuted_retry_without_addr :
  fst (recv_many addr_dependent_validate toy_size 3 100 (new_buffer 4 0)
         {| stream := [2; 9; 3; 1; 2]; rcalls := 0; rscript := [RD 4; RE TimedOut] |})
  = [RMsg [2; 9; 3; 1]; RRead TimedOut; RParse InvalidData 0]
  /\ fst (recv_many addr_dependent_validate toy_size 2 100 (new_buffer 4 0)
            {| stream := [2; 9; 3; 1; 2]; rcalls := 0; rscript := [RD 4] |})
  = [RMsg [2; 9; 3; 1]; RMsg [3; 1; 2]].
Proof. vm_compute. split; reflexivity. Qed.

(* non-vacuity: faults between chunks; the bytes read before a fault are delivered after it *)
Example c09_recv_example :
  total_v toy_validate /\ sized_v toy_validate toy_size /\ addr_v toy_validate
  /\ fst (recv_many toy_validate toy_size 4 100 (new_buffer 4 0)
            {| stream := [3; 1; 2; 2; 9]; rcalls := 0;
               rscript := [RD 1; RE TimedOut; RD 2; RE Interrupted; RD 5] |})
     = [RRead TimedOut; RMsg [3; 1; 2]; RRead Interrupted; RMsg [2; 9]]
  /\ fst (recv_many toy_validate toy_size 2 100 (new_buffer 4 0)
            {| stream := [3; 1; 2; 2; 9]; rcalls := 0; rscript := [RD 1; RD 2; RD 5] |})
     = [RMsg [3; 1; 2]; RMsg [2; 9]].
Proof.
  split; [exact toy_total|]. split; [exact toy_sized|]. split; [exact toy_addr|].
  vm_compute. split; reflexivity.
Qed.

Print Assumptions c09_recv_fault_keeps_window.
Print Assumptions c09_recv_conserves.
Print Assumptions c09_recv_defs.
Print Assumptions c09_recv_retry.
Print Assumptions c09_recv_refuted_retry_without_addr.
Print Assumptions c09_recv_example.
