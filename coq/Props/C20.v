(* C20 — default_in_place produces the documented default state for every type: zero / the default
   variant for sized values, the empty state for FlatVec, FlatString and FlexVec, every field's
   default for structs, the variant marked #[default] for enums.  The result validates, has the
   smallest size() of the type and does not depend on the previous contents of the buffer.
   Pinned statements only; proofs in Proofs/EmplaceFacts.v, Proofs/EncFacts.v and
   Proofs/EmplaceUnsizedFacts.v. *)
From Coq Require Import NArith List Bool.
From Flatty.Model Require Import Base Ty Layout Validate View Emplace.
From Flatty.Proofs Require Import EmplaceFacts EmplaceSpec EncFacts EmplaceUnsizedFacts.
Open Scope N_scope.

(* for every accepted definition that has a default (init_ok t IDefault: every enum inside has a
   unit #[default] variant or is sized with default payloads), every padding policy, every aligned
   address and every buffer that has room for the default state: default_in_place succeeds, keeps
   the buffer length, the result validates, the accessors return exactly the default content and
   size() is the reference extent of the default state *)
Theorem c20_default_in_place_ok : forall t, wf t = true -> narrow_ty t = true -> init_ok t IDefault = true ->
  forall pv a buf, aligned a (align t) = true -> extent t IDefault <= blen buf ->
    let r := default_in_place pv t a buf in
    snd r = Ok tt /\
    blen (fst r) = blen buf /\
    validate t a (fst r) = Ok tt /\
    (exists v, view t (fst r) = Ok v /\ spec_value t IDefault = Some (strip v)) /\
    size_m t (fst r) = Ok (extent t IDefault).
Proof. exact default_in_place_ok. Qed.

(* the default content: empty containers, the literal made of the fields' defaults, the #[default]
   variant *)
Theorem c20_default_states :
  (forall t l, spec_value (TVec t l) IDefault = Some (VCont 0 [])) /\
  (forall l, spec_value (TStr l) IDefault = Some (VCont 0 [])) /\
  (forall t l, spec_value (TFlex t l) IDefault = Some (VNode 0 [])) /\
  (forall s fs, spec_value (TStruct s fs) IDefault =
                spec_value (TStruct s fs) (ISeq (repeat IDefault (N.to_nat (flen fs))))) /\
  (forall s tag d vs, spec_value (TEnum s tag d vs) IDefault = spec_value (TEnum s tag d vs) (IVar d [])).
Proof. exact default_states. Qed.

(* the default state has the smallest size() of the type: its extent is MIN_SIZE, so
   default_in_place succeeds on every aligned buffer that passes the MIN_SIZE check *)
Theorem c20_default_minimal_size : forall t, wf t = true -> init_ok t IDefault = true ->
  extent t IDefault = min_size t.
Proof. exact default_extent_min. Qed.

(* the result does not depend on what the buffer held before, nor on what is stored in padding:
   from two buffers of the same length the accessors return the same content and the same size() *)
Theorem c20_default_independent_of_buffer : forall t, wf t = true -> narrow_ty t = true ->
  init_ok t IDefault = true ->
  forall pv1 pv2 a buf1 buf2, aligned a (align t) = true ->
    blen buf1 = blen buf2 -> extent t IDefault <= blen buf1 ->
    let r1 := default_in_place pv1 t a buf1 in
    let r2 := default_in_place pv2 t a buf2 in
    snd r1 = Ok tt /\ snd r2 = Ok tt /\
    size_m t (fst r1) = size_m t (fst r2) /\
    exists v1 v2, view t (fst r1) = Ok v1 /\ view t (fst r2) = Ok v2 /\ strip v1 = strip v2.
Proof. exact default_independent_of_buffer. Qed.

(* sized types, byte level: every non-padding byte of the default image lands in the result
   whatever the buffer held *)
Theorem c20_default_sized_bytes : forall t m, wf t = true -> sized t = true -> enc_sized t IDefault = Some m ->
  forall pv buf1 buf2, blen buf1 = blen buf2 -> ssize t <= blen buf1 ->
    forall j x, nth_error m j = Some (Some x) ->
      nth_error (overlay pv m buf1) j = nth_error (overlay pv m buf2) j.
Proof. exact default_independent. Qed.

(* the three containers: the bytes default_in_place writes (a zero length / offset field, nothing
   else changes) *)
Theorem c20_vec_default : forall pv t l a buf,
  wf (TVec t l) = true -> narrow l = true ->
  aligned a (align (TVec t l)) = true -> min_size (TVec t l) <= blen buf ->
  let r := default_in_place pv (TVec t l) a buf in
  snd r = Ok tt /\
  fst r = to_bytes (ibe l) (isize l) 0 ++ drop (isize l) buf /\
  blen (fst r) = blen buf /\
  validate (TVec t l) a (fst r) = Ok tt /\
  (exists cap, view (TVec t l) (fst r) = Ok (VCont cap [])) /\
  size_m (TVec t l) (fst r) = Ok (ceil_mul (vec_data_offset t l) (align (TVec t l))).
Proof. exact vec_default_ok. Qed.

Theorem c20_str_default : forall pv l a buf,
  wf (TStr l) = true -> narrow l = true ->
  aligned a (align (TStr l)) = true -> min_size (TStr l) <= blen buf ->
  let r := default_in_place pv (TStr l) a buf in
  snd r = Ok tt /\
  fst r = to_bytes (ibe l) (isize l) 0 ++ drop (isize l) buf /\
  validate (TStr l) a (fst r) = Ok tt /\
  (exists cap, view (TStr l) (fst r) = Ok (VCont cap [])) /\
  size_m (TStr l) (fst r) = Ok (ceil_mul (isize l) (ialign l)).
Proof. exact str_default_ok. Qed.

Theorem c20_flex_default : forall pv t l a buf,
  wf (TFlex t l) = true -> narrow l = true ->
  aligned a (align (TFlex t l)) = true -> min_size (TFlex t l) <= blen buf ->
  let r := default_in_place pv (TFlex t l) a buf in
  snd r = Ok tt /\
  fst r = to_bytes (ibe l) (isize l) 0 ++ drop (isize l) buf /\
  validate (TFlex t l) a (fst r) = Ok tt /\
  view (TFlex t l) (fst r) = Ok (VNode 0 []) /\
  size_m (TFlex t l) (fst r) = Ok (flex_offset_size t l).
Proof. exact flex_default_ok. Qed.

(* non-vacuity: #[flat(sized = false)] struct { a: u16, e: enum { A(u8), #[default] B }, f: FlexVec<FlatString<u8>, u16> }
   over two different garbage buffers and both padding policies: the same default content
   (a = 0, e = B, f empty), size() = MIN_SIZE = 6 *)
Example c20_example :
  let u8i := {| isize := 1; ialign := 1; ibe := false |} in
  let u16i := {| isize := 2; ialign := 2; ibe := false |} in
  let en := TEnum true u8i 1 (VCons (FCons (TInt u8i) FNil) (VCons FNil VNil)) in
  let t := TStruct false (FCons (TInt u16i) (FCons en (FCons (TFlex (TStr u8i) u16i) FNil))) in
  let g1 := [11;12;13;14;15;16;17;18;19] in
  let g2 := [91;92;93;94;95;96;97;98;99] in
  let content := VNode 0 [VInt 0; VNode 1 []; VNode 0 []] in
  wf t = true /\ narrow_ty t = true /\ init_ok t IDefault = true /\
  spec_value t IDefault = Some content /\ extent t IDefault = 6 /\ min_size t = 6 /\ align t = 2 /\
  default_in_place None t 2 g1 = ([0;0; 1;14; 0;0; 17;18;19], Ok tt) /\
  default_in_place (Some 255) t 2 g2 = ([0;0; 1;255; 0;0; 97;98;99], Ok tt) /\
  validate t 2 (fst (default_in_place None t 2 g1)) = Ok tt /\
  view t (fst (default_in_place None t 2 g1)) = Ok content /\
  view t (fst (default_in_place (Some 255) t 2 g2)) = Ok content /\
  size_m t (fst (default_in_place None t 2 g1)) = Ok 6 /\
  default_in_place None t 3 g1 = (g1, Err BadAlign 0) /\
  default_in_place None t 2 (take 5 g1) = (take 5 g1, Err InsufficientSize 0).
Proof. vm_compute. repeat split; reflexivity. Qed.

Print Assumptions c20_default_in_place_ok.
Print Assumptions c20_default_states.
Print Assumptions c20_default_minimal_size.
Print Assumptions c20_default_independent_of_buffer.
Print Assumptions c20_default_sized_bytes.
Print Assumptions c20_vec_default.
Print Assumptions c20_str_default.
Print Assumptions c20_flex_default.
