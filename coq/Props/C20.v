(* C20 — default_in_place produces the documented default state.
   Pinned statements only; proofs in Proofs/EmplaceFacts.v and Proofs/EncFacts.v.
   The documented default content is spec_value t IDefault of Proofs/EmplaceSpec.v: zero for
   integers and floats, false for Bool, the #[default] variant for enums (which must be a unit
   variant), every element / field default for arrays and structs, the empty state for FlatVec,
   FlatString and FlexVec. *)
From Coq Require Import NArith List Bool.
From Flatty.Model Require Import Base Ty Layout Validate View Emplace.
From Flatty.Proofs Require Import EmplaceFacts EmplaceSpec EncFacts.
Open Scope N_scope.

(* what the documented default content is, leaf by leaf *)
Theorem c20_default_content :
  (forall i, spec_value (TInt i) IDefault = Some (VInt 0)) /\
  spec_value TBool IDefault = Some (VInt 0) /\
  (forall tag n d, spec_value (TCLike tag n d) IDefault = Some (VInt d)) /\
  (forall t l, spec_value (TVec t l) IDefault = Some (VCont 0 [])) /\
  (forall l, spec_value (TStr l) IDefault = Some (VCont 0 [])) /\
  (forall t l, spec_value (TFlex t l) IDefault = Some (VNode 0 [])).
Proof. repeat split; reflexivity. Qed.

(* sized types: on every aligned buffer of at least SIZE bytes default_in_place succeeds, the
   result validates and reads back the documented default content, whatever the buffer held *)
Theorem c20_sized_default : forall t, wf t = true -> sized t = true -> init_ok t IDefault = true ->
  forall pv a buf, aligned a (align t) = true -> ssize t <= blen buf ->
    let r := default_in_place pv t a buf in
    snd r = Ok tt /\ validate t a (fst r) = Ok tt /\
    (exists v, view t (fst r) = Ok v /\ spec_value t IDefault = Some (strip v)) /\
    blen (fst r) = blen buf /\ drop (ssize t) (fst r) = drop (ssize t) buf.
Proof.
  intros t Hw Hs Hi pv a buf Ha Hl r.
  destruct (sized_emplace_ok t IDefault Hw Hs Hi pv a buf) as (_ & _ & H). exact (H Ha Hl).
Qed.

(* ... and its non-padding bytes do not depend on the previous contents of the buffer *)
Theorem c20_sized_independent : forall t m, wf t = true -> sized t = true -> enc_sized t IDefault = Some m ->
  forall pv buf1 buf2, blen buf1 = blen buf2 -> ssize t <= blen buf1 ->
    forall j x, nth_error m j = Some (Some x) ->
      nth_error (overlay pv m buf1) j = nth_error (overlay pv m buf2) j.
Proof. exact default_independent. Qed.

(* FlatVec: the empty vector; only the length field is written; size() is the minimum *)
Theorem c20_vec_default : forall pv t l a buf,
  wf (TVec t l) = true -> narrow l = true ->
  aligned a (align (TVec t l)) = true -> min_size (TVec t l) <= blen buf ->
  let r := default_in_place pv (TVec t l) a buf in
  snd r = Ok tt /\
  fst r = to_bytes (ibe l) (isize l) 0 ++ drop (isize l) buf /\
  blen (fst r) = blen buf /\
  validate (TVec t l) a (fst r) = Ok tt /\
  (exists cap, view (TVec t l) (fst r) = Ok (VCont cap [])) /\
  size_m (TVec t l) (fst r) = Ok (ceil_mul (vec_data_offset t l) (align (TVec t l))).
Proof. exact vec_default_ok. Qed.

(* FlexVec: the empty chain (a zero slot); size() = OFFSET_SIZE *)
Theorem c20_flex_default : forall pv t l a buf,
  wf (TFlex t l) = true -> narrow l = true ->
  aligned a (align (TFlex t l)) = true -> min_size (TFlex t l) <= blen buf ->
  let r := default_in_place pv (TFlex t l) a buf in
  snd r = Ok tt /\
  fst r = to_bytes (ibe l) (isize l) 0 ++ drop (isize l) buf /\
  validate (TFlex t l) a (fst r) = Ok tt /\
  view (TFlex t l) (fst r) = Ok (VNode 0 []) /\
  size_m (TFlex t l) (fst r) = Ok (flex_offset_size t l).
Proof. exact flex_default_ok. Qed.

(* non-vacuity: enum { A, #[default] B, C(u32) } inside a struct with a Bool and an i16 *)
Example c20_example :
  let u8i := {| isize := 1; ialign := 1; ibe := false |} in
  let i16 := TInt {| isize := 2; ialign := 2; ibe := false |} in
  let u32 := TInt {| isize := 4; ialign := 4; ibe := false |} in
  let e := TEnum true u8i 1 (VCons FNil (VCons FNil (VCons (FCons u32 FNil) VNil))) in
  let t := TStruct true (FCons TBool (FCons i16 (FCons e FNil))) in
  wf t = true /\ init_ok t IDefault = true /\
  spec_value t IDefault = Some (VNode 0 [VInt 0; VInt 0; VNode 1 []]) /\
  default_in_place None t 0 (repeat 170 12) = ([0; 170; 0; 0; 1; 170; 170; 170; 170; 170; 170; 170], Ok tt).
Proof. vm_compute. repeat split; reflexivity. Qed.

Print Assumptions c20_default_content.
Print Assumptions c20_sized_default.
Print Assumptions c20_sized_independent.
Print Assumptions c20_vec_default.
Print Assumptions c20_flex_default.
