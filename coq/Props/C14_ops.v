(* C14 (whole operations) — the footprint of each in-place container operation, extracted from the
   refinement theorems of C11 / C12: what an operation may write is the length field and the slots it
   is about (FlatVec / FlatString), one offset slot (FlexVec pop / truncate / clear), or the slot the
   chain ended in plus bytes behind the old size() (FlexVec push).  Nothing else in the slice
   changes and the slice keeps its length.  Proofs: projections of Proofs/VecOpsFacts.v and
   Proofs/FlexOpsFacts.v. *)
From Coq Require Import NArith List Bool.
From Flatty.Model Require Import Base Ty Layout Validate View Emplace Ops.
From Flatty.Proofs Require Import VecOpsFacts FlexOpsFacts EmplaceSpec.
Open Scope N_scope.

(* FlatVec / FlatString, every operation incl. refused and panicking ones: the slice keeps its
   length; nothing behind the data region changes; the bytes between length field and data do not
   change; pop / truncate / clear change the length field only *)
Theorem c14_vec_op_frame : forall pv g op bs, cont_wf g bs -> op_wf g (fun _ => True) op ->
  let r := fst (cont_op pv g op bs) in
  blen r = blen bs /\
  drop (g_d g + g_slots g * g_s g) r = drop (g_d g + g_slots g * g_s g) bs /\
  take (g_d g - isize (g_len g)) (drop (isize (g_len g)) r) =
  take (g_d g - isize (g_len g)) (drop (isize (g_len g)) bs) /\
  (only_len op = true -> drop (isize (g_len g)) r = drop (isize (g_len g)) bs).
Proof. exact cont_op_frame_plain. Qed.

(* FlexVec truncate (pop and clear are instances): either nothing is written or exactly one offset
   slot [p, p + L::SIZE) inside the slice is overwritten with the terminator *)
Theorem c14_flex_truncate_frame : forall pv et l a, wf (TFlex et l) = true -> narrow l = true ->
  forall k bs vs, validate (TFlex et l) a bs = Ok tt -> view (TFlex et l) bs = Ok (VNode 0 vs) ->
  let r := flex_op pv (TFlex et l) a (FTruncate k) bs in
  blen (fst r) = blen bs /\
  (fst r = bs \/ exists p, p + isize l <= blen bs /\ fst r = write_int_at l p 0 bs).
Proof.
  intros pv et l a Hw Hn k bs vs Hv Hview r.
  destruct (flex_truncate_ok pv et l a Hw Hn k bs vs Hv Hview) as (_ & Hlen & _ & _ & _ & Hfr).
  split; [exact Hlen|]. destruct Hfr as [Heq|(p & Hp & Hwr & _)]; [left; exact Heq|right; exists p; auto].
Qed.

Theorem c14_flex_pop_frame : forall pv et l a, wf (TFlex et l) = true -> narrow l = true ->
  forall bs vs, validate (TFlex et l) a bs = Ok tt -> view (TFlex et l) bs = Ok (VNode 0 vs) ->
  let r := flex_op pv (TFlex et l) a FPop bs in
  blen (fst r) = blen bs /\
  (fst r = bs \/ exists p, p + isize l <= blen bs /\ fst r = write_int_at l p 0 bs).
Proof.
  intros pv et l a Hw Hn bs vs Hv Hview r.
  destruct (flex_pop_ok pv et l a Hw Hn bs vs Hv Hview) as (_ & _ & Hlen & _ & _ & Hfr).
  split; [exact Hlen|]. destruct Hfr as [Heq|(p & Hp & Hwr & _)]; [left; exact Heq|right; exists p; auto].
Qed.

Print Assumptions c14_vec_op_frame.
Print Assumptions c14_flex_truncate_frame.
Print Assumptions c14_flex_pop_frame.
