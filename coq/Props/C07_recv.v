(* C07 (receive part) — a sequence of messages is delivered in order under every chunking of the
   byte stream, then Closed for ever.  Pinned statements only; proofs in Proofs/IoRecvFacts.v. *)
From Coq Require Import NArith List Bool.
From Flatty.Model Require Import Base Io.
From Flatty.Proofs Require Import IoRecvFacts.
Open Scope N_scope.

Definition total_v (v : N -> bytes -> res unit) : Prop := forall a bs, is_crash (v a bs) = false.
Definition sized_v (v : N -> bytes -> res unit) (sz : bytes -> res N) : Prop :=
  forall a bs, v a bs = Ok tt -> exists n, sz bs = Ok n /\ 0 < n /\ n <= blen bs.

(* the framing contract (C06) of one message m as a byte string, for alignment A: not empty, a
   multiple of A long, every proper prefix is InsufficientSize, and m followed by anything
   validates with size() = |m| (at every aligned address) *)
Theorem c07_recv_canon_def : forall v sz A m,
  canon v sz A m <->
  (0 < blen m /\ blen m mod A = 0 /\
   (forall a k, a mod A = 0 -> k < blen m -> exists p, v a (take k m) = Err InsufficientSize p) /\
   (forall a s, a mod A = 0 -> v a (m ++ s) = Ok tt /\ sz (m ++ s) = Ok (blen m))).
Proof. intros. unfold canon. tauto. Qed.

(* a read directive that delivers at least one byte when one is offered *)
Theorem c07_recv_okd_def : forall d, okd d <-> exists k, d = RD k /\ 1 <= k.
Proof. intros. unfold okd. tauto. Qed.

(* messages ms, each canonical and no longer than the buffer capacity c; the stream is their
   concatenation; the read script is ANY list of RD k with k >= 1 (when it runs out the pipe delivers
   all that is offered); the watchdog limit is at least stream length + number of recv() calls.
   Then (length ms + extra) calls of recv(), each followed by the drop of its guard, yield exactly
   one guard per message, in order, each showing the message at the front of its window, and then
   Closed `extra` times: never a panic, a hang, OutOfMemory or a parse error.
   (For the empty sequence the statement needs to know that the empty window is InsufficientSize
   and that the buffer is not of capacity 0; for a non-empty one both follow.) *)
Theorem c07_recv_sequence : forall v sz, total_v v -> sized_v v sz -> forall A, 0 < A ->
  forall (ms : list bytes) (extra : nat) (limit c fill : N) (sc : list rdir),
  Forall (canon v sz A) ms -> (forall m, In m ms -> blen m <= c) ->
  (ms <> [] \/ (0 < c /\ forall a, a mod A = 0 -> exists p, v a [] = Err InsufficientSize p)) ->
  Forall okd sc ->
  blen (concat ms) + N.of_nat (length ms + extra) <= limit ->
  exists occs,
    fst (recv_many v sz (length ms + extra) limit (new_buffer c fill)
           {| stream := concat ms; rscript := sc; rcalls := 0 |})
      = map RMsg occs ++ repeat RClosed extra /\
    Forall2 (fun occ m => take (blen m) occ = m) occs ms.
Proof. exact recv_many_sequence. Qed.

(* the side condition for the empty sequence cannot be dropped: a buffer of capacity 0 answers
   OutOfMemory, not Closed *)
Theorem c07_recv_refuted_empty_capacity0 :
  fst (recv_many toy_validate toy_size 2 100 (new_buffer 0 0) {| stream := []; rscript := []; rcalls := 0 |})
  = [RRead OutOfMemory; RRead OutOfMemory].
Proof. vm_compute. reflexivity. Qed.

(* non-vacuity: two toy messages [3;1;2] and [2;9] are canonical; under the chunking 1,2,1,1 and
   under the default chunking a buffer of capacity 4 yields them in order, then Closed *)
Example c07_recv_example :
  Forall (canon toy_validate toy_size 1) [[3; 1; 2]; [2; 9]]
  /\ fst (recv_many toy_validate toy_size 4 100 (new_buffer 4 0)
            {| stream := [3; 1; 2; 2; 9]; rscript := [RD 1; RD 2; RD 1; RD 1]; rcalls := 0 |})
     = [RMsg [3; 1; 2]; RMsg [2; 9]; RClosed; RClosed]
  /\ fst (recv_many toy_validate toy_size 4 100 (new_buffer 4 0)
            {| stream := [3; 1; 2; 2; 9]; rscript := []; rcalls := 0 |})
     = [RMsg [3; 1; 2; 2]; RMsg [2; 9]; RClosed; RClosed].
Proof.
  split; [constructor; [apply toy_canon; vm_compute; reflexivity|constructor; [apply toy_canon; vm_compute; reflexivity|constructor]]|].
  vm_compute. split; reflexivity.
Qed.

Print Assumptions c07_recv_canon_def.
Print Assumptions c07_recv_okd_def.
Print Assumptions c07_recv_sequence.
Print Assumptions c07_recv_refuted_empty_capacity0.
Print Assumptions c07_recv_example.
