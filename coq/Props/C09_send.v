(* C09 (send side) — write faults surface as errors within a bounded number of pipe calls; the
   sink holds whole messages followed by at most one proper prefix; a poisoned sender refuses.
   Pinned statements only; proofs in Proofs/IoSendFacts.v.
   Vocabulary (Proofs/IoSendFacts.v): is_sio o = "o is SIo _"; poison_at p sd = sd with
   poisoned := (p <> 0) || poisoned sd; chunks pos count pre = the amounts accepted for the accept
   sizes pre starting at pos (each min(size, count - pos)); nsum = their sum;
   sd_ready CAP sd = window start 0, window end <= CAP, buffer length CAP;
   emplace_good CAP i = emplacing i into any CAP-byte buffer succeeds with a CAP-byte buffer
   whose size() is Ok n, 0 < n <= CAP; msg_buf / msg_bytes = that buffer / its first n bytes;
   msgs is buf = the messages of a run starting with buffer contents buf. *)
From Coq Require Import NArith List Bool Lia.
From Flatty.Model Require Import Base Io.
From Flatty.Proofs Require Import IoSendFacts.
Import ListNotations.
Open Scope N_scope.

(* 1. With fuel for one iteration per remaining byte and a watchdog that allows one pipe call per
   remaining byte the loop does not hang, makes at most one pipe call per remaining byte, and at
   least one unless nothing remains.  For every script, sink, sender. *)
Theorem c09_write_loop_bounded : forall fuel limit count sd pos k evs sd' k' pos' evs' o,
  write_loop fuel limit pos count sd k evs = (sd', k', pos', evs', o) ->
  pos <= count -> (N.to_nat (count - pos) < fuel)%nat -> wcalls k + (count - pos) <= limit ->
  o <> SHang
  /\ wcalls k <= wcalls k'
  /\ wcalls k' - wcalls k <= count - pos
  /\ (pos <> count -> 1 <= wcalls k' - wcalls k).
Proof. exact write_loop_bounded. Qed.

(* the fuel S (N.to_nat count) used by send_blocking and asend_poll is enough *)
Theorem c09_write_loop_model_fuel : forall limit count sd pos k evs sd' k' pos' evs' o,
  write_loop (S (N.to_nat count)) limit pos count sd k evs = (sd', k', pos', evs', o) ->
  pos <= count -> wcalls k + (count - pos) <= limit ->
  o <> SHang /\ wcalls k <= wcalls k' /\ wcalls k' - wcalls k <= count - pos
  /\ (pos <> count -> 1 <= wcalls k' - wcalls k) /\ (o = SOk <-> pos' = count).
Proof. exact write_loop_model_fuel. Qed.

Theorem c09_send_blocking_no_hang : forall size_f limit sd k count sd1 k1 o,
  size_f (occupied (sbuf sd)) = Ok count -> wcalls k + count <= limit ->
  send_blocking size_f limit sd k = (sd1, k1, o) ->
  o <> SHang /\ wcalls k <= wcalls k1 /\ wcalls k1 - wcalls k <= count.
Proof. exact send_blocking_no_hang. Qed.

(* 2. The script starts with accept directives of sizes pre (each >= 1) followed by a fault d
   (WZ, WE e, WA 0).  If the accepted amounts do not cover the message, the loop returns at d:
   SIo e for WE e, SIo BrokenPipe for WZ / WA 0; the sink has gained exactly the accepted bytes;
   exactly |pre| + 1 pipe calls were made and the script stands right after d (no call after the
   failed one); the sender is poisoned iff at least one byte of this message had been accepted. *)
Theorem c09_write_loop_first_fault : forall pre fuel limit count sd pos k evs d rest,
  wscript k = map WA pre ++ d :: rest -> Forall (fun n => 1 <= n) pre -> is_fault d = true ->
  count <= blen (occupied (sbuf sd)) -> pos <= count ->
  (N.to_nat (count - pos) < fuel)%nat -> wcalls k + (count - pos) <= limit ->
  pos + nsum (chunks pos count pre) < count ->
  write_loop fuel limit pos count sd k evs =
    (poison_at (pos + nsum (chunks pos count pre)) sd,
     {| sunk := sunk k ++ take (pos + nsum (chunks pos count pre) - pos) (drop pos (occupied (sbuf sd)));
        wscript := rest; fscript := fscript k;
        wcalls := wcalls k + N.of_nat (length pre) + 1 |},
     pos + nsum (chunks pos count pre),
     fault_ev d :: map EvW (rev (chunks pos count pre)) ++ evs,
     SIo (fault_err d)).
Proof. exact write_loop_first_fault. Qed.

(* ... and if they do cover the message, the outcome is SOk and the fault is still in the script *)
Theorem c09_write_loop_fault_not_reached : forall pre fuel limit count sd pos k evs d rest,
  wscript k = map WA pre ++ d :: rest -> Forall (fun n => 1 <= n) pre ->
  count <= blen (occupied (sbuf sd)) -> pos <= count ->
  (N.to_nat (count - pos) < fuel)%nat -> wcalls k + (count - pos) <= limit ->
  count <= pos + nsum (chunks pos count pre) ->
  exists sd' k' evs' rest',
    write_loop fuel limit pos count sd k evs = (sd', k', count, evs', SOk)
    /\ wscript k' = rest' ++ d :: rest.
Proof. exact write_loop_fault_not_reached. Qed.

(* 3. For every fuel, limit, script: the sink gains exactly the next pos' - pos bytes of the
   message (no gap, no duplicate); unless the loop hung, SOk iff the whole message went through;
   the buffer is untouched; the sender becomes poisoned exactly by an error outcome with
   pos' <> 0, i.e. after at least one byte of this message was accepted. *)
Theorem c09_write_loop_sunk : forall fuel limit count sd pos k evs sd' k' pos' evs' o,
  write_loop fuel limit pos count sd k evs = (sd', k', pos', evs', o) ->
  pos <= count ->
  sunk k' = sunk k ++ take (pos' - pos) (drop pos (occupied (sbuf sd)))
  /\ pos <= pos' /\ pos' <= count
  /\ (o <> SHang -> (o = SOk <-> pos' = count))
  /\ sbuf sd' = sbuf sd
  /\ poisoned sd' = poisoned sd || (is_sio o && negb (pos' =? 0))
  /\ (o = SOk \/ (exists e, o = SIo e) \/ o = SPending \/ o = SHang).
Proof. exact write_loop_sunk. Qed.

Theorem c09_write_loop_ok_iff : forall fuel limit count sd pos k evs sd' k' pos' evs' o,
  write_loop fuel limit pos count sd k evs = (sd', k', pos', evs', o) ->
  pos <= count -> (N.to_nat (count - pos) < fuel)%nat -> wcalls k + (count - pos) <= limit ->
  (o = SOk <-> pos' = count).
Proof. exact write_loop_ok_iff. Qed.

(* 4. A poisoned sender refuses: SPanic, no pipe call, no byte, nothing changed. *)
Theorem c09_send_blocking_poisoned_refuses : forall size_f limit sd k,
  poisoned sd = true -> send_blocking size_f limit sd k = (sd, k, SPanic).
Proof. exact send_blocking_poisoned_refuses. Qed.

Theorem c09_send_many_poisoned : forall size_f I emplace_f CAP limit (is : list I) sd k,
  sd_ready CAP sd -> Forall (emplace_good size_f I emplace_f CAP) is -> poisoned sd = true ->
  send_many size_f I emplace_f limit is sd k = (map (fun _ => SPanic) is, k).
Proof. exact send_many_poisoned. Qed.

(* 5. One message through send_one, sender not poisoned, any script, any limit: the sink gains a
   prefix of the message, the whole message iff SOk; poisoned afterwards iff an error came after
   the first byte; the outcome is SOk / SIo / SHang (SPending only if the script has a WP). *)
Theorem c09_send_one_spec : forall size_f I emplace_f CAP limit (i : I) sd k sd1 k1 o,
  sd_ready CAP sd -> emplace_good size_f I emplace_f CAP i -> poisoned sd = false ->
  send_one size_f I emplace_f limit i sd k = (sd1, k1, o) ->
  sd_ready CAP sd1 /\ data (sbuf sd1) = msg_buf I emplace_f i (data (sbuf sd))
  /\ exists p, p <= blen (msg_bytes size_f I emplace_f i (data (sbuf sd)))
    /\ sunk k1 = sunk k ++ take p (msg_bytes size_f I emplace_f i (data (sbuf sd)))
    /\ (o = SOk <-> p = blen (msg_bytes size_f I emplace_f i (data (sbuf sd))))
    /\ poisoned sd1 = is_sio o && negb (p =? 0)
    /\ (o = SOk \/ (exists e, o = SIo e) \/ o = SPending \/ o = SHang)
    /\ (o = SPending -> In WP (wscript k))
    /\ (exists pre, wscript k = pre ++ wscript k1)
    /\ fscript k1 = fscript k
    /\ wcalls k <= wcalls k1.
Proof. exact send_one_spec. Qed.

(* Any list of messages, any blocking script (no WP), any limit: the sink has gained the
   concatenation of the messages whose send returned SOk (oks), followed by `partial`, which is
   empty or a proper non-empty prefix of message j, whose outcome is SIo / SHang; all outcomes
   after j are SPanic and no SOk message comes after j, so nothing follows the partial message. *)
Theorem c09_send_many_sink_framed : forall size_f I emplace_f CAP limit (is : list I) sd k outs k',
  sd_ready CAP sd -> Forall (emplace_good size_f I emplace_f CAP) is -> poisoned sd = false ->
  ~ In WP (wscript k) ->
  send_many size_f I emplace_f limit is sd k = (outs, k') ->
  let ms := msgs size_f I emplace_f is (data (sbuf sd)) in
  exists gain partial,
    sunk k' = sunk k ++ gain
    /\ gain = concat (oks outs ms) ++ partial
    /\ (partial = [] \/
        exists j m p, nth_error ms j = Some m /\ partial = take p m /\ 0 < p /\ p < blen m
          /\ (forall o, nth_error outs j = Some o -> (exists e, o = SIo e) \/ o = SHang)
          /\ (forall o, In o (skipn (S j) outs) -> o = SPanic)
          /\ oks outs ms = oks (firstn j outs) ms).
Proof.
  intros size_f I emplace_f CAP limit is sd k outs k' Hr Hg Hpo Hwp H ms.
  destruct (send_many_sink_framed size_f I emplace_f CAP limit is sd k outs k' Hr Hg Hpo Hwp H)
    as (gain & G1 & partial & G2 & G3).
  exists gain, partial. split; [exact G1|]. split; [exact G2|exact G3].
Qed.

(* non-vacuity: the toy message type (length byte, payload) in a 6-byte buffer meets the
   hypotheses; a fault before the first byte of a message leaves the sender usable, a fault after
   the first byte poisons it: sink = whole [3;1;2;3], then the partial [2] of [2;5;6], then nothing *)
Definition ex_sd := {| sbuf := new_buffer 6 0; poisoned := false |}.
Definition ex_k ws := {| sunk := [77]; wscript := ws; fscript := []; wcalls := 0 |}.
Example c09_example_hyps :
  sd_ready 6 ex_sd /\ Forall (emplace_good toy_size bytes toy_emplace 6) [[1;2;3]; [4]; [5;6]; [7]].
Proof.
  split; [unfold sd_ready; cbn; repeat split; lia|].
  repeat constructor; apply toy_good; unfold blen; cbn [length]; lia.
Qed.
Example c09_example :
  msgs toy_size bytes toy_emplace [[1;2;3]; [4]; [5;6]; [7]] (data (sbuf ex_sd))
    = [[3;1;2;3]; [1;4]; [2;5;6]; [1;7]]
  /\ send_many toy_size bytes toy_emplace 100 [[1;2;3]; [4]; [5;6]; [7]] ex_sd
       (ex_k [WA 9; WE TimedOut; WA 1; WA 0])
     = ([SOk; SIo TimedOut; SIo BrokenPipe; SPanic],
        {| sunk := [77; 3;1;2;3; 2]; wscript := []; fscript := []; wcalls := 4 |})
  /\ send_many toy_size bytes toy_emplace 3 [[1;2;3]; [4]] ex_sd (ex_k [WA 1; WA 1; WA 1])
     = ([SHang], {| sunk := [77; 3;1;2]; wscript := []; fscript := []; wcalls := 4 |}).
Proof. vm_compute. repeat split; reflexivity. Qed.

Print Assumptions c09_write_loop_bounded.
Print Assumptions c09_write_loop_model_fuel.
Print Assumptions c09_send_blocking_no_hang.
Print Assumptions c09_write_loop_first_fault.
Print Assumptions c09_write_loop_fault_not_reached.
Print Assumptions c09_write_loop_sunk.
Print Assumptions c09_write_loop_ok_iff.
Print Assumptions c09_send_blocking_poisoned_refuses.
Print Assumptions c09_send_many_poisoned.
Print Assumptions c09_send_one_spec.
Print Assumptions c09_send_many_sink_framed.
Print Assumptions c09_example_hyps.
