(* C14 (emplacement as a whole operation) — the footprint of an emplacer.  Emplacers write as they go
   and a failing one may have written behind the bytes of the value it was building (the FromIterator
   emplacers: see c13_flex_example in Props/C13_flex.v), so "nothing behind the extent changes" is
   not a theorem.  What holds for every accepted type and every well-typed expression:
   - the buffer keeps its length, whatever the outcome (c14_emplace_keeps_length);
   - assign_in_place runs the emplacer on the value's own bytes (the first bytes_len bytes, what
     as_bytes() of the mapped reference covers) and touches nothing behind them, whatever the
     outcome (c14_assign_frame).
   Pinned statements only; proofs in Proofs/EmplaceUnsizedFacts.v and Proofs/AssignValidFacts.v.
   Hypotheses: wf, narrow_ty (no length / offset / tag type wider than 8 bytes), the expression is
   well typed (init_ok) with UTF-8 string literals (utf8_init). *)
From Coq Require Import NArith List Bool.
From Flatty.Model Require Import Base Ty Layout Validate View Emplace.
From Flatty.Proofs Require Import EmplaceSpec EmplaceUnsizedFacts AssignValidFacts.
Import ListNotations.
Open Scope N_scope.

(* Emplacer::emplace (new_in_place, default_in_place): the buffer keeps its length — success,
   BadAlign, InsufficientSize alike; it never crashes (emplace_never_crashes, Props/C03.v) *)
Theorem c14_emplace_keeps_length : forall t i, wf t = true -> narrow_ty t = true ->
  init_ok t i = true -> utf8_init i = true ->
  forall pv a buf, blen (fst (emplace pv t i a buf)) = blen buf.
Proof. exact emplace_keeps_length. Qed.

(* assign_in_place on a valid target: with n = bytes_len t |bs| (defined, at most |bs|), the slice
   keeps its length and every byte from position n on is what it was *)
Theorem c14_assign_frame : forall t i, wf t = true -> narrow_ty t = true ->
  init_ok t i = true -> utf8_init i = true ->
  forall pv a bs, validate t a bs = Ok tt ->
    exists n, bytes_len t (blen bs) = Ok n /\ n <= blen bs /\
      blen (fst (assign_in_place pv t i a bs)) = blen bs /\
      drop n (fst (assign_in_place pv t i a bs)) = drop n bs.
Proof. exact assign_frame. Qed.

(* non-vacuity: FlexVec<u32, u8> (ALIGN 4) at address 4 holding [1] in 14 bytes: as_bytes() covers
   12 of them; a successful and a failed assignment both leave the last two bytes alone.
   struct { a: u8, v: FlatVec<u32, u8> } in 14 bytes (as_bytes() covers 12): the failed
   FromIterator assignment has rewritten a and stored one element — inside the first 12 bytes *)
Example c14_emplace_example :
  let u8i := {| isize := 1; ialign := 1; ibe := false |} in
  let u32i := {| isize := 4; ialign := 4; ibe := false |} in
  let t := TFlex (TInt u32i) u8i in
  let cur := [255;0;0;0; 1;0;0;0; 9;9;9;9; 5;5] in
  let ts := TStruct false (FCons (TInt u8i) (FCons (TVec (TInt u32i) u8i) FNil)) in
  let c2 := [1;9;9;9; 1;9;9;9; 2;0;0;0; 9;9] in
  wf t = true /\ narrow_ty t = true /\ validate t 4 cur = Ok tt /\ bytes_len t (blen cur) = Ok 12 /\
  assign_in_place None t (IFlex [IInt 7]) 4 cur = ([255;0;0;0; 7;0;0;0; 9;9;9;9; 5;5], Ok tt) /\
  assign_in_place None t (IFlex [IInt 7; IInt 8; IInt 9]) 4 cur
    = ([255;0;0;0; 7;0;0;0; 9;9;9;9; 5;5], Err InsufficientSize 0) /\
  wf ts = true /\ narrow_ty ts = true /\ validate ts 0 c2 = Ok tt /\ bytes_len ts (blen c2) = Ok 12 /\
  assign_in_place None ts (ISeq [IInt 3; IVecIter [IInt 4; IInt 5; IInt 6]]) 0 c2
    = ([3;9;9;9; 1;9;9;9; 4;0;0;0; 9;9], Err InsufficientSize 0).
Proof. vm_compute. repeat split; reflexivity. Qed.

Print Assumptions c14_emplace_keeps_length.
Print Assumptions c14_assign_frame.
