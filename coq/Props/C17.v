(* C17 — portable composite types: alignment 1, no padding anywhere, validation independent of the
   address, the sized image is the plain concatenation of the parts.
   Pinned statements only; proofs in Proofs/PortableTyFacts.v. *)
From Coq Require Import NArith List Bool.
From Flatty.Model Require Import Base Ty Layout Validate Emplace.
From Flatty.Proofs Require Import PortableTyFacts.
Open Scope N_scope.

(* a descriptor all of whose scalars, length types and tags have alignment 1 has alignment 1,
   and so does every list of such fields / variants *)
Theorem c17_align1 :
  (forall t, portable t = true -> align t = 1) /\
  (forall fs, portable_fields fs = true -> align_fields fs = 1) /\
  (forall vs, portable_variants vs = true -> align_variants vs = 1).
Proof. exact portable_align1_mut. Qed.

(* structs and enums: every field starts where the previous one ends (fold_size, PosIter step,
   LAST_FIELD_OFFSET, MIN_SIZE are plain sums), the size is the sum of the field sizes, the enum
   payload starts right after the tag and the enum size is tag + largest variant *)
Theorem c17_no_padding_struct :
  (forall fs, portable_fields fs = true -> forall acc, fold_size acc fs = acc + sum_ssize fs) /\
  (forall pos t t', portable t' = true -> pos_next pos t t' = pos + ssize t) /\
  (forall s fs, portable_fields fs = true -> ssize (TStruct s fs) = sum_ssize fs) /\
  (forall fs, portable_fields fs = true -> last_field_offset fs = sum_but_last fs) /\
  (forall fs, portable_fields fs = true ->
     min_size (TStruct false fs) = fold_min_size 0 fs /\ min_size (TStruct false fs) = sum_min fs) /\
  (forall tag vs, ialign tag = 1 -> portable_variants vs = true -> data_offset tag vs = isize tag) /\
  (forall s tag d vs, ialign tag = 1 -> portable_variants vs = true ->
     ssize (TEnum s tag d vs) = isize tag + max_sum_ssize vs) /\
  (forall tag d vs, ialign tag = 1 -> portable_variants vs = true ->
     min_size (TEnum false tag d vs) = isize tag + min_sum_min vs).
Proof.
  split; [exact portable_fold_size|]. split; [exact portable_pos_next|].
  split; [exact portable_struct_size|]. split; [exact portable_last_field_offset|].
  split; [exact portable_struct_min_size|]. split; [exact portable_data_offset|].
  split; [exact portable_enum_size | exact portable_enum_min_size].
Qed.

(* containers: the data of a FlatVec and the payload of a FlexVec item start right after the
   length / offset field (the length type must be a real scalar: size at least 1) *)
Theorem c17_no_padding_containers : forall t l, portable t = true -> wf_int l = true ->
  vec_data_offset t l = isize l /\ flex_offset_size t l = isize l /\
  min_size (TVec t l) = isize l /\ min_size (TFlex t l) = isize l.
Proof.
  intros t l Hp Hl. split; [exact (portable_vec_data_offset t l Hp Hl)|].
  split; [exact (portable_flex_offset_size t l Hp Hl) | exact (portable_vec_min_size t l Hp Hl)].
Qed.

(* a portable value can be mapped at any address: validation gives the same outcome (Ok, the same
   error at the same position, or the same crash) whatever the address of the first byte *)
Theorem c17_any_address : forall t, portable t = true ->
  forall a a' bs, validate t a bs = validate t a' bs.
Proof. exact portable_any_address. Qed.

(* the image ptr.write stores for a sized portable value has exactly the size of the type and
   contains no padding byte, provided no enum inside has variants of different payload sizes
   (no_slack; in particular: scalars, arrays and structs without enums) *)
Theorem c17_sized_image : forall t, portable t = true -> no_slack t = true ->
  forall i m, enc_sized t i = Some m -> Forall (fun x => x <> None) m /\ mlen m = ssize t.
Proof. exact portable_sized_image. Qed.

(* a sized struct is the concatenation of the images of its fields, nothing between or after *)
Theorem c17_struct_image : forall fs i m, portable_fields fs = true ->
  enc_sized (TStruct true fs) i = Some m ->
  exists is, field_inits i (flen fs) = Some is /\ enc_concat fs is = Some m /\ mlen m = sum_ssize fs.
Proof. exact portable_struct_image. Qed.

(* a sized enum (any variant sizes): the tag, immediately followed by the concatenated images of the
   active variant's fields; the only unspecified bytes are those after the variant's last field up
   to the size of the largest variant *)
Theorem c17_enum_image : forall tag d vs k is m, portable (TEnum true tag d vs) = true ->
  enc_sized (TEnum true tag d vs) (IVar k is) = Some m ->
  exists fs e, vnth (N.to_nat k) vs = Some fs /\ enc_concat fs is = Some e /\
    mlen e = sum_ssize fs /\ sum_ssize fs <= max_sum_ssize vs /\
    m = map Some (to_bytes (ibe tag) (isize tag) k) ++ e
        ++ repeat None (N.to_nat (max_sum_ssize vs - sum_ssize fs)) /\
    mlen m = isize tag + max_sum_ssize vs /\
    (no_slack_fields fs = true -> Forall (fun x => x <> None) e).
Proof. exact portable_enum_image. Qed.

(* why the predicate requires a tag of alignment 1: a native u16 tag has alignment 2, so an enum
   declared with it is well-formed, not portable, and has align 2.  The macro used to let
   #[flat(portable = true, tag_type = "u16")] through (repaired in /repo by fix 5481a62: such a
   definition is now refused; the negative program harness/examples/c17_wide_tag.rs watches it) *)
Theorem c17_refuted_wide_tag :
  let t := TEnum true {| isize := 2; ialign := 2; ibe := false |} 0 (VCons FNil VNil) in
  wf t = true /\ portable t = false /\ align t = 2.
Proof. vm_compute. repeat split; reflexivity. Qed.

(* known finding (class enum_slack): a SIZED portable enum whose variants have different payload
   sizes has bytes that belong to no field of the active variant (behind a shorter variant, up to the
   size of the largest); ptr.write leaves them unspecified, so the image of such a value is not a
   function of its content alone.  no_slack in c17_sized_image cannot be dropped. *)
Theorem c17_refuted_enum_slack :
  exists t i m, wf t = true /\ portable t = true /\ enc_sized t i = Some m /\ In None m.
Proof.
  exists (TEnum true {| isize := 1; ialign := 1; ibe := false |} 0
            (VCons FNil (VCons (FCons (TInt {| isize := 4; ialign := 1; ibe := true |}) FNil) VNil))),
         (IVar 0 []), [Some 0; None; None; None; None].
  vm_compute. repeat split; try reflexivity. right. left. reflexivity.
Qed.

(* non-vacuity: an unsized portable struct { le::U32, FlatVec<{ be::U16, Bool }, be::U16> } is
   accepted by the macro, has alignment 1 and validates alike at addresses 0 and 3 (valid and
   invalid bytes); with a native u32 first field the same bytes are refused at address 3 *)
Example c17_example :
  let le32 := {| isize := 4; ialign := 1; ibe := false |} in
  let be16 := {| isize := 2; ialign := 1; ibe := true |} in
  let n32 := {| isize := 4; ialign := 4; ibe := false |} in
  let p := TStruct true (FCons (TInt be16) (FCons TBool FNil)) in
  let t := TStruct false (FCons (TInt le32) (FCons (TVec p be16) FNil)) in
  let tn := TStruct false (FCons (TInt n32) (FCons (TVec p be16) FNil)) in
  let good := [1;2;3;4; 0;2; 0;7;1; 9;9;0; 5] in
  let bad := [1;2;3;4; 0;2; 0;7;1; 9;9;2; 5] in
  portable t = true /\ wf t = true /\ narrow_ty t = true /\ align t = 1 /\ min_size t = 6 /\
  validate t 0 good = Ok tt /\ validate t 3 good = Ok tt /\
  validate t 0 bad = Err InvalidData 11 /\ validate t 3 bad = Err InvalidData 11 /\
  portable tn = false /\ validate tn 0 good = Ok tt /\ validate tn 3 good = Err BadAlign 0 /\
  no_slack p = true /\
  enc_sized p (ISeq [IInt 258; IInt 1]) = Some [Some 1; Some 2; Some 1].
Proof. vm_compute. repeat split; reflexivity. Qed.

Print Assumptions c17_align1.
Print Assumptions c17_no_padding_struct.
Print Assumptions c17_no_padding_containers.
Print Assumptions c17_any_address.
Print Assumptions c17_sized_image.
Print Assumptions c17_struct_image.
Print Assumptions c17_enum_image.
Print Assumptions c17_refuted_wide_tag.
Print Assumptions c17_refuted_enum_slack.
