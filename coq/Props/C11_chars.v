(* C11 (character level) — FlatString::push(char) against a reference UTF-8 DECODER.
   Pinned statements only; proofs in Proofs/Utf8DecFacts.v.

   Reading guide.
   - utf8_encode c (Model/Ops.v) = the bytes FlatString::push(c) appends (char::encode_utf8; compared
     with the library by the hist suite on every check); utf8_err = the library's str validation.
   - utf8_dec (Proofs/Utf8DecFacts.v) = a decoder written from the bit layout of RFC 3629, not from the
     library: it splits a byte string into code points by the leading byte alone.
   - text_of cs = the concatenated encodings of the characters cs; chars_len cs = their summed len_utf8.
   - sspec_step cap s op = the text-level step that c11_str_op_typed (Props/C11_typed.v) proves the
     library's FlatString performs on its image; cspec_step cap cs op = String::push on a sequence of
     chars with refusal when the encoded char does not fit into the capacity counted in bytes. *)
From Coq Require Import NArith List Bool.
From Flatty.Model Require Import Base Ty Layout Utf8 Validate View Emplace Ops.
From Flatty.Proofs Require Import EmplaceSpec VecOpsFacts VecTypedFacts Utf8DecFacts.
Import ListNotations.
Open Scope N_scope.

(* one pushed char reads back as that char, for every code point (surrogates included) *)
Theorem c11_char_roundtrip : forall c, c < 1114112 -> utf8_dec (utf8_encode c) = Some [c].
Proof. exact utf8_dec_encode. Qed.

(* any sequence of pushed chars reads back as that sequence: the encoding is self-delimiting *)
Theorem c11_chars_roundtrip : forall cs, Forall (fun c => c < 1114112) cs ->
  utf8_dec (flat_map utf8_encode cs) = Some cs.
Proof. exact utf8_dec_encode_all. Qed.

(* different chars never get the same bytes *)
Theorem c11_char_injective : forall c d, c < 1114112 -> d < 1114112 ->
  utf8_encode c = utf8_encode d -> c = d.
Proof. exact utf8_encode_inj. Qed.

(* a pushed char takes char::len_utf8 bytes: 1, 2, 3 or 4 by the documented thresholds *)
Theorem c11_char_len : forall c, blen (utf8_encode c) =
  if c <? 128 then 1 else if c <? 2048 then 2 else if c <? 65536 then 3 else 4.
Proof. exact utf8_encode_len. Qed.

(* the text-level step on the text of a char sequence is the char-level step (push(char), clear):
   a FlatString is a capacity-bounded String of chars, refusal exactly when the bytes do not fit *)
Theorem c11_str_step_chars : forall cap cs op,
  match op with SPushChar _ | VClear => True | _ => False end ->
  sspec_step cap (text_of cs) op =
  (text_of (fst (cspec_step cap cs op)), snd (cspec_step cap cs op)).
Proof. exact sspec_step_chars. Qed.

(* every finite history of push(char) / clear: the text-level history that c11_str_history_typed proves
   of the library is the character-level history (a capacity-bounded String of chars) *)
Theorem c11_str_history_chars : forall cap ops, Forall char_op ops -> forall cs,
  sspec_run cap ops (text_of cs) =
  (text_of (fst (cspec_run cap ops cs)), snd (cspec_run cap ops cs)).
Proof. exact sspec_run_chars. Qed.

(* ... and the reference decoder reads the characters of the history back from the final text *)
Theorem c11_str_history_chars_decode : forall cap ops cs, Forall char_op ops ->
  Forall (fun c => c < 1114112) (fst (cspec_run cap ops cs)) ->
  utf8_dec (fst (sspec_run cap ops (text_of cs))) = Some (fst (cspec_run cap ops cs)).
Proof. exact sspec_run_chars_decode. Qed.

(* what the library's validator accepts: the text of any sequence of scalar values *)
Theorem c11_chars_text_valid : forall cs, Forall scalar cs -> utf8_err (text_of cs) = None.
Proof. exact text_of_valid. Qed.

(* non-vacuity: 'h', e-acute, euro sign, an emoji; the boundary code points of every length class;
   a refused push; a malformed string the reference decoder cannot be fooled by *)
Example c11_chars_examples :
  text_of [104; 233; 8364; 128512] = [104; 195;169; 226;130;172; 240;159;152;128] /\
  utf8_dec [104; 195;169; 226;130;172; 240;159;152;128] = Some [104; 233; 8364; 128512] /\
  utf8_dec (text_of [0; 127; 128; 2047; 2048; 65535; 65536; 1114111]) =
    Some [0; 127; 128; 2047; 2048; 65535; 65536; 1114111] /\
  chars_len [104; 233; 8364; 128512] = 10 /\
  cspec_step 6 [104; 233] (SPushChar 8364) = ([104; 233; 8364], ODone) /\
  cspec_step 6 [104; 233] (SPushChar 128512) = ([104; 233], ORefused) /\
  sspec_step 6 (text_of [104; 233]) (SPushChar 128512) = (text_of [104; 233], ORefused) /\
  cspec_run 6 [SPushChar 8364; SPushChar 128512; VClear; SPushChar 65] [104; 233] =
    ([65], [ODone; ORefused; ODone; ODone]) /\
  utf8_dec [226; 130] = None /\
  utf8_err (text_of [55295; 57344]) = None.
Proof. vm_compute. repeat split; reflexivity. Qed.

Print Assumptions c11_char_roundtrip.
Print Assumptions c11_chars_roundtrip.
Print Assumptions c11_char_injective.
Print Assumptions c11_char_len.
Print Assumptions c11_str_step_chars.
Print Assumptions c11_chars_text_valid.
Print Assumptions c11_str_history_chars.
Print Assumptions c11_str_history_chars_decode.
