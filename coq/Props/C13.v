(* C13 — a rejected container operation leaves the container exactly as it was.
   Pinned statements only; proofs in Proofs/OpsFacts.v. *)
From Coq Require Import NArith List Bool.
From Flatty.Model Require Import Base Ty Layout Validate View Emplace Ops.
From Flatty.Proofs Require Import OpsFacts.
Open Scope N_scope.

(* FlatVec / FlatString: whenever push, push_slice, push_str, pop, remove, swap_remove, resize or an
   element write is refused (Err / None / panic), the slice is returned byte for byte — hence len,
   items, size(), validity and the behaviour of every later operation are those of the state before
   the call (they are functions of the bytes).  For every geometry, operation and byte string. *)
Theorem c13_container_reject : forall pv g op bs,
  changed_nothing (snd (cont_op pv g op bs)) = true -> fst (cont_op pv g op bs) = bs.
Proof. exact cont_op_refused. Qed.

Theorem c13_vec_reject : forall pv t op bs,
  changed_nothing (snd (vec_op pv t op bs)) = true -> fst (vec_op pv t op bs) = bs.
Proof. exact vec_op_refused. Qed.

(* FlexVec::pop on an empty vector *)
Theorem c13_flex_pop_reject : forall pv t a bs,
  snd (flex_op pv t a FPop bs) = ORefused -> fst (flex_op pv t a FPop bs) = bs.
Proof. exact flex_pop_refused. Qed.

(* non-vacuity: a full FlatVec<u8,u8> refuses a push *)
Example c13_example :
  let l8 := {| isize := 1; ialign := 1; ibe := false |} in
  vec_op None (TVec (TInt l8) l8) (VPush (IInt 7)) [2; 5; 6] = ([2; 5; 6], ORefused).
Proof. vm_compute. reflexivity. Qed.

Print Assumptions c13_container_reject.
Print Assumptions c13_vec_reject.
Print Assumptions c13_flex_pop_reject.
