(* C07 (end to end) — the send side of the framed IO for every real message type with NO premise on
   its emplacer, and sender and receiver connected: the bytes a successful send puts into the sink
   are a canonical message of the type that reads back the specified content, and a receiver fed
   the sink's bytes under ANY chunking delivers exactly the sent values, in order.
   Pinned statements only; proofs in Proofs/IoPipeFacts.v (composition), Proofs/EmplaceBytesFacts.v
   (emplacement keeps bytes bytes), Proofs/EmplaceUnsizedFacts.v (the emplacement theorem),
   Proofs/IoInstFacts.v, Proofs/IoSendFacts.v, Proofs/IoRecvFacts.v.

   Reading guide.
   - t: a message type with wf t (accepted), narrow_ty t (no length / offset / tag type wider than
     8 bytes) and 0 < min_size t.
   - an initialiser i fits a sender whose buffer has CAP bytes (init_fits_u t CAP i): it is well
     typed for t, its lengths / offsets are representable, its extent is at most CAP, and every
     string literal in it is UTF-8 (c07_pipe_defs).
   - flat_emplace t = emplace None t (a fresh value; padding keeps the buffer's old bytes).
   - msgs .. is buf = the messages of a run: for each initialiser the first size() bytes of the
     buffer after its emplacement, every emplacement working on the bytes the previous one left.
   - Lists of N stand for memory only when every element is < 256 (bytes_ok). *)
From Coq Require Import NArith List Bool.
From Flatty.Model Require Import Base Ty Layout Utf8 Validate View Emplace Io.
From Flatty.Proofs Require Import EmplaceSpec IoRecvFacts IoSendFacts IoInstFacts EmplaceUnsizedFacts
  EmplaceBytesFacts IoPipeFacts.
Import ListNotations.
Open Scope N_scope.

Theorem c07_pipe_defs : forall t CAP i m,
  (init_fits_u t CAP i <->
     (init_ok t i = true /\ representable t i = true /\ extent t i <= CAP) /\ utf8_init i = true) /\
  (carries t i m <->
     flat_msg t m /\ blen m = extent t i /\ exists v, view t m = Ok v /\ spec_value t i = Some (strip v)) /\
  (emplace_spec_u t <->
     (forall i a buf, init_ok t i = true -> utf8_init i = true -> representable t i = true ->
        aligned a (align t) = true -> extent t i <= blen buf ->
        exists buf' n, emplace None t i a buf = (buf', Ok tt) /\ blen buf' = blen buf /\
                       size_m t buf' = Ok n /\ 0 < n /\ n <= blen buf)).
Proof. intros. unfold init_fits_u, init_fits, carries, emplace_spec_u. tauto. Qed.

(* ---- emplacement keeps memory memory ---- *)

(* a well-formed UTF-8 string has no byte above 244; in particular it is a byte string *)
Theorem c07_pipe_utf8_le244 : forall s, utf8_err s = None -> forallb (fun b => b <=? 244) s = true.
Proof. exact utf8_le244. Qed.

(* whatever its outcome, an emplacer (every type descriptor, every expression with UTF-8 string
   literals, padding policy "keep" or a byte) leaves a byte string when it was given one *)
Theorem c07_pipe_emplace_bytes_ok : forall t pv i a buf,
  match pv with Some v => v < 256 | None => True end -> utf8_init i = true -> bytes_ok buf = true ->
  bytes_ok (fst (emplace pv t i a buf)) = true.
Proof. exact emplace_bytes_ok. Qed.

(* the condition on string literals is needed *)
Theorem c07_pipe_emplace_bytes_ok_needs_utf8 :
  let l8 := {| isize := 1; ialign := 1; ibe := false |} in
  bytes_ok [0; 0; 0] = true /\
  emplace None (TStr l8) (IStr [300]) 0 [0; 0; 0] = ([1; 300; 0], Ok tt) /\
  bytes_ok [1; 300; 0] = false.
Proof. exact emplace_bytes_ok_needs_utf8. Qed.

(* ---- the send side without an emplacement premise ---- *)

(* the premise emplace_spec of Props/C07_inst.v, for expressions with UTF-8 literals, holds for
   every message type *)
Theorem c07_pipe_emplace_spec : forall t, wf t = true -> narrow_ty t = true -> 0 < min_size t ->
  emplace_spec_u t.
Proof. exact flat_emplace_spec_u. Qed.

(* the premise emplace_good of Props/C07_send.v for the emplacer of a descriptor *)
Theorem c07_pipe_emplace_good : forall t CAP i, wf t = true -> narrow_ty t = true -> 0 < min_size t ->
  init_fits_u t CAP i -> emplace_good (size_m t) init (flat_emplace t) CAP i.
Proof. exact flat_emplace_good_u. Qed.

(* C07: accept-only pipe, whatever the chunk sizes: every send returns SOk and the sink receives the
   concatenation of the messages, in order *)
Theorem c07_pipe_send_many_stream : forall t CAP limit is sd k outs k',
  wf t = true -> narrow_ty t = true -> 0 < min_size t ->
  sd_ready CAP sd -> Forall (init_fits_u t CAP) is -> poisoned sd = false ->
  Forall accepts (wscript k) ->
  wcalls k + blen (concat (msgs (size_m t) init (flat_emplace t) is (data (sbuf sd)))) <= limit ->
  send_many (size_m t) init (flat_emplace t) limit is sd k = (outs, k') ->
  outs = map (fun _ => SOk) is
  /\ sunk k' = sunk k ++ concat (msgs (size_m t) init (flat_emplace t) is (data (sbuf sd)))
  /\ Forall accepts (wscript k').
Proof. exact flat_send_many_stream_u. Qed.

(* C09: any blocking script (no Pending): the sink gains whole messages, then at most one proper
   prefix of a message, then nothing (framed, Props/C09_send.v) *)
Theorem c07_pipe_send_many_sink_framed : forall t CAP limit is sd k outs k',
  wf t = true -> narrow_ty t = true -> 0 < min_size t ->
  sd_ready CAP sd -> Forall (init_fits_u t CAP) is -> poisoned sd = false ->
  ~ In WP (wscript k) ->
  send_many (size_m t) init (flat_emplace t) limit is sd k = (outs, k') ->
  exists gain, sunk k' = sunk k ++ gain /\
    framed (msgs (size_m t) init (flat_emplace t) is (data (sbuf sd))) outs gain.
Proof. exact flat_send_many_sink_framed_u. Qed.

(* C08: a completed async send has put exactly the message into the sink, the flush comes last *)
Theorem c07_pipe_asend_one_ok : forall t CAP fuel limit polls i sd k sd' k' polls' evs',
  wf t = true -> narrow_ty t = true -> 0 < min_size t ->
  sd_ready CAP sd -> init_fits_u t CAP i ->
  asend_one (size_m t) init (flat_emplace t) fuel limit polls i sd k = (sd', k', polls', evs', SOk) ->
  sunk k' = sunk k ++ msg_bytes (size_m t) init (flat_emplace t) i (data (sbuf sd))
  /\ (exists fl wr, evs' = EvFO :: fl ++ wr
        /\ forallb is_fp fl = true /\ forallb is_wev wr = true
        /\ ev_bytes wr = blen (msg_bytes (size_m t) init (flat_emplace t) i (data (sbuf sd))))
  /\ sd_ready CAP sd' /\ poisoned sd' = poisoned sd.
Proof. exact flat_asend_one_ok_u. Qed.

(* ---- what is sent is a message ---- *)

(* the bytes a send of i puts into the sink — the first size() bytes of the sender's buffer after
   the emplacement — are a canonical message of the type (flat_msg: a byte string that validates at
   address 0 and is exactly size() long), extent t i long, and read back the specified content; the
   sender's buffer stays a byte string of CAP bytes *)
Theorem c07_pipe_sent_msg : forall t, wf t = true -> narrow_ty t = true ->
  forall CAP i buf, init_fits_u t CAP i -> blen buf = CAP -> bytes_ok buf = true ->
  blen (msg_buf init (flat_emplace t) i buf) = CAP /\
  bytes_ok (msg_buf init (flat_emplace t) i buf) = true /\
  carries t i (msg_bytes (size_m t) init (flat_emplace t) i buf).
Proof. exact sent_msg. Qed.

(* all the messages of a run *)
Theorem c07_pipe_sent_msgs : forall t, wf t = true -> narrow_ty t = true ->
  forall CAP is buf, Forall (init_fits_u t CAP) is -> blen buf = CAP -> bytes_ok buf = true ->
  Forall2 (fun m i => carries t i m) (msgs (size_m t) init (flat_emplace t) is buf) is.
Proof. exact sent_msgs. Qed.

(* ---- C07 end to end ---- *)

(* A sender whose CAP-byte buffer holds bytes, not poisoned, with an empty sink, sends the values
   specified by the expressions is (each fitting: init_fits_u) through an accept-only pipe under ANY
   write chunking (every directive Accept k, k >= 1; watchdog wlimit at least the number of bytes).
   A receiver with a fresh buffer of capacity c >= CAP reads the sink's bytes under ANY read
   chunking (every directive Deliver k, k >= 1; watchdog rlimit at least bytes + calls).  Then
   every send returns SOk, and (length is + extra) recv() calls, each followed by the drop of its
   guard, yield exactly one guard per expression, in order — never a panic, a hang, OutOfMemory or a
   parse error — followed by Closed `extra` times; the window of the guard for expression i starts
   with a valid value of extent t i bytes and reads (view, capacities stripped) exactly the content
   spec_value t i that i specifies: the sent sequence is delivered. *)
Theorem c07_pipe_delivers : forall t, wf t = true -> narrow_ty t = true -> 0 < min_size t ->
  forall CAP wlimit is sd k outs k' (extra : nat) rlimit c fill sc,
  sd_ready CAP sd -> bytes_ok (data (sbuf sd)) = true -> poisoned sd = false -> sunk k = [] ->
  Forall (init_fits_u t CAP) is ->
  Forall accepts (wscript k) -> wcalls k + N.of_nat (length is) * CAP <= wlimit ->
  send_many (size_m t) init (flat_emplace t) wlimit is sd k = (outs, k') ->
  CAP <= c -> (is <> [] \/ 0 < c) -> Forall okd sc ->
  N.of_nat (length is) * CAP + N.of_nat (length is + extra) <= rlimit ->
  outs = map (fun _ => SOk) is /\
  exists occs,
    fst (recv_many (validate t) (size_m t) (length is + extra) rlimit (new_buffer c fill)
           {| stream := sunk k'; rscript := sc; rcalls := 0 |})
      = map RMsg occs ++ repeat RClosed extra /\
    Forall2 (fun occ i => exists v, validate t 0 (take (extent t i) occ) = Ok tt /\
                                    view t occ = Ok v /\ spec_value t i = Some (strip v)) occs is.
Proof. exact flat_pipe_delivers. Qed.

(* ---- non-vacuity: struct { a: u32, b: FlatVec<u8, u16> } ---- *)

Definition px_u8 := TInt {| isize := 1; ialign := 1; ibe := false |}.
Definition px_u32 := TInt {| isize := 4; ialign := 4; ibe := false |}.
Definition px_l16 := {| isize := 2; ialign := 2; ibe := false |}.
Definition px_t := TStruct false (FCons px_u32 (FCons (TVec px_u8 px_l16) FNil)).
Definition px_i1 := ISeq [IInt 1; IVecArr [IInt 7; IInt 8]].
Definition px_i2 := ISeq [IInt 9; IVecArr [IInt 1; IInt 2; IInt 3]].
Definition px_sent :=
  send_many (size_m px_t) init (flat_emplace px_t) 100 [px_i1; px_i2]
    {| sbuf := new_buffer 12 7; poisoned := false |}
    {| sunk := []; wscript := [WA 3; WA 1; WA 2]; fscript := []; wcalls := 0 |}.

(* the type meets the side conditions; the two initialisers fit a 12-byte sender buffer (filled with
   the byte 7, which shows up as the padding of the second message); through a pipe that takes 3, 1,
   2, then everything, both sends succeed; the receiver (capacity 16) reading the sink under the
   chunking 3, 6, 2, 1, 20 delivers two guards, then Closed; their windows read the two specified
   values *)
Example c07_pipe_example :
  wf px_t = true /\ narrow_ty px_t = true /\ min_size px_t = 8
  /\ init_fits_u px_t 12 px_i1 /\ init_fits_u px_t 12 px_i2
  /\ px_sent = ([SOk; SOk],
                {| sunk := [1;0;0;0; 2;0; 7;8;  9;0;0;0; 3;0; 1;2;3; 7;7;7];
                   wscript := []; fscript := []; wcalls := 5 |})
  /\ fst (recv_many (validate px_t) (size_m px_t) 3 100 (new_buffer 16 0)
            {| stream := sunk (snd px_sent); rscript := [RD 3; RD 6; RD 2; RD 1; RD 20]; rcalls := 0 |})
     = [RMsg [1;0;0;0; 2;0; 7;8; 9]; RMsg [9;0;0;0; 3;0; 1;2;3; 7;7;7]; RClosed]
  /\ spec_value px_t px_i1 = Some (VNode 0 [VInt 1; VCont 0 [VInt 7; VInt 8]])
  /\ view px_t [1;0;0;0; 2;0; 7;8; 9] = Ok (VNode 0 [VInt 1; VCont 2 [VInt 7; VInt 8]])
  /\ spec_value px_t px_i2 = Some (VNode 0 [VInt 9; VCont 0 [VInt 1; VInt 2; VInt 3]])
  /\ view px_t [9;0;0;0; 3;0; 1;2;3; 7;7;7] = Ok (VNode 0 [VInt 9; VCont 6 [VInt 1; VInt 2; VInt 3]]).
Proof.
  split; [reflexivity|]. split; [reflexivity|]. split; [reflexivity|].
  split; [unfold init_fits_u, init_fits; vm_compute; repeat split; solve [reflexivity|discriminate]|].
  split; [unfold init_fits_u, init_fits; vm_compute; repeat split; solve [reflexivity|discriminate]|].
  vm_compute. repeat split; reflexivity.
Qed.

Print Assumptions c07_pipe_defs.
Print Assumptions c07_pipe_utf8_le244.
Print Assumptions c07_pipe_emplace_bytes_ok.
Print Assumptions c07_pipe_emplace_bytes_ok_needs_utf8.
Print Assumptions c07_pipe_emplace_spec.
Print Assumptions c07_pipe_emplace_good.
Print Assumptions c07_pipe_send_many_stream.
Print Assumptions c07_pipe_send_many_sink_framed.
Print Assumptions c07_pipe_asend_one_ok.
Print Assumptions c07_pipe_sent_msg.
Print Assumptions c07_pipe_sent_msgs.
Print Assumptions c07_pipe_delivers.
