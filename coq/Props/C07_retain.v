(* C07 / C08 (RecvGuard::retain) — a retained message is handed out again: after any recv() that returned a
   message, a further recv() on the same receiver (the guard having been retained, i.e. the buffer not advanced)
   returns the same message, leaves buffer and source exactly as they were — no pipe call, for every fuel and
   watchdog limit — and, being the async poll as well, never answers Pending.  The harness retains every received
   message once and checks exactly this on the real receivers (io_suite.rs: RETAIN-MISMATCH / RETAIN-LOST / RETAIN-PENDING).
   Pinned statements only; proofs in Proofs/IoRetainFacts.v. *)
From Coq Require Import NArith List Bool.
From Flatty.Model Require Import Base Io.
From Flatty.Proofs Require Import IoRetainFacts.
Open Scope N_scope.

Theorem c07_recv_retain_then_recv : forall (validate_f : N -> bytes -> res unit) fuel limit sv b s b' s' occ fuel2 limit2,
  recv_loop validate_f fuel limit sv b s = (b', s', RMsg occ) ->
  recv_loop validate_f (S fuel2) limit2 false b' s' = (b', s', RMsg occ).
Proof. exact recv_retain_then_recv. Qed.

Theorem c07_recv_msg_validates : forall (validate_f : N -> bytes -> res unit) fuel limit sv b s b' s' occ,
  recv_loop validate_f fuel limit sv b s = (b', s', RMsg occ) ->
  occ = occupied b' /\ validate_f (st b') (occupied b') = Ok tt.
Proof. exact recv_loop_msg_validates. Qed.

(* non-vacuity: a toy validator accepting [n; n bytes]: the stream [2;7;8;1;9] in a 6-byte buffer: the first recv
   returns [2;7;8]; recv again (retained) returns [2;7;8] with the source untouched *)
Example c07_retain_example :
  let v := fun (_ : N) (bs : bytes) => match bs with
                                       | [] => Err InsufficientSize 0
                                       | n :: r => if blen r <? n then Err InsufficientSize 0 else Ok tt
                                       end in
  let s0 := {| stream := [2; 7; 8; 1; 9]; rscript := [RD 3]; rcalls := 0 |} in
  let r1 := recv_loop v 10 100 false (new_buffer 6 0) s0 in
  snd r1 = RMsg [2; 7; 8] /\
  recv_loop v 5 100 false (fst (fst r1)) (snd (fst r1)) = r1 /\ rcalls (snd (fst r1)) = 1.
Proof. vm_compute. repeat split; reflexivity. Qed.

Print Assumptions c07_recv_retain_then_recv.
Print Assumptions c07_recv_msg_validates.
