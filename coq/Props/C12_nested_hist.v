(* C12 (nested, histories) — every finite history on a FlexVec of FlexVecs in which operations of the
   outer vector are interleaved with in-place edits of inner vectors (iter_mut().nth(j) then a FlexVec
   operation on item j, Model/Ops.v flex_edit_flex).
   Pinned statements only; proofs in Proofs/FlexNestedHistFacts.v, by induction over the history from
   the single-step theorems of Props/C12_all.v (outer steps) and Props/C12_nested.v (inner steps).

   Reading guide.
   - The outer vector is FlexVec<FlexVec<it, il>, l>: et = TFlex it il is the item type, t = TFlex et l.
   - fop2 = one step: Outer fo (the operation fo of the outer vector, flex_op at t) or Inner j fo (the
     operation fo of inner vector j, flex_edit_flex at t).  flex2_step runs one step, flex2_run a
     list of steps: (the slice after the whole history, the outcomes reported step by step).
   - step_ok it il = the steps covered.  Outer: push of a well-typed expression with UTF-8 literals,
     pop, truncate, clear (simple_op_u at the item type TFlex it il, as in c12_history_all).
     Inner: push of a well-typed expression of the inner item type it, pop, truncate, clear
     (inner_ok it); the theorems ask it to be sized.
   - Hypotheses: the definition is accepted (wf t), no offset / length / tag type is wider than 8
     bytes (narrow_ty t for the first theorem, whose outer pushes emplace whole inner vectors; only
     the two offset types, narrow l and narrow il, for the second), the inner item type is accepted
     and sized, the image is valid at its address. *)
From Coq Require Import NArith List Bool.
From Flatty.Model Require Import Base Ty Layout Validate View Emplace Ops.
From Flatty.Proofs Require Import ChainFacts ViewFacts EmplaceSpec FlexOpsFacts EmplaceUnsizedFacts FlexAllFacts FlexNestedFacts
  FlexNestedHistFacts.
Import ListNotations.
Open Scope N_scope.

(* the definitions, spelled out *)
Theorem c12n_flex2_step_def : forall pv it il l a o bs,
  flex2_step pv it il l a o bs =
  match o with
  | Outer fo => flex_op pv (TFlex (TFlex it il) l) a fo bs
  | Inner j fo => flex_edit_flex pv (TFlex (TFlex it il) l) a j fo bs
  end.
Proof. reflexivity. Qed.

Theorem c12n_flex2_run_def : forall pv it il l a bs,
  flex2_run pv it il l a [] bs = (bs, []) /\
  forall o ops, flex2_run pv it il l a (o :: ops) bs =
    (fst (flex2_run pv it il l a ops (fst (flex2_step pv it il l a o bs))),
     snd (flex2_step pv it il l a o bs) :: snd (flex2_run pv it il l a ops (fst (flex2_step pv it il l a o bs)))).
Proof. intros pv it il l a bs. split; reflexivity. Qed.

Theorem c12n_step_ok_def : forall it il o,
  step_ok it il o <->
  match o with
  | Outer (FPush i) => init_ok (TFlex it il) i = true /\ utf8_init i = true
  | Inner _ (FPush i) => init_ok it i = true
  | Outer FPop | Outer (FTruncate _) | Outer FClear => True
  | Inner _ FPop | Inner _ (FTruncate _) | Inner _ FClear => True
  | _ => False
  end.
Proof.
  intros it il o. destruct o as [fo|j fo]; cbn [step_ok].
  - rewrite simple_op_u_def. destruct fo; tauto.
  - destruct fo; cbn [inner_ok]; tauto.
Qed.

(* 1. every history of covered steps from a valid image: the slice keeps its length, stays valid at
   the same address, one outcome is reported per step and none of them is OBad (every step was an
   operation that exists for this type: it completed, was refused, reported an error, or — an inner
   edit of an item that does not exist — panicked with the slice returned) *)
Theorem c12n_history_valid : forall pv it il l a,
  wf (TFlex (TFlex it il) l) = true -> narrow_ty (TFlex (TFlex it il) l) = true ->
  wf it = true -> sized it = true ->
  forall ops bs, Forall (step_ok it il) ops -> validate (TFlex (TFlex it il) l) a bs = Ok tt ->
  let r := flex2_run pv it il l a ops bs in
  blen (fst r) = blen bs /\ validate (TFlex (TFlex it il) l) a (fst r) = Ok tt /\
  length (snd r) = length ops /\ Forall (fun o => o <> OBad) (snd r).
Proof. exact nested_history_valid. Qed.

(* 2. along a history of inner edits only, the number of items of the outer vector never changes *)
Theorem c12n_history_inner_only_outer_len : forall pv it il l a,
  wf (TFlex (TFlex it il) l) = true -> narrow l = true -> narrow il = true ->
  wf it = true -> sized it = true ->
  forall ops bs vs, Forall (step_ok it il) ops -> Forall is_inner ops ->
  validate (TFlex (TFlex it il) l) a bs = Ok tt -> view (TFlex (TFlex it il) l) bs = Ok (VNode 0 vs) ->
  exists vs', view (TFlex (TFlex it il) l) (fst (flex2_run pv it il l a ops bs)) = Ok (VNode 0 vs') /\
    length vs' = length vs.
Proof. exact nested_history_inner_only_outer_len. Qed.

(* is_inner: the step is an edit of an inner vector *)
Theorem c12n_is_inner_def : forall o, is_inner o <-> exists j fo, o = Inner j fo.
Proof.
  intros o. destruct o as [fo|j fo]; cbn [is_inner]; split.
  - intros [].
  - intros (j & fo' & H). discriminate.
  - intros _. exists j, fo. reflexivity.
  - intros _. exact I.
Qed.

(* one step (the induction step of both): a covered step on a valid image keeps the length and the
   validity and does not report OBad *)
Theorem c12n_step_valid : forall pv it il l a,
  wf (TFlex (TFlex it il) l) = true -> narrow_ty (TFlex (TFlex it il) l) = true ->
  wf it = true -> sized it = true ->
  forall o bs, step_ok it il o -> validate (TFlex (TFlex it il) l) a bs = Ok tt ->
  let r := flex2_step pv it il l a o bs in
  blen (fst r) = blen bs /\ validate (TFlex (TFlex it il) l) a (fst r) = Ok tt /\ snd r <> OBad.
Proof.
  intros pv it il l a Hw Hn Hwi Hsi o bs. destruct (narrow_flex2_inv it il l Hn) as (H1 & H2 & H3).
  exact (step_valid pv it il l a Hw H3 H2 Hwi Hsi H1 o bs).
Qed.

(* non-vacuity: FlexVec<FlexVec<u8, u8>, u8> (OFFSET_SIZE 1, ALIGN 1), the empty vector with 16 spare
   bytes; the slice and the contents after every step of the history.  Step 8: after the outer pop
   inner vector 0 is still sealed by its slot (it ends where item 1 used to start), so its push has
   no room and reports InsufficientSize with nothing changed; step 9 edits an item that does not
   exist: panic, the slice returned *)
Example c12n_history_example :
  let l8 := {| isize := 1; ialign := 1; ibe := false |} in
  let u8 := TInt l8 in
  let t := TFlex (TFlex u8 l8) l8 in
  let im0 := [0; 9;9;9;9; 9;9;9;9; 9;9;9;9; 9;9;9;9] in
  let ops := [Outer (FPush IEmpty); Inner 0 (FPush (IInt 1)); Inner 0 (FPush (IInt 2)); Inner 0 FPop;
              Outer (FPush IEmpty); Inner 1 (FPush (IInt 7)); Outer FPop; Inner 0 (FPush (IInt 3));
              Inner 5 FPop] in
  let run k := flex2_run None u8 l8 l8 0 (firstn k ops) im0 in
  wf t = true /\ narrow_ty t = true /\ wf u8 = true /\ sized u8 = true /\ validate t 0 im0 = Ok tt /\
  Forall (step_ok u8 l8) ops /\
  fst (run 1%nat) = [255; 0; 9;9;9;9;9;9;9;9;9;9;9;9;9;9;9] /\
  view t (fst (run 1%nat)) = Ok (VNode 0 [VNode 0 []]) /\
  fst (run 2%nat) = [255; 255;1; 9;9;9;9;9;9;9;9;9;9;9;9;9;9] /\
  view t (fst (run 2%nat)) = Ok (VNode 0 [VNode 0 [VInt 1]]) /\
  fst (run 3%nat) = [255; 2;1; 255;2; 9;9;9;9;9;9;9;9;9;9;9;9] /\
  view t (fst (run 3%nat)) = Ok (VNode 0 [VNode 0 [VInt 1; VInt 2]]) /\
  fst (run 4%nat) = [255; 2;1; 0;2; 9;9;9;9;9;9;9;9;9;9;9;9] /\
  view t (fst (run 4%nat)) = Ok (VNode 0 [VNode 0 [VInt 1]]) /\
  fst (run 5%nat) = [4; 2;1; 0; 255; 0; 9;9;9;9;9;9;9;9;9;9;9] /\
  view t (fst (run 5%nat)) = Ok (VNode 0 [VNode 0 [VInt 1]; VNode 0 []]) /\
  fst (run 6%nat) = [4; 2;1; 0; 255; 255;7; 9;9;9;9;9;9;9;9;9;9] /\
  view t (fst (run 6%nat)) = Ok (VNode 0 [VNode 0 [VInt 1]; VNode 0 [VInt 7]]) /\
  fst (run 7%nat) = [4; 2;1; 0; 0; 255;7; 9;9;9;9;9;9;9;9;9;9] /\
  view t (fst (run 7%nat)) = Ok (VNode 0 [VNode 0 [VInt 1]]) /\
  flex2_run None u8 l8 l8 0 ops im0 =
    ([4; 2;1; 0; 0; 255;7; 9;9;9;9;9;9;9;9;9;9],
     [ODone; ODone; ODone; ODone; ODone; ODone; ODone; OErr InsufficientSize; OPanic]) /\
  validate t 0 (fst (flex2_run None u8 l8 l8 0 ops im0)) = Ok tt /\
  view t (fst (flex2_run None u8 l8 l8 0 ops im0)) = Ok (VNode 0 [VNode 0 [VInt 1]]) /\
  (* a history of inner edits only (c12n_history_inner_only_outer_len): two items before and after *)
  Forall is_inner [Inner 1 (FPush (IInt 8)); Inner 0 FClear; Inner 1 (FTruncate 1); Inner 2 FClear] /\
  flex2_run None u8 l8 l8 0 [Inner 1 (FPush (IInt 8)); Inner 0 FClear; Inner 1 (FTruncate 1); Inner 2 FClear]
    (fst (run 6%nat)) =
    ([4; 0;1; 0; 255; 2;7; 0;8; 9;9;9;9;9;9;9;9], [ODone; ODone; ODone; OPanic]) /\
  view t [4; 0;1; 0; 255; 2;7; 0;8; 9;9;9;9;9;9;9;9] = Ok (VNode 0 [VNode 0 []; VNode 0 [VInt 7]]).
Proof. vm_compute. repeat split; try reflexivity; repeat constructor. Qed.

Print Assumptions c12n_flex2_step_def.
Print Assumptions c12n_flex2_run_def.
Print Assumptions c12n_step_ok_def.
Print Assumptions c12n_history_valid.
Print Assumptions c12n_history_inner_only_outer_len.
Print Assumptions c12n_is_inner_def.
Print Assumptions c12n_step_valid.
Print Assumptions c12n_history_example.
