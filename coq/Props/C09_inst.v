(* C09 (instantiated) — read faults lose no received byte and retrying delivers what a fault-free
   pipe would have delivered (Props/C09_recv.v), and the sink holds whole messages followed by at
   most one proper prefix (Props/C09_send.v), for every real message type: a descriptor t with
   wf t, narrow_ty t, 0 < min_size t, validate := validate t, size() := size_m t.
   Pinned statements only; proofs in Proofs/IoInstFacts.v.  bytes_state b s: buffer well formed,
   window and stream are byte strings (Props/C10_inst.v). *)
From Coq Require Import NArith List Bool.
From Flatty.Model Require Import Base Ty Layout Validate View Emplace Io.
From Flatty.Proofs Require Import EmplaceSpec IoRecvFacts IoSendFacts IoInstFacts.
Import ListNotations.
Open Scope N_scope.

(* when recv() ends in a read error or Pending, the state is still made of bytes and the buffer
   holds the old window followed by exactly the bytes taken off the stream before the fault *)
Theorem c09_inst_recv_fault_keeps_window : forall t, wf t = true -> narrow_ty t = true -> 0 < min_size t ->
  forall fuel limit sv b s b' s' o, bytes_state b s ->
  recv_loop (validate t) fuel limit sv b s = (b', s', o) ->
  (exists e, o = RRead e) \/ o = RPending ->
  bytes_state b' s' /\ occupied b' ++ stream s' = occupied b ++ stream s /\
  exists j, j <= blen (stream s) /\ stream s' = drop j (stream s) /\
            occupied b' = occupied b ++ take j (stream s).
Proof. exact flat_recv_fault_keeps_window. Qed.

(* for every outcome: window followed by stream is the same byte string before and after *)
Theorem c09_inst_recv_conserves : forall t, wf t = true -> narrow_ty t = true -> 0 < min_size t ->
  forall fuel limit sv b s b' s' o, bytes_state b s ->
  recv_loop (validate t) fuel limit sv b s = (b', s', o) ->
  occupied b' ++ stream s' = occupied b ++ stream s.
Proof. exact flat_recv_conserves. Qed.

(* retry: the non-fault outcomes of n recv() calls on the script without its RE entries are
   produced, in the same order, by n + (number of RE entries) calls on the script with them: every
   fault costs one call and nothing else (nre, countRE, nrr: Props/C09_recv.v c09_recv_defs) *)
Theorem c09_inst_recv_retry : forall t, wf t = true -> narrow_ty t = true -> 0 < min_size t ->
  forall n limit limit' b s, bytes_state b s ->
  rcalls s + blen (stream s) + N.of_nat (n + countRE (rscript s)) <= limit ->
  rcalls s + blen (stream s) + N.of_nat n <= limit' ->
  exists tail,
    nrr (fst (recv_many (validate t) (size_m t) (n + countRE (rscript s)) limit b s))
    = nrr (fst (recv_many (validate t) (size_m t) n limit' b
                  {| stream := stream s; rscript := nre (rscript s); rcalls := rcalls s |})) ++ tail.
Proof. exact flat_recv_retry. Qed.

(* send side, under the emplacement premise (Props/C07_inst.v c07_inst_emplace_spec_def): any
   blocking write script: the sink gains whole messages, then at most one proper prefix, then
   nothing (framed: Props/C09_send.v) *)
Theorem c09_inst_send_many_sink_framed : forall t CAP limit is sd k outs k', emplace_spec t ->
  sd_ready CAP sd -> Forall (init_fits t CAP) is -> poisoned sd = false ->
  ~ In WP (wscript k) ->
  send_many (size_m t) init (flat_emplace t) limit is sd k = (outs, k') ->
  exists gain, sunk k' = sunk k ++ gain /\
    framed (msgs (size_m t) init (flat_emplace t) is (data (sbuf sd))) outs gain.
Proof. exact flat_send_many_sink_framed. Qed.

(* non-vacuity, struct { a: u32, b: FlatVec<u8, u16> }: faults between chunks; the bytes read
   before a fault are delivered after it *)
Definition ex_u8 := TInt {| isize := 1; ialign := 1; ibe := false |}.
Definition ex_u32 := TInt {| isize := 4; ialign := 4; ibe := false |}.
Definition ex_t := TStruct false (FCons ex_u32 (FCons (TVec ex_u8 {| isize := 2; ialign := 2; ibe := false |}) FNil)).
Definition ex_str := [1;0;0;0; 2;0; 7;8] ++ [9;0;0;0; 3;0; 1;2;3;0;0;0].
Example c09_inst_example :
  (wf ex_t = true /\ narrow_ty ex_t = true /\ min_size ex_t = 8)
  /\ bytes_state (new_buffer 12 0)
       {| stream := ex_str; rcalls := 0; rscript := [RD 3; RE TimedOut; RD 6; RE Interrupted; RD 20] |}
  /\ fst (recv_many (validate ex_t) (size_m ex_t) 4 100 (new_buffer 12 0)
            {| stream := ex_str; rcalls := 0;
               rscript := [RD 3; RE TimedOut; RD 6; RE Interrupted; RD 20] |})
     = [RRead TimedOut; RMsg [1;0;0;0; 2;0; 7;8; 9]; RRead Interrupted;
        RMsg [9;0;0;0; 3;0; 1;2;3;0;0;0]]
  /\ fst (recv_many (validate ex_t) (size_m ex_t) 2 100 (new_buffer 12 0)
            {| stream := ex_str; rcalls := 0; rscript := [RD 3; RD 6; RD 20] |})
     = [RMsg [1;0;0;0; 2;0; 7;8; 9]; RMsg [9;0;0;0; 3;0; 1;2;3;0;0;0]].
Proof.
  split; [vm_compute; repeat split; reflexivity|].
  split; [apply bytes_state_new; vm_compute; reflexivity|].
  vm_compute. split; reflexivity.
Qed.

Print Assumptions c09_inst_recv_fault_keeps_window.
Print Assumptions c09_inst_recv_conserves.
Print Assumptions c09_inst_recv_retry.
Print Assumptions c09_inst_send_many_sink_framed.
Print Assumptions c09_inst_example.
