(* C08 (instantiated) — Pending polls are transparent (Props/C08_recv.v) and a completed async send
   puts exactly the message into the sink (Props/C08_send.v), for every real message type: a
   descriptor t with wf t, narrow_ty t, 0 < min_size t, validate := validate t, size() := size_m t.
   Pinned statements only; proofs in Proofs/IoInstFacts.v.  bytes_state b s: buffer well formed,
   window and stream are byte strings (Props/C10_inst.v). *)
From Coq Require Import NArith List Bool.
From Flatty.Model Require Import Base Ty Layout Validate View Emplace Io.
From Flatty.Proofs Require Import EmplaceSpec IoRecvFacts IoSendFacts IoInstFacts.
Import ListNotations.
Open Scope N_scope.

(* n recv() futures polled to completion on a script with RP entries yield the outcome list of n
   blocking recv() calls on the script with the RP entries removed (nrp, countRP: Props/C08_recv.v
   c08_recv_defs) — for every byte stream, every script, every well-formed buffer with a byte window *)
Theorem c08_inst_recv_pending_transparent : forall t, wf t = true -> narrow_ty t = true -> 0 < min_size t ->
  forall n fuel limit limit' b s, bytes_state b s ->
  (n + countRP (rscript s) < fuel)%nat ->
  N.of_nat (n + countRP (rscript s)) <= limit ->
  rcalls s + blen (stream s) + N.of_nat (n + countRP (rscript s)) <= limit ->
  rcalls s + blen (stream s) + N.of_nat n <= limit' ->
  fst (fst (arecv_many (validate t) (size_m t) n fuel limit 0 false b s))
  = fst (recv_many (validate t) (size_m t) n limit' b
           {| stream := stream s; rscript := nrp (rscript s); rcalls := rcalls s |}).
Proof. exact flat_arecv_pending_transparent. Qed.

(* one poll: when it returns Pending the state is still made of bytes, no byte was lost, and the
   buffer is already prepared for the read the resumed future starts with *)
Theorem c08_inst_recv_pending_step : forall t, wf t = true -> narrow_ty t = true -> 0 < min_size t ->
  forall fuel limit sv b s b' s', bytes_state b s ->
  recv_loop (validate t) fuel limit sv b s = (b', s', RPending) ->
  bytes_state b' s' /\ occupied b' ++ stream s' = occupied b ++ stream s /\
  read_prepare b' = Some b'.
Proof. exact flat_recv_pending_step. Qed.

(* send side, under the emplacement premise (Props/C07_inst.v c07_inst_emplace_spec_def): a
   completed async send has put exactly the message into the sink, the flush is the last event *)
Theorem c08_inst_asend_one_ok : forall t CAP fuel limit polls i sd k sd' k' polls' evs', emplace_spec t ->
  sd_ready CAP sd -> init_fits t CAP i ->
  asend_one (size_m t) init (flat_emplace t) fuel limit polls i sd k = (sd', k', polls', evs', SOk) ->
  sunk k' = sunk k ++ msg_bytes (size_m t) init (flat_emplace t) i (data (sbuf sd))
  /\ (exists fl wr, evs' = EvFO :: fl ++ wr
        /\ forallb is_fp fl = true /\ forallb is_wev wr = true
        /\ ev_bytes wr = blen (msg_bytes (size_m t) init (flat_emplace t) i (data (sbuf sd))))
  /\ sd_ready CAP sd' /\ poisoned sd' = poisoned sd.
Proof. exact flat_asend_one_ok. Qed.

(* non-vacuity, struct { a: u32, b: FlatVec<u8, u16> }: Pending before the first read, between the
   chunks of one message and twice in a row *)
Definition ex_u8 := TInt {| isize := 1; ialign := 1; ibe := false |}.
Definition ex_u32 := TInt {| isize := 4; ialign := 4; ibe := false |}.
Definition ex_t := TStruct false (FCons ex_u32 (FCons (TVec ex_u8 {| isize := 2; ialign := 2; ibe := false |}) FNil)).
Definition ex_str := [1;0;0;0; 2;0; 7;8] ++ [9;0;0;0; 3;0; 1;2;3;0;0;0].
Example c08_inst_example :
  (wf ex_t = true /\ narrow_ty ex_t = true /\ min_size ex_t = 8)
  /\ fst (fst (arecv_many (validate ex_t) (size_m ex_t) 3 20 100 0 false (new_buffer 12 0)
                 {| stream := ex_str; rcalls := 0;
                    rscript := [RP; RD 3; RP; RP; RD 6; RD 2; RP; RD 20] |}))
     = [RMsg [1;0;0;0; 2;0; 7;8; 9]; RMsg [9;0;0;0; 3;0; 1;2;3;0;0;0]; RClosed]
  /\ fst (recv_many (validate ex_t) (size_m ex_t) 3 100 (new_buffer 12 0)
            {| stream := ex_str; rcalls := 0; rscript := [RD 3; RD 6; RD 2; RD 20] |})
     = [RMsg [1;0;0;0; 2;0; 7;8; 9]; RMsg [9;0;0;0; 3;0; 1;2;3;0;0;0]; RClosed].
Proof. vm_compute. repeat split; reflexivity. Qed.

Print Assumptions c08_inst_recv_pending_transparent.
Print Assumptions c08_inst_recv_pending_step.
Print Assumptions c08_inst_asend_one_ok.
Print Assumptions c08_inst_example.
