(* C06 — the framing contract: verdicts other than "need more bytes" persist when further bytes
   arrive; a proper prefix never yields a different verdict than the whole.
   Pinned statements only; proofs in Proofs/FramingFacts.v, Proofs/ViewFacts.v. *)
From Coq Require Import NArith List Bool.
From Flatty.Model Require Import Base Ty Layout Validate View.
From Flatty.Proofs Require Import ValidateFacts FramingFacts ChainFacts ViewFacts.
Open Scope N_scope.

(* a slice that validates keeps validating whatever bytes follow it (the beginning of the next
   message, garbage, zeros): for every accepted definition, address, slice and suffix *)
Theorem c06_extension_valid : forall t a bs s, wf t = true ->
  validate t a bs = Ok tt -> validate t a (bs ++ s) = Ok tt.
Proof. exact validate_stable_ok. Qed.

(* a content or alignment error is final: it is reported with the same kind at the same position
   however many bytes follow; only InsufficientSize may change when more bytes arrive *)
Theorem c06_error_final : forall t a bs s k p, wf t = true -> k <> InsufficientSize ->
  validate t a bs = Err k p -> validate t a (bs ++ s) = Err k p.
Proof. exact validate_stable_err. Qed.

(* hence every prefix of a slice is either rejected as InsufficientSize or has exactly the verdict
   of the whole slice: a proper prefix of a valid message never reports a content error *)
Theorem c06_prefix : forall t a bs n, wf t = true -> narrow_ty t = true -> bytes_ok bs = true ->
  (exists p, validate t a (take n bs) = Err InsufficientSize p) \/
  validate t a (take n bs) = validate t a bs.
Proof. exact validate_prefix. Qed.

(* the bytes that follow a valid slice change neither size() nor the content read through the
   accessors (capacities aside): the extended slice is the same value *)
Theorem c06_extension_same : forall t a bs, wf t = true -> validate t a bs = Ok tt -> forall s,
  size_m t (bs ++ s) = size_m t bs /\
  exists v v', view t bs = Ok v /\ view t (bs ++ s) = Ok v' /\ strip v' = strip v.
Proof. exact extension_same. Qed.

(* a valid message that fills its slice exactly (size() = length): every proper prefix is
   rejected as InsufficientSize, so a framing loop never accepts a truncated message *)
Theorem c06_prefix_strict : forall t a m, wf t = true -> narrow_ty t = true -> bytes_ok m = true ->
  validate t a m = Ok tt -> size_m t m = Ok (blen m) ->
  forall n, n < blen m -> exists p, validate t a (take n m) = Err InsufficientSize p.
Proof. exact prefix_strict. Qed.

(* non-vacuity: struct { a: u32, b: FlatVec<u8, u16> } with two elements *)
Example c06_example :
  let u8 := TInt {| isize := 1; ialign := 1; ibe := false |} in
  let u32 := TInt {| isize := 4; ialign := 4; ibe := false |} in
  let l16 := {| isize := 2; ialign := 2; ibe := false |} in
  let t := TStruct false (FCons u32 (FCons (TVec u8 l16) FNil)) in
  let m := [1;0;0;0; 2;0; 7;8] in
  wf t = true /\ narrow_ty t = true /\ validate t 0 m = Ok tt /\
  validate t 0 (m ++ [9;9;9]) = Ok tt /\
  validate t 0 (take 7 m) = Err InsufficientSize 0 /\ validate t 0 (take 4 m) = Err InsufficientSize 0 /\
  size_m t m = Ok (blen m) /\ size_m t (m ++ [9;9;9]) = Ok 8 /\ bytes_ok m = true /\
  view t m = Ok (VNode 0 [VInt 1; VCont 2 [VInt 7; VInt 8]]) /\
  view t (m ++ [9;9;9;9]) = Ok (VNode 0 [VInt 1; VCont 6 [VInt 7; VInt 8]]).
Proof. vm_compute. repeat split; reflexivity. Qed.

Print Assumptions c06_extension_valid.
Print Assumptions c06_error_final.
Print Assumptions c06_prefix.
Print Assumptions c06_extension_same.
Print Assumptions c06_prefix_strict.
