(* C10 (instantiated) — the receiver of a real message type fed arbitrary bytes: the theorems of
   Props/C10.v with validate := validate t, size() := size_m t for every descriptor t with wf t,
   narrow_ty t, 0 < min_size t.  No abstract premise about the message type is left.
   Pinned statements only; proofs in Proofs/IoInstFacts.v.
   The premise is that the state is made of bytes (bytes_state): buffer well formed, window and
   stream byte strings (every element < 256).  A fresh buffer has an empty window, so nothing is
   asked of its fill value.  The premise cannot be dropped (c10_inst_refuted_without_bytes). *)
From Coq Require Import NArith List Bool.
From Flatty.Model Require Import Base Ty Layout Validate View Io.
From Flatty.Proofs Require Import IoRecvFacts IoInstFacts.
Import ListNotations.
Open Scope N_scope.

Theorem c10_inst_bytes_state_def : forall b s,
  bytes_state b s <-> (wfb b /\ bytes_ok (occupied b) = true /\ bytes_ok (stream s) = true).
Proof. intros. unfold bytes_state. tauto. Qed.

(* a fresh buffer (any capacity, any fill) with a byte stream is such a state *)
Theorem c10_inst_bytes_state_new : forall c fill str sc n, bytes_ok str = true ->
  bytes_state (new_buffer c fill) {| stream := str; rscript := sc; rcalls := n |}.
Proof. exact bytes_state_new. Qed.

(* one call of recv(), for every stream of bytes, script, watchdog limit, loop fuel, resume flag and
   well-formed buffer: the state afterwards is again made of bytes (in particular start <= end <=
   capacity), the outcome is never a panic; at most (stream length + 1) pipe calls; no Hang when
   fuel exceeds the stream length and the limit allows those calls; the window is the old window
   followed by exactly the bytes taken off the stream; a delivered guard shows the window, the
   window validates at its address, its first size() bytes are a message of type t, dropping the
   guard does not trip skip's assertion and removes exactly size() bytes; OutOfMemory (not injected
   by the script) only when the window is the whole buffer *)
Theorem c10_inst_recv_total : forall t, wf t = true -> narrow_ty t = true -> 0 < min_size t ->
  forall fuel limit sv b s b' s' o, bytes_state b s ->
  recv_loop (validate t) fuel limit sv b s = (b', s', o) ->
  bytes_state b' s' /\ o <> RPanic /\
  (rcalls s <= rcalls s' /\ rcalls s' - rcalls s <= blen (stream s) + 1) /\
  ((length (stream s) < fuel)%nat -> rcalls s + blen (stream s) + 1 <= limit -> o <> RHang) /\
  (exists j, j <= blen (stream s) /\ stream s' = drop j (stream s) /\
             occupied b' = occupied b ++ take j (stream s)) /\
  (forall occ, o = RMsg occ ->
     occ = occupied b' /\ validate t (st b') occ = Ok tt /\
     exists n b'', size_m t occ = Ok n /\ 0 < n /\ n <= blen occ /\ flat_msg t (take n occ) /\
       drop_guard (size_m t) b' = Ok b'' /\ wfb b'' /\ occupied b'' = drop n (occupied b')) /\
  (o = RRead OutOfMemory -> ~ In (RE OutOfMemory) (rscript s) ->
     st b' = 0 /\ en b' = cap b' /\ blen (occupied b') = cap b).
Proof. exact flat_recv_total. Qed.

(* the parts, in the shape of Props/C10.v *)
Theorem c10_inst_recv_wfb : forall t, wf t = true -> narrow_ty t = true -> 0 < min_size t ->
  forall fuel limit sv b s b' s' o, bytes_state b s ->
  recv_loop (validate t) fuel limit sv b s = (b', s', o) ->
  wfb b' /\ o <> RPanic /\ bytes_state b' s'.
Proof. exact flat_recv_wfb. Qed.

Theorem c10_inst_recv_no_hang : forall t, wf t = true -> narrow_ty t = true -> 0 < min_size t ->
  forall fuel limit sv b s b' s' o, bytes_state b s ->
  recv_loop (validate t) fuel limit sv b s = (b', s', o) ->
  (length (stream s) < fuel)%nat -> rcalls s + blen (stream s) + 1 <= limit ->
  o <> RHang /\ rcalls s' - rcalls s <= blen (stream s) + 1.
Proof. exact flat_recv_no_hang. Qed.

Theorem c10_inst_recv_calls : forall t, wf t = true -> narrow_ty t = true -> 0 < min_size t ->
  forall fuel limit sv b s b' s' o, bytes_state b s ->
  recv_loop (validate t) fuel limit sv b s = (b', s', o) ->
  rcalls s <= rcalls s' /\ rcalls s' - rcalls s <= blen (stream s) + 1.
Proof. exact flat_recv_calls. Qed.

Theorem c10_inst_recv_received_only : forall t, wf t = true -> narrow_ty t = true -> 0 < min_size t ->
  forall fuel limit sv b s b' s' o, bytes_state b s ->
  recv_loop (validate t) fuel limit sv b s = (b', s', o) ->
  exists j, j <= blen (stream s) /\ stream s' = drop j (stream s) /\
            occupied b' = occupied b ++ take j (stream s).
Proof. exact flat_recv_received_only. Qed.

Theorem c10_inst_recv_msg_valid : forall t, wf t = true -> narrow_ty t = true -> 0 < min_size t ->
  forall fuel limit sv b s b' s' occ, bytes_state b s ->
  recv_loop (validate t) fuel limit sv b s = (b', s', RMsg occ) ->
  occ = occupied b' /\ bytes_ok occ = true /\ validate t (st b') occ = Ok tt /\
  exists n b'', size_m t occ = Ok n /\ 0 < n /\ n <= blen occ /\ flat_msg t (take n occ) /\
    drop_guard (size_m t) b' = Ok b'' /\ wfb b'' /\ occupied b'' = drop n (occupied b').
Proof. exact flat_recv_msg_valid. Qed.

Theorem c10_inst_recv_oom : forall t, wf t = true -> narrow_ty t = true -> 0 < min_size t ->
  forall fuel limit sv b s b' s', bytes_state b s -> ~ In (RE OutOfMemory) (rscript s) ->
  recv_loop (validate t) fuel limit sv b s = (b', s', RRead OutOfMemory) ->
  st b' = 0 /\ en b' = cap b' /\ blen (occupied b') = cap b.
Proof. exact flat_recv_oom. Qed.

(* (a window that validates to an error other than InsufficientSize is that parse error at once:
   Props/C10.v c10_recv_malformed_is_parse holds for every validate function, so also for
   validate t) *)
Theorem c10_inst_recv_malformed_is_parse : forall t fuel limit b s k p,
  (0 < fuel)%nat -> validate t (st b) (occupied b) = Err k p -> k <> InsufficientSize ->
  recv_loop (validate t) fuel limit false b s = (b, s, RParse k p).
Proof.
  intros t fuel limit b s k p Hf. destruct fuel as [|fuel]; [inversion Hf|].
  apply recv_loop_malformed_is_parse.
Qed.

(* the premise cannot be dropped: a "stream" with an element 2^64 makes the receiver of
   FlatVec<u8, u8> panic (such a list is not a byte stream) *)
Theorem c10_inst_refuted_without_bytes :
  let t := TVec (TInt {| isize := 1; ialign := 1; ibe := false |}) {| isize := 1; ialign := 1; ibe := false |} in
  wf t = true /\ narrow_ty t = true /\ min_size t = 1 /\
  snd (recv_loop (validate t) 9 100 false (new_buffer 4 0)
         {| stream := [18446744073709551616; 0]; rscript := []; rcalls := 0 |}) = RPanic.
Proof. vm_compute. repeat split; reflexivity. Qed.

(* non-vacuity, struct { a: u32, b: FlatVec<u8, u16> } and struct { f: Bool, b: FlatVec<u8, u8> }:
   hostile input (Bool byte 7) is a parse error without a pipe call once it is in the window; a
   message longer than the buffer ends in OutOfMemory with the window the whole buffer; a truncated
   stream ends in Closed *)
Definition ex_u8 := TInt {| isize := 1; ialign := 1; ibe := false |}.
Definition ex_u32 := TInt {| isize := 4; ialign := 4; ibe := false |}.
Definition ex_t := TStruct false (FCons ex_u32 (FCons (TVec ex_u8 {| isize := 2; ialign := 2; ibe := false |}) FNil)).
Definition ex_t2 := TStruct false (FCons TBool (FCons (TVec ex_u8 {| isize := 1; ialign := 1; ibe := false |}) FNil)).
Example c10_inst_example :
  (wf ex_t = true /\ narrow_ty ex_t = true /\ min_size ex_t = 8)
  /\ (wf ex_t2 = true /\ narrow_ty ex_t2 = true /\ min_size ex_t2 = 2)
  /\ recv_loop (validate ex_t2) 9 100 false {| data := [7; 0; 9; 9]; st := 0; en := 2 |}
       {| stream := [5]; rscript := []; rcalls := 0 |}
     = ({| data := [7; 0; 9; 9]; st := 0; en := 2 |}, {| stream := [5]; rscript := []; rcalls := 0 |},
        RParse InvalidData 0)
  /\ recv_loop (validate ex_t) 20 100 false (new_buffer 8 0)
       {| stream := [9;0;0;0; 3;0; 1;2;3;0;0;0]; rscript := []; rcalls := 0 |}
     = ({| data := [9;0;0;0; 3;0; 1;2]; st := 0; en := 8 |},
        {| stream := [3;0;0;0]; rscript := []; rcalls := 1 |}, RRead OutOfMemory)
  /\ fst (recv_many (validate ex_t) (size_m ex_t) 2 100 (new_buffer 12 0)
            {| stream := [1;0;0;0; 2;0; 7]; rscript := [RD 3]; rcalls := 0 |}) = [RClosed; RClosed].
Proof. vm_compute. repeat split; reflexivity. Qed.

Print Assumptions c10_inst_bytes_state_def.
Print Assumptions c10_inst_bytes_state_new.
Print Assumptions c10_inst_recv_total.
Print Assumptions c10_inst_recv_wfb.
Print Assumptions c10_inst_recv_no_hang.
Print Assumptions c10_inst_recv_calls.
Print Assumptions c10_inst_recv_received_only.
Print Assumptions c10_inst_recv_msg_valid.
Print Assumptions c10_inst_recv_oom.
Print Assumptions c10_inst_recv_malformed_is_parse.
Print Assumptions c10_inst_refuted_without_bytes.
Print Assumptions c10_inst_example.
