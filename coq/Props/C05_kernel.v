(* C05 (kernel) — the size() formulas of the MODEL are the size() formulas of the SOURCE
   (Generated/Kernel.v, written by tools/translate.py from /repo on every run of ./check): FlatVec::size,
   FlatString::size, the generated size() of unsized structs and enums (ceil_mul(value, ALIGN), the
   struct value LAST_FIELD_OFFSET + last.size(), the enum value DATA_OFFSET + FoldSizeIter).
   Pinned statements only; proofs in Proofs/KernelFacts.v. *)
From Coq Require Import NArith List Bool.
From Flatty.Model Require Import Base Ty Layout Validate View.
From Flatty.Generated Require Import Kernel.
From Flatty.Proofs Require Import KernelFacts.
Open Scope N_scope.

Theorem c05_kernel_container_size : forall t l bs,
  size_m (TVec t l) bs = (do len <- read_len l bs; Ok (g_vec_size (isize l) (ialign l) (ssize t) (align t) len)) /\
  size_m (TStr l) bs = (do len <- read_len l bs; Ok (g_str_size (isize l) (ialign l) len)).
Proof. intros t l bs. split; [exact (k_vec_size t l bs) | exact (k_str_size l bs)]. Qed.

Theorem c05_kernel_struct_size :
  (forall fs bs, size_m (TStruct false fs) bs =
     let al := align_fields fs in
     do s <- size_last fs (take (floor_mul (blen bs) al) bs) 0; Ok (g_macro_size s al)) /\
  (forall t data pos, size_last (FCons t FNil) data pos = do s <- size_m t data; Ok (g_struct_size_value pos s)).
Proof. split; [exact k_struct_size | exact k_struct_size_value]. Qed.

Theorem c05_kernel_enum_size :
  (forall tag d vs bs, size_m (TEnum false tag d vs) bs =
     let al := umax (ialign tag) (align_variants vs) in
     let dof := g_enum_DATA_OFFSET (isize tag) al in
     do v <- read_int tag bs;
     do data0 <- drop_unchecked dof bs;
     do s <- size_variant vs (N.to_nat v) (take (floor_mul (blen data0) al) data0);
     Ok (g_macro_size (dof + s) al)) /\
  (forall t data pos acc, fold_size_iter (FCons t FNil) data pos acc =
     do s <- size_m t data; Ok (g_fold_size_last (align t) acc + s)) /\
  (forall t t' r data pos acc, fold_size_iter (FCons t (FCons t' r)) data pos acc =
     let np := g_pos_next (ssize t) (align t') pos in
     do sp <- split_at (np - pos) data;
     fold_size_iter (FCons t' r) (snd sp) np (g_fold_size_step (align t) (ssize t) acc)).
Proof. split; [exact k_enum_size|]. split; [exact k_fold_size_iter_last | exact k_fold_size_iter_cons]. Qed.

(* non-vacuity: FlatVec<u8, u32> with one element has size() 8, FlatString<u16> with three bytes 6 *)
Example c05_kernel_example : g_vec_size 4 4 1 1 1 = 8 /\ g_str_size 2 2 3 = 6 /\ g_macro_size 9 4 = 12.
Proof. vm_compute. repeat split; reflexivity. Qed.

Print Assumptions c05_kernel_container_size.
Print Assumptions c05_kernel_struct_size.
Print Assumptions c05_kernel_enum_size.
