(* C18 (the complement of the known finding classes) — the checking harness files a failed
   assign_in_place that changed its target under a known finding only when the (type, emplacer
   expression) pair lies in one of two classes (tools/oracles.py classify):
     late_field_refusal : the type involves a generated <T>Init — an unsized struct or unsized enum,
                          or a FlexVec whose item type (recursively) is one — AND the expression
                          contains a struct literal (ISeq) or a variant literal (IVar) anywhere;
     iter_emplacer      : the expression contains vec::FromIterator (IVecIter) or
                          flex::FromIterator (IFlex) anywhere.
   Everywhere else the model says: a failed assign_in_place on a valid target leaves it byte for byte
   unchanged, and the error is InsufficientSize.  Pinned statements only; proofs in
   Proofs/AssignClassFacts.v. *)
From Coq Require Import NArith List Bool.
From Flatty.Model Require Import Base Ty Layout Validate View Emplace.
From Flatty.Proofs Require Import EmplaceSpec AssignFacts EmplaceUnsizedFacts AssignClassFacts.
Import ListNotations.
Open Scope N_scope.

(* the two classes, equation by equation (the definitions are in Proofs/AssignClassFacts.v) *)
Theorem c18_classes_def :
  (forall t, has_init_type t =
     match t with
     | TStruct false _ | TEnum false _ _ _ => true
     | TFlex et _ => has_init_type et
     | _ => false
     end) /\
  (forall i, uses_literal i =
     match i with
     | ISeq _ | IVar _ _ => true
     | IVecArr is | IVecIter is | IFlex is => existsb uses_literal is
     | _ => false
     end) /\
  (forall i, uses_iter i =
     match i with
     | IVecIter _ | IFlex _ => true
     | ISeq is | IVar _ is | IVecArr is => existsb uses_iter is
     | _ => false
     end) /\
  (forall t i, in_known_class t i = (has_init_type t && uses_literal i) || uses_iter i).
Proof.
  repeat split; try reflexivity; intros x; destruct x; reflexivity.
Qed.

(* the pinned statement: outside the two classes a failed assign_in_place on a valid target leaves
   the target byte for byte unchanged — every type, every well-typed expression, every address,
   every padding policy *)
Theorem c18_failed_assign_unchanged_outside_known_classes : forall t i, wf t = true -> narrow_ty t = true ->
  init_ok t i = true -> utf8_init i = true -> in_known_class t i = false ->
  forall pv a bs bs' k p, validate t a bs = Ok tt ->
    assign_in_place pv t i a bs = (bs', Err k p) -> bs' = bs.
Proof. exact assign_failed_unchanged_outside. Qed.

(* one level down, the emplacer itself on an aligned slice of at least MIN_SIZE bytes: outside the
   classes an Err means nothing was written *)
Theorem c18_failed_emplace_unchanged_outside_known_classes : forall t i, wf t = true -> narrow_ty t = true ->
  init_ok t i = true -> in_known_class t i = false ->
  forall pv a buf b' k p, aligned a (align t) = true -> min_size t <= blen buf ->
    emplace_u pv t i a buf = (b', Err k p) -> b' = buf.
Proof. exact emplace_u_err_unchanged_outside. Qed.

(* the kind of the error outside the classes: the target has too little room *)
Theorem c18_failed_assign_outside_classes_kind : forall t i, wf t = true -> narrow_ty t = true ->
  init_ok t i = true -> utf8_init i = true -> in_known_class t i = false ->
  forall pv a bs bs' k p, validate t a bs = Ok tt ->
    assign_in_place pv t i a bs = (bs', Err k p) -> k = InsufficientSize.
Proof. exact assign_failed_outside_kind. Qed.

(* ... and inside them too: the kind does not depend on the class *)
Theorem c18_failed_assign_kind : forall t i, wf t = true -> narrow_ty t = true ->
  init_ok t i = true -> utf8_init i = true ->
  forall pv a bs bs' k p, validate t a bs = Ok tt ->
    assign_in_place pv t i a bs = (bs', Err k p) -> k = InsufficientSize.
Proof. exact assign_failed_kind. Qed.

(* the classes are not empty of failures: the recorded witnesses of Props/C18.v lie inside them —
   c18_refuted_late_refusal and c18_refuted_late_refusal_struct via the first disjunct (and not the
   second), c18_refuted_iter_emplacer via the second (and not the first) *)
Theorem c18_witnesses_in_classes :
  let u8i := {| isize := 1; ialign := 1; ibe := false |} in
  let u8 := TInt u8i in
  let te := TEnum false u8i 1 (VCons (FCons (TVec u8 u8i) FNil) (VCons FNil VNil)) in
  let ie := IVar 0 [IVecArr [IInt 1; IInt 2; IInt 3; IInt 4; IInt 5; IInt 6; IInt 7; IInt 8]] in
  let ts := TStruct false (FCons u8 (FCons (TVec u8 u8i) FNil)) in
  let isq := ISeq [IInt 7; IVecArr [IInt 1; IInt 2; IInt 3; IInt 4; IInt 5]] in
  let tv := TVec u8 u8i in
  let iv := IVecIter [IInt 9; IInt 8; IInt 7; IInt 6] in
  (in_known_class te ie = true /\ has_init_type te && uses_literal ie = true /\ uses_iter ie = false) /\
  (in_known_class ts isq = true /\ has_init_type ts && uses_literal isq = true /\ uses_iter isq = false) /\
  (in_known_class tv iv = true /\ has_init_type tv && uses_literal iv = false /\ uses_iter iv = true).
Proof. vm_compute. repeat split; reflexivity. Qed.

(* non-vacuity: FlatVec<u8,u8> holding [1,2] in 4 bytes, flat_vec![5 items]: every premise holds,
   the pair is outside the classes, the assignment fails and the target is unchanged.  A vector of
   sized struct items written with struct literals is outside the classes as well (the type has no
   generated Init), and so is Default on an unsized struct (no literal) — which succeeds. *)
Example c18_classes_example :
  let u8i := {| isize := 1; ialign := 1; ibe := false |} in
  let u8 := TInt u8i in
  let t := TVec u8 u8i in
  let i := IVecArr [IInt 1; IInt 2; IInt 3; IInt 4; IInt 5] in
  let cur := [2; 1; 2; 77] in
  let tp := TVec (TStruct true (FCons u8 (FCons u8 FNil))) u8i in
  let ip := IVecArr [ISeq [IInt 1; IInt 2]; ISeq [IInt 3; IInt 4]] in
  let ts := TStruct false (FCons u8 (FCons (TVec u8 u8i) FNil)) in
  (wf t = true /\ narrow_ty t = true /\ init_ok t i = true /\ utf8_init i = true /\
   in_known_class t i = false /\ validate t 0 cur = Ok tt /\
   assign_in_place None t i 0 cur = (cur, Err InsufficientSize 0)) /\
  (wf tp = true /\ narrow_ty tp = true /\ init_ok tp ip = true /\ in_known_class tp ip = false /\
   validate tp 0 [1; 9; 9; 0] = Ok tt /\
   assign_in_place None tp ip 0 [1; 9; 9; 0] = ([1; 9; 9; 0], Err InsufficientSize 0)) /\
  (wf ts = true /\ init_ok ts IDefault = true /\ in_known_class ts IDefault = false /\
   validate ts 0 [1; 1; 2; 0] = Ok tt /\
   assign_in_place None ts IDefault 0 [1; 1; 2; 0] = ([0; 0; 2; 0], Ok tt)).
Proof. vm_compute. repeat split; reflexivity. Qed.

Print Assumptions c18_classes_def.
Print Assumptions c18_failed_assign_unchanged_outside_known_classes.
Print Assumptions c18_failed_emplace_unchanged_outside_known_classes.
Print Assumptions c18_failed_assign_outside_classes_kind.
Print Assumptions c18_failed_assign_kind.
Print Assumptions c18_witnesses_in_classes.
