(* C14 (footprint of a successful emplacement) — a successful emplacer writes nothing at or behind the
   reference extent of the content it was asked to store: in a buffer larger than the value, every
   byte from index extent(content) on is what it was.  (A *failing* emplacer may have written behind
   the value it was building — see Props/C14_emplace.v — but never outside the buffer, and a refusal
   by the entry check writes nothing at all.)
   Pinned statements only; proofs in Proofs/EmplaceFrameFacts.v.
   Assumed throughout: wf, narrow_ty (no length / offset / tag type wider than 8 bytes), the expression is
   well typed (init_ok) with UTF-8 string literals (utf8_init). *)
From Coq Require Import NArith List Bool.
From Flatty.Model Require Import Base Ty Layout Validate View Emplace.
From Flatty.Proofs Require Import EmplaceSpec EmplaceUnsizedFacts EmplaceFrameFacts.
Import ListNotations.
Open Scope N_scope.

(* Emplacer::emplace (new_in_place, default_in_place) succeeded: every byte at index >= extent t i
   (the number of bytes the specified content needs) is unchanged — in particular nothing behind the
   value in a larger buffer *)
Theorem c14_emplace_success_frame : forall t i, wf t = true -> narrow_ty t = true ->
  init_ok t i = true -> utf8_init i = true ->
  forall pv a buf buf', emplace pv t i a buf = (buf', Ok tt) ->
    drop (extent t i) buf' = drop (extent t i) buf.
Proof. exact emplace_success_frame. Qed.

(* the same for a successful assign_in_place on a valid target: nothing at or behind the extent of
   the NEW content changes (whatever the old value's size was) *)
Theorem c14_assign_success_frame : forall t i, wf t = true -> narrow_ty t = true ->
  init_ok t i = true -> utf8_init i = true ->
  forall pv a bs bs', validate t a bs = Ok tt -> assign_in_place pv t i a bs = (bs', Ok tt) ->
    drop (extent t i) bs' = drop (extent t i) bs.
Proof. exact assign_success_frame. Qed.

(* a refusal by the entry check (alignment, minimum size) returns the buffer byte for byte, for every
   type and every expression *)
Theorem c14_emplace_refused_by_check_unchanged : forall pv t i a buf k p,
  check_align_min t a buf = Err k p -> emplace pv t i a buf = (buf, Err k p).
Proof. exact emplace_refused_by_check_unchanged. Qed.

(* non-vacuity: struct { a: u8, f: FlexVec<FlatVec<u16, u8>, u16> } initialised with
   a = 7, f = [ [1,2,3], FromIterator [9], Empty ] in a 40-byte buffer full of garbage (100..139):
   the content needs 22 bytes; the emplacement succeeds, the first 22 bytes are rewritten (not all of
   them: padding keeps its garbage), the 18 bytes behind them are untouched *)
Example c14_frame_example :
  let u8i := {| isize := 1; ialign := 1; ibe := false |} in
  let u16i := {| isize := 2; ialign := 2; ibe := false |} in
  let t := TStruct false (FCons (TInt u8i) (FCons (TFlex (TVec (TInt u16i) u8i) u16i) FNil)) in
  let i := ISeq [IInt 7; IFlex [IVecArr [IInt 1; IInt 2; IInt 3]; IVecIter [IInt 9]; IEmpty]] in
  let buf := [100;101;102;103;104;105;106;107;108;109; 110;111;112;113;114;115;116;117;118;119;
              120;121;122;123;124;125;126;127;128;129; 130;131;132;133;134;135;136;137;138;139] in
  let buf' := [7;101; 10;0; 3;105; 1;0; 2;0; 3;0; 6;0; 1;115; 9;0; 255;255; 0;121;
               122;123;124;125;126;127;128;129; 130;131;132;133;134;135;136;137;138;139] in
  wf t = true /\ narrow_ty t = true /\ init_ok t i = true /\ utf8_init i = true /\
  extent t i = 22 /\
  emplace None t i 0 buf = (buf', Ok tt) /\
  drop 22 buf' = drop 22 buf /\
  take 22 buf' <> take 22 buf.
Proof. vm_compute. repeat split; try reflexivity. intros H. discriminate H. Qed.

Print Assumptions c14_emplace_success_frame.
Print Assumptions c14_assign_success_frame.
Print Assumptions c14_emplace_refused_by_check_unchanged.
