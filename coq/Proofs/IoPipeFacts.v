(* IoPipeFacts.v — the framed IO theorems for a real message type without any premise on its
   emplacer (send side), and sender and receiver connected: what a successful send puts into the
   sink is a canonical message of the type, and the receiver fed the sink's bytes under any
   chunking delivers exactly the sent values, in order (C07 end to end). *)
From Coq Require Import List NArith Bool Lia ZArith ZifyN ZifyBool ZifyNat.
From Flatty.Model Require Import Base Ty Layout Validate View Emplace Io.
From Flatty.Proofs Require Import ArithFacts LayoutFacts BytesFacts ValidateFacts FramingFacts
  ViewFacts AddrFacts EmplaceSpec IoRecvFacts IoSendFacts IoInstFacts EmplaceUnsizedFacts EmplaceBytesFacts.
Open Scope N_scope.

(* ------------------------------------------------------------------ 1. the emplacement premise *)

(* emplace_spec (Proofs/IoInstFacts.v) restricted to the expressions the emplacement theorem covers:
   every string literal is UTF-8 *)
Definition emplace_spec_u (t : ty) : Prop :=
  forall i a buf, init_ok t i = true -> utf8_init i = true -> representable t i = true ->
    aligned a (align t) = true -> extent t i <= blen buf ->
    exists buf' n, emplace None t i a buf = (buf', Ok tt) /\ blen buf' = blen buf /\
                   size_m t buf' = Ok n /\ 0 < n /\ n <= blen buf.

Definition init_fits_u (t : ty) (CAP : N) (i : init) : Prop :=
  init_fits t CAP i /\ utf8_init i = true.

Lemma aligned_zero m : aligned 0 m = true.
Proof. unfold aligned. destruct m; reflexivity. Qed.

(* what a successful emplacement at an aligned address leaves *)
Lemma emplace_fit t : wf t = true -> narrow_ty t = true ->
  forall pv i a buf, init_ok t i = true -> utf8_init i = true -> representable t i = true ->
    aligned a (align t) = true -> extent t i <= blen buf ->
    exists buf', emplace pv t i a buf = (buf', Ok tt) /\ blen buf' = blen buf /\
      validate t a buf' = Ok tt /\
      (exists v, view t buf' = Ok v /\ spec_value t i = Some (strip v)) /\
      size_m t buf' = Ok (extent t i).
Proof.
  intros Hw Hn pv i a buf Hi Hu Hr Ha He.
  assert (Hok : snd (emplace pv t i a buf) = Ok tt) by (apply (emplace_ok_iff t i Hw Hn Hi Hu pv a buf); auto).
  destruct (emplace pv t i a buf) as [buf' r] eqn:E. cbn [snd] in Hok. subst r.
  destruct (emplace_reads_back t i Hw Hn Hi Hu pv a buf buf' E) as (H1 & H2 & H3 & H4).
  exists buf'. auto.
Qed.

Theorem flat_emplace_spec_u t : wf t = true -> narrow_ty t = true -> 0 < min_size t -> emplace_spec_u t.
Proof.
  intros Hw Hn Hm i a buf Hi Hu Hr Ha He.
  destruct (emplace_fit t Hw Hn None i a buf Hi Hu Hr Ha He) as (buf' & E & Hb & Hv & _ & Hs).
  destruct (flat_sized t Hw Hm a buf' Hv) as (n & H1 & H2 & H3).
  exists buf', n. rewrite Hb in H3. auto.
Qed.

Theorem flat_emplace_good_u t CAP i : wf t = true -> narrow_ty t = true -> 0 < min_size t ->
  init_fits_u t CAP i -> emplace_good (size_m t) init (flat_emplace t) CAP i.
Proof.
  intros Hw Hn Hm ((Hi & Hr & He) & Hu) buf Hb. unfold flat_emplace.
  destruct (flat_emplace_spec_u t Hw Hn Hm i 0 buf Hi Hu Hr (aligned_zero _)) as (buf' & n & E & Hb' & Hs & Hn0 & Hnb).
  - rewrite Hb. exact He.
  - exists buf', n. rewrite Hb in *. auto.
Qed.

Lemma flat_emplace_good_all_u t CAP is : wf t = true -> narrow_ty t = true -> 0 < min_size t ->
  Forall (init_fits_u t CAP) is -> Forall (emplace_good (size_m t) init (flat_emplace t) CAP) is.
Proof.
  intros Hw Hn Hm H. eapply Forall_impl; [|exact H]. intros i Hi. apply flat_emplace_good_u; assumption.
Qed.

(* ------------------------------------------------------------------ 2. the send side, no premise *)

(* C07 send side: accept-only pipe, every chunking: the sink receives the concatenation *)
Theorem flat_send_many_stream_u : forall t CAP limit is sd k outs k',
  wf t = true -> narrow_ty t = true -> 0 < min_size t ->
  sd_ready CAP sd -> Forall (init_fits_u t CAP) is -> poisoned sd = false ->
  Forall accepts (wscript k) ->
  wcalls k + blen (concat (msgs (size_m t) init (flat_emplace t) is (data (sbuf sd)))) <= limit ->
  send_many (size_m t) init (flat_emplace t) limit is sd k = (outs, k') ->
  outs = map (fun _ => SOk) is
  /\ sunk k' = sunk k ++ concat (msgs (size_m t) init (flat_emplace t) is (data (sbuf sd)))
  /\ Forall accepts (wscript k').
Proof.
  intros t CAP limit is sd k outs k' Hw Hn Hm Hr Hall.
  exact (send_many_stream _ _ _ CAP limit is sd k outs k' Hr (flat_emplace_good_all_u t CAP is Hw Hn Hm Hall)).
Qed.

(* C09 send side: any blocking script: whole messages, then at most one proper prefix *)
Theorem flat_send_many_sink_framed_u : forall t CAP limit is sd k outs k',
  wf t = true -> narrow_ty t = true -> 0 < min_size t ->
  sd_ready CAP sd -> Forall (init_fits_u t CAP) is -> poisoned sd = false ->
  ~ In WP (wscript k) ->
  send_many (size_m t) init (flat_emplace t) limit is sd k = (outs, k') ->
  exists gain, sunk k' = sunk k ++ gain /\
    framed (msgs (size_m t) init (flat_emplace t) is (data (sbuf sd))) outs gain.
Proof.
  intros t CAP limit is sd k outs k' Hw Hn Hm Hr Hall.
  exact (send_many_sink_framed _ _ _ CAP limit is sd k outs k' Hr (flat_emplace_good_all_u t CAP is Hw Hn Hm Hall)).
Qed.

(* C08 send side: a completed async send has put exactly the message into the sink, flush last *)
Theorem flat_asend_one_ok_u : forall t CAP fuel limit polls i sd k sd' k' polls' evs',
  wf t = true -> narrow_ty t = true -> 0 < min_size t ->
  sd_ready CAP sd -> init_fits_u t CAP i ->
  asend_one (size_m t) init (flat_emplace t) fuel limit polls i sd k = (sd', k', polls', evs', SOk) ->
  sunk k' = sunk k ++ msg_bytes (size_m t) init (flat_emplace t) i (data (sbuf sd))
  /\ (exists fl wr, evs' = EvFO :: fl ++ wr
        /\ forallb is_fp fl = true /\ forallb is_wev wr = true
        /\ ev_bytes wr = blen (msg_bytes (size_m t) init (flat_emplace t) i (data (sbuf sd))))
  /\ sd_ready CAP sd' /\ poisoned sd' = poisoned sd.
Proof.
  intros t CAP fuel limit polls i sd k sd' k' polls' evs' Hw Hn Hm Hr Hi.
  exact (asend_one_ok _ _ _ CAP fuel limit polls i sd k sd' k' polls' evs' Hr (flat_emplace_good_u t CAP i Hw Hn Hm Hi)).
Qed.

(* ------------------------------------------------------------------ 3. what is sent is a message *)

(* a message of type t that carries the content the expression i specifies *)
Definition carries (t : ty) (i : init) (m : bytes) : Prop :=
  flat_msg t m /\ blen m = extent t i /\ exists v, view t m = Ok v /\ spec_value t i = Some (strip v).

Section Sent.
  Variable t : ty.
  Hypothesis Hw : wf t = true.
  Hypothesis Hn : narrow_ty t = true.
  Local Notation msg_bytes' := (msg_bytes (size_m t) init (flat_emplace t)).
  Local Notation msg_buf' := (msg_buf init (flat_emplace t)).
  Local Notation msgs' := (msgs (size_m t) init (flat_emplace t)).

  (* the bytes a send of i puts into the sink (the first size() bytes of the emplaced buffer) are a
     canonical message, extent t i long, that reads back the specified content; the buffer stays a
     byte string of the same length *)
  Theorem sent_msg CAP i buf : init_fits_u t CAP i -> blen buf = CAP -> bytes_ok buf = true ->
    blen (msg_buf' i buf) = CAP /\ bytes_ok (msg_buf' i buf) = true /\ carries t i (msg_bytes' i buf).
  Proof.
    intros ((Hi & Hr & He) & Hu) Hb Hbo. unfold msg_bytes, msg_buf, flat_emplace.
    destruct (emplace_fit t Hw Hn None i 0 buf Hi Hu Hr (aligned_zero _) ltac:(lia))
      as (buf' & E & Hb' & Hv & (v & Hview & Hspec) & Hs).
    pose proof (emplace_bytes_ok t None i 0 buf I Hu Hbo) as Hbo'. rewrite E in *. cbn [fst] in *.
    rewrite Hs. split; [lia|]. split; [exact Hbo'|].
    destruct (size_sufficient t 0 buf' (extent t i) (extent t i) Hw Hv Hs (N.le_refl _))
      as (_ & _ & v1 & v2 & Hv1 & Hv2 & Hst).
    split; [|split].
    - exact (flat_msg_of_valid t 0 buf' (extent t i) Hw Hbo' (aligned_zero _) Hv Hs).
    - apply blen_take_le. lia.
    - exists v2. split; [exact Hv2|]. rewrite Hst. rewrite Hview in Hv1. injection Hv1 as <-. exact Hspec.
  Qed.

  Theorem sent_msgs CAP : forall is buf, Forall (init_fits_u t CAP) is -> blen buf = CAP -> bytes_ok buf = true ->
    Forall2 (fun m i => carries t i m) (msgs' is buf) is.
  Proof.
    induction is as [|i r IH]; intros buf Hall Hb Hbo; [constructor|].
    inversion Hall as [|x l Hi Hr]; subst x l. cbn [msgs].
    destruct (sent_msg CAP i buf Hi Hb Hbo) as (H1 & H2 & H3).
    constructor; [exact H3|]. apply IH; assumption.
  Qed.

  Lemma carried_len CAP : forall ms is, Forall2 (fun m i => carries t i m) ms is ->
    Forall (init_fits_u t CAP) is ->
    length ms = length is /\ blen (concat ms) <= N.of_nat (length is) * CAP /\
    Forall (flat_msg t) ms /\ (forall m, In m ms -> blen m <= CAP).
  Proof.
    induction 1 as [|m i ms is (Hm & Hl & _) Hr IH]; intros Hall.
    - split; [reflexivity|]. split; [cbn [concat length]; rewrite blen_nil; lia|]. split; [constructor|]. intros m [].
    - inversion Hall as [|x l ((_ & _ & He) & _) Hall']; subst x l.
      destruct (IH Hall') as (I1 & I2 & I3 & I4). cbn [length concat]. rewrite blen_app.
      split; [lia|]. split; [lia|]. split; [constructor; assumption|].
      intros m' [<-|Hin]; [lia|apply I4; exact Hin].
  Qed.

  (* a window whose front is the message reads the same content *)
  Lemma carried_view i m occ : carries t i m -> take (blen m) occ = m ->
    exists v, view t occ = Ok v /\ spec_value t i = Some (strip v).
  Proof.
    intros ((_ & Hv & Hs) & _ & v & Hview & Hspec) Htk.
    assert (Hle : blen m <= blen occ).
    { destruct (N.le_gt_cases (blen m) (blen occ)) as [H|H]; [exact H|].
      rewrite take_all in Htk by lia. subst occ. lia. }
    destruct (valid_local t 0 m occ (blen m) Hw Hv Hs Hle) as (_ & _ & v1 & v2 & Hv1 & Hv2 & Hst).
    { rewrite Htk. symmetry. apply take_all. lia. }
    exists v2. split; [exact Hv2|]. rewrite Hst. rewrite Hview in Hv1. injection Hv1 as <-. exact Hspec.
  Qed.

  Lemma carried_window i m occ : carries t i m -> take (blen m) occ = m ->
    exists v, validate t 0 (take (extent t i) occ) = Ok tt /\ view t occ = Ok v /\ spec_value t i = Some (strip v).
  Proof.
    intros Hc Htk. destruct (carried_view i m occ Hc Htk) as (v & Hv & Hs).
    exists v. split; [|auto]. destruct Hc as ((_ & Hvm & _) & Hl & _). rewrite <- Hl, Htk. exact Hvm.
  Qed.

  Lemma Forall2_chain {A B C} (P : A -> B -> Prop) (Q : B -> C -> Prop) (R : A -> C -> Prop) :
    (forall a b c, P a b -> Q b c -> R a c) ->
    forall xs ys, Forall2 P xs ys -> forall zs, Forall2 Q ys zs -> Forall2 R xs zs.
  Proof.
    intros H xs ys HP. induction HP as [|a b xs ys Hab _ IH]; intros zs HQ; inversion HQ; subst; constructor; eauto.
  Qed.

  Hypothesis Hm : 0 < min_size t.

  (* ---------------- C07 end to end ---------------- *)

  (* A sender with a CAP-byte buffer of bytes sends the values specified by the expressions is (each
     well typed, UTF-8 literals, representable, fitting CAP) through an accept-only pipe under ANY
     write chunking; a receiver with a buffer of capacity c >= CAP reads the sink's bytes under ANY
     read chunking.  Then every send returns SOk and (length is + extra) recv() calls yield exactly
     one guard per expression, in order, whose window reads (view) the specified content, followed
     by Closed: the sent sequence is delivered. *)
  Theorem flat_pipe_delivers : forall CAP wlimit is sd k outs k' (extra : nat) rlimit c fill sc,
    sd_ready CAP sd -> bytes_ok (data (sbuf sd)) = true -> poisoned sd = false -> sunk k = [] ->
    Forall (init_fits_u t CAP) is ->
    Forall accepts (wscript k) -> wcalls k + N.of_nat (length is) * CAP <= wlimit ->
    send_many (size_m t) init (flat_emplace t) wlimit is sd k = (outs, k') ->
    CAP <= c -> (is <> [] \/ 0 < c) -> Forall okd sc ->
    N.of_nat (length is) * CAP + N.of_nat (length is + extra) <= rlimit ->
    outs = map (fun _ => SOk) is /\
    exists occs,
      fst (recv_many (validate t) (size_m t) (length is + extra) rlimit (new_buffer c fill)
             {| stream := sunk k'; rscript := sc; rcalls := 0 |})
        = map RMsg occs ++ repeat RClosed extra /\
      Forall2 (fun occ i => exists v, validate t 0 (take (extent t i) occ) = Ok tt /\
                                      view t occ = Ok v /\ spec_value t i = Some (strip v)) occs is.
  Proof.
    intros CAP wlimit is sd k outs k' extra rlimit c fill sc Hr Hbo Hpo Hsunk Hall Hacc Hwl Hsend Hc Hne Hsc Hrl.
    pose proof Hr as (_ & _ & Hcap).
    pose proof (sent_msgs CAP is (data (sbuf sd)) Hall Hcap Hbo) as Hcar.
    destruct (carried_len CAP _ _ Hcar Hall) as (Hlen & Hsum & Hmsgs & Hmax).
    set (ms := msgs' is (data (sbuf sd))) in *.
    destruct (flat_send_many_stream_u t CAP wlimit is sd k outs k' Hw Hn Hm Hr Hall Hpo Hacc ltac:(fold ms; lia) Hsend)
      as (Hout & Hsk & _).
    fold ms in Hsk. rewrite Hsunk in Hsk. cbn [app] in Hsk.
    split; [exact Hout|]. rewrite Hsk, <- Hlen.
    destruct (flat_recv_sequence t Hw Hn Hm ms extra rlimit c fill sc Hmsgs) as (occs & Hrecv & Hocc); auto.
    - intros m Hin. specialize (Hmax m Hin). lia.
    - destruct Hne as [H|H]; [left|right; exact H]. intros E. apply H.
      destruct is; [reflexivity|]. rewrite E in Hlen. discriminate.
    - lia.
    - exists occs. split; [exact Hrecv|].
      exact (Forall2_chain _ _ _ (fun occ m i H1 H2 => carried_window i m occ H2 H1) occs ms Hocc is Hcar).
  Qed.
End Sent.
