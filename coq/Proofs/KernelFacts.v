(* KernelFacts.v — the arithmetic of the model IS the arithmetic of the source.
   Generated/Kernel.v is written by tools/translate.py from the current source of /repo on every run
   of ./check (the rounding helpers, the layout constants and size() / ptr_from_bytes / ptr_to_bytes
   formulas of FlatVec, FlatString and FlexVec, the field-list walks of utils/iter.rs and the
   constants the #[flat] macro emits).  Every lemma below states that a definition of Model/ equals
   the translated source formula, instantiated with the quantities of a type descriptor.  The proofs
   are conversion plus case analysis on purpose: a change of a formula in /repo changes the generated
   definition and the lemma stops checking; ./check then reports the obligation and searches for an
   input on which the two formulas differ. *)
From Coq Require Import List NArith Bool.
From Flatty.Model Require Import Base Ty Layout Validate View.
From Flatty.Generated Require Import Kernel.
Open Scope N_scope.

(* ---------- base/src/utils/mod.rs ---------- *)
Lemma k_max a b : umax a b = g_max a b.            Proof. reflexivity. Qed.
Lemma k_min a b : umin a b = g_min a b.            Proof. reflexivity. Qed.
Lemma k_ceil_mul x m : ceil_mul x m = g_ceil_mul x m.    Proof. reflexivity. Qed.
Lemma k_floor_mul x m : floor_mul x m = g_floor_mul x m. Proof. reflexivity. Qed.

(* ---------- containers/src/vec.rs ---------- *)
Section Vec.
  Variables (t : ty) (l : intty).
  Let ls := isize l.  Let la := ialign l.  Let ts := ssize t.  Let ta := align t.

  Lemma k_vec_data_offset : vec_data_offset t l = g_vec_DATA_OFFSET ls la ts ta.   Proof. reflexivity. Qed.
  Lemma k_vec_align : align (TVec t l) = g_vec_ALIGN ls la ts ta.                  Proof. reflexivity. Qed.
  Lemma k_vec_min_size : min_size (TVec t l) = g_vec_MIN_SIZE ls la ts ta.         Proof. reflexivity. Qed.
  (* FlatBase::size *)
  Lemma k_vec_size bs : size_m (TVec t l) bs = do len <- read_len l bs; Ok (g_vec_size ls la ts ta len).
  Proof. reflexivity. Qed.
  (* ptr_from_bytes: the number of element slots the reference covers *)
  Lemma k_vec_slots n : vec_slots t l n =
    if n <? g_vec_DATA_OFFSET ls la ts ta then Crash PanicArith else Ok (g_vec_meta ls la ts ta n).
  Proof.
    unfold vec_slots, g_vec_meta. fold ts. change (vec_data_offset t l) with (g_vec_DATA_OFFSET ls la ts ta).
    destruct (n <? g_vec_DATA_OFFSET ls la ts ta); [reflexivity|]. destruct (ts =? 0); reflexivity.
  Qed.
  (* ptr_to_bytes: the length of as_bytes() *)
  Lemma k_vec_bytes_len n : bytes_len (TVec t l) n = do slots <- vec_slots t l n; Ok (g_vec_bytes_len ls la ts ta slots).
  Proof. reflexivity. Qed.
End Vec.

(* ---------- containers/src/string.rs ---------- *)
Section Str.
  Variable l : intty.
  Let ls := isize l.  Let la := ialign l.

  Lemma k_str_align : align (TStr l) = g_str_ALIGN ls la.          Proof. reflexivity. Qed.
  Lemma k_str_min_size : min_size (TStr l) = g_str_MIN_SIZE ls la. Proof. reflexivity. Qed.
  Lemma k_str_size bs : size_m (TStr l) bs = do len <- read_len l bs; Ok (g_str_size ls la len).
  Proof. reflexivity. Qed.
  Lemma k_str_slots n : str_slots l n =
    if n <? g_str_DATA_OFFSET ls la then Crash PanicArith else Ok (g_str_meta ls la n).
  Proof. reflexivity. Qed.
  Lemma k_str_bytes_len n : bytes_len (TStr l) n = do slots <- str_slots l n; Ok (g_str_bytes_len ls la slots).
  Proof. reflexivity. Qed.
End Str.

(* ---------- containers/src/flex.rs ---------- *)
Section Flex.
  Variables (t : ty) (l : intty).
  Let ls := isize l.  Let la := ialign l.  Let ts := ssize t.  Let ta := align t.

  Lemma k_flex_offset_size : flex_offset_size t l = g_flex_OFFSET_SIZE ls la ts ta. Proof. reflexivity. Qed.
  Lemma k_flex_align : align (TFlex t l) = g_flex_ALIGN ls la ts ta.                Proof. reflexivity. Qed.
  Lemma k_flex_min_size : min_size (TFlex t l) = g_flex_MIN_SIZE ls la ts ta.       Proof. reflexivity. Qed.
  (* ptr_from_bytes / as_bytes: the bytes the reference covers *)
  Lemma k_flex_bytes_len n : bytes_len (TFlex t l) n = Ok (g_flex_meta ls la ts ta n).
  Proof. reflexivity. Qed.
End Flex.

(* ---------- base/src/utils/iter.rs: walks over a field list ---------- *)
Lemma k_pos_next pos t next : pos_next pos t next = g_pos_next (ssize t) (align next) pos.
Proof. reflexivity. Qed.
(* fold_size! (LAST_FIELD_OFFSET, sized SIZE) *)
Lemma k_fold_size_cons acc t r :
  fold_size acc (FCons t r) = fold_size (g_fold_size_macro_step (align t) (ssize t) acc) r.
Proof. reflexivity. Qed.
Lemma k_fold_size_last acc t :
  fold_size acc (FCons t FNil) = g_fold_size_macro_last (align t) (ssize t) acc.
Proof. reflexivity. Qed.
(* fold_min_size! / TypeIter::min_size (MIN_SIZE, DATA_MIN_SIZES, the run-time check of the generated Init) *)
Lemma k_fold_min_size_last acc t :
  fold_min_size acc (FCons t FNil) = g_fold_min_size_macro_last (align t) (min_size t) acc.
Proof. reflexivity. Qed.
Lemma k_fold_min_size_cons acc t t' r :
  fold_min_size acc (FCons t (FCons t' r)) =
  fold_min_size (g_fold_min_size_macro_step (align t) (ssize t) acc) (FCons t' r).
Proof. reflexivity. Qed.
Lemma k_type_iter_min_size_last acc t :
  fold_min_size acc (FCons t FNil) = g_single_min_size (align t) (min_size t) acc.
Proof. reflexivity. Qed.
Lemma k_type_iter_min_size_cons acc t t' r :
  fold_min_size acc (FCons t (FCons t' r)) = fold_min_size (g_two_min_size_arg (align t) (ssize t) acc) (FCons t' r).
Proof. reflexivity. Qed.
(* FoldSizeIter (size() of an unsized enum) *)
Lemma k_fold_size_iter_last t data pos acc :
  fold_size_iter (FCons t FNil) data pos acc = do s <- size_m t data; Ok (g_fold_size_last (align t) acc + s).
Proof. reflexivity. Qed.
Lemma k_fold_size_iter_cons t t' r data pos acc :
  fold_size_iter (FCons t (FCons t' r)) data pos acc =
  let np := g_pos_next (ssize t) (align t') pos in
  do sp <- split_at (np - pos) data;
  fold_size_iter (FCons t' r) (snd sp) np (g_fold_size_step (align t) (ssize t) acc).
Proof. reflexivity. Qed.

(* ---------- macros/src/items/base.rs: what the #[flat] macro emits ---------- *)
Lemma k_struct_min_size fs :
  min_size (TStruct false fs) = g_struct_MIN_SIZE (fold_min_size 0 fs) (align_fields fs).
Proof. reflexivity. Qed.
Lemma k_struct_last_field_offset acc t :
  last_field_offset_from acc (FCons t FNil) = g_struct_LAST_FIELD_OFFSET acc (align t).
Proof. reflexivity. Qed.
Lemma k_struct_last_field_offset_cons acc t t' r :
  last_field_offset_from acc (FCons t (FCons t' r)) =
  last_field_offset_from (g_fold_size_macro_step (align t) (ssize t) acc) (FCons t' r).
Proof. reflexivity. Qed.
Lemma k_enum_data_offset tag vs :
  data_offset tag vs = g_enum_DATA_OFFSET (isize tag) (umax (ialign tag) (align_variants vs)).
Proof. reflexivity. Qed.
Lemma k_enum_min_size tag d vs :
  min_size (TEnum false tag d vs) =
  let a := umax (ialign tag) (align_variants vs) in
  g_enum_MIN_SIZE (g_enum_DATA_OFFSET (isize tag) a) (min_data_min_size vs) a.
Proof. reflexivity. Qed.
Lemma k_enum_min_fold fs fs' r :
  min_data_min_size (VCons fs (VCons fs' r)) = g_enum_min_fold (fold_min_size 0 fs) (min_data_min_size (VCons fs' r)).
Proof. reflexivity. Qed.
(* generated size(): ceil_mul(value, ALIGN) *)
Lemma k_struct_size fs bs :
  size_m (TStruct false fs) bs =
  let al := align_fields fs in
  do s <- size_last fs (take (floor_mul (blen bs) al) bs) 0; Ok (g_macro_size s al).
Proof. reflexivity. Qed.
Lemma k_struct_size_value t data pos :
  size_last (FCons t FNil) data pos = do s <- size_m t data; Ok (g_struct_size_value pos s).
Proof. reflexivity. Qed.
Lemma k_enum_size tag d vs bs :
  size_m (TEnum false tag d vs) bs =
  let al := umax (ialign tag) (align_variants vs) in
  let dof := g_enum_DATA_OFFSET (isize tag) al in
  do v <- read_int tag bs;
  do data0 <- drop_unchecked dof bs;
  do s <- size_variant vs (N.to_nat v) (take (floor_mul (blen data0) al) data0);
  Ok (g_macro_size (dof + s) al).
Proof. reflexivity. Qed.
