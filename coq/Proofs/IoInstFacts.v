(* IoInstFacts.v — the framed IO theorems (IoRecvFacts / IoSendFacts, stated for an abstract
   message type) instantiated for every real message type: a descriptor t with wf t, narrow_ty t
   and 0 < min_size t, validate_f := validate t, size_f := size_m t, A := align t.

   Route taken for bytes_ok.  The abstract premise "validation never crashes" is quantified
   over ALL byte strings, and it is false for validate t on lists that contain an element >= 256
   (flat_total_needs_bytes_ok below: to_usize of a stored length >= 2^64).  Such lists are not
   memory.  The abstract theorems are therefore applied to the pair
       vck t a bs := validate t a (clamp bs),   sck t bs := size_m t (clamp bs)
   (clamp replaces every element >= 256 by 0 and is the identity on byte strings), which meets
   all abstract hypotheses on all lists, and a transfer lemma (Section Transfer) shows that two
   validate/size pairs that agree on byte strings drive recv_loop / recv_many / arecv_many
   identically from every state whose window and stream are byte strings: the receiver only ever
   validates its window, and the window is made of old window bytes and stream bytes.  The final
   statements mention validate t and size_m t only; vck/sck are a proof device.  The price is the
   premise [bytes_state b s] (window and stream are byte strings); a fresh buffer has an empty
   window, so for new_buffer c fill nothing is asked of fill. *)
From Coq Require Import List NArith Bool Lia ZArith ZifyN ZifyBool ZifyNat.
From Flatty.Model Require Import Base Ty Layout Validate View Emplace Io.
From Flatty.Proofs Require Import ArithFacts LayoutFacts BytesFacts ValidateFacts FramingFacts
  ViewFacts AddrFacts EmplaceSpec IoRecvFacts IoSendFacts.
Open Scope N_scope.

(* ------------------------------------------------------------------ 1. the three hypotheses *)

(* C01 on byte strings *)
Theorem flat_total t : wf t = true -> narrow_ty t = true ->
  forall a bs, bytes_ok bs = true -> is_crash (validate t a bs) = false.
Proof.
  intros Hw Hn a bs Hb.
  destruct (validate_total t a bs Hw Hn Hb) as [E|(k & p & E)]; rewrite E; reflexivity.
Qed.

(* ... and only there: FlatVec<u8, u8> on a two-element list whose first element is 2^64 *)
Theorem flat_total_needs_bytes_ok :
  let t := TVec (TInt {| isize := 1; ialign := 1; ibe := false |}) {| isize := 1; ialign := 1; ibe := false |} in
  wf t = true /\ narrow_ty t = true /\ min_size t = 1 /\
  validate t 0 [18446744073709551616; 0] = Crash PanicUnwrap.
Proof. vm_compute. repeat split; reflexivity. Qed.

(* C05: a valid value has a size within its bytes; positive when the type has a positive minimum *)
Theorem flat_sized t : wf t = true -> 0 < min_size t ->
  forall a bs, validate t a bs = Ok tt -> exists n, size_m t bs = Ok n /\ 0 < n /\ n <= blen bs.
Proof.
  intros Hw Hm a bs Hv.
  destruct (valid_size_view t a bs Hw Hv) as (k & v & Hk & Hkb & _ & Hmin & _).
  exists k. split; [exact Hk|]. lia.
Qed.

Lemma validate_insuff_aligned t a bs p :
  validate t a bs = Err InsufficientSize p -> aligned a (align t) = true.
Proof.
  unfold validate, check_align_min. destruct (aligned a (align t)); [reflexivity|].
  cbn [negb bind]. discriminate.
Qed.

Lemma validate_ok_aligned t a bs : validate t a bs = Ok tt -> aligned a (align t) = true.
Proof.
  unfold validate, check_align_min. destruct (aligned a (align t)); [reflexivity|].
  cbn [negb bind]. discriminate.
Qed.

(* a window that is too short at some address is too short at address 0 *)
Theorem flat_addr t : wf t = true ->
  forall a bs p, validate t a bs = Err InsufficientSize p ->
  exists p', validate t 0 bs = Err InsufficientSize p'.
Proof.
  intros Hw a bs p H. exists p.
  rewrite <- (validate_at_zero t a bs Hw (validate_insuff_aligned _ _ _ _ H)). exact H.
Qed.

Lemma aligned_of_mod a A : a mod A = 0 -> aligned a A = true.
Proof. unfold aligned. intros ->. reflexivity. Qed.

(* the empty window is too short *)
Lemma flat_nil t : 0 < min_size t -> forall a, a mod align t = 0 ->
  validate t a [] = Err InsufficientSize 0.
Proof.
  intros Hm a Ha. unfold validate, check_align_min. rewrite (aligned_of_mod _ _ Ha). cbn [negb].
  destruct (N.ltb_spec (blen []) (min_size t)) as [_|H]; [reflexivity|].
  rewrite blen_nil in H. lia.
Qed.

(* ------------------------------------------------------------------ 2. canonical messages *)

(* a message of type t as it travels: a byte string that validates and is exactly size() long *)
Definition flat_msg (t : ty) (m : bytes) : Prop :=
  bytes_ok m = true /\ validate t 0 m = Ok tt /\ size_m t m = Ok (blen m).

Theorem flat_canon t m : wf t = true -> narrow_ty t = true -> 0 < min_size t ->
  bytes_ok m = true -> validate t 0 m = Ok tt -> size_m t m = Ok (blen m) ->
  canon (validate t) (size_m t) (align t) m.
Proof.
  intros Hw Hn Hmin Hb Hv Hs.
  destruct (valid_size_view t 0 m Hw Hv) as (k & v & Hk & Hkb & Hkm & Hkmin & _).
  rewrite Hs in Hk. injection Hk as Hk. subst k.
  unfold canon. split; [lia|]. split; [exact Hkm|]. split.
  - intros a j Ha Hj. rewrite (validate_at_zero t a _ Hw (aligned_of_mod _ _ Ha)).
    exact (prefix_strict t 0 m Hw Hn Hb Hv Hs j Hj).
  - intros a s Ha. rewrite (validate_at_zero t a _ Hw (aligned_of_mod _ _ Ha)).
    split; [apply validate_stable_ok; assumption|].
    destruct (extension_same t 0 m Hw Hv s) as [E _]. rewrite E. exact Hs.
Qed.

(* the first size() bytes of any valid byte string are such a message *)
Theorem flat_msg_of_valid t a bs k : wf t = true -> bytes_ok bs = true ->
  aligned a (align t) = true -> validate t a bs = Ok tt -> size_m t bs = Ok k ->
  flat_msg t (take k bs).
Proof.
  intros Hw Hb Ha Hv Hk. rewrite (validate_at_zero t a bs Hw Ha) in Hv.
  destruct (valid_size_view t 0 bs Hw Hv) as (k' & v & Hk' & Hkb & _).
  rewrite Hk in Hk'. injection Hk' as Hk'. subst k'.
  destruct (size_sufficient t 0 bs k k Hw Hv Hk ltac:(lia)) as (Hv' & Hs' & _).
  split; [apply bytes_ok_take; exact Hb|]. split; [exact Hv'|].
  rewrite blen_take_le by exact Hkb. exact Hs'.
Qed.

(* ------------------------------------------------------------------ 3. the proof device *)

Definition clampb (x : N) : N := if x <? 256 then x else 0.
Definition clamp (bs : bytes) : bytes := map clampb bs.

Lemma clamp_ok bs : bytes_ok (clamp bs) = true.
Proof.
  induction bs as [|x r IH]; [reflexivity|]. unfold clamp, bytes_ok in *. cbn [map forallb].
  rewrite IH, andb_true_r. unfold byte_ok, clampb.
  destruct (N.ltb_spec x 256) as [H|H]; [apply N.ltb_lt; exact H|reflexivity].
Qed.

Lemma clamp_id bs : bytes_ok bs = true -> clamp bs = bs.
Proof.
  induction bs as [|x r IH]; [reflexivity|]. unfold bytes_ok. cbn [forallb].
  rewrite andb_true_iff. intros [H1 H2]. unfold clamp. cbn [map]. f_equal.
  - unfold clampb. unfold byte_ok in H1. rewrite H1. reflexivity.
  - apply IH. exact H2.
Qed.

Lemma blen_clamp bs : blen (clamp bs) = blen bs.
Proof. unfold blen, clamp. rewrite map_length. reflexivity. Qed.

Lemma clamp_app a b : clamp (a ++ b) = clamp a ++ clamp b.
Proof. apply map_app. Qed.

Definition vck (t : ty) (a : N) (bs : bytes) : res unit := validate t a (clamp bs).
Definition sck (t : ty) (bs : bytes) : res N := size_m t (clamp bs).

Lemma vck_eq t a bs : bytes_ok bs = true -> vck t a bs = validate t a bs.
Proof. intros H. unfold vck. rewrite (clamp_id bs H). reflexivity. Qed.
Lemma sck_eq t bs : bytes_ok bs = true -> sck t bs = size_m t bs.
Proof. intros H. unfold sck. rewrite (clamp_id bs H). reflexivity. Qed.

Lemma vck_total t : wf t = true -> narrow_ty t = true ->
  forall a bs, is_crash (vck t a bs) = false.
Proof. intros Hw Hn a bs. apply flat_total; auto. apply clamp_ok. Qed.

Lemma vck_sized t : wf t = true -> 0 < min_size t ->
  forall a bs, vck t a bs = Ok tt -> exists n, sck t bs = Ok n /\ 0 < n /\ n <= blen bs.
Proof.
  intros Hw Hm a bs Hv. destruct (flat_sized t Hw Hm a (clamp bs) Hv) as (n & H1 & H2 & H3).
  rewrite blen_clamp in H3. exists n. auto.
Qed.

Lemma vck_addr t : wf t = true ->
  forall a bs p, vck t a bs = Err InsufficientSize p -> exists p', vck t 0 bs = Err InsufficientSize p'.
Proof. intros Hw a bs p H. exact (flat_addr t Hw a (clamp bs) p H). Qed.

Lemma take_clamp_ok k m : bytes_ok m = true -> clamp (take k m) = take k m.
Proof. intros H. apply clamp_id, bytes_ok_take, H. Qed.

Lemma vck_canon t m : wf t = true -> narrow_ty t = true -> 0 < min_size t -> flat_msg t m ->
  canon (vck t) (sck t) (align t) m.
Proof.
  intros Hw Hn Hm (Hb & Hv & Hs).
  destruct (flat_canon t m Hw Hn Hm Hb Hv Hs) as (C1 & C2 & C3 & C4).
  unfold canon. split; [exact C1|]. split; [exact C2|]. split.
  - intros a k Ha Hk. unfold vck. rewrite (take_clamp_ok k m Hb). exact (C3 a k Ha Hk).
  - intros a s Ha. unfold vck, sck. rewrite clamp_app, (clamp_id m Hb). exact (C4 a (clamp s) Ha).
Qed.

(* ------------------------------------------------------------------ 4. transfer *)

(* the receiver state is made of bytes: well-formed buffer, window and stream are byte strings *)
Definition bytes_state (b : buffer) (s : source) : Prop :=
  wfb b /\ bytes_ok (occupied b) = true /\ bytes_ok (stream s) = true.

Lemma bytes_state_new c fill str sc n : bytes_ok str = true ->
  bytes_state (new_buffer c fill) {| stream := str; rscript := sc; rcalls := n |}.
Proof. intros H. split; [apply wfb_new|]. split; [reflexivity|exact H]. Qed.

Lemma bytes_state_script b s sc n : bytes_state b s ->
  bytes_state b {| stream := stream s; rscript := sc; rcalls := n |}.
Proof. intros (H1 & H2 & H3). split; [exact H1|]. split; [exact H2|exact H3]. Qed.

Section Transfer.
  Variables (v v' : N -> bytes -> res unit) (sz sz' : bytes -> res N).
  Hypothesis Hvv : forall a bs, bytes_ok bs = true -> v a bs = v' a bs.
  Hypothesis Hss : forall bs, bytes_ok bs = true -> sz bs = sz' bs.
  Hypothesis Ht' : forall a bs, is_crash (v' a bs) = false.
  Hypothesis Hz' : forall a bs, v' a bs = Ok tt -> exists n, sz' bs = Ok n /\ 0 < n /\ n <= blen bs.

  Lemma recv_loop_agree : forall fuel limit sv b s, bytes_state b s ->
    recv_loop v fuel limit sv b s = recv_loop v' fuel limit sv b s.
  Proof.
    clear Ht' Hz' Hss.
    induction fuel as [|fuel IH]; intros limit sv b s (Hw & Ho & Hs); [reflexivity|].
    rewrite !recv_loop_S. rewrite (Hvv (st b) (occupied b) Ho).
    destruct (if sv then Err InsufficientSize 0 else v' (st b) (occupied b)) as [u|k p|c];
      try reflexivity.
    destruct k; try reflexivity.
    destruct (read_prepare b) as [b1|] eqn:Hp; [|reflexivity].
    destruct (read_prepare_some b b1 Hw Hp) as (Hw1 & _ & Ho1 & _).
    rewrite !(recv_after_eq _ fuel limit b1 s Hw1).
    destruct (limit <? rcalls s + 1); [reflexivity|]. cbv zeta.
    destruct (rdir_of (vacant_len b1) (stream s) (rscript s)) as [k| |e|]; try reflexivity.
    destruct (rd_n_le (vacant_len b1) (stream s) (RD k)) as [Hn1 Hn2].
    set (n := rd_n (vacant_len b1) (stream s) (RD k)) in *.
    destruct (n =? 0); [reflexivity|].
    apply IH.
    destruct (advance_fill (take n (stream s)) b1 Hw1) as (_ & Hw2 & _ & _ & _ & Ho2).
    { rewrite blen_take_le by exact Hn2. exact Hn1. }
    split; [exact Hw2|]. cbn [stream]. split.
    - rewrite Ho2, bytes_ok_app, Ho1, Ho, (bytes_ok_take n (stream s) Hs). reflexivity.
    - apply bytes_ok_drop. exact Hs.
  Qed.

  Lemma bytes_state_after fuel limit sv b s b' s' o : bytes_state b s ->
    recv_loop v' fuel limit sv b s = (b', s', o) -> bytes_state b' s'.
  Proof.
    intros (Hw & Ho & Hs) R.
    split; [exact (proj1 (recv_loop_wfb v' sz' Ht' Hz' _ _ _ _ _ _ _ _ Hw R))|].
    pose proof (recv_loop_conserves v' sz' Ht' Hz' _ _ _ _ _ _ _ _ Hw R) as E.
    assert (H : bytes_ok (occupied b' ++ stream s') = true)
      by (rewrite E, bytes_ok_app, Ho, Hs; reflexivity).
    rewrite bytes_ok_app, andb_true_iff in H. exact H.
  Qed.

  Lemma drop_guard_agree b : bytes_ok (occupied b) = true -> drop_guard sz b = drop_guard sz' b.
  Proof. intros H. unfold drop_guard. rewrite (Hss _ H). reflexivity. Qed.

  Lemma bytes_state_guard fuel limit sv b s b' s' occ : bytes_state b s ->
    recv_loop v' fuel limit sv b s = (b', s', RMsg occ) ->
    exists b2, drop_guard sz' b' = Ok b2 /\ bytes_state b2 s'.
  Proof.
    intros Hst R. pose proof (bytes_state_after _ _ _ _ _ _ _ _ Hst R) as (_ & Ho' & Hs').
    destruct (recv_loop_msg_valid v' sz' Ht' Hz' _ _ _ _ _ _ _ _ (proj1 Hst) R)
      as (_ & _ & n & b2 & _ & _ & _ & Hd & Hw2 & Ho2).
    exists b2. split; [exact Hd|]. split; [exact Hw2|]. split; [|exact Hs'].
    rewrite Ho2. apply bytes_ok_drop. exact Ho'.
  Qed.

  Lemma recv_many_agree : forall n limit b s, bytes_state b s ->
    recv_many v sz n limit b s = recv_many v' sz' n limit b s.
  Proof.
    induction n as [|n IH]; intros limit b s Hst; [reflexivity|].
    rewrite !recv_many_S, (recv_loop_agree _ limit false b s Hst).
    destruct (recv_loop v' (recv_fuel b s) limit false b s) as [[b1 s1] o] eqn:R.
    pose proof (bytes_state_after _ _ _ _ _ _ _ _ Hst R) as H1.
    destruct o as [occ| |k p|e| | |]; try reflexivity;
      try (cbv zeta; rewrite (IH limit b1 s1 H1); reflexivity).
    rewrite (drop_guard_agree b1 (proj1 (proj2 H1))).
    destruct (bytes_state_guard _ _ _ _ _ _ _ _ Hst R) as (b2 & Hd & H2).
    rewrite Hd. cbv zeta. rewrite (IH limit b2 s1 H2). reflexivity.
  Qed.

  Lemma arecv_many_agree : forall fuel n limit polls pending b s, bytes_state b s ->
    arecv_many v sz n fuel limit polls pending b s = arecv_many v' sz' n fuel limit polls pending b s.
  Proof.
    induction fuel as [|fuel IH]; intros n limit polls pending b s Hst; [reflexivity|].
    destruct n as [|n]; [reflexivity|].
    rewrite !arecv_many_SS. destruct (limit <=? polls); [reflexivity|].
    rewrite (recv_loop_agree _ limit pending b s Hst).
    destruct (recv_loop v' (recv_fuel b s) limit pending b s) as [[b1 s1] o] eqn:R.
    pose proof (bytes_state_after _ _ _ _ _ _ _ _ Hst R) as H1.
    destruct o as [occ| |k p|e| | |]; try reflexivity;
      try (cbv zeta; rewrite (IH n limit (polls + 1) false b1 s1 H1); reflexivity).
    - rewrite (drop_guard_agree b1 (proj1 (proj2 H1))).
      destruct (bytes_state_guard _ _ _ _ _ _ _ _ Hst R) as (b2 & Hd & H2).
      rewrite Hd. cbv zeta. rewrite (IH n limit (polls + 1) false b2 s1 H2). reflexivity.
    - apply IH. exact H1.
  Qed.
End Transfer.

(* ------------------------------------------------------------------ 5. the receive side *)

Lemma bytes_ok_concat ms : Forall (fun m => bytes_ok m = true) ms -> bytes_ok (concat ms) = true.
Proof.
  induction ms as [|m r IH]; intros H; [reflexivity|]. inversion H as [|x l H1 H2]; subst.
  cbn [concat]. rewrite bytes_ok_app, H1, (IH H2). reflexivity.
Qed.

Section Flat.
  Variable t : ty.
  Hypothesis Hw : wf t = true.
  Hypothesis Hn : narrow_ty t = true.
  Hypothesis Hm : 0 < min_size t.

  Let Hvv : forall a bs, bytes_ok bs = true -> validate t a bs = vck t a bs :=
    fun a bs H => eq_sym (vck_eq t a bs H).
  Let Hss : forall bs, bytes_ok bs = true -> size_m t bs = sck t bs :=
    fun bs H => eq_sym (sck_eq t bs H).
  Let Ht' := vck_total t Hw Hn.
  Let Hz' := vck_sized t Hw Hm.

  Lemma flat_recv_loop_eq fuel limit sv b s : bytes_state b s ->
    recv_loop (validate t) fuel limit sv b s = recv_loop (vck t) fuel limit sv b s.
  Proof. exact (recv_loop_agree (validate t) (vck t) Hvv fuel limit sv b s). Qed.

  Lemma flat_recv_many_eq n limit b s : bytes_state b s ->
    recv_many (validate t) (size_m t) n limit b s = recv_many (vck t) (sck t) n limit b s.
  Proof. exact (recv_many_agree _ _ _ _ Hvv Hss Ht' Hz' n limit b s). Qed.

  Lemma flat_arecv_many_eq fuel n limit polls pending b s : bytes_state b s ->
    arecv_many (validate t) (size_m t) n fuel limit polls pending b s
    = arecv_many (vck t) (sck t) n fuel limit polls pending b s.
  Proof. exact (arecv_many_agree _ _ _ _ Hvv Hss Ht' Hz' fuel n limit polls pending b s). Qed.

  (* ---------------- C10: the receiver of a real message type fed arbitrary bytes ---------------- *)

  Theorem flat_recv_wfb : forall fuel limit sv b s b' s' o, bytes_state b s ->
    recv_loop (validate t) fuel limit sv b s = (b', s', o) ->
    wfb b' /\ o <> RPanic /\ bytes_state b' s'.
  Proof.
    intros fuel limit sv b s b' s' o Hst R. rewrite (flat_recv_loop_eq _ _ _ _ _ Hst) in R.
    destruct (recv_loop_wfb _ _ Ht' Hz' _ _ _ _ _ _ _ _ (proj1 Hst) R) as [H1 H2].
    split; [exact H1|]. split; [exact H2|].
    exact (bytes_state_after _ _ Ht' Hz' _ _ _ _ _ _ _ _ Hst R).
  Qed.

  Theorem flat_recv_no_hang : forall fuel limit sv b s b' s' o, bytes_state b s ->
    recv_loop (validate t) fuel limit sv b s = (b', s', o) ->
    (length (stream s) < fuel)%nat -> rcalls s + blen (stream s) + 1 <= limit ->
    o <> RHang /\ rcalls s' - rcalls s <= blen (stream s) + 1.
  Proof.
    intros fuel limit sv b s b' s' o Hst R. rewrite (flat_recv_loop_eq _ _ _ _ _ Hst) in R.
    exact (recv_loop_no_hang _ _ Ht' Hz' _ _ _ _ _ _ _ _ (proj1 Hst) R).
  Qed.

  Theorem flat_recv_calls : forall fuel limit sv b s b' s' o, bytes_state b s ->
    recv_loop (validate t) fuel limit sv b s = (b', s', o) ->
    rcalls s <= rcalls s' /\ rcalls s' - rcalls s <= blen (stream s) + 1.
  Proof.
    intros fuel limit sv b s b' s' o Hst R. rewrite (flat_recv_loop_eq _ _ _ _ _ Hst) in R.
    exact (recv_loop_calls _ _ Ht' Hz' _ _ _ _ _ _ _ _ (proj1 Hst) R).
  Qed.

  Theorem flat_recv_received_only : forall fuel limit sv b s b' s' o, bytes_state b s ->
    recv_loop (validate t) fuel limit sv b s = (b', s', o) ->
    exists j, j <= blen (stream s) /\ stream s' = drop j (stream s) /\
              occupied b' = occupied b ++ take j (stream s).
  Proof.
    intros fuel limit sv b s b' s' o Hst R. rewrite (flat_recv_loop_eq _ _ _ _ _ Hst) in R.
    exact (recv_loop_received_only _ _ Ht' Hz' _ _ _ _ _ _ _ _ (proj1 Hst) R).
  Qed.

  Theorem flat_recv_conserves : forall fuel limit sv b s b' s' o, bytes_state b s ->
    recv_loop (validate t) fuel limit sv b s = (b', s', o) ->
    occupied b' ++ stream s' = occupied b ++ stream s.
  Proof.
    intros fuel limit sv b s b' s' o Hst R. rewrite (flat_recv_loop_eq _ _ _ _ _ Hst) in R.
    exact (recv_loop_conserves _ _ Ht' Hz' _ _ _ _ _ _ _ _ (proj1 Hst) R).
  Qed.

  Theorem flat_recv_msg_valid : forall fuel limit sv b s b' s' occ, bytes_state b s ->
    recv_loop (validate t) fuel limit sv b s = (b', s', RMsg occ) ->
    occ = occupied b' /\ bytes_ok occ = true /\ validate t (st b') occ = Ok tt /\
    exists n b'', size_m t occ = Ok n /\ 0 < n /\ n <= blen occ /\ flat_msg t (take n occ) /\
      drop_guard (size_m t) b' = Ok b'' /\ wfb b'' /\ occupied b'' = drop n (occupied b').
  Proof.
    intros fuel limit sv b s b' s' occ Hst R. rewrite (flat_recv_loop_eq _ _ _ _ _ Hst) in R.
    pose proof (bytes_state_after _ _ Ht' Hz' _ _ _ _ _ _ _ _ Hst R) as (_ & Ho' & _).
    destruct (recv_loop_msg_valid _ _ Ht' Hz' _ _ _ _ _ _ _ _ (proj1 Hst) R)
      as (E & Hv & n & b2 & H1 & H2 & H3 & H4 & H5 & H6).
    subst occ. rewrite (vck_eq t _ _ Ho') in Hv. rewrite (sck_eq t _ Ho') in H1.
    split; [reflexivity|]. split; [exact Ho'|]. split; [exact Hv|]. exists n, b2.
    split; [exact H1|]. split; [exact H2|]. split; [exact H3|]. split.
    { apply (flat_msg_of_valid t (st b') (occupied b') n Hw Ho'); [|exact Hv|exact H1].
      apply (validate_ok_aligned t (st b') (occupied b')). exact Hv. }
    split; [|split; [exact H5|exact H6]].
    rewrite (drop_guard_agree _ _ Hss b' Ho'). exact H4.
  Qed.

  Theorem flat_recv_oom : forall fuel limit sv b s b' s', bytes_state b s ->
    ~ In (RE OutOfMemory) (rscript s) ->
    recv_loop (validate t) fuel limit sv b s = (b', s', RRead OutOfMemory) ->
    st b' = 0 /\ en b' = cap b' /\ blen (occupied b') = cap b.
  Proof.
    intros fuel limit sv b s b' s' Hst Hni R. rewrite (flat_recv_loop_eq _ _ _ _ _ Hst) in R.
    exact (recv_loop_oom _ _ Ht' Hz' _ _ _ _ _ _ _ (proj1 Hst) Hni R).
  Qed.

  (* C10 in one statement *)
  Theorem flat_recv_total : forall fuel limit sv b s b' s' o, bytes_state b s ->
    recv_loop (validate t) fuel limit sv b s = (b', s', o) ->
    bytes_state b' s' /\ o <> RPanic /\
    (rcalls s <= rcalls s' /\ rcalls s' - rcalls s <= blen (stream s) + 1) /\
    ((length (stream s) < fuel)%nat -> rcalls s + blen (stream s) + 1 <= limit -> o <> RHang) /\
    (exists j, j <= blen (stream s) /\ stream s' = drop j (stream s) /\
               occupied b' = occupied b ++ take j (stream s)) /\
    (forall occ, o = RMsg occ ->
       occ = occupied b' /\ validate t (st b') occ = Ok tt /\
       exists n b'', size_m t occ = Ok n /\ 0 < n /\ n <= blen occ /\ flat_msg t (take n occ) /\
         drop_guard (size_m t) b' = Ok b'' /\ wfb b'' /\ occupied b'' = drop n (occupied b')) /\
    (o = RRead OutOfMemory -> ~ In (RE OutOfMemory) (rscript s) ->
       st b' = 0 /\ en b' = cap b' /\ blen (occupied b') = cap b).
  Proof.
    intros fuel limit sv b s b' s' o Hst R.
    destruct (flat_recv_wfb _ _ _ _ _ _ _ _ Hst R) as (_ & Hp & Hst').
    split; [exact Hst'|]. split; [exact Hp|].
    split; [exact (flat_recv_calls _ _ _ _ _ _ _ _ Hst R)|].
    split; [intros Hf Hl; exact (proj1 (flat_recv_no_hang _ _ _ _ _ _ _ _ Hst R Hf Hl))|].
    split; [exact (flat_recv_received_only _ _ _ _ _ _ _ _ Hst R)|].
    split.
    - intros occ ->. destruct (flat_recv_msg_valid _ _ _ _ _ _ _ _ Hst R) as (E & _ & Hv & H).
      split; [exact E|]. split; [exact Hv|exact H].
    - intros -> Hni. exact (flat_recv_oom _ _ _ _ _ _ _ Hst Hni R).
  Qed.

  (* ---------------- C09: read faults ---------------- *)

  Theorem flat_recv_fault_keeps_window : forall fuel limit sv b s b' s' o, bytes_state b s ->
    recv_loop (validate t) fuel limit sv b s = (b', s', o) ->
    (exists e, o = RRead e) \/ o = RPending ->
    bytes_state b' s' /\ occupied b' ++ stream s' = occupied b ++ stream s /\
    exists j, j <= blen (stream s) /\ stream s' = drop j (stream s) /\
              occupied b' = occupied b ++ take j (stream s).
  Proof.
    intros fuel limit sv b s b' s' o Hst R _.
    split; [exact (proj2 (proj2 (flat_recv_wfb _ _ _ _ _ _ _ _ Hst R)))|].
    split; [exact (flat_recv_conserves _ _ _ _ _ _ _ _ Hst R)|].
    exact (flat_recv_received_only _ _ _ _ _ _ _ _ Hst R).
  Qed.

  Theorem flat_recv_retry : forall n limit limit' b s, bytes_state b s ->
    rcalls s + blen (stream s) + N.of_nat (n + countRE (rscript s)) <= limit ->
    rcalls s + blen (stream s) + N.of_nat n <= limit' ->
    exists tail,
      nrr (fst (recv_many (validate t) (size_m t) (n + countRE (rscript s)) limit b s))
      = nrr (fst (recv_many (validate t) (size_m t) n limit' b
                    {| stream := stream s; rscript := nre (rscript s); rcalls := rcalls s |})) ++ tail.
  Proof.
    intros n limit limit' b s Hst Hl Hl'.
    rewrite (flat_recv_many_eq _ _ _ _ Hst).
    rewrite (flat_recv_many_eq _ _ _ _ (bytes_state_script b s (nre (rscript s)) (rcalls s) Hst)).
    exact (recv_retry _ _ Ht' Hz' (vck_addr t Hw) n limit limit' b s (proj1 Hst) Hl Hl').
  Qed.

  (* ---------------- C08: Pending polls ---------------- *)

  Theorem flat_arecv_pending_transparent : forall n fuel limit limit' b s, bytes_state b s ->
    (n + countRP (rscript s) < fuel)%nat ->
    N.of_nat (n + countRP (rscript s)) <= limit ->
    rcalls s + blen (stream s) + N.of_nat (n + countRP (rscript s)) <= limit ->
    rcalls s + blen (stream s) + N.of_nat n <= limit' ->
    fst (fst (arecv_many (validate t) (size_m t) n fuel limit 0 false b s))
    = fst (recv_many (validate t) (size_m t) n limit' b
             {| stream := stream s; rscript := nrp (rscript s); rcalls := rcalls s |}).
  Proof.
    intros n fuel limit limit' b s Hst Hf Hp Hl Hl'.
    rewrite (flat_arecv_many_eq _ _ _ _ _ _ _ Hst).
    rewrite (flat_recv_many_eq _ _ _ _ (bytes_state_script b s (nrp (rscript s)) (rcalls s) Hst)).
    exact (arecv_pending_transparent _ _ Ht' Hz' n fuel limit limit' b s (proj1 Hst) Hf Hp Hl Hl').
  Qed.

  Theorem flat_recv_pending_step : forall fuel limit sv b s b' s', bytes_state b s ->
    recv_loop (validate t) fuel limit sv b s = (b', s', RPending) ->
    bytes_state b' s' /\ occupied b' ++ stream s' = occupied b ++ stream s /\
    read_prepare b' = Some b'.
  Proof.
    intros fuel limit sv b s b' s' Hst R.
    split; [exact (proj2 (proj2 (flat_recv_wfb _ _ _ _ _ _ _ _ Hst R)))|].
    rewrite (flat_recv_loop_eq _ _ _ _ _ Hst) in R.
    exact (proj2 (recv_loop_pending_step _ _ Ht' Hz' _ _ _ _ _ _ _ (proj1 Hst) R)).
  Qed.

  (* ---------------- C07: a sequence of messages under every chunking ---------------- *)

  Theorem flat_recv_sequence : forall (ms : list bytes) (extra : nat) (limit c fill : N) (sc : list rdir),
    Forall (flat_msg t) ms -> (forall m, In m ms -> blen m <= c) ->
    (ms <> [] \/ 0 < c) -> Forall okd sc ->
    blen (concat ms) + N.of_nat (length ms + extra) <= limit ->
    exists occs,
      fst (recv_many (validate t) (size_m t) (length ms + extra) limit (new_buffer c fill)
             {| stream := concat ms; rscript := sc; rcalls := 0 |})
        = map RMsg occs ++ repeat RClosed extra /\
      Forall2 (fun occ m => take (blen m) occ = m) occs ms.
  Proof.
    intros ms extra limit c fill sc Hms Hlen Hne Hsc Hl.
    rewrite flat_recv_many_eq.
    2:{ apply bytes_state_new. apply bytes_ok_concat.
        eapply Forall_impl; [|exact Hms]. intros m Hx. exact (proj1 Hx). }
    apply (recv_many_sequence _ _ Ht' Hz' (align t) (align_pos t Hw)); auto.
    - eapply Forall_impl; [|exact Hms]. intros m Hx. apply vck_canon; assumption.
    - destruct Hne as [H|H]; [left; exact H|right]. split; [exact H|].
      intros a Ha. exists 0. exact (flat_nil t Hm a Ha).
  Qed.
End Flat.

(* ------------------------------------------------------------------ 6. the send side *)

(* the emplacer of the IO layer for a descriptor: a fresh value, no previous content *)
Definition flat_emplace (t : ty) (i : init) (a : N) (buf : bytes) : bytes * res unit :=
  emplace None t i a buf.

(* the emplacement fact the send side needs, packaged as a premise: a well-typed, representable
   initialiser emplaced at an aligned address into a buffer that has room for its extent succeeds,
   keeps the buffer length, and leaves a value whose size() is defined, positive and within the
   buffer *)
Definition emplace_spec (t : ty) : Prop :=
  forall i a buf, init_ok t i = true -> representable t i = true ->
    aligned a (align t) = true -> extent t i <= blen buf ->
    exists buf' n, emplace None t i a buf = (buf', Ok tt) /\ blen buf' = blen buf /\
                   size_m t buf' = Ok n /\ 0 < n /\ n <= blen buf.

(* it follows from "emplace succeeds and the result validates" (the form of the emplacement theorem) *)
Lemma emplace_spec_of_valid t : wf t = true -> 0 < min_size t ->
  (forall i a buf, init_ok t i = true -> representable t i = true ->
     aligned a (align t) = true -> extent t i <= blen buf ->
     exists buf', emplace None t i a buf = (buf', Ok tt) /\ blen buf' = blen buf /\
                  validate t a buf' = Ok tt) ->
  emplace_spec t.
Proof.
  intros Hw Hm H i a buf Hi Hr Ha He.
  destruct (H i a buf Hi Hr Ha He) as (buf' & E & Hb & Hv).
  destruct (flat_sized t Hw Hm a buf' Hv) as (n & H1 & H2 & H3).
  exists buf', n. rewrite Hb in H3. auto.
Qed.

Definition init_fits (t : ty) (CAP : N) (i : init) : Prop :=
  init_ok t i = true /\ representable t i = true /\ extent t i <= CAP.

Theorem flat_emplace_good t CAP i : emplace_spec t -> init_fits t CAP i ->
  emplace_good (size_m t) init (flat_emplace t) CAP i.
Proof.
  intros Hsp (Hi & Hr & He) buf Hb. unfold flat_emplace.
  destruct (Hsp i 0 buf Hi Hr) as (buf' & n & E & Hb' & Hs & Hn0 & Hn).
  - unfold aligned. destruct (align t); reflexivity.
  - rewrite Hb. exact He.
  - exists buf', n. rewrite Hb in *. auto.
Qed.

Lemma flat_emplace_good_all t CAP is : emplace_spec t -> Forall (init_fits t CAP) is ->
  Forall (emplace_good (size_m t) init (flat_emplace t) CAP) is.
Proof.
  intros Hsp H. eapply Forall_impl; [|exact H]. intros i Hi. apply flat_emplace_good; assumption.
Qed.

(* C07 send side: accept-only pipe, every chunking: the sink receives the concatenation *)
Theorem flat_send_many_stream : forall t CAP limit is sd k outs k', emplace_spec t ->
  sd_ready CAP sd -> Forall (init_fits t CAP) is -> poisoned sd = false ->
  Forall accepts (wscript k) ->
  wcalls k + blen (concat (msgs (size_m t) init (flat_emplace t) is (data (sbuf sd)))) <= limit ->
  send_many (size_m t) init (flat_emplace t) limit is sd k = (outs, k') ->
  outs = map (fun _ => SOk) is
  /\ sunk k' = sunk k ++ concat (msgs (size_m t) init (flat_emplace t) is (data (sbuf sd)))
  /\ Forall accepts (wscript k').
Proof.
  intros t CAP limit is sd k outs k' Hsp Hr Hall.
  exact (send_many_stream _ _ _ CAP limit is sd k outs k' Hr (flat_emplace_good_all t CAP is Hsp Hall)).
Qed.

(* C09 send side: any blocking script: whole messages, then at most one proper prefix *)
Theorem flat_send_many_sink_framed : forall t CAP limit is sd k outs k', emplace_spec t ->
  sd_ready CAP sd -> Forall (init_fits t CAP) is -> poisoned sd = false ->
  ~ In WP (wscript k) ->
  send_many (size_m t) init (flat_emplace t) limit is sd k = (outs, k') ->
  exists gain, sunk k' = sunk k ++ gain /\
    framed (msgs (size_m t) init (flat_emplace t) is (data (sbuf sd))) outs gain.
Proof.
  intros t CAP limit is sd k outs k' Hsp Hr Hall.
  exact (send_many_sink_framed _ _ _ CAP limit is sd k outs k' Hr (flat_emplace_good_all t CAP is Hsp Hall)).
Qed.

(* C08 send side: a completed async send has put exactly the message into the sink, flush last *)
Theorem flat_asend_one_ok : forall t CAP fuel limit polls i sd k sd' k' polls' evs', emplace_spec t ->
  sd_ready CAP sd -> init_fits t CAP i ->
  asend_one (size_m t) init (flat_emplace t) fuel limit polls i sd k = (sd', k', polls', evs', SOk) ->
  sunk k' = sunk k ++ msg_bytes (size_m t) init (flat_emplace t) i (data (sbuf sd))
  /\ (exists fl wr, evs' = EvFO :: fl ++ wr
        /\ forallb is_fp fl = true /\ forallb is_wev wr = true
        /\ ev_bytes wr = blen (msg_bytes (size_m t) init (flat_emplace t) i (data (sbuf sd))))
  /\ sd_ready CAP sd' /\ poisoned sd' = poisoned sd.
Proof.
  intros t CAP fuel limit polls i sd k sd' k' polls' evs' Hsp Hr Hi.
  exact (asend_one_ok _ _ _ CAP fuel limit polls i sd k sd' k' polls' evs' Hr (flat_emplace_good t CAP i Hsp Hi)).
Qed.
