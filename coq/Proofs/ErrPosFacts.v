(* ErrPosFacts.v — the position carried by a content error (invalid Bool, enum tag out of range,
   ill-formed UTF-8) is the offset of an offending byte in the sense of ErrPosSpec.v (C19). *)
From Coq Require Import List NArith Bool Lia ZArith ZifyN ZifyBool ZifyNat.
From Flatty.Model Require Import Base Ty Layout Utf8 Validate RefLayout.
From Flatty.Proofs Require Import ArithFacts LayoutFacts BytesFacts ValidateFacts FramingFacts ErrPosSpec.
Open Scope N_scope.

(* ---------- small inversions ---------- *)

Lemma bind_err {A B} (r : res A) (f : A -> res B) k p :
  bind r f = Err k p -> r = Err k p \/ exists x, r = Ok x /\ f x = Err k p.
Proof. destruct r as [x|k' p'|c]; cbn [bind]; intros H; [right; eauto|left; injection H as -> ->; reflexivity|discriminate]. Qed.

Lemma shift_err {A} off (r : res A) k p :
  shift off r = Err k p -> exists p', r = Err k p' /\ p = p' + off.
Proof.
  destruct r as [x|k' p'|c]; cbn [shift]; intros H; try discriminate.
  injection H as -> <-. eauto.
Qed.

Lemma content_not_insuff : ~ content_kind InsufficientSize.
Proof. intros [H|H]; discriminate. Qed.
Lemma content_not_align : ~ content_kind BadAlign.
Proof. intros [H|H]; discriminate. Qed.

Ltac nocontent H Hk :=
  injection H as <- _;
  solve [exfalso; apply content_not_insuff; exact Hk | exfalso; apply content_not_align; exact Hk].

Lemma ext_trans a b c : ext a b -> ext b c -> ext a c.
Proof. intros [s ->] [s' ->]. exists (s ++ s'). rewrite app_assoc. reflexivity. Qed.

Lemma ext_take_self n bs : ext (take n bs) bs.
Proof. exists (drop n bs). symmetry. apply take_drop. Qed.

Lemma stored_ext l bs bs' : ext bs bs' -> isize l <= blen bs -> stored l bs' = stored l bs.
Proof. intros He H. unfold stored. rewrite (ext_take bs bs' _ He H). reflexivity. Qed.

Lemma read_int_stored l bs v : read_int l bs = Ok v -> isize l <= blen bs /\ v = stored l bs.
Proof.
  unfold read_int, stored. destruct (N.leb_spec (isize l) (blen bs)) as [Hl|Hl]; [|discriminate].
  intros H. injection H as <-. auto.
Qed.

Lemma to_usize_inv v x : to_usize v = Ok x -> x = v.
Proof. unfold to_usize. destruct (v <? two64); [|discriminate]. intros H. injection H as <-. reflexivity. Qed.

Lemma to_usize_noerr v k p : to_usize v <> Err k p.
Proof. unfold to_usize. destruct (v <? two64); discriminate. Qed.

Lemma read_int_noerr l bs k p : read_int l bs <> Err k p.
Proof. unfold read_int. destruct (isize l <=? blen bs); discriminate. Qed.

Lemma read_len_inv l bs v : read_len l bs = Ok v -> isize l <= blen bs /\ v = stored l bs.
Proof.
  unfold read_len. destruct (read_int l bs) as [x|k p|c] eqn:E; cbn [bind]; try discriminate.
  intros H. apply to_usize_inv in H. apply read_int_stored in E. destruct E as [E1 E2]. split; [exact E1|congruence].
Qed.

Lemma read_len_noerr l bs k p : read_len l bs <> Err k p.
Proof.
  unfold read_len. destruct (read_int l bs) as [x|k' p'|c] eqn:E; cbn [bind]; try discriminate.
  - apply to_usize_noerr.
  - exfalso. eapply read_int_noerr; eauto.
Qed.

(* ---------- UTF-8: the reported index lies inside the string ---------- *)

Lemma utf8_go_bound : forall n bs pos i, (length bs <= n)%nat ->
  utf8_go bs pos = Some i -> pos <= i /\ i < pos + blen bs.
Proof.
  induction n as [|n IH]; intros bs pos i Hn H.
  - destruct bs; [discriminate|cbn in Hn; lia].
  - destruct bs as [|b0 r0]; [discriminate|]. cbn [utf8_go] in H. cbn [length] in Hn.
    assert (Hhere : Some pos = Some i -> pos <= i /\ i < pos + blen (b0 :: r0)).
    { intros E. injection E as <-. rewrite blen_cons. lia. }
    assert (Hrec : forall r m, (length r <= n)%nat -> blen r + m <= blen (b0 :: r0) -> 0 < m ->
               utf8_go r (pos + m) = Some i -> pos <= i /\ i < pos + blen (b0 :: r0)).
    { intros r m Hr Hm Hm0 E. apply IH in E; [lia|exact Hr]. }
    destruct (b0 <=? 127).
    { apply (Hrec r0 1); auto; [lia|rewrite blen_cons; lia|lia]. }
    destruct (in_range 194 223 b0).
    { destruct r0 as [|b1 r1]; [auto|]. destruct (cont b1); [|auto].
      apply (Hrec r1 2); auto; [cbn [length] in Hn; lia|rewrite !blen_cons; lia|lia]. }
    destruct (in_range 224 239 b0).
    { destruct r0 as [|b1 [|b2 r2]]; [auto|auto|]. cbv zeta in H.
      destruct (_ && cont b2); [|auto].
      apply (Hrec r2 3); auto; [cbn [length] in Hn; lia|rewrite !blen_cons; lia|lia]. }
    destruct (in_range 240 244 b0); [|auto].
    destruct r0 as [|b1 [|b2 [|b3 r3]]]; [auto|auto|auto|]. cbv zeta in H.
    destruct (_ && cont b3); [|auto].
    apply (Hrec r3 4); auto; [cbn [length] in Hn; lia|rewrite !blen_cons; lia|lia].
Qed.

Lemma utf8_err_bound bs i : utf8_err bs = Some i -> i < blen bs.
Proof.
  unfold utf8_err. intros H. apply (utf8_go_bound (length bs)) in H; [lia|lia].
Qed.

(* ---------- arrays: an error comes from one element ---------- *)

Lemma arr_loop_err f s bs : forall k i kd p,
  arr_loop f s bs k i = Err kd p ->
  exists j p', i <= j /\ j < i + N.of_nat k /\ j * s + s <= blen bs /\
               f j (take s (drop (j * s) bs)) = Err kd p' /\ p = p' + j * s.
Proof.
  induction k as [|k IH]; intros i kd p H; [discriminate|].
  cbn [arr_loop] in H. unfold drop_unchecked, take_unchecked in H.
  destruct (N.leb_spec (i * s) (blen bs)) as [H1|H1]; [|discriminate]. cbn [bind] in H.
  rewrite blen_drop in H.
  destruct (N.leb_spec s (blen bs - i * s)) as [H2|H2]; [|discriminate]. cbn [bind] in H.
  apply bind_err in H. destruct H as [H|(x & _ & H)].
  - apply shift_err in H. destruct H as (p' & Hf & ->).
    exists i, p'. repeat split; auto; lia.
  - apply IH in H. destruct H as (j & p' & Hj1 & Hj2 & Hj3 & Hf & ->).
    exists j, p'. repeat split; auto; lia.
Qed.

(* ---------- the FlexVec walk: a content error comes from the callback of an item that the
   reference walk over any extension of the data also finds ---------- *)

Lemma ref_items_step l os fuel rem rem' pos raw :
  ext rem rem' -> isize l <= blen rem -> stored l rem = raw -> raw <> 0 -> os <= raw ->
  ref_items l os (S fuel) rem' pos =
  if raw =? int_max l then [(pos + os, drop os rem')]
  else (pos + os, take (raw - os) (drop os rem')) :: ref_items l os fuel (drop raw rem') (pos + raw).
Proof.
  intros He Hs Hr H0 Hos. pose proof (ext_blen _ _ He) as Hb. cbn [ref_items].
  destruct (N.ltb_spec (blen rem') (isize l)); [lia|].
  rewrite (stored_ext l rem rem' He Hs), Hr.
  destruct (N.eqb_spec raw 0); [contradiction|].
  destruct (raw =? int_max l); [reflexivity|].
  destruct (N.ltb_spec raw os); [lia|]. reflexivity.
Qed.

Lemma flex_fold_errpos {A} l os al (item : A -> N -> N -> bytes -> res A) :
  forall fuel acc a rem pos k p,
    flex_fold l os al item fuel acc a rem pos = Err k p -> content_kind k ->
    exists acc' ipos pa payload,
      (item acc' ipos pa payload = Err k p) /\
      (ipos + os + blen payload <= pos + blen rem) /\
      (forall fuel' rem', ext rem rem' -> (fuel <= fuel')%nat ->
        exists payload', ext payload payload' /\
          In (ipos + os, payload') (ref_items l os fuel' rem' pos)).
Proof.
  induction fuel as [|fuel IH]; intros acc a rem pos k p H Hk; [discriminate|].
  cbn [flex_fold] in H.
  destruct (negb (aligned a (ialign l))); [nocontent H Hk|].
  destruct (N.ltb_spec (blen rem) (isize l)) as [Hs|Hs]; [nocontent H Hk|].
  destruct (read_int l rem) as [raw|k' p'|c] eqn:Er; cbn [bind] in H;
    [|exfalso; eapply read_int_noerr; eauto|discriminate].
  apply read_int_stored in Er. destruct Er as [_ Er]. symmetry in Er.
  destruct (to_usize raw) as [next|k' p'|c] eqn:En; cbn [bind] in H;
    [|exfalso; eapply to_usize_noerr; eauto|discriminate].
  apply to_usize_inv in En. subst next.
  destruct (N.eqb_spec raw 0) as [E0|E0]; [discriminate|].
  destruct (to_usize (int_max l)) as [m|k' p'|c] eqn:Em; cbn [bind] in H;
    [|exfalso; eapply to_usize_noerr; eauto|discriminate].
  apply to_usize_inv in Em. subst m.
  destruct (N.ltb_spec raw os) as [Hos|Hos]; [nocontent H Hk|].
  destruct (N.eqb_spec raw (int_max l)) as [El|El]; cbn [negb andb orb] in H.
  - destruct (N.ltb_spec (blen rem) os) as [H2|H2]; [nocontent H Hk|].
    unfold split_at in H. destruct (N.leb_spec os (blen rem)); [|lia]. cbn [bind snd] in H.
    apply bind_err in H. destruct H as [H|(x & _ & H)]; [|discriminate].
    exists acc, pos, (a + os), (drop os rem). split; [exact H|].
    split; [rewrite blen_drop; lia|].
    intros fuel' rem' He Hf. destruct fuel' as [|fuel']; [lia|].
    rewrite (ref_items_step l os fuel' rem rem' pos raw He Hs Er E0 Hos).
    destruct (N.eqb_spec raw (int_max l)); [|contradiction].
    exists (drop os rem'). split; [apply ext_drop; auto|left; reflexivity].
  - destruct (negb (raw mod al =? 0)); [nocontent H Hk|].
    destruct (N.ltb_spec (blen rem) raw) as [H2|H2]; cbn [orb] in H; [nocontent H Hk|].
    destruct (N.ltb_spec (blen rem) os) as [H3|H3]; [nocontent H Hk|].
    unfold split_at in H. destruct (N.leb_spec raw (blen rem)); [|lia]. cbn [bind fst snd] in H.
    rewrite blen_take_le in H by lia. destruct (N.leb_spec os raw); [|lia]. cbn [bind snd] in H.
    apply bind_err in H. destruct H as [H|(acc' & _ & H)].
    + exists acc, pos, (a + os), (drop os (take raw rem)).
      split; [exact H|]. split; [rewrite blen_drop, blen_take_le by lia; lia|].
      intros fuel' rem' He Hf. destruct fuel' as [|fuel']; [lia|].
      rewrite (ref_items_step l os fuel' rem rem' pos raw He Hs Er E0 Hos).
      destruct (N.eqb_spec raw (int_max l)); [contradiction|].
      exists (take (raw - os) (drop os rem')). split; [|left; reflexivity].
      rewrite take_drop_comm. replace (os + (raw - os)) with raw by lia.
      rewrite (ext_take rem rem' raw He H2). apply ext_refl.
    + apply IH in H; [|exact Hk].
      destruct H as (acc2 & ipos & pa & payload & Hi & Hlen & Href).
      exists acc2, ipos, pa, payload. split; [exact Hi|].
      split; [rewrite blen_drop in Hlen; lia|].
      intros fuel' rem' He Hf. destruct fuel' as [|fuel']; [lia|].
      rewrite (ref_items_step l os fuel' rem rem' pos raw He Hs Er E0 Hos).
      destruct (N.eqb_spec raw (int_max l)); [contradiction|].
      destruct (Href fuel' (drop raw rem') (ext_drop rem rem' raw He H2) (le_S_n _ _ Hf))
        as (payload' & Hep & Hin).
      exists payload'. split; [exact Hep|right; exact Hin].
Qed.

(* ---------- bridges between the library's constants and the reference's ---------- *)

Lemma round_up_align t off : wf t = true -> round_up off (c_align t) = ceil_mul off (align t).
Proof.
  intros Hw. rewrite <- (proj1 align_c_align_mut t). apply round_up_ceil, align_pos, Hw.
Qed.

Lemma bad_fields_cons t r off bs p k :
  bad_fields (FCons t r) off bs p k =
  ((round_up off (c_align t) <= p /\
    bad_at t (drop (round_up off (c_align t)) bs) (p - round_up off (c_align t)) k) \/
   bad_fields r (round_up off (c_align t) + c_size t) bs p k).
Proof. reflexivity. Qed.

Lemma check_align_min_err t a bs k p : check_align_min t a bs = Err k p -> ~ content_kind k.
Proof.
  unfold check_align_min. destruct (negb (aligned a (align t))).
  - intros H. injection H as <- _. apply content_not_align.
  - destruct (blen bs <? min_size t); [|discriminate].
    intros H. injection H as <- _. apply content_not_insuff.
Qed.

Lemma vec_slots_inv t l n slots : 0 < align (TVec t l) -> vec_slots t l n = Ok slots ->
  vec_data_offset t l <= n /\ slots * ssize t <= n - vec_data_offset t l.
Proof.
  intros Hal. unfold vec_slots. change (align (TVec t l)) with (umax (ialign l) (align t)) in *.
  destruct (N.ltb_spec n (vec_data_offset t l)) as [Hd|Hd]; [discriminate|].
  pose proof (floor_mul_le (n - vec_data_offset t l) _ Hal) as Hr.
  destruct (N.eqb_spec (ssize t) 0) as [Hz|Hz]; intros H; injection H as <-.
  - split; [exact Hd|lia].
  - split; [exact Hd|].
    pose proof (N.mul_div_le (floor_mul (n - vec_data_offset t l) (umax (ialign l) (align t))) (ssize t) Hz) as Hq.
    set (q := floor_mul (n - vec_data_offset t l) (umax (ialign l) (align t)) / ssize t) in *. nia.
Qed.

Lemma vec_slots_noerr t l n k p : vec_slots t l n <> Err k p.
Proof.
  unfold vec_slots. destruct (n <? vec_data_offset t l); [discriminate|].
  destruct (ssize t =? 0); discriminate.
Qed.

Lemma clamp_cap_inv l slots cap : clamp_cap l slots = Ok cap -> cap <= slots.
Proof.
  unfold clamp_cap. destruct (to_usize (int_max l)) as [m|k p|c]; cbn [bind]; try discriminate.
  intros H. injection H as <-. rewrite umin_spec. lia.
Qed.

Lemma clamp_cap_noerr l slots k p : clamp_cap l slots <> Err k p.
Proof.
  unfold clamp_cap. destruct (to_usize (int_max l)) as [m|k' p'|c] eqn:E; cbn [bind]; try discriminate.
  exfalso. eapply to_usize_noerr; eauto.
Qed.

(* ---------- the main induction ---------- *)

Lemma errpos_mut :
  (forall t, wf t = true -> forall a bs k p, min_size t <= blen bs ->
      validate_u t a bs = Err k p -> content_kind k ->
      p < blen bs /\ forall bs', ext bs bs' -> bad_at t bs' p k) /\
  (forall fs, wfF fs -> forall a data pos k p, end_min fs pos <= pos + blen data ->
      validate_fields fs a data pos = Err k p -> content_kind k ->
      pos <= p /\ p < pos + blen data /\
      forall off bs', pos = ceil_mul off (head_align fs) -> ext data (drop pos bs') ->
                      bad_fields fs off bs' p k) /\
  (forall vs s, wf_variants s vs = true -> forall v a data k p,
      (s = true -> max_fold_size vs <= blen data) ->
      validate_variant vs v s a data = Err k p -> content_kind k ->
      p < blen data /\ forall bs', ext data bs' -> bad_variant vs v bs' p k).
Proof.
  apply ty_mutind.
  - (* TUnit *) intros _ a bs k p _ H. cbn [validate_u] in H. discriminate H.
  - (* TInt *) intros i _ a bs k p _ H. cbn [validate_u] in H. discriminate H.
  - (* TBool *) intros _ a bs k p Hm H Hk. cbn [validate_u] in H.
    destruct bs as [|b r]; [discriminate|].
    destruct (N.leb_spec b 1) as [Hb|Hb]; [discriminate|]. injection H as <- <-.
    split; [rewrite blen_cons; lia|]. intros bs' [s ->]. cbn [bad_at].
    split; [reflexivity|]. split; [reflexivity|]. exists b, (r ++ s). split; [reflexivity|lia].
  - (* TCLike *) intros tag n d Hw a bs k p Hm H Hk. cbn [validate_u] in H.
    cbn [wf] in Hw. rewrite !andb_true_iff in Hw. destruct Hw as [[[[Hi _] _] _] _].
    apply wf_int_P16 in Hi. destruct Hi as [Hi _]. apply P16_pos in Hi.
    destruct (read_int tag bs) as [v|k' p'|c] eqn:Er; cbn [bind] in H;
      [|exfalso; eapply read_int_noerr; eauto|discriminate].
    apply read_int_stored in Er. destruct Er as [Hl ->].
    destruct (N.ltb_spec (stored tag bs) n) as [Hv|Hv]; [discriminate|]. injection H as <- <-.
    split; [lia|]. intros bs' He. cbn [bad_at]. rewrite (stored_ext _ _ _ He Hl). auto.
  - (* TArr *) intros t IH n Hw a bs k p Hm H Hk.
    apply wf_arr_inv in Hw. destruct Hw as [Hwt Hs]. cbn [validate_u] in H.
    apply arr_loop_err in H. destruct H as (j & p' & Hj1 & Hj2 & Hj3 & Hf & ->).
    rewrite N2Nat.id in Hj2. set (s := ssize t) in *.
    set (el := take s (drop (j * s) bs)) in *.
    assert (Hel : blen el = s).
    { unfold el. rewrite blen_take_le; [reflexivity|]. rewrite blen_drop. lia. }
    assert (Hmin : min_size t <= blen el) by (rewrite min_size_sized by auto; fold s; lia).
    destruct (IH Hwt _ _ _ _ Hmin Hf Hk) as [Hp Hbad].
    split; [lia|]. intros bs' He. cbn [bad_at]. rewrite <- (ssize_c_size t Hwt Hs). fold s.
    exists j. split; [lia|]. split; [lia|].
    rewrite (ext_take_drop bs bs' (j * s) s He) by lia. fold el.
    replace (p' + j * s - j * s) with p' by lia. apply Hbad, ext_refl.
  - (* TVec *) intros t IH l Hw a bs k p Hm H Hk.
    pose proof (vec_data_offset_c t l Hw) as Hdc.
    apply wf_vec_inv in Hw. destruct Hw as (Hwt & Hs & Hl). cbn [validate_u] in H.
    assert (Hal : 0 < align (TVec t l)).
    { cbn [align]. apply P16_pos, P16_umax; [apply wf_int_P16 in Hl; tauto | apply align_P16; auto]. }
    set (d := vec_data_offset t l) in *. set (s := ssize t) in *.
    destruct (vec_slots t l (blen bs)) as [slots|k' p'|c] eqn:Esl; cbn [bind] in H;
      [|exfalso; eapply vec_slots_noerr; eauto|discriminate].
    apply vec_slots_inv in Esl; [|exact Hal]. fold d in Esl. fold s in Esl. destruct Esl as [Hd Hsl].
    destruct (read_len l bs) as [len|k' p'|c] eqn:Erl; cbn [bind] in H;
      [|exfalso; eapply read_len_noerr; eauto|discriminate].
    apply read_len_inv in Erl. destruct Erl as [Hll ->].
    destruct (clamp_cap l slots) as [cap|k' p'|c] eqn:Ec; cbn [bind] in H;
      [|exfalso; eapply clamp_cap_noerr; eauto|discriminate].
    apply clamp_cap_inv in Ec.
    destruct (N.ltb_spec cap (stored l bs)) as [Hc|Hc]; [nocontent H Hk|].
    unfold drop_unchecked in H. destruct (N.leb_spec d (blen bs)); [|lia]. cbn [bind] in H.
    apply arr_loop_err in H. destruct H as (j & p' & Hj1 & Hj2 & Hj3 & Hf & ->).
    rewrite N2Nat.id in Hj2. rewrite blen_drop in Hj3.
    apply shift_err in Hf. destruct Hf as (p'' & Hf & ->).
    rewrite drop_drop in Hf.
    set (el := take s (drop (d + j * s) bs)) in *.
    assert (Hel : blen el = s).
    { unfold el. rewrite blen_take_le; [reflexivity|]. rewrite blen_drop. lia. }
    assert (Hmin : min_size t <= blen el) by (rewrite min_size_sized by auto; fold s; lia).
    destruct (IH Hwt _ _ _ _ Hmin Hf Hk) as [Hp Hbad].
    split; [lia|]. intros bs' He. cbn [bad_at]. cbv zeta.
    rewrite <- Hdc. rewrite <- (ssize_c_size t Hwt Hs). fold s.
    exists j. split; [rewrite (stored_ext _ _ _ He Hll); nia|]. split; [lia|].
    rewrite (ext_take_drop bs bs' (d + j * s) s He) by lia. fold el.
    replace (p'' + d + j * s - (d + j * s)) with p'' by lia. apply Hbad, ext_refl.
  - (* TStr *) intros l Hw a bs k p Hm H Hk. cbn [wf] in Hw. cbn [min_size] in Hm. cbn [validate_u] in H.
    assert (Hal : 0 < ialign l) by (apply wf_int_P16 in Hw; apply P16_pos; tauto).
    unfold str_slots in H. destruct (N.ltb_spec (blen bs) (isize l)); [lia|]. cbn [bind] in H.
    destruct (read_len l bs) as [len|k' p'|c] eqn:Erl; cbn [bind] in H;
      [|exfalso; eapply read_len_noerr; eauto|discriminate].
    apply read_len_inv in Erl. destruct Erl as [Hll ->].
    set (room := floor_mul (blen bs - isize l) (ialign l)) in *.
    assert (Hroom : room <= blen bs - isize l) by (apply floor_mul_le; auto).
    destruct (clamp_cap l room) as [cap|k' p'|c] eqn:Ec; cbn [bind] in H;
      [|exfalso; eapply clamp_cap_noerr; eauto|discriminate].
    apply clamp_cap_inv in Ec.
    destruct (N.ltb_spec cap (stored l bs)) as [Hc|Hc]; [nocontent H Hk|].
    unfold drop_unchecked in H. destruct (N.leb_spec (isize l) (blen bs)); [|lia]. cbn [bind] in H.
    unfold take_unchecked in H. rewrite blen_drop in H.
    destruct (N.leb_spec (stored l bs) (blen bs - isize l)); [|lia]. cbn [bind] in H.
    destruct (utf8_err (take (stored l bs) (drop (isize l) bs))) as [i|] eqn:Eu; [|discriminate].
    injection H as <- <-.
    pose proof (utf8_err_bound _ _ Eu) as Hi. rewrite blen_take_le in Hi by (rewrite blen_drop; lia).
    split; [lia|]. intros bs' He. cbn [bad_at]. split; [reflexivity|]. exists i. split; [|reflexivity].
    rewrite (stored_ext _ _ _ He Hll). rewrite (ext_take_drop bs bs' (isize l) (stored l bs) He) by lia.
    exact Eu.
  - (* TFlex *) intros t IH l Hw a bs k p Hm H Hk.
    apply wf_flex_inv in Hw. destruct Hw as [Hwt Hl]. cbn [validate_u] in H.
    apply bind_err in H. destruct H as [H|(x & _ & H)]; [|discriminate].
    set (os := flex_offset_size t l) in *.
    set (data := take (floor_mul (blen bs) (align (TFlex t l))) bs) in *.
    apply flex_fold_errpos in H; [|exact Hk].
    destruct H as (acc' & ipos & pa & payload & Hitem & Hlen & Href).
    apply shift_err in Hitem. destruct Hitem as (p' & Hitem & ->).
    apply bind_err in Hitem. destruct Hitem as [Hc|([] & Hc & Hv)].
    { exfalso. eapply check_align_min_err; eauto. }
    apply check_align_min_ok in Hc.
    destruct (IH Hwt _ _ _ _ Hc Hv Hk) as [Hp Hbad].
    assert (Hdl : blen data <= blen bs) by (unfold data; rewrite blen_take; lia).
    split; [lia|]. intros bs' He. cbn [bad_at]. cbv zeta.
    replace (N.max (isize l) (c_align t)) with os
      by (unfold os, flex_offset_size; rewrite umax_spec, (proj1 align_c_align_mut t); reflexivity).
    assert (Hed : ext data bs') by (eapply ext_trans; [apply ext_take_self|exact He]).
    destruct (Href (S (length bs')) bs' Hed) as (payload' & Hep & Hin).
    { unfold flex_fuel. pose proof (ext_blen _ _ Hed) as Hb. unfold blen in Hb. lia. }
    exists (ipos + os), payload'. split; [exact Hin|]. split; [lia|].
    replace (p' + (ipos + os) - (ipos + os)) with p' by lia. apply Hbad, Hep.
  - (* TStruct *) intros s fs IH Hw a bs k p Hm H Hk. cbn [validate_u] in H.
    destruct (wf_struct_wfF _ _ Hw) as [Hnil|Hf].
    { subst fs. cbn [validate_fields] in H. discriminate H. }
    set (data := if s then bs else take (floor_mul (blen bs) (align_fields fs)) bs) in *.
    assert (Hext : ext data bs) by (unfold data; destruct s; [apply ext_refl|apply ext_take_self]).
    assert (Hend : end_min fs 0 <= 0 + blen data).
    { unfold data. rewrite N.add_0_l. destruct fs as [|t0 r0]; [cbn; lia|].
      rewrite <- fold_min_size_0 by congruence.
      pose proof (align_fields_P16 (FCons t0 r0) (or_intror Hf)) as Hp. pose proof (P16_pos _ Hp) as Hpos.
      destruct s.
      * cbn [wf] in Hw. rewrite fold_min_size_sized by auto.
        cbn [min_size ssize] in Hm.
        pose proof (ceil_mul_ge (fold_size 0 (FCons t0 r0)) (align_fields (FCons t0 r0)) Hpos). lia.
      * cbn [min_size] in Hm. rewrite blen_take.
        set (m := fold_min_size 0 (FCons t0 r0)) in *. set (al := align_fields (FCons t0 r0)) in *.
        pose proof (ceil_mul_ge m al Hpos).
        pose proof (floor_mul_ge_mult (blen bs) (ceil_mul m al) al Hpos Hm (ceil_mul_mod _ _ Hpos)).
        pose proof (floor_mul_le (blen bs) al Hpos). lia. }
    destruct (IH Hf a data 0 k p Hend H Hk) as (_ & Hp & Hbad).
    pose proof (ext_blen _ _ Hext) as Hb.
    split; [lia|]. intros bs' He. cbn [bad_at]. apply Hbad.
    + symmetry. apply ceil_mul_0.
    + apply (ext_trans _ _ _ Hext He).
  - (* TEnum *) intros s tag d vs IH Hw a bs k p Hm H Hk.
    pose proof (data_offset_c _ _ _ _ Hw) as Hdc.
    pose proof Hw as Hw0. apply wf_enum_inv in Hw. destruct Hw as (Hi & Hnat & Hv1 & Hv2 & Hd & Hv).
    cbn [validate_u] in H.
    set (al := umax (ialign tag) (align_variants vs)) in *.
    assert (Hal : 0 < al).
    { apply P16_pos, P16_umax; [apply wf_int_P16 in Hi; tauto | eapply align_variants_P16; eauto]. }
    pose proof (isize_le_data_offset tag vs Hal) as Hdo.
    assert (Hts : 0 < isize tag) by (apply wf_int_P16 in Hi; apply P16_pos; tauto).
    assert (Hd2 : data_offset tag vs <= blen bs /\ (s = true -> max_fold_size vs <= blen bs - data_offset tag vs)).
    { destruct s.
      - cbn [min_size ssize] in Hm. fold al in Hm. unfold data_offset. fold al.
        pose proof (ceil_mul_ge (ceil_mul (isize tag) al + max_fold_size vs) al Hal). split; [lia|]. intros _. lia.
      - pose proof (min_size_enum_ge _ _ _ Hw0). split; [lia|]. discriminate. }
    destruct Hd2 as [Hd2 Hd3].
    set (D := data_offset tag vs) in *.
    destruct (read_int tag bs) as [v|k' p'|c] eqn:Er; cbn [bind] in H;
      [|exfalso; eapply read_int_noerr; eauto|discriminate].
    apply read_int_stored in Er. destruct Er as [Hl ->].
    destruct (N.ltb_spec (stored tag bs) (vlen vs)) as [Hlt|Hge]; cbn [negb] in H.
    + unfold drop_unchecked in H. destruct (N.leb_spec D (blen bs)); [|lia]. cbn [bind] in H.
      apply shift_err in H. destruct H as (p' & H & ->).
      set (data := if s then drop D bs else take (floor_mul (blen (drop D bs)) al) (drop D bs)) in *.
      assert (Hext : ext data (drop D bs)) by (unfold data; destruct s; [apply ext_refl|apply ext_take_self]).
      assert (Hsz : s = true -> max_fold_size vs <= blen data).
      { intros Hst. unfold data. rewrite Hst. rewrite blen_drop. auto. }
      destruct (IH s Hv _ _ _ _ _ Hsz H Hk) as [Hp Hbad].
      pose proof (ext_blen _ _ Hext) as Hb. rewrite blen_drop in Hb.
      split; [lia|]. intros bs' He. cbn [bad_at]. cbv zeta. right. rewrite <- Hdc. fold D.
      rewrite (stored_ext _ _ _ He Hl). split; [lia|].
      replace (p' + D - D) with p' by lia. apply Hbad.
      apply (ext_trans _ _ _ Hext). apply ext_drop; [exact He|exact Hd2].
    + injection H as <- <-. split; [lia|]. intros bs' He. cbn [bad_at]. cbv zeta. left.
      rewrite (stored_ext _ _ _ He Hl). auto.
  - (* FNil *) intros _ a data pos k p _ H. cbn [validate_fields] in H. discriminate H.
  - (* FCons *) intros t IHt r IHr Hw a data pos k p He H Hk.
    apply wfF_cons in Hw. destruct Hw as [Hwt Hr].
    destruct r as [|t' r'].
    + rewrite validate_fields_single in H. cbn [end_min] in He.
      apply bind_err in H. destruct H as [H|(x & _ & H)]; [|discriminate].
      apply shift_err in H. destruct H as (p' & Hv & ->).
      assert (Hmin : min_size t <= blen data) by lia.
      destruct (IHt Hwt _ _ _ _ Hmin Hv Hk) as [Hp Hbad].
      split; [lia|]. split; [lia|]. intros off bs' Hpos Hext. rewrite bad_fields_cons. left.
      rewrite round_up_align by auto. cbn [head_align] in Hpos. rewrite <- Hpos.
      split; [lia|]. replace (p' + pos - pos) with p' by lia. apply Hbad, Hext.
    + destruct Hr as [Hr|[Hst Hr]]; [discriminate|].
      rewrite validate_fields_cons2 in H. rewrite end_min_cons2 in He.
      pose proof (end_min_ge _ Hr (pos_next pos t t')) as Hge.
      assert (Hnp : pos + ssize t <= pos_next pos t t').
      { unfold pos_next. apply ceil_mul_ge. apply wfF_cons in Hr. apply align_pos. tauto. }
      apply bind_err in H. destruct H as [H|(x & _ & H)].
      * apply shift_err in H. destruct H as (p' & Hv & ->).
        assert (Hmin : min_size t <= blen data) by (rewrite min_size_sized by auto; lia).
        destruct (IHt Hwt _ _ _ _ Hmin Hv Hk) as [Hp Hbad].
        split; [lia|]. split; [lia|]. intros off bs' Hpos Hext. rewrite bad_fields_cons. left.
        rewrite round_up_align by auto. cbn [head_align] in Hpos. rewrite <- Hpos.
        split; [lia|]. replace (p' + pos - pos) with p' by lia. apply Hbad, Hext.
      * cbv zeta in H. unfold split_at in H.
        destruct (N.leb_spec (pos_next pos t t' - pos) (blen data)) as [Hsp|Hsp]; [|lia]. cbn [bind snd] in H.
        set (np := pos_next pos t t') in *.
        assert (Hend : end_min (FCons t' r') np <= np + blen (drop (np - pos) data)) by (rewrite blen_drop; lia).
        destruct (IHr Hr _ _ _ _ _ Hend H Hk) as (Hp1 & Hp2 & Hbad). rewrite blen_drop in Hp2.
        split; [lia|]. split; [lia|]. intros off bs' Hpos Hext. rewrite bad_fields_cons. right.
        cbn [head_align] in Hpos. apply Hbad.
        -- cbn [head_align]. rewrite round_up_align by auto. rewrite <- (ssize_c_size t Hwt Hst).
           rewrite <- Hpos. reflexivity.
        -- pose proof (ext_drop _ _ (np - pos) Hext Hsp) as Hx. rewrite drop_drop in Hx.
           replace (pos + (np - pos)) with np in Hx by lia. exact Hx.
  - (* VNil *) intros s _ v a data k p _ H. cbn [validate_variant] in H. discriminate H.
  - (* VCons *) intros fs IHf r IHr s Hw v a data k p Hs H Hk.
    pose proof Hw as Hw0. apply wf_variants_cons in Hw. destruct Hw as [Hf Hr].
    cbn [validate_variant] in H. destruct v as [|v'].
    + destruct (negb s && (blen data <? data_min_size fs)) eqn:Echk; [nocontent H Hk|].
      destruct Hf as [Hnil|Hf]; [subst fs; cbn [validate_fields] in H; discriminate H|].
      assert (Hend : end_min fs 0 <= 0 + blen data).
      { rewrite N.add_0_l.
        destruct fs as [|t0 r0]; [cbn; lia|]. rewrite <- fold_min_size_0 by congruence.
        destruct s.
        * specialize (Hs eq_refl). cbn [max_fold_size] in Hs.
          cbn [wf_variants] in Hw0. rewrite andb_true_iff in Hw0. destruct Hw0 as [Hfs _].
          rewrite fold_min_size_sized by auto.
          pose proof (umax_ge_l (fold_size 0 (FCons t0 r0)) (max_fold_size r)). lia.
        * cbn [negb andb] in Echk. unfold data_min_size in Echk. rewrite N.ltb_ge in Echk. exact Echk. }
      destruct (IHf Hf a data 0 k p Hend H Hk) as (_ & Hp & Hbad).
      split; [lia|]. intros bs' He. cbn [bad_variant]. apply Hbad.
      * symmetry. apply ceil_mul_0.
      * exact He.
    + assert (Hs' : s = true -> max_fold_size r <= blen data).
      { intros Hst. specialize (Hs Hst). cbn [max_fold_size] in Hs.
        pose proof (umax_ge_r (fold_size 0 fs) (max_fold_size r)). lia. }
      destruct (IHr s Hr v' a data k p Hs' H Hk) as [Hp Hbad].
      split; [exact Hp|]. intros bs' He. cbn [bad_variant]. apply Hbad, He.
Qed.

(* ---------- C19: the position of a content error is an offending byte ---------- *)

(* the general form: the reported byte is offending in the validated slice and stays offending,
   at the same position, in every slice that continues it *)
Theorem errpos_offending_ext t : wf t = true -> forall a bs k p,
  validate t a bs = Err k p -> content_kind k ->
  p < blen bs /\ forall bs', ext bs bs' -> bad_at t bs' p k.
Proof.
  intros Hw a bs k p H Hk. unfold validate in H.
  apply bind_err in H. destruct H as [Hc|([] & Hc & Hv)].
  - exfalso. eapply check_align_min_err; eauto.
  - apply check_align_min_ok in Hc. exact (proj1 errpos_mut t Hw a bs k p Hc Hv Hk).
Qed.

Theorem errpos_offending t : wf t = true -> forall a bs k p,
  validate t a bs = Err k p -> content_kind k -> p < blen bs /\ bad_at t bs p k.
Proof.
  intros Hw a bs k p H Hk. destruct (errpos_offending_ext t Hw a bs k p H Hk) as [Hp Hbad].
  split; [exact Hp|]. apply Hbad, ext_refl.
Qed.

Theorem errpos_inside t : wf t = true -> forall a bs k p,
  validate t a bs = Err k p -> content_kind k -> p < blen bs.
Proof. intros Hw a bs k p H Hk. exact (proj1 (errpos_offending t Hw a bs k p H Hk)). Qed.

Theorem errpos_offending_app t : wf t = true -> forall a bs k p s,
  validate t a bs = Err k p -> content_kind k -> bad_at t (bs ++ s) p k.
Proof.
  intros Hw a bs k p s H Hk. destruct (errpos_offending_ext t Hw a bs k p H Hk) as [_ Hbad].
  apply Hbad, ext_app.
Qed.

(* ---------- concrete instances (the library side by computation, the reference side by hand) ---------- *)

Module ErrPosExamples.
  Definition u8 := {| isize := 1; ialign := 1; ibe := false |}.
  Definition u16 := {| isize := 2; ialign := 2; ibe := false |}.
  Definition u32 := {| isize := 4; ialign := 4; ibe := false |}.
  Ltac side := vm_compute; first [reflexivity | discriminate | congruence].

  (* struct { a: u32, v: FlatVec<struct { x: u32, b: Bool }, u32> } (unsized): the Bool of the
     second element is 2; it sits at 4 (vector) + 4 (data) + 8 (element 1) + 4 (field b) = 20 *)
  Definition el := TStruct true (FCons (TInt u32) (FCons TBool FNil)).
  Definition t1 := TStruct false (FCons (TInt u32) (FCons (TVec el u32) FNil)).
  Definition b1 := [1;0;0;0; 2;0;0;0; 9;0;0;0;1;0;0;0; 9;0;0;0;2;0;0;0].
  Example ex1_lib : wf t1 = true /\ validate t1 0 b1 = Err InvalidData 20.
  Proof. vm_compute. split; reflexivity. Qed.
  Example ex1_ref : bad_at t1 b1 20 InvalidData.
  Proof.
    unfold t1. cbn [bad_at bad_fields]. right. left. split; [side|].
    cbv zeta. exists 1. split; [side|]. split; [side|].
    unfold el. cbn [bad_at bad_fields]. right. left. split; [side|].
    split; [side|]. split; [reflexivity|]. vm_compute. eexists _, _. split; reflexivity.
  Qed.
  (* the byte before it (last byte of x) is not offending *)
  Example ex1_ref_not : ~ bad_at t1 b1 19 InvalidData.
  Proof.
    unfold t1. cbn [bad_at bad_fields]. cbv zeta. intros [[_ []]|[[_ (i & Hi & Hle & Hb)]|[]]].
    assert (Hi' : i < 2) by exact Hi.
    assert (Hc : i = 0 \/ i = 1) by lia. unfold el in Hb. cbn [bad_at bad_fields] in Hb.
    destruct Hc as [-> | ->].
    - destruct Hb as [[_ []]|[[_ (Hp & _)]|[]]]. vm_compute in Hp. discriminate Hp.
    - destruct Hb as [[_ []]|[[Hle' _]|[]]]. vm_compute in Hle'. exact (Hle' eq_refl).
  Qed.

  (* FlexVec<FlatString<u8>, u16>: second item "a\xFFc": slot at 6, payload at 8, data at 9 *)
  Definition t2 := TFlex (TStr u8) u16.
  Definition b2 := [6;0;2;97;98;0; 6;0;3;97;255;99; 0;0].
  Example ex2_lib : wf t2 = true /\ validate t2 0 b2 = Err InvalidData 10.
  Proof. vm_compute. split; reflexivity. Qed.
  Example ex2_ref : bad_at t2 b2 10 InvalidData.
  Proof.
    unfold t2. cbn [bad_at]. cbv zeta. exists 8, [3;97;255;99]. split.
    - vm_compute. right. left. reflexivity.
    - split; [side|]. split; [reflexivity|]. exists 1. split; vm_compute; reflexivity.
  Qed.
  (* the same with the second item marked as the last one (offset = u16::MAX) and the slice not a
     multiple of the alignment: validation sees the floored slice, the reference the whole *)
  Definition b2l := [6;0;2;97;98;0; 255;255;3;97;255;99;7].
  Example ex2l_lib : validate t2 0 b2l = Err InvalidData 10.
  Proof. vm_compute. reflexivity. Qed.
  Example ex2l_ref : bad_at t2 b2l 10 InvalidData.
  Proof.
    unfold t2. cbn [bad_at]. cbv zeta. exists 8, [3;97;255;99;7]. split.
    - vm_compute. right. left. reflexivity.
    - split; [side|]. split; [reflexivity|]. exists 1. split; vm_compute; reflexivity.
  Qed.

  (* [enum { A, B(Bool) }; 3] with a u8 tag: element 1 has tag 5; element 2 has payload Bool 4 *)
  Definition en := TEnum true u8 0 (VCons FNil (VCons (FCons TBool FNil) VNil)).
  Definition t3 := TArr en 3.
  Example ex3_lib : wf t3 = true /\ validate t3 0 [0;0;5;0;1;1] = Err InvalidEnumTag 2 /\
                    validate t3 0 [0;0;1;0;1;4] = Err InvalidData 5.
  Proof. vm_compute. repeat split; reflexivity. Qed.
  Example ex3_ref : bad_at t3 [0;0;5;0;1;1] 2 InvalidEnumTag.
  Proof.
    unfold t3. cbn [bad_at]. exists 1. split; [side|]. split; [side|].
    unfold en. cbn [bad_at]. left. split; [side|]. split; [reflexivity|]. side.
  Qed.
  Example ex3_ref' : bad_at t3 [0;0;1;0;1;4] 5 InvalidData.
  Proof.
    unfold t3. cbn [bad_at]. exists 2. split; [side|]. split; [side|].
    unfold en. cbn [bad_at]. right. cbv zeta. split; [side|].
    replace (N.to_nat _) with 1%nat by (vm_compute; reflexivity). cbn [bad_variant bad_fields]. left.
    split; [side|]. cbn [bad_at]. split; [side|]. split; [reflexivity|].
    vm_compute. eexists _, _. split; reflexivity.
  Qed.

  (* unsized enum { A, B(u16, FlatVec<Bool, u8>) }, tag u8, one trailing byte beyond the alignment:
     payload at 2, vector at 4, its data at 5, second element 3 at 6 *)
  Definition t4 := TEnum false u8 0
    (VCons FNil (VCons (FCons (TInt u16) (FCons (TVec TBool u8) FNil)) VNil)).
  Definition b4 := [1;0;7;0;2;1;3;0;1].
  Example ex4_lib : wf t4 = true /\ validate t4 0 b4 = Err InvalidData 6.
  Proof. vm_compute. split; reflexivity. Qed.
  Example ex4_ref : bad_at t4 b4 6 InvalidData.
  Proof.
    unfold t4. cbn [bad_at]. right. cbv zeta. split; [side|].
    replace (N.to_nat _) with 1%nat by (vm_compute; reflexivity). cbn [bad_variant bad_fields]. right. left.
    split; [side|]. cbn [bad_at]. cbv zeta. exists 1. split; [side|]. split; [side|].
    split; [side|]. split; [reflexivity|]. vm_compute. eexists _, _. split; reflexivity.
  Qed.
End ErrPosExamples.
