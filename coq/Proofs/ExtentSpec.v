(* ExtentSpec.v — the reference extent of an encoded value (the reference side of C05's
   "size() equals the reference extent of its content: end of used data, rounded up to the type's
   alignment").  Written from the documented format with the reference C layout of RefLayout.v
   (c_size, c_align, round_up, c_union_offset, c_vec_data_offset) and FormatSpec's [stored_at] /
   [round_down] — not from the size() code (FlatBase::size, FoldSizeIter, LAST_FIELD_OFFSET) and
   sharing no function with Model/View.v size_m:

     - a sized value uses exactly its C size;
     - FlatVec<T, L> = struct { len: L, data: [T] } uses the bytes up to the end of element len-1;
       FlatString<L> up to the end of byte len-1;
     - FlexVec<T, L>: the chain is followed slot by slot; it ends either in a 0 slot (used up to the
       end of that L value) or in an item marked L::MAX, which is the last thing used: the end of
       that item's own extent;
     - a struct uses the bytes up to the end of what its last field uses, an enum the tag and, for a
       variant with fields, up to the end of what the variant's last field uses;
     - the extent is the end of used data rounded up to the alignment of the type.

   [ref_extent t bs] is None when a header needed to find the end is missing (the slice is too
   short to be an encoding at all). *)
From Coq Require Import List NArith Bool.
From Flatty.Model Require Import Base Ty RefLayout.
From Flatty.Proofs Require Import FormatSpec.
Open Scope N_scope.

Section FlexEnd.
  Variables (l : intty) (os A : N) (item : bytes -> option N).
  (* end of the used part of a chain whose next slot is at [p] *)
  Fixpoint ref_chain_end (fuel : nat) (data : bytes) (p : N) : option N :=
    match fuel with
    | O => None
    | S f =>
        match stored_at l (drop p data) with
        | None => None
        | Some next =>
            if next =? 0 then Some (round_up (p + isize l) A)
            else if next =? int_max l then
              match item (drop (p + os) data) with
              | Some e => Some (round_up (p + os + e) A)
              | None => None
              end
            else ref_chain_end f data (p + next)
        end
    end.
End FlexEnd.

Fixpoint ref_extent (t : ty) (bs : bytes) {struct t} : option N :=
  match t with
  | TVec et l =>
      match stored_at l bs with
      | Some len => Some (round_up (c_vec_data_offset et l + len * c_size et) (N.max (ialign l) (c_align et)))
      | None => None
      end
  | TStr l =>
      match stored_at l bs with
      | Some len => Some (round_up (isize l + len) (ialign l))
      | None => None
      end
  | TFlex et l =>
      let A := N.max (ialign l) (c_align et) in
      let os := round_up (isize l) (c_align et) in
      let data := take (round_down (blen bs) A) bs in
      ref_chain_end l os A (ref_extent et) (S (length data)) data 0
  | TStruct false fs =>
      let A := c_align_fields fs in
      let data := take (round_down (blen bs) A) bs in
      match ref_fields_end fs 0 data with
      | Some e => Some (round_up e A)
      | None => None
      end
  | TEnum false tag _ vs =>
      let A := N.max (ialign tag) (c_align_variants vs) in
      let uo := c_union_offset tag vs in
      match stored_at tag bs with
      | Some v =>
          let data0 := drop uo bs in
          let data := take (round_down (blen data0) A) data0 in
          match ref_variant_end vs (N.to_nat v) data with
          | Some None => Some (round_up (isize tag) A)            (* unit variant: only the tag is used *)
          | Some (Some e) => Some (round_up (uo + e) A)
          | None => None
          end
      | None => None
      end
  | _ => Some (c_size t)
  end
(* end of what the last of the fields uses, the fields laid out from offset [off] of [data] *)
with ref_fields_end (fs : fields) (off : N) (data : bytes) {struct fs} : option N :=
  match fs with
  | FNil => Some off
  | FCons t FNil =>
      let o := round_up off (c_align t) in
      match ref_extent t (drop o data) with
      | Some e => Some (o + e)
      | None => None
      end
  | FCons t r => ref_fields_end r (round_up off (c_align t) + c_size t) data
  end
(* Some None: the variant has no fields; Some (Some e): its fields end at e *)
with ref_variant_end (vs : variants) (k : nat) (data : bytes) {struct vs} : option (option N) :=
  match vs with
  | VNil => None
  | VCons fs r =>
      match k with
      | O => match fs with
             | FNil => Some None
             | _ => match ref_fields_end fs 0 data with Some e => Some (Some e) | None => None end
             end
      | S k' => ref_variant_end r k' data
      end
  end.
