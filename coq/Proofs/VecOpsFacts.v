(* VecOpsFacts.v — C11: the in-place operations of the fixed-capacity vector on its byte image
   behave like the same operations on a list whose growth is refused beyond the capacity. *)
From Coq Require Import List NArith Bool Lia ZArith ZifyN ZifyBool ZifyNat.
From Flatty.Model Require Import Base Ty Layout Validate View Emplace Ops.
From Flatty.Model Require Import Portable.
From Flatty.Proofs Require Import ArithFacts BytesFacts PortableFacts OpsFacts.
Open Scope N_scope.

(* ---------- well-formed container state, abstraction, specification ---------- *)

(* the length field lies before the data, the data region of g_slots slots lies inside the slice,
   the stored length is at most the capacity.  (No condition on the bytes themselves: see
   cont_op_bytes_ok for the preservation of bytes_ok.) *)
Definition cont_wf (g : geom) (bs : bytes) : Prop :=
  isize (g_len g) <= g_d g /\
  g_d g + g_slots g * g_s g <= blen bs /\
  c_len g bs <= c_cap g /\
  0 < isize (g_len g).

(* the raw slots below the stored length *)
Definition abs (g : geom) (bs : bytes) : list bytes :=
  map (fun i => slot g (N.of_nat i) bs) (seq 0 (N.to_nat (c_len g bs))).

Definition absd {X : Type} (dec : bytes -> X) (g : geom) (bs : bytes) : list X := map dec (abs g bs).

(* replace element i *)
Definition list_set {X : Type} (i : nat) (x : X) (xs : list X) : list X :=
  firstn i xs ++ x :: skipn (S i) xs.

(* the list with refused growth *)
Definition spec_step {X : Type} (val : mbytes -> X) (cap : N) (xs : list X) (op : cop) : list X * oout :=
  let len := N.of_nat (length xs) in
  match op with
  | CPush e => if len =? cap then (xs, ORefused) else (xs ++ [val e], ODone)
  | CPop => match xs with [] => (xs, ORefused) | _ :: _ => (removelast xs, ODone) end
  | CPushSlice es =>
      if cap - len <? N.of_nat (length es) then (xs, ORefused) else (xs ++ map val es, ODone)
  | CExtend es => (xs ++ map val (firstn (N.to_nat (cap - len)) es), ODone)
  | CTruncate n => (firstn (N.to_nat n) xs, ODone)
  | CClear => ([], ODone)
  | CRemove i =>
      if i <? len then (firstn (N.to_nat i) xs ++ skipn (N.to_nat i + 1) xs, ODone) else (xs, OPanic)
  | CSwapRemove i =>
      if i <? len
      then (match xs with
            | [] => xs
            | x0 :: _ => removelast (list_set (N.to_nat i) (last xs x0) xs)
            end, ODone)
      else (xs, OPanic)
  | CResize n e =>
      if n <=? len then (firstn (N.to_nat n) xs, ODone)
      else if cap <? n then (xs, OPanic)
      else (xs ++ repeat (val e) (N.to_nat (n - len)), ODone)
  | CSet i e => if i <? len then (list_set (N.to_nat i) (val e) xs, ODone) else (xs, OPanic)
  end.

(* every encoded element of the operation has the slot size and is an element image (okm) *)
Definition el_wf (g : geom) (okm : mbytes -> Prop) (e : mbytes) : Prop := mlen e = g_s g /\ okm e.

Definition op_wf (g : geom) (okm : mbytes -> Prop) (op : cop) : Prop :=
  match op with
  | CPush e | CResize _ e | CSet _ e => el_wf g okm e
  | CPushSlice es | CExtend es => Forall (el_wf g okm) es
  | _ => True
  end.

(* histories *)
Fixpoint run_impl (pv : option N) (g : geom) (ops : list cop) (bs : bytes) : bytes * list oout :=
  match ops with
  | [] => (bs, [])
  | op :: r =>
      let s := cont_op pv g op bs in
      let t := run_impl pv g r (fst s) in
      (fst t, snd s :: snd t)
  end.

Fixpoint run_spec {X : Type} (val : mbytes -> X) (cap : N) (ops : list cop) (xs : list X) : list X * list oout :=
  match ops with
  | [] => (xs, [])
  | op :: r =>
      let s := spec_step val cap xs op in
      let t := run_spec val cap r (fst s) in
      (fst t, snd s :: snd t)
  end.

(* the states passed through by a history, the initial one included *)
Fixpoint trace_impl (pv : option N) (g : geom) (ops : list cop) (bs : bytes) : list bytes :=
  bs :: match ops with
        | [] => []
        | op :: r => trace_impl pv g r (fst (cont_op pv g op bs))
        end.

(* ---------- list helpers ---------- *)

Lemma map_seq_ext {A : Type} (f h : nat -> A) n : forall s t,
  (forall k, (k < n)%nat -> f (s + k)%nat = h (t + k)%nat) -> map f (seq s n) = map h (seq t n).
Proof.
  induction n as [|n IH]; intros s t H; [reflexivity|].
  cbn [seq map]. f_equal.
  - specialize (H 0%nat). rewrite !Nat.add_0_r in H. apply H. lia.
  - apply IH. intros k Hk. specialize (H (S k)).
    replace (S s + k)%nat with (s + S k)%nat by lia. replace (S t + k)%nat with (t + S k)%nat by lia.
    apply H. lia.
Qed.

Lemma firstn_map_seq {A : Type} (f : nat -> A) n : forall s k,
  firstn k (map f (seq s n)) = map f (seq s (Nat.min k n)).
Proof.
  induction n as [|n IH]; intros s k.
  - rewrite Nat.min_0_r. cbn [seq map]. apply firstn_nil.
  - destruct k as [|k]; [reflexivity|]. cbn [Nat.min seq map firstn]. f_equal. apply IH.
Qed.

Lemma skipn_map_seq {A : Type} (f : nat -> A) n : forall s k,
  skipn k (map f (seq s n)) = map f (seq (s + k) (n - k)).
Proof.
  induction n as [|n IH]; intros s k.
  - cbn [seq map Nat.sub]. apply skipn_nil.
  - destruct k as [|k].
    + cbn [skipn]. rewrite Nat.add_0_r, Nat.sub_0_r. reflexivity.
    + cbn [seq map skipn Nat.sub]. rewrite IH. f_equal. f_equal. lia.
Qed.

Lemma map_repeat' {A B : Type} (f : A -> B) x n : map f (repeat x n) = repeat (f x) n.
Proof. induction n as [|n IH]; [reflexivity|]. cbn [repeat map]. rewrite IH. reflexivity. Qed.

Lemma Forall_firstn' {A : Type} (P : A -> Prop) l : forall k, Forall P l -> Forall P (firstn k l).
Proof.
  induction l as [|x l IH]; intros k H; [rewrite firstn_nil; constructor|].
  destruct k as [|k]; [constructor|]. cbn [firstn]. inversion H as [|y l' Hx Hl]; subst.
  constructor; [exact Hx | apply IH; exact Hl].
Qed.

Lemma Forall_repeat' {A : Type} (P : A -> Prop) x n : P x -> Forall P (repeat x n).
Proof. intros H. induction n as [|n IH]; [constructor|]. cbn [repeat]. constructor; assumption. Qed.

(* ---------- the two write primitives as splices ---------- *)

Definition reg (g : geom) (bs : bytes) : Prop :=
  isize (g_len g) <= g_d g /\ g_d g + g_slots g * g_s g <= blen bs.

(* what an operation leaves alone: the size of the slice, everything behind the data region, and
   the bytes between the length field and the data *)
Definition frame (g : geom) (bs bs' : bytes) : Prop :=
  blen bs' = blen bs /\
  drop (g_d g + g_slots g * g_s g) bs' = drop (g_d g + g_slots g * g_s g) bs /\
  take (g_d g - isize (g_len g)) (drop (isize (g_len g)) bs') =
  take (g_d g - isize (g_len g)) (drop (isize (g_len g)) bs).

Lemma frame_refl g bs : frame g bs bs.
Proof. repeat split. Qed.

Lemma frame_trans g a b c : frame g a b -> frame g b c -> frame g a c.
Proof.
  intros (A1 & A2 & A3) (B1 & B2 & B3). repeat split.
  - rewrite B1. exact A1.
  - rewrite B2. exact A2.
  - rewrite B3. exact A3.
Qed.

Lemma reg_frame g bs bs' : reg g bs -> frame g bs bs' -> reg g bs'.
Proof. intros [A B] (C & _ & _). split; [exact A | rewrite C; exact B]. Qed.

Definition splice (p : N) (raw bs : bytes) : bytes := take p bs ++ raw ++ drop (p + blen raw) bs.

Lemma splice_facts p raw bs : p + blen raw <= blen bs ->
  blen (splice p raw bs) = blen bs /\
  (forall n, n <= p -> take n (splice p raw bs) = take n bs) /\
  (forall n, p + blen raw <= n -> drop n (splice p raw bs) = drop n bs) /\
  take (blen raw) (drop p (splice p raw bs)) = raw.
Proof.
  intros H. unfold splice.
  assert (Hp : blen (take p bs) = p) by (apply blen_take_le; lia).
  destruct (splice_frame (take p bs) raw (drop (p + blen raw) bs)) as (A & B & C & D).
  rewrite Hp in A, B, C, D. rewrite blen_drop in D.
  set (r := take p bs ++ raw ++ drop (p + blen raw) bs) in *.
  split; [lia|]. split; [|split].
  - intros n Hn. transitivity (take n (take p r)); [symmetry; apply take_take; exact Hn|].
    rewrite A. apply take_take. exact Hn.
  - intros n Hn. replace n with ((p + blen raw) + (n - (p + blen raw))) by lia.
    rewrite <- (drop_drop (n - (p + blen raw)) (p + blen raw) r).
    rewrite <- (drop_drop (n - (p + blen raw)) (p + blen raw) bs). rewrite B. reflexivity.
  - exact C.
Qed.

Lemma to_bytes_blen be n v : blen (to_bytes be n v) = n.
Proof. exact (enc_length be n v). Qed.

Lemma set_len_splice g v bs :
  set_len g v bs = splice 0 (to_bytes (ibe (g_len g)) (isize (g_len g)) v) bs.
Proof. unfold set_len, splice. rewrite to_bytes_blen, N.add_0_l. reflexivity. Qed.

Lemma set_slot_raw_splice g i raw bs : blen raw = g_s g ->
  set_slot_raw g i raw bs = splice (g_d g + i * g_s g) raw bs.
Proof. intros H. unfold set_slot_raw, splice. rewrite H. reflexivity. Qed.

Lemma cap_bounds g : c_cap g <= g_slots g /\ c_cap g < 256 ^ isize (g_len g).
Proof.
  unfold c_cap, umin, int_max. pose proof (N.pow_nonzero 256 (isize (g_len g))) as Hp.
  destruct (N.leb_spec (g_slots g) (256 ^ isize (g_len g) - 1)); lia.
Qed.

Lemma slot_blen g i bs : reg g bs -> i < g_slots g -> blen (slot g i bs) = g_s g.
Proof.
  intros [_ H] Hi. unfold slot. rewrite blen_take, blen_drop.
  assert ((i + 1) * g_s g <= g_slots g * g_s g) by (apply N.mul_le_mono_r; lia). lia.
Qed.

(* writing the length field *)
Lemma set_len_facts g v bs : reg g bs -> v < 256 ^ isize (g_len g) ->
  c_len g (set_len g v bs) = v /\
  (forall n, isize (g_len g) <= n -> drop n (set_len g v bs) = drop n bs) /\
  (forall j, slot g j (set_len g v bs) = slot g j bs) /\
  frame g bs (set_len g v bs).
Proof.
  intros [Hd Hr] Hv. rewrite set_len_splice.
  set (T := to_bytes (ibe (g_len g)) (isize (g_len g)) v).
  assert (HT : blen T = isize (g_len g)) by apply to_bytes_blen.
  assert (Hin : 0 + blen T <= blen bs) by lia.
  destruct (splice_facts 0 T bs Hin) as (A & _ & C & D).
  rewrite HT in C, D. rewrite N.add_0_l in C. rewrite drop_0 in D.
  assert (Hs : forall n, isize (g_len g) <= n -> drop n (splice 0 T bs) = drop n bs)
    by (intros n Hn; apply C; exact Hn).
  split; [|split; [exact Hs|split]].
  - unfold c_len. rewrite D. unfold T. apply (dec_enc (ibe (g_len g)) (isize (g_len g)) v Hv).
  - intros j. unfold slot. rewrite Hs by lia. reflexivity.
  - split; [exact A|]. split.
    + apply Hs. lia.
    + rewrite Hs by lia. reflexivity.
Qed.

(* writing one raw slot *)
Lemma set_slot_raw_facts g i raw bs : reg g bs -> i < g_slots g -> blen raw = g_s g ->
  c_len g (set_slot_raw g i raw bs) = c_len g bs /\
  slot g i (set_slot_raw g i raw bs) = raw /\
  (forall j, j <> i -> slot g j (set_slot_raw g i raw bs) = slot g j bs) /\
  frame g bs (set_slot_raw g i raw bs).
Proof.
  intros [Hd Hr] Hi Hraw. rewrite (set_slot_raw_splice g i raw bs Hraw).
  set (p := g_d g + i * g_s g).
  assert (Hm : (i + 1) * g_s g <= g_slots g * g_s g) by (apply N.mul_le_mono_r; lia).
  assert (Hin : p + blen raw <= blen bs) by (unfold p; lia).
  destruct (splice_facts p raw bs Hin) as (A & B & C & D).
  rewrite Hraw in C, D.
  split; [|split; [|split]].
  - unfold c_len. rewrite B by (unfold p; lia). reflexivity.
  - unfold slot. fold p. exact D.
  - intros j Hj. unfold slot.
    destruct (N.lt_ge_cases j i) as [Hlt|Hge].
    + assert ((j + 1) * g_s g <= i * g_s g) by (apply N.mul_le_mono_r; lia).
      rewrite !take_drop_comm. rewrite B by (unfold p; lia). reflexivity.
    + assert ((i + 1) * g_s g <= j * g_s g) by (apply N.mul_le_mono_r; lia).
      rewrite C by (unfold p; lia). reflexivity.
  - split; [exact A|]. split.
    + apply C. unfold p. lia.
    + rewrite !take_drop_comm. rewrite B by (unfold p; lia). reflexivity.
Qed.

(* the operations that only rewrite the length field *)
Definition only_len (op : cop) : bool :=
  match op with CPop | CTruncate _ | CClear => true | _ => false end.

Lemma set_len_drop g v bs : drop (isize (g_len g)) (set_len g v bs) = drop (isize (g_len g)) bs.
Proof.
  unfold set_len.
  pose proof (drop_app_exact (to_bytes (ibe (g_len g)) (isize (g_len g)) v) (drop (isize (g_len g)) bs)) as H.
  rewrite to_bytes_blen in H. exact H.
Qed.

Lemma cont_op_only_len pv g op bs : only_len op = true ->
  drop (isize (g_len g)) (fst (cont_op pv g op bs)) = drop (isize (g_len g)) bs.
Proof.
  destruct op as [e| |es|es|n| |i|i|n e|i e]; cbn [only_len]; try discriminate; intros _; unfold cont_op.
  - destruct (c_len g bs =? 0); cbn [fst]; [reflexivity|apply set_len_drop].
  - destruct (c_len g bs <=? n); cbn [fst]; [reflexivity|apply set_len_drop].
  - cbn [fst]. apply set_len_drop.
Qed.

(* ---------- refinement, parametric in the decoding of an element ---------- *)

Section Refine.
  Variables (X : Type) (dec : bytes -> X) (val : mbytes -> X) (g : geom) (okm : mbytes -> Prop).
  (* decoding ignores padding: the slot written with image e decodes to the value of e whatever
     the slot held before and whatever the padding policy puts into the padding bytes *)
  Hypothesis dec_overlay : forall pv e old,
    okm e -> mlen e = g_s g -> blen old = g_s g -> dec (overlay pv e old) = val e.

  (* decoded slots s .. s+n-1 *)
  Definition dslots (s n : nat) (bs : bytes) : list X :=
    map (fun i => dec (slot g (N.of_nat i) bs)) (seq s n).

  Lemma absd_dslots bs : absd dec g bs = dslots 0 (N.to_nat (c_len g bs)) bs.
  Proof. unfold absd, abs, dslots. apply map_map. Qed.

  Lemma absd_length bs : N.of_nat (length (absd dec g bs)) = c_len g bs.
  Proof. unfold absd, abs. rewrite !map_length, seq_length. apply N2Nat.id. Qed.

  Lemma dslots_length s n bs : length (dslots s n bs) = n.
  Proof. unfold dslots. rewrite map_length. apply seq_length. Qed.

  Lemma dslots_ext s t n bs bs' :
    (forall k, (k < n)%nat -> slot g (N.of_nat (s + k)) bs' = slot g (N.of_nat (t + k)) bs) ->
    dslots s n bs' = dslots t n bs.
  Proof. intros H. unfold dslots. apply map_seq_ext. intros k Hk. rewrite (H k Hk). reflexivity. Qed.

  Lemma dslots_same s n bs bs' : (forall j, slot g j bs' = slot g j bs) -> dslots s n bs' = dslots s n bs.
  Proof. intros H. apply dslots_ext. intros k _. apply H. Qed.

  Lemma dslots_app s n m bs : dslots s (n + m) bs = dslots s n bs ++ dslots (s + n) m bs.
  Proof. unfold dslots. rewrite seq_app, map_app. reflexivity. Qed.

  Lemma dslots_one s bs : dslots s 1 bs = [dec (slot g (N.of_nat s) bs)].
  Proof. reflexivity. Qed.

  Lemma dslots_firstn k n bs : firstn k (dslots 0 n bs) = dslots 0 (Nat.min k n) bs.
  Proof. apply firstn_map_seq. Qed.

  Lemma dslots_skipn k n bs : skipn k (dslots 0 n bs) = dslots k (n - k) bs.
  Proof. unfold dslots. rewrite skipn_map_seq. reflexivity. Qed.

  Lemma list_set_dslots i n x bs : (i < n)%nat ->
    list_set i x (dslots 0 n bs) = dslots 0 i bs ++ x :: dslots (i + 1) (n - i - 1) bs.
  Proof.
    intros H. unfold list_set. rewrite dslots_firstn, dslots_skipn.
    f_equal; [f_equal; lia|]. f_equal. f_equal; lia.
  Qed.

  Lemma absd_set_len v bs : reg g bs -> v < 256 ^ isize (g_len g) ->
    absd dec g (set_len g v bs) = dslots 0 (N.to_nat v) bs.
  Proof.
    intros Hr Hv. destruct (set_len_facts g v bs Hr Hv) as (A & _ & C & _).
    rewrite absd_dslots, A. apply dslots_same. exact C.
  Qed.

  (* set_len to a smaller value cuts the list *)
  Lemma trunc_facts n bs : reg g bs -> n <= c_len g bs -> c_len g bs <= c_cap g ->
    c_len g (set_len g n bs) = n /\ frame g bs (set_len g n bs) /\
    absd dec g (set_len g n bs) = firstn (N.to_nat n) (absd dec g bs).
  Proof.
    intros Hr Hn Hc. destruct (cap_bounds g) as [_ Hm].
    assert (Hv : n < 256 ^ isize (g_len g)) by lia.
    destruct (set_len_facts g n bs Hr Hv) as (A & _ & _ & D).
    split; [exact A|split; [exact D|]].
    rewrite (absd_set_len n bs Hr Hv). rewrite absd_dslots, dslots_firstn. f_equal. lia.
  Qed.

  (* one element written through the padding policy *)
  Lemma set_slot_facts pv e i bs : reg g bs -> i < g_slots g -> el_wf g okm e ->
    c_len g (set_slot pv g i e bs) = c_len g bs /\
    dec (slot g i (set_slot pv g i e bs)) = val e /\
    (forall j, j <> i -> slot g j (set_slot pv g i e bs) = slot g j bs) /\
    frame g bs (set_slot pv g i e bs).
  Proof.
    intros Hr Hi [He Hok]. unfold set_slot.
    assert (Hb : blen (slot g i bs) = g_s g) by (apply slot_blen; assumption).
    assert (Hraw : blen (overlay pv e (slot g i bs)) = g_s g) by (rewrite overlay_blen; exact Hb).
    destruct (set_slot_raw_facts g i _ bs Hr Hi Hraw) as (A & B & C & D).
    split; [exact A|]. split; [|split; [exact C|exact D]].
    rewrite B. apply dec_overlay; assumption.
  Qed.

  (* push_unchecked: element into slot len, then length len + 1 *)
  Lemma push_one pv e len bs : reg g bs -> el_wf g okm e -> len < g_slots g ->
    len + 1 < 256 ^ isize (g_len g) ->
    let r := set_len g (len + 1) (set_slot pv g len e bs) in
    c_len g r = len + 1 /\ frame g bs r /\
    dslots 0 (N.to_nat (len + 1)) r = dslots 0 (N.to_nat len) bs ++ [val e].
  Proof.
    intros Hr He Hl Hv r.
    destruct (set_slot_facts pv e len bs Hr Hl He) as (A & B & C & D).
    assert (Hr1 : reg g (set_slot pv g len e bs)) by (apply (reg_frame g bs); assumption).
    destruct (set_len_facts g (len + 1) _ Hr1 Hv) as (A2 & _ & C2 & D2). fold r in A2, C2, D2.
    split; [exact A2|]. split; [apply (frame_trans g _ _ _ D D2)|].
    replace (N.to_nat (len + 1)) with (N.to_nat len + 1)%nat by lia.
    rewrite dslots_app. f_equal.
    - apply dslots_ext. intros k Hk. rewrite C2. apply C. lia.
    - rewrite dslots_one. rewrite C2. cbn [Nat.add]. rewrite N2Nat.id. rewrite B. reflexivity.
  Qed.

  Lemma push_all_facts pv es : forall len bs, reg g bs -> Forall (el_wf g okm) es ->
    c_len g bs = len -> len + N.of_nat (length es) <= c_cap g ->
    let r := push_all pv g es len bs in
    c_len g r = len + N.of_nat (length es) /\ frame g bs r /\
    dslots 0 (N.to_nat (len + N.of_nat (length es))) r = dslots 0 (N.to_nat len) bs ++ map val es.
  Proof.
    destruct (cap_bounds g) as [Hcs Hcm].
    induction es as [|e es IH]; intros len bs Hr Hes Hlen Hcap; cbv zeta.
    - cbn [push_all length map]. rewrite N.add_0_r, app_nil_r.
      split; [exact Hlen|split; [apply frame_refl|reflexivity]].
    - inversion Hes as [|e' es' He Hes']; subst e' es'.
      cbn [length] in Hcap. subst len.
      cbn [push_all]. set (bs1 := set_len g (c_len g bs + 1) (set_slot pv g (c_len g bs) e bs)).
      destruct (push_one pv e (c_len g bs) bs Hr He) as (A & B & C); [lia|lia|]. fold bs1 in A, B, C.
      assert (Hr1 : reg g bs1) by (apply (reg_frame g bs); assumption).
      destruct (IH (c_len g bs + 1) bs1 Hr1 Hes' A) as (A2 & B2 & C2); [lia|].
      replace (c_len g bs + N.of_nat (length (e :: es))) with (c_len g bs + 1 + N.of_nat (length es))
        by (cbn [length]; lia).
      split; [exact A2|]. split; [apply (frame_trans g _ _ _ B B2)|].
      rewrite C2, C. rewrite <- app_assoc. reflexivity.
  Qed.

  (* push_slice: the elements first *)
  Definition fill (pv : option N) (es : list mbytes) (k : N) (bs : bytes) : N * bytes :=
    fold_left (fun st e => (fst st + 1, set_slot pv g (fst st) e (snd st))) es (k, bs).

  Lemma fill_facts pv es : forall k bs, reg g bs -> Forall (el_wf g okm) es ->
    k + N.of_nat (length es) <= g_slots g ->
    let r := snd (fill pv es k bs) in
    c_len g r = c_len g bs /\ frame g bs r /\
    dslots 0 (N.to_nat (k + N.of_nat (length es))) r = dslots 0 (N.to_nat k) bs ++ map val es.
  Proof.
    induction es as [|e es IH]; intros k bs Hr Hes Hk; cbv zeta.
    - unfold fill. cbn [fold_left snd length map]. rewrite N.add_0_r, app_nil_r.
      split; [reflexivity|split; [apply frame_refl|reflexivity]].
    - inversion Hes as [|e' es' He Hes']; subst e' es'.
      cbn [length] in Hk.
      unfold fill. cbn [fold_left fst snd]. fold (fill pv es (k + 1) (set_slot pv g k e bs)).
      set (bs1 := set_slot pv g k e bs).
      assert (Hkl : k < g_slots g) by lia.
      destruct (set_slot_facts pv e k bs Hr Hkl He) as (A & B & C & D). fold bs1 in A, B, C, D.
      assert (Hr1 : reg g bs1) by (apply (reg_frame g bs); assumption).
      destruct (IH (k + 1) bs1 Hr1 Hes') as (A2 & B2 & C2); [lia|].
      replace (k + N.of_nat (length (e :: es))) with (k + 1 + N.of_nat (length es))
        by (cbn [length]; lia).
      split; [rewrite A2; exact A|]. split; [apply (frame_trans g _ _ _ D B2)|].
      rewrite C2. replace (N.to_nat (k + 1)) with (N.to_nat k + 1)%nat by lia.
      rewrite dslots_app, <- app_assoc. f_equal.
      + apply dslots_ext. intros j Hj. apply C. lia.
      + rewrite dslots_one. cbn [Nat.add]. rewrite N2Nat.id, B. reflexivity.
  Qed.

  (* ptr::copy of n slots one down *)
  Lemma shift_down_facts n : forall i bs, reg g bs -> i + N.of_nat n < g_slots g ->
    let r := shift_down g i n bs in
    c_len g r = c_len g bs /\ frame g bs r /\
    (forall j, slot g j r =
               if (i <=? j) && (j <? i + N.of_nat n) then slot g (j + 1) bs else slot g j bs).
  Proof.
    induction n as [|n IH]; intros i bs Hr Hi; cbv zeta.
    - cbn [shift_down]. split; [reflexivity|split; [apply frame_refl|]].
      intros j. destruct (N.leb_spec i j); destruct (N.ltb_spec j (i + N.of_nat 0)); cbn [andb]; try reflexivity; lia.
    - cbn [shift_down]. set (bs1 := set_slot_raw g i (slot g (i + 1) bs) bs).
      assert (Hi0 : i < g_slots g) by lia.
      assert (Hraw : blen (slot g (i + 1) bs) = g_s g) by (apply slot_blen; [exact Hr|lia]).
      destruct (set_slot_raw_facts g i _ bs Hr Hi0 Hraw) as (A & B & C & D). fold bs1 in A, B, C, D.
      assert (Hr1 : reg g bs1) by (apply (reg_frame g bs); assumption).
      destruct (IH (i + 1) bs1 Hr1) as (A2 & B2 & C2); [lia|].
      split; [rewrite A2; exact A|]. split; [apply (frame_trans g _ _ _ D B2)|].
      intros j. rewrite C2.
      destruct (N.leb_spec (i + 1) j) as [H1|H1]; destruct (N.ltb_spec j (i + 1 + N.of_nat n)) as [H2|H2];
        destruct (N.leb_spec i j) as [H3|H3]; destruct (N.ltb_spec j (i + N.of_nat (S n))) as [H4|H4];
        cbn [andb]; try lia.
      + apply C. lia.
      + apply C. lia.
      + assert (j = i) by lia. subst j. exact B.
      + apply C. lia.
  Qed.

  (* ---------- one operation ---------- *)

  Lemma spec_pop_alt (xs : list X) :
    match xs with [] => (xs, ORefused) | _ :: _ => (removelast xs, ODone) end =
    if N.of_nat (length xs) =? 0 then (xs, ORefused) else (firstn (Nat.pred (length xs)) xs, ODone).
  Proof.
    destruct xs as [|x xs]; [reflexivity|]. rewrite (removelast_firstn_len (x :: xs)).
    destruct (N.eqb_spec (N.of_nat (length (x :: xs))) 0) as [E|E]; [cbn [length] in E; lia|reflexivity].
  Qed.

  Lemma swap_spec_alt (xs A : list X) i z : xs = A ++ [z] ->
    match xs with [] => xs | x0 :: _ => removelast (list_set i (last xs x0) xs) end =
    removelast (list_set i z xs).
  Proof.
    intros ->. destruct (A ++ [z]) as [|x0 l] eqn:E; [destruct A; discriminate|].
    rewrite <- E. rewrite last_last. reflexivity.
  Qed.

  Definition core (pv : option N) (op : cop) (bs : bytes) : Prop :=
    frame g bs (fst (cont_op pv g op bs)) /\
    c_len g (fst (cont_op pv g op bs)) <= c_cap g /\
    (absd dec g (fst (cont_op pv g op bs)), snd (cont_op pv g op bs)) =
    spec_step val (c_cap g) (absd dec g bs) op.

  Lemma cont_op_core pv op bs : cont_wf g bs -> op_wf g okm op -> core pv op bs.
  Proof.
    intros (Hd & Hreg & Hlen & Hisz) Hop.
    assert (Hr : reg g bs) by (split; assumption).
    destruct (cap_bounds g) as [Hcs Hcm].
    assert (Hsame : forall o : oout, frame g bs bs /\ c_len g bs <= c_cap g /\
                              (absd dec g bs, o) = (absd dec g bs, o))
      by (intros o; split; [apply frame_refl|split; [exact Hlen|reflexivity]]).
    pose proof (absd_length bs) as Hal.
    unfold core. destruct op as [e| |es|es|n| |i|i|n e|i e]; unfold cont_op, spec_step;
      rewrite ?spec_pop_alt; rewrite ?absd_length; cbn [op_wf] in Hop.
    - (* push *)
      destruct (N.eqb_spec (c_len g bs) (c_cap g)) as [E|E]; cbn [fst snd]; [apply Hsame|].
      cbn [push_all].
      destruct (push_one pv e (c_len g bs) bs Hr Hop) as (A & B & C); [lia|lia|].
      split; [exact B|]. split; [lia|]. f_equal. rewrite !absd_dslots, A. exact C.
    - (* pop *)
      destruct (N.eqb_spec (c_len g bs) 0) as [E|E]; cbn [fst snd]; [apply Hsame|].
      destruct (trunc_facts (c_len g bs - 1) bs Hr) as (A & B & C); [lia|exact Hlen|].
      split; [exact B|]. split; [lia|]. f_equal. rewrite C. f_equal. lia.
    - (* push_slice *)
      destruct (N.ltb_spec (c_cap g - c_len g bs) (N.of_nat (length es))) as [E|E]; cbn [fst snd];
        [apply Hsame|].
      fold (fill pv es (c_len g bs) bs).
      destruct (fill_facts pv es (c_len g bs) bs Hr Hop) as (A & B & C); [lia|].
      set (bs1 := snd (fill pv es (c_len g bs) bs)) in *.
      assert (Hr1 : reg g bs1) by (apply (reg_frame g bs); assumption).
      assert (Hv : c_len g bs + N.of_nat (length es) < 256 ^ isize (g_len g)) by lia.
      destruct (set_len_facts g _ bs1 Hr1 Hv) as (A2 & _ & _ & D2).
      split; [apply (frame_trans g _ _ _ B D2)|]. split; [lia|]. f_equal.
      rewrite (absd_set_len _ bs1 Hr1 Hv). rewrite C. rewrite absd_dslots. reflexivity.
    - (* extend_until_full *)
      cbn [fst snd].
      set (es' := firstn (N.to_nat (c_cap g - c_len g bs)) es).
      assert (Hl : N.of_nat (length es') <= c_cap g - c_len g bs)
        by (unfold es'; pose proof (firstn_le_length (N.to_nat (c_cap g - c_len g bs)) es); lia).
      destruct (push_all_facts pv es' (c_len g bs) bs Hr) as (A & B & C);
        [apply Forall_firstn'; exact Hop|reflexivity|lia|].
      split; [exact B|]. split; [lia|]. f_equal. rewrite !absd_dslots, A. exact C.
    - (* truncate *)
      destruct (N.leb_spec (c_len g bs) n) as [E|E]; cbn [fst snd].
      + split; [apply frame_refl|split; [exact Hlen|]]. f_equal. symmetry. apply firstn_all2. lia.
      + destruct (trunc_facts n bs Hr) as (A & B & C); [lia|exact Hlen|].
        split; [exact B|split; [lia|]]. f_equal. exact C.
    - (* clear *)
      cbn [fst snd]. destruct (trunc_facts 0 bs Hr) as (A & B & C); [lia|exact Hlen|].
      split; [exact B|split; [lia|]]. f_equal. exact C.
    - (* remove *)
      destruct (N.ltb_spec i (c_len g bs)) as [E|E]; cbn [fst snd]; [|apply Hsame].
      destruct (shift_down_facts (N.to_nat (c_len g bs - i - 1)) i bs Hr) as (A & B & C); [lia|].
      set (bs1 := shift_down g i (N.to_nat (c_len g bs - i - 1)) bs) in *.
      assert (Hr1 : reg g bs1) by (apply (reg_frame g bs); assumption).
      assert (Hv : c_len g bs - 1 < 256 ^ isize (g_len g)) by lia.
      destruct (set_len_facts g _ bs1 Hr1 Hv) as (A2 & _ & _ & D2).
      split; [apply (frame_trans g _ _ _ B D2)|]. split; [lia|]. f_equal.
      rewrite (absd_set_len _ bs1 Hr1 Hv). rewrite absd_dslots.
      rewrite dslots_firstn, dslots_skipn.
      replace (N.to_nat (c_len g bs - 1)) with (N.to_nat i + N.to_nat (c_len g bs - 1 - i))%nat by lia.
      rewrite dslots_app. f_equal.
      + replace (Nat.min (N.to_nat i) (N.to_nat (c_len g bs))) with (N.to_nat i) by lia.
        apply dslots_ext. intros k Hk. rewrite C.
        destruct (N.leb_spec i (N.of_nat (0 + k))); [lia|]. reflexivity.
      + replace (N.to_nat (c_len g bs) - (N.to_nat i + 1))%nat with (N.to_nat (c_len g bs - 1 - i)) by lia.
        apply dslots_ext. intros k Hk. rewrite C.
        destruct (N.leb_spec i (N.of_nat (0 + N.to_nat i + k))); [|lia].
        destruct (N.ltb_spec (N.of_nat (0 + N.to_nat i + k)) (i + N.of_nat (N.to_nat (c_len g bs - i - 1))));
          [|lia].
        cbn [andb]. f_equal. lia.
    - (* swap_remove *)
      destruct (N.ltb_spec i (c_len g bs)) as [E|E]; cbn [fst snd]; [|apply Hsame].
      assert (Hi : i < g_slots g) by lia.
      assert (Hraw : blen (slot g (c_len g bs - 1) bs) = g_s g) by (apply slot_blen; [exact Hr|lia]).
      destruct (set_slot_raw_facts g i _ bs Hr Hi Hraw) as (A & B & C & D).
      set (bs1 := set_slot_raw g i (slot g (c_len g bs - 1) bs) bs) in *.
      assert (Hr1 : reg g bs1) by (apply (reg_frame g bs); assumption).
      assert (Hv : c_len g bs - 1 < 256 ^ isize (g_len g)) by lia.
      destruct (set_len_facts g _ bs1 Hr1 Hv) as (A2 & _ & _ & D2).
      split; [apply (frame_trans g _ _ _ D D2)|]. split; [lia|]. f_equal.
      rewrite (absd_set_len _ bs1 Hr1 Hv).
      set (m := N.to_nat (c_len g bs - 1)). set (i' := N.to_nat i).
      set (z := dec (slot g (c_len g bs - 1) bs)).
      assert (Hxs : absd dec g bs = dslots 0 (m + 1) bs)
        by (rewrite absd_dslots; f_equal; unfold m; lia).
      rewrite (swap_spec_alt (absd dec g bs) (dslots 0 m bs) i' z).
      2:{ rewrite Hxs, dslots_app, dslots_one. cbn [Nat.add]. unfold m, z. rewrite N2Nat.id. reflexivity. }
      rewrite Hxs. rewrite list_set_dslots by (unfold m, i'; lia).
      assert (Hc : (i' = m \/ i' < m)%nat) by (unfold m, i'; lia).
      destruct Hc as [Hc|Hc].
      + replace (m + 1 - i' - 1)%nat with 0%nat by lia. change (dslots (i' + 1) 0 bs) with (@nil X).
        rewrite removelast_last. rewrite Hc.
        apply dslots_ext. intros k Hk. apply C. unfold m, i' in *. lia.
      + replace (m + 1 - i' - 1)%nat with ((m - i' - 1) + 1)%nat by lia.
        rewrite dslots_app, dslots_one. rewrite app_comm_cons, app_assoc, removelast_last.
        replace (dslots 0 m bs1) with (dslots 0 (i' + (1 + (m - i' - 1))) bs1) by (f_equal; lia).
        rewrite !dslots_app, dslots_one. cbn [app]. f_equal; [|f_equal].
        * apply dslots_ext. intros k Hk. apply C. unfold i' in *. lia.
        * cbn [Nat.add]. unfold i'. rewrite N2Nat.id, B. reflexivity.
        * apply dslots_ext. intros k Hk. rewrite C by (unfold i' in *; lia). f_equal; lia.
    - (* resize *)
      destruct (N.leb_spec n (c_len g bs)) as [E|E].
      + destruct (N.leb_spec (c_len g bs) n) as [E2|E2]; cbn [fst snd].
        * split; [apply frame_refl|split; [exact Hlen|]]. f_equal. symmetry. apply firstn_all2. lia.
        * destruct (trunc_facts n bs Hr) as (A & B & C); [lia|exact Hlen|].
          split; [exact B|split; [lia|]]. f_equal. exact C.
      + destruct (N.ltb_spec (c_cap g) n) as [E2|E2]; cbn [fst snd]; [apply Hsame|].
        set (es' := repeat e (N.to_nat (n - c_len g bs))).
        assert (Hl : length es' = N.to_nat (n - c_len g bs)) by apply repeat_length.
        destruct (push_all_facts pv es' (c_len g bs) bs Hr) as (A & B & C);
          [apply Forall_repeat'; exact Hop|reflexivity|lia|].
        split; [exact B|]. split; [lia|]. f_equal. rewrite !absd_dslots, A. rewrite C.
        unfold es'. rewrite map_repeat'. reflexivity.
    - (* index_mut assignment *)
      destruct (N.ltb_spec i (c_len g bs)) as [E|E]; cbn [fst snd]; [|apply Hsame].
      assert (Hi : i < g_slots g) by lia.
      destruct (set_slot_facts pv e i bs Hr Hi Hop) as (A & B & C & D).
      set (bs1 := set_slot pv g i e bs) in *.
      split; [exact D|]. split; [lia|]. f_equal.
      rewrite !absd_dslots. rewrite A.
      set (L := N.to_nat (c_len g bs)). set (i' := N.to_nat i).
      rewrite list_set_dslots by (unfold L, i'; lia).
      replace (dslots 0 L bs1) with (dslots 0 (i' + (1 + (L - i' - 1))) bs1)
        by (f_equal; unfold L, i'; lia).
      rewrite !dslots_app, dslots_one. cbn [app]. f_equal; [|f_equal].
      + apply dslots_ext. intros k Hk. apply C. unfold i' in *. lia.
      + cbn [Nat.add]. unfold i'. rewrite N2Nat.id. exact B.
      + apply dslots_ext. intros k Hk. rewrite C by (unfold i' in *; lia). f_equal; lia.
  Qed.

  (* 1. one operation.  The capacity c_cap g is a function of the geometry only, so it is the same
     before and after; the reported length is the length of the abstract list; the stored length
     stays within the capacity, hence within the length type (len + 1 never wraps). *)
  Theorem cont_op_refines pv op bs : cont_wf g bs -> op_wf g okm op ->
    let r := cont_op pv g op bs in
    cont_wf g (fst r) /\ blen (fst r) = blen bs /\
    (absd dec g (fst r), snd r) = spec_step val (c_cap g) (absd dec g bs) op /\
    N.of_nat (length (absd dec g (fst r))) = c_len g (fst r) /\
    c_len g (fst r) <= int_max (g_len g).
  Proof.
    intros Hwf Hop. cbv zeta.
    destruct (cont_op_core pv op bs Hwf Hop) as ((F1 & F2 & F3) & L & E).
    destruct Hwf as (Hd & Hreg & Hlen & Hisz).
    split; [|split; [exact F1|split; [exact E|split; [apply absd_length|]]]].
    - split; [exact Hd|]. split; [rewrite F1; exact Hreg|]. split; [exact L|exact Hisz].
    - unfold c_cap, umin in L.
      destruct (N.leb_spec (g_slots g) (int_max (g_len g))); lia.
  Qed.

  (* 2. what an operation leaves alone *)
  Theorem cont_op_frame pv op bs : cont_wf g bs -> op_wf g okm op ->
    let r := fst (cont_op pv g op bs) in
    blen r = blen bs /\
    drop (g_d g + g_slots g * g_s g) r = drop (g_d g + g_slots g * g_s g) bs /\
    take (g_d g - isize (g_len g)) (drop (isize (g_len g)) r) =
    take (g_d g - isize (g_len g)) (drop (isize (g_len g)) bs) /\
    (only_len op = true -> drop (isize (g_len g)) r = drop (isize (g_len g)) bs).
  Proof.
    intros Hwf Hop. cbv zeta.
    destruct (cont_op_core pv op bs Hwf Hop) as ((F1 & F2 & F3) & _ & _).
    split; [exact F1|split; [exact F2|split; [exact F3|]]].
    apply cont_op_only_len.
  Qed.

  (* 3. every finite history *)
  Theorem cont_history_refines pv ops : forall bs, cont_wf g bs -> Forall (op_wf g okm) ops ->
    let ri := run_impl pv g ops bs in
    let rs := run_spec val (c_cap g) ops (absd dec g bs) in
    absd dec g (fst ri) = fst rs /\ snd ri = snd rs /\
    cont_wf g (fst ri) /\ blen (fst ri) = blen bs /\
    Forall (cont_wf g) (trace_impl pv g ops bs).
  Proof.
    induction ops as [|op ops IH]; intros bs Hwf Hops; cbv zeta.
    - cbn [run_impl run_spec trace_impl fst snd].
      split; [reflexivity|split; [reflexivity|split; [exact Hwf|split; [reflexivity|]]]].
      constructor; [exact Hwf|constructor].
    - inversion Hops as [|o l Hop Hops']; subst o l.
      pose proof (cont_op_refines pv op bs Hwf Hop) as Hstep. cbv zeta in Hstep.
      destruct Hstep as (W & BL & E & _ & _).
      cbn [run_impl run_spec trace_impl fst snd]. rewrite <- E. cbn [fst snd].
      pose proof (IH (fst (cont_op pv g op bs)) W Hops') as Hrest. cbv zeta in Hrest.
      destruct Hrest as (A1 & A2 & A3 & A4 & A5).
      split; [exact A1|]. split; [f_equal; exact A2|]. split; [exact A3|].
      split; [rewrite A4; exact BL|]. constructor; assumption.
  Qed.

  (* 4. clear through truncate(0) *)
  Theorem cont_clear_refines bs : cont_wf g bs ->
    cont_wf g (cont_clear g bs) /\ absd dec g (cont_clear g bs) = [] /\
    blen (cont_clear g bs) = blen bs /\
    drop (isize (g_len g)) (cont_clear g bs) = drop (isize (g_len g)) bs.
  Proof.
    intros Hwf. pose proof Hwf as (Hd & Hreg & Hlen & Hisz).
    assert (Hr : reg g bs) by (split; assumption).
    unfold cont_clear. destruct (N.leb_spec (c_len g bs) 0) as [E|E].
    - split; [exact Hwf|]. split; [|split; reflexivity].
      rewrite absd_dslots. replace (c_len g bs) with 0 by lia. reflexivity.
    - destruct (trunc_facts 0 bs Hr) as (A & (B1 & _ & _) & C); [lia|exact Hlen|].
      split.
      + split; [exact Hd|]. split; [rewrite B1; exact Hreg|]. split; [rewrite A; lia|exact Hisz].
      + split; [exact C|]. split; [exact B1|apply set_len_drop].
  Qed.
End Refine.

(* ---------- the bytes stay bytes ---------- *)

(* cont_wf puts no condition on the byte values (the correspondence run marks padding with a
   non-byte value); when the padding policy and the element images are bytes, bytes_ok is kept *)
Definition pv_ok (pv : option N) : Prop := match pv with Some v => v < 256 | None => True end.
Definition mb_ok (e : mbytes) : Prop :=
  Forall (fun o => match o with Some b => b < 256 | None => True end) e.
Definition op_bytes_ok (op : cop) : Prop :=
  match op with
  | CPush e | CResize _ e | CSet _ e => mb_ok e
  | CPushSlice es | CExtend es => Forall mb_ok es
  | _ => True
  end.

Lemma overlay_ok pv e : pv_ok pv -> mb_ok e ->
  forall old, bytes_ok old = true -> bytes_ok (overlay pv e old) = true.
Proof.
  intros Hpv He. induction He as [|o e Ho He IH]; intros old Hold; [exact Hold|].
  destruct old as [|x old]; [destruct o; reflexivity|].
  cbn [bytes_ok forallb] in Hold. apply andb_true_iff in Hold. destruct Hold as [Hx Hold].
  destruct o as [b|]; cbn [overlay bytes_ok forallb]; apply andb_true_iff; split;
    try (apply IH; exact Hold).
  - unfold byte_ok. apply N.ltb_lt. exact Ho.
  - destruct pv as [v|]; [unfold byte_ok; apply N.ltb_lt; exact Hpv|exact Hx].
Qed.

Lemma set_len_ok g v bs : bytes_ok bs = true -> bytes_ok (set_len g v bs) = true.
Proof.
  intros H. unfold set_len. rewrite bytes_ok_app, andb_true_iff. split.
  - apply (enc_ok (ibe (g_len g)) (isize (g_len g)) v).
  - apply bytes_ok_drop. exact H.
Qed.

Lemma slot_ok g i bs : bytes_ok bs = true -> bytes_ok (slot g i bs) = true.
Proof. intros H. unfold slot. apply bytes_ok_take, bytes_ok_drop. exact H. Qed.

Lemma set_slot_raw_ok g i raw bs : bytes_ok raw = true -> bytes_ok bs = true ->
  bytes_ok (set_slot_raw g i raw bs) = true.
Proof.
  intros Hraw H. unfold set_slot_raw. rewrite !bytes_ok_app, !andb_true_iff.
  split; [apply bytes_ok_take; exact H|]. split; [exact Hraw|apply bytes_ok_drop; exact H].
Qed.

Lemma set_slot_ok pv g i e bs : pv_ok pv -> mb_ok e -> bytes_ok bs = true ->
  bytes_ok (set_slot pv g i e bs) = true.
Proof.
  intros Hpv He H. unfold set_slot. apply set_slot_raw_ok; [|exact H].
  apply overlay_ok; [exact Hpv|exact He|apply slot_ok; exact H].
Qed.

Lemma push_all_ok pv g es : pv_ok pv -> Forall mb_ok es ->
  forall len bs, bytes_ok bs = true -> bytes_ok (push_all pv g es len bs) = true.
Proof.
  intros Hpv Hes. induction Hes as [|e es He Hes IH]; intros len bs H; [exact H|].
  cbn [push_all]. apply IH. apply set_len_ok. apply set_slot_ok; assumption.
Qed.

Lemma fill_ok pv g es : pv_ok pv -> Forall mb_ok es ->
  forall k bs, bytes_ok bs = true ->
  bytes_ok (snd (fold_left (fun st e => (fst st + 1, set_slot pv g (fst st) e (snd st))) es (k, bs))) = true.
Proof.
  intros Hpv Hes. induction Hes as [|e es He Hes IH]; intros k bs H; [exact H|].
  cbn [fold_left fst snd]. apply IH. apply set_slot_ok; assumption.
Qed.

Lemma shift_down_ok g n : forall i bs, bytes_ok bs = true -> bytes_ok (shift_down g i n bs) = true.
Proof.
  induction n as [|n IH]; intros i bs H; [exact H|].
  cbn [shift_down]. apply IH. apply set_slot_raw_ok; [apply slot_ok; exact H|exact H].
Qed.

Theorem cont_op_bytes_ok pv g op bs : pv_ok pv -> op_bytes_ok op -> bytes_ok bs = true ->
  bytes_ok (fst (cont_op pv g op bs)) = true.
Proof.
  intros Hpv Hop H. destruct op as [e| |es|es|n| |i|i|n e|i e]; cbn [op_bytes_ok] in Hop; unfold cont_op.
  - destruct (c_len g bs =? c_cap g); cbn [fst]; [exact H|].
    apply push_all_ok; [exact Hpv|constructor; [exact Hop|constructor]|exact H].
  - destruct (c_len g bs =? 0); cbn [fst]; [exact H|apply set_len_ok; exact H].
  - destruct (c_cap g - c_len g bs <? N.of_nat (length es)); cbn [fst]; [exact H|].
    apply set_len_ok. apply fill_ok; assumption.
  - cbn [fst]. apply push_all_ok; [exact Hpv|apply Forall_firstn'; exact Hop|exact H].
  - destruct (c_len g bs <=? n); cbn [fst]; [exact H|apply set_len_ok; exact H].
  - cbn [fst]. apply set_len_ok; exact H.
  - destruct (i <? c_len g bs); cbn [fst]; [|exact H]. apply set_len_ok. apply shift_down_ok. exact H.
  - destruct (i <? c_len g bs); cbn [fst]; [|exact H]. apply set_len_ok.
    apply set_slot_raw_ok; [apply slot_ok; exact H|exact H].
  - destruct (n <=? c_len g bs); [destruct (c_len g bs <=? n); cbn [fst]; [exact H|apply set_len_ok; exact H]|].
    destruct (c_cap g <? n); cbn [fst]; [exact H|].
    apply push_all_ok; [exact Hpv|apply Forall_repeat'; exact Hop|exact H].
  - destruct (i <? c_len g bs); cbn [fst]; [|exact H]. apply set_slot_ok; assumption.
Qed.

(* ---------- an instance of the decoding: elements without padding, decoded as their bytes ---------- *)

Definition no_pad (e : mbytes) : Prop := Forall (fun o => o <> None) e.
Definition val_bytes (e : mbytes) : bytes := map (fun o => match o with Some b => b | None => 0 end) e.

Lemma overlay_no_pad pv e : no_pad e -> forall old, mlen e = blen old -> overlay pv e old = val_bytes e.
Proof.
  intros He. induction He as [|o e Ho He IH]; intros old Hl.
  - destruct old as [|x old]; [reflexivity|]. unfold mlen, blen in Hl. cbn [length] in Hl. lia.
  - destruct old as [|x old]; [unfold mlen, blen in Hl; cbn [length] in Hl; lia|].
    destruct o as [b|]; [|contradiction].
    cbn [overlay val_bytes map]. f_equal. apply IH.
    unfold mlen, blen in *. cbn [length] in Hl. lia.
Qed.

Lemma dec_overlay_bytes g : forall pv e old,
  no_pad e -> mlen e = g_s g -> blen old = g_s g -> (fun x : bytes => x) (overlay pv e old) = val_bytes e.
Proof. intros pv e old He H1 H2. apply overlay_no_pad; [exact He|]. rewrite H1, H2. reflexivity. Qed.

(* the frame statement does not involve the decoding: only the slot size of the element images *)
Corollary cont_op_frame_plain pv g op bs : cont_wf g bs -> op_wf g (fun _ => True) op ->
  let r := fst (cont_op pv g op bs) in
  blen r = blen bs /\
  drop (g_d g + g_slots g * g_s g) r = drop (g_d g + g_slots g * g_s g) bs /\
  take (g_d g - isize (g_len g)) (drop (isize (g_len g)) r) =
  take (g_d g - isize (g_len g)) (drop (isize (g_len g)) bs) /\
  (only_len op = true -> drop (isize (g_len g)) r = drop (isize (g_len g)) bs).
Proof.
  exact (cont_op_frame unit (fun _ => tt) (fun _ => tt) g (fun _ => True)
           (fun _ _ _ _ _ _ => eq_refl) pv op bs).
Qed.
