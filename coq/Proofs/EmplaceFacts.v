(* EmplaceFacts.v — emplacement: the gate (C15), defaults of the containers (C20), the enum
   initialiser's fit check precedes every write (C18). *)
From Coq Require Import List NArith Bool Lia ZArith ZifyN ZifyBool ZifyNat.
From Flatty.Model Require Import Base Ty Layout Utf8 Validate View Emplace Portable.
From Flatty.Proofs Require Import ArithFacts LayoutFacts BytesFacts ValidateFacts PortableFacts.
Open Scope N_scope.

(* ---------- the gate ---------- *)

Lemma emplace_badalign pv t i a buf : aligned a (align t) = false ->
  emplace pv t i a buf = (buf, Err BadAlign 0).
Proof. intros H. unfold emplace, check_align_min. rewrite H. reflexivity. Qed.

Lemma emplace_too_small pv t i a buf : aligned a (align t) = true -> blen buf < min_size t ->
  emplace pv t i a buf = (buf, Err InsufficientSize 0).
Proof.
  intros H Hs. unfold emplace, check_align_min. rewrite H. cbn [negb].
  destruct (N.ltb_spec (blen buf) (min_size t)); [reflexivity|lia].
Qed.

Lemma emplace_gate_passed pv t i a buf : aligned a (align t) = true -> min_size t <= blen buf ->
  emplace pv t i a buf = emplace_u pv t i a buf.
Proof.
  intros H Hs. unfold emplace, check_align_min. rewrite H. cbn [negb].
  destruct (N.ltb_spec (blen buf) (min_size t)); [lia|reflexivity].
Qed.

(* ---------- writing a length / offset field ---------- *)

Lemma write_int_ok l v buf : isize l <= blen buf ->
  write_int l v buf = (to_bytes (ibe l) (isize l) v ++ drop (isize l) buf, Ok tt).
Proof.
  intros H. unfold write_int, write_at.
  assert (He : blen (to_bytes (ibe l) (isize l) v) = isize l) by (apply (enc_length (ibe l) (isize l) v)).
  rewrite He. rewrite N.add_0_l. destruct (N.leb_spec (isize l) (blen buf)); [|lia].
  cbn [lift ok]. reflexivity.
Qed.

Lemma read_int_written l v rest : v < 256 ^ isize l ->
  read_int l (to_bytes (ibe l) (isize l) v ++ rest) = Ok v.
Proof.
  intros Hv. unfold read_int.
  assert (He : blen (to_bytes (ibe l) (isize l) v) = isize l) by (apply (enc_length (ibe l) (isize l) v)).
  rewrite blen_app, He. destruct (N.leb_spec (isize l) (isize l + blen rest)); [|lia].
  rewrite <- He at 1. rewrite take_app_exact. f_equal. apply (dec_enc (ibe l) (isize l) v Hv).
Qed.

Lemma pow256_pos n : 0 < 256 ^ n.
Proof. apply N.neq_0_lt_0, N.pow_nonzero. lia. Qed.

Lemma read_len_zero l rest : read_len l (to_bytes (ibe l) (isize l) 0 ++ rest) = Ok 0.
Proof.
  unfold read_len. rewrite read_int_written by apply pow256_pos. cbn [bind]. reflexivity.
Qed.

(* ---------- FlatVec / FlatString: the default (empty) state ---------- *)

Theorem vec_default_ok pv t l a buf :
  wf (TVec t l) = true -> narrow l = true ->
  aligned a (align (TVec t l)) = true -> min_size (TVec t l) <= blen buf ->
  let r := default_in_place pv (TVec t l) a buf in
  snd r = Ok tt /\
  fst r = to_bytes (ibe l) (isize l) 0 ++ drop (isize l) buf /\
  blen (fst r) = blen buf /\
  validate (TVec t l) a (fst r) = Ok tt /\
  (exists cap, view (TVec t l) (fst r) = Ok (VCont cap [])) /\
  size_m (TVec t l) (fst r) = Ok (ceil_mul (vec_data_offset t l) (align (TVec t l))).
Proof.
  intros Hw Hn Ha Hm. apply wf_vec_inv in Hw. destruct Hw as (Hwt & Hs & Hl).
  cbn [min_size] in Hm. fold (vec_data_offset t l) in Hm.
  assert (Hdl : isize l <= vec_data_offset t l) by (unfold vec_data_offset; apply umax_ge_l).
  unfold default_in_place. rewrite emplace_gate_passed by (auto; cbn [min_size]; exact Hm).
  cbn [emplace_u]. rewrite write_int_ok by lia. cbn [fst snd].
  set (buf' := to_bytes (ibe l) (isize l) 0 ++ drop (isize l) buf).
  assert (He : blen (to_bytes (ibe l) (isize l) 0) = isize l) by (apply (enc_length (ibe l) (isize l) 0)).
  assert (Hlen : blen buf' = blen buf) by (unfold buf'; rewrite blen_app, blen_drop, He; lia).
  assert (Hslots : exists s, vec_slots t l (blen buf') = Ok s).
  { unfold vec_slots. rewrite Hlen. destruct (N.ltb_spec (blen buf) (vec_data_offset t l)); [lia|].
    destruct (ssize t =? 0); eauto. }
  destruct Hslots as (s & Hslots).
  assert (Hrl : read_len l buf' = Ok 0) by apply read_len_zero.
  repeat split; auto.
  - unfold validate, check_align_min. rewrite Ha. cbn [negb min_size]. fold (vec_data_offset t l). rewrite Hlen.
    destruct (N.ltb_spec (blen buf) (vec_data_offset t l)); [lia|]. cbn [bind validate_u].
    rewrite Hslots, Hrl. cbn [bind]. rewrite clamp_cap_ok by auto. cbn [bind].
    destruct (N.ltb_spec (umin s (int_max l)) 0); [lia|].
    unfold drop_unchecked. rewrite Hlen. destruct (N.leb_spec (vec_data_offset t l) (blen buf)); [|lia].
    reflexivity.
  - exists (umin s (int_max l)). cbn [view]. rewrite Hslots, Hrl. cbn [bind]. rewrite clamp_cap_ok by auto. cbn [bind].
    unfold drop_unchecked. rewrite Hlen. destruct (N.leb_spec (vec_data_offset t l) (blen buf)); [|lia]. cbn [bind].
    destruct (N.ltb_spec s 0); [lia|]. reflexivity.
  - cbn [size_m]. rewrite Hrl. cbn [bind]. rewrite N.mul_0_r, N.add_0_r. reflexivity.
Qed.

Theorem str_default_ok pv l a buf :
  wf (TStr l) = true -> narrow l = true ->
  aligned a (align (TStr l)) = true -> min_size (TStr l) <= blen buf ->
  let r := default_in_place pv (TStr l) a buf in
  snd r = Ok tt /\
  fst r = to_bytes (ibe l) (isize l) 0 ++ drop (isize l) buf /\
  validate (TStr l) a (fst r) = Ok tt /\
  (exists cap, view (TStr l) (fst r) = Ok (VCont cap [])) /\
  size_m (TStr l) (fst r) = Ok (ceil_mul (isize l) (ialign l)).
Proof.
  intros Hw Hn Ha Hm. cbn [min_size] in Hm.
  unfold default_in_place. rewrite emplace_gate_passed by (auto; cbn [min_size]; exact Hm).
  cbn [emplace_u]. rewrite write_int_ok by lia. cbn [fst snd].
  set (buf' := to_bytes (ibe l) (isize l) 0 ++ drop (isize l) buf).
  assert (He : blen (to_bytes (ibe l) (isize l) 0) = isize l) by (apply (enc_length (ibe l) (isize l) 0)).
  assert (Hlen : blen buf' = blen buf) by (unfold buf'; rewrite blen_app, blen_drop, He; lia).
  assert (Hrl : read_len l buf' = Ok 0) by apply read_len_zero.
  assert (Hslots : str_slots l (blen buf') = Ok (floor_mul (blen buf - isize l) (ialign l))).
  { unfold str_slots. rewrite Hlen. destruct (N.ltb_spec (blen buf) (isize l)); [lia|reflexivity]. }
  repeat split; auto.
  - unfold validate, check_align_min. rewrite Ha. cbn [negb min_size]. rewrite Hlen.
    destruct (N.ltb_spec (blen buf) (isize l)); [lia|]. cbn [bind validate_u].
    rewrite Hslots, Hrl. cbn [bind]. rewrite clamp_cap_ok by auto. cbn [bind].
    destruct (N.ltb_spec (umin (floor_mul (blen buf - isize l) (ialign l)) (int_max l)) 0); [lia|].
    unfold drop_unchecked. rewrite Hlen. destruct (N.leb_spec (isize l) (blen buf)); [|lia]. cbn [bind].
    unfold take_unchecked. destruct (N.leb_spec 0 (blen (drop (isize l) buf'))); [|lia]. cbn [bind].
    reflexivity.
  - eexists. cbn [view]. rewrite Hslots, Hrl. cbn [bind]. rewrite clamp_cap_ok by auto. cbn [bind].
    unfold drop_unchecked. rewrite Hlen. destruct (N.leb_spec (isize l) (blen buf)); [|lia]. cbn [bind].
    destruct (N.ltb_spec (floor_mul (blen buf - isize l) (ialign l)) 0); [lia|].
    unfold take_unchecked. destruct (N.leb_spec 0 (blen (drop (isize l) buf'))); [|lia]. cbn [bind].
    reflexivity.
  - cbn [size_m]. rewrite Hrl. cbn [bind]. rewrite N.add_0_r. reflexivity.
Qed.

(* ---------- FlexVec: the default (empty) state ---------- *)

Lemma take_app_ge n (a b : bytes) : blen a <= n -> take n (a ++ b) = a ++ take (n - blen a) b.
Proof.
  intros H. unfold take, blen in *. rewrite firstn_app. rewrite firstn_all2 by lia.
  f_equal. f_equal. lia.
Qed.

Lemma wf_int_align_le l : wf_int l = true -> ialign l <= isize l /\ 0 < isize l.
Proof.
  intros H. pose proof (wf_int_P16 _ H) as [Hs Ha]. unfold wf_int in H.
  rewrite andb_true_iff, orb_true_iff, !N.eqb_eq in H. destruct H as [_ [H|H]]; rewrite H; unfold P16 in *; lia.
Qed.

Lemma flex_os_facts t l : wf (TFlex t l) = true ->
  let os := flex_offset_size t l in let al := align (TFlex t l) in
  0 < al /\ isize l <= os /\ os mod al = 0 /\ al mod ialign l = 0 /\ 0 < os.
Proof.
  intros Hw. apply wf_flex_inv in Hw. destruct Hw as [Hwt Hl].
  pose proof (wf_int_P16 _ Hl) as [Hs Ha]. pose proof (align_P16 _ Hwt) as Hat.
  pose proof (wf_int_align_le _ Hl) as [Hle Hpos].
  cbn [align]. unfold flex_offset_size. cbv zeta.
  assert (P16 (umax (isize l) (align t))) by (apply P16_umax; auto).
  assert (P16 (umax (ialign l) (align t))) by (apply P16_umax; auto).
  repeat split.
  - apply P16_pos; auto.
  - apply umax_ge_l.
  - apply P16_div; auto. rewrite !umax_spec. lia.
  - apply P16_umax_mod_l; auto.
  - apply P16_pos; auto.
Qed.

Theorem flex_default_ok pv t l a buf :
  wf (TFlex t l) = true -> narrow l = true ->
  aligned a (align (TFlex t l)) = true -> min_size (TFlex t l) <= blen buf ->
  let r := default_in_place pv (TFlex t l) a buf in
  snd r = Ok tt /\
  fst r = to_bytes (ibe l) (isize l) 0 ++ drop (isize l) buf /\
  validate (TFlex t l) a (fst r) = Ok tt /\
  view (TFlex t l) (fst r) = Ok (VNode 0 []) /\
  size_m (TFlex t l) (fst r) = Ok (flex_offset_size t l).
Proof.
  intros Hw Hn Ha Hm. destruct (flex_os_facts t l Hw) as (Hal & Hlos & Hosal & Halia & Hos).
  cbn [min_size] in Hm. fold (flex_offset_size t l) in Hm.
  set (os := flex_offset_size t l) in *. set (al := align (TFlex t l)) in *.
  unfold default_in_place. rewrite emplace_gate_passed by (auto; cbn [min_size]; exact Hm).
  cbn [emplace_u]. rewrite write_int_ok by lia. cbn [fst snd].
  set (enc := to_bytes (ibe l) (isize l) 0).
  assert (He : blen enc = isize l) by (apply (enc_length (ibe l) (isize l) 0)).
  set (buf' := enc ++ drop (isize l) buf).
  assert (Hlen : blen buf' = blen buf) by (unfold buf'; rewrite blen_app, blen_drop, He; lia).
  (* the floored range still starts with the zero slot *)
  set (n := floor_mul (blen buf') al).
  assert (Hn_os : os <= n).
  { unfold n. rewrite Hlen. apply floor_mul_ge_mult; auto. }
  assert (Hdata : take n buf' = enc ++ take (n - isize l) (drop (isize l) buf)).
  { unfold buf'. rewrite take_app_ge by lia. rewrite He. reflexivity. }
  assert (Haligned : aligned a (ialign l) = true).
  { unfold aligned in *. rewrite N.eqb_eq in *. apply mod_trans with (m := al); auto.
    apply wf_flex_inv in Hw. destruct Hw as [_ Hl]. apply wf_int_P16 in Hl. apply P16_pos; tauto. }
  (* one step of the walk: a zero slot ends the chain *)
  assert (Hfold : forall A (item : A -> N -> N -> bytes -> res A) acc fuel a0, aligned a0 (ialign l) = true ->
             flex_fold l os al item (S fuel) acc a0 (take n buf') 0 = Ok (acc, EndZero 0)).
  { intros A item acc fuel a0 Ha0. cbn [flex_fold]. rewrite Ha0. cbn [negb].
    rewrite Hdata. rewrite blen_app, He.
    destruct (N.ltb_spec (isize l + blen (take (n - isize l) (drop (isize l) buf))) (isize l)); [lia|].
    unfold enc. rewrite read_int_written by apply pow256_pos. cbn [bind].
    unfold to_usize. cbn [N.ltb N.compare bind N.eqb]. reflexivity. }
  repeat split; auto.
  - unfold validate, check_align_min. fold al. rewrite Ha. cbn [negb min_size].
    change (umax (isize l) (align t)) with os. rewrite Hlen.
    destruct (N.ltb_spec (blen buf) os); [lia|]. cbn [bind validate_u]. fold al. fold n. fold os.
    unfold flex_fuel. rewrite Hfold by exact Haligned. reflexivity.
  - cbn [view]. fold al. fold n. fold os. unfold flex_fuel.
rewrite Hfold by reflexivity. reflexivity.
  - cbn [size_m]. fold al. fold n. fold os. unfold flex_fuel.
rewrite Hfold by reflexivity. reflexivity.
Qed.
